#!/bin/bash
# tools_seed.sh <tag> <ID> [more IDs…] — confirm an independently written breaking change and try the checks on it
#  1. in the author's scratch worktree /tmp/m/<tag>: patch applies, suite still green, demo fails with / passes without
#  2. apply the patch to /repo, run ./check <ID> quick for each ID, revert /repo
#  3. record everything in /verif/seeded/<tag>/
TAG=$1; shift
W=/tmp/m/$TAG; O=/tmp/m/$TAG.out; S=/verif/seeded/$TAG
NX="cargo nextest run --workspace --no-fail-fast --tool-config-file pb:/w/lib/nextest.toml --profile pb --test-threads 8 --offline"
[ -f $O/patch.diff ] || { echo "no patch"; exit 2; }
cd $W && git checkout -q -- . && git clean -fdq src
git apply $O/demo.diff || { echo "demo.diff does not apply"; exit 2; }
DP=$(CARGO_NET_OFFLINE=true $NX verif_demo 2>&1 | grep -E "Summary" | tail -1)
git apply $O/patch.diff || { echo "patch.diff does not apply"; exit 2; }
DC=$(CARGO_NET_OFFLINE=true $NX verif_demo 2>&1 | grep -E "Summary" | tail -1)
git apply -R $O/demo.diff
SUITE=$(/verif/tools_suite.sh $W | tail -1)
git checkout -q -- . && git clean -fdq src
echo "demo pristine: $DP"; echo "demo changed : $DC"; echo "suite with change: $SUITE"
mkdir -p $S; cp $O/patch.diff $O/demo.diff $S/; cp $O/meta.json $S/author_meta.json
RES=""
cd /repo && git apply $O/patch.diff || { echo "patch does not apply to /repo"; exit 2; }
for ID in "$@"; do
  OUT=$(cd /verif && ./check $ID quick 2>&1 | grep -E "^VIOLATION|^KNOWN|quick:" | cut -c1-300)
  echo "--- check $ID on the changed tree:"; echo "$OUT"
  RES="$RES\n== ./check $ID quick ==\n$OUT"
done
git -C /repo checkout -- . && git -C /repo clean -fdq src
git -C /verif checkout -- evidence lean/Rws/Gen 2>/dev/null   # evidence written while /repo was changed is not evidence about /repo
(cd /verif/harness && RWS_SRC=/repo/src cargo build --offline >/dev/null 2>&1)   # the harness binary must not stay built from the changed tree
printf "demo pristine: %s\ndemo changed: %s\nsuite with change: %s\n%b\n" "$DP" "$DC" "$SUITE" "$RES" > $S/ran.txt
