#!/bin/bash
# tools_benign.sh <tag> — a behaviour-preserving refactoring written by an independent author (/tmp/m/<tag>.out/patch.diff):
# apply it to /repo, run EVERY quick check, revert. Any VIOLATION line is a false alarm of the machinery.
TAG=$1; O=/tmp/m/$TAG.out; S=/verif/benign/$TAG
[ -f $O/patch.diff ] || { echo "no patch"; exit 2; }
mkdir -p $S; cp $O/patch.diff $S/; cp $O/meta.json $S/author_meta.json
cd /repo && git apply $O/patch.diff || { echo "patch does not apply to /repo"; exit 2; }
SUITE=$(/verif/tools_suite.sh /repo | tail -1)
RES="suite with change: $SUITE\n"
for i in 01 02 03 04 05 06 07 08 09 10 11 12 13 14 15 16 17 18 19 20; do
  OUT=$(cd /verif && ./check C$i quick 2>&1 | grep -E "^VIOLATION|quick:|disagreement|translator|broken" | cut -c1-400)
  RES="$RES$OUT\n"
done
git -C /repo checkout -- . && git -C /repo clean -fdq src
git -C /verif checkout -- evidence lean/Rws/Gen 2>/dev/null
(cd /verif/harness && RWS_SRC=/repo/src cargo build --offline >/dev/null 2>&1)
printf "%b" "$RES" > $S/ran.txt
printf "%b" "$RES" | grep -E "VIOLATION|suite|disagreement|translator|broken" 
echo "alarms: $(printf "%b" "$RES" | grep -c ^VIOLATION)"
