"""Shared-state inventory (C08) and file-system effect inventory (C13), regenerated on every run.

The scanner walks the module tree of the crate from `main.rs` (every `mod x;` that is not under
`#[cfg(test)]` / `#[cfg(rws_verif)]`), blanks comments, string and char literals, removes every item
guarded by `#[cfg(test)]` or `#[cfg(rws_verif)]` and every inline `mod tests { … }`, and reports each
occurrence of the patterns below with its file, line and enclosing function.  A name-based call
graph (Type::f, Self::f, .f(), bare f()) gives the set of functions reachable from the per-request
entry points (`Server::process`, `Server::process_request`, the accept loop `Server::run`).

Used three ways:
  * `generate(src)`  -> lean/Rws/Gen/Inventory.lean (the lists as data; C08/C13 proofs state the
                        request-path part is empty, so an edit breaks a kernel-checked obligation)
  * `scan(src)`      -> python structures for props/c08.py and props/c13_runtime.py
  * `python3 inventory.py [src]` prints the inventory

The scan is syntactic: macros that build identifiers, `use … as` renames of the listed names other
than in `use` lines (which are themselves reported), and state hidden inside dependencies are not seen.
"""
import os, re, sys, json

try:
    from gen_tables import ExtractError, lean_str
except ImportError:                                   # imported from props/ without the translator on the path
    sys.path.insert(0, os.path.join(os.path.dirname(os.path.abspath(__file__)), '..'))
    from gen_tables import ExtractError, lean_str

# ----------------------------------------------------------------------------- lexical clean-up
_RAWSTR = re.compile(r'b?r(#*)"')
_CHARLIT = re.compile(r"'(\\u\{[0-9a-fA-F_]+\}|\\x[0-9a-fA-F]{2}|\\.|[^\\'])'")

def blank(text):
    """comments, string literals (incl. raw / byte strings) and char literals replaced by spaces
    (newlines kept, so offsets and line numbers are those of the source)"""
    out = list(text)
    n = len(text)
    i = 0
    def wipe(a, b):
        for k in range(a, b):
            if out[k] != '\n': out[k] = ' '
    while i < n:
        c = text[i]
        if text.startswith('//', i):
            j = text.find('\n', i)
            j = n if j < 0 else j
            wipe(i, j); i = j; continue
        if text.startswith('/*', i):
            depth, j = 1, i + 2
            while j < n and depth:
                if text.startswith('/*', j): depth += 1; j += 2
                elif text.startswith('*/', j): depth -= 1; j += 2
                else: j += 1
            wipe(i, j); i = j; continue
        m = _RAWSTR.match(text, i) if c in 'br' else None
        if m and (i == 0 or not (text[i-1].isalnum() or text[i-1] == '_')):
            close = '"' + m.group(1)
            j = text.find(close, m.end())
            j = n if j < 0 else j + len(close)
            wipe(i, j); i = j; continue
        if c == '"' or (c == 'b' and i + 1 < n and text[i+1] == '"' and (i == 0 or not (text[i-1].isalnum() or text[i-1] == '_'))):
            j = i + (2 if c == 'b' else 1)
            while j < n and text[j] != '"':
                j += 2 if text[j] == '\\' else 1
            j = min(n, j + 1)
            wipe(i, j); i = j; continue
        if c == "'":
            # char literal 'x' / '\n' / '\u{..}'  vs lifetime 'a
            m = _CHARLIT.match(text, i)
            if m:
                wipe(i, m.end()); i = m.end(); continue
            i += 1; continue
        i += 1
    return ''.join(out)

def match_brace(t, i):
    """index just after the brace/paren/bracket group opening at t[i]"""
    op = t[i]; cl = {'{': '}', '(': ')', '[': ']'}[op]
    depth, j, n = 0, i, len(t)
    while j < n:
        if t[j] == op: depth += 1
        elif t[j] == cl:
            depth -= 1
            if depth == 0: return j + 1
        j += 1
    return n

def item_end(t, i):
    """end of the item that starts at/after offset i: the first `;` or `{…}` at nesting depth 0"""
    n = len(t)
    j = i
    while j < n:
        c = t[j]
        if c in '([':
            j = match_brace(t, j); continue
        if c == '{':
            return match_brace(t, j)
        if c == ';':
            return j + 1
        j += 1
    return n

ATTR = re.compile(r'#\s*!?\[')
SKIP_CFG = re.compile(r'#\s*\[\s*cfg\s*\(\s*(test|rws_verif)\s*\)\s*\]')

def strip_guarded(t):
    """remove items under #[cfg(test)] / #[cfg(rws_verif)] and inline `mod tests {}`; returns (text, skipped_mods)"""
    out = list(t)
    skipped_mods = set()
    def wipe(a, b):
        for k in range(a, b):
            if out[k] != '\n': out[k] = ' '
    pos = 0
    while True:
        m = SKIP_CFG.search(t, pos)
        if not m: break
        j = m.end()
        # further attributes of the same item
        while True:
            m2 = re.compile(r'\s*#\s*\[').match(t, j)
            if not m2: break
            j = match_brace(t, t.index('[', j))
        e = item_end(t, j)
        mm = re.compile(r'\s*(?:pub(?:\s*\([^)]*\))?\s+)?mod\s+(\w+)\s*;').match(t, j)
        if mm: skipped_mods.add(mm.group(1))
        wipe(m.start(), e)
        pos = e
    t2 = ''.join(out)
    for m in re.finditer(r'\bmod\s+tests\s*\{', t2):
        e = match_brace(t2, m.end() - 1)
        wipe(m.start(), e)
    return ''.join(out), skipped_mods

# ----------------------------------------------------------------------------- module tree
def module_files(src):
    """[(relpath, cleaned text)] of every non-test module reachable from main.rs"""
    seen, order = {}, []
    def visit(path, is_mod_root):
        rel = os.path.relpath(path, src)
        if rel in seen: return
        try:
            raw = open(path, encoding='utf-8').read()
        except OSError as e:
            raise ExtractError(f'inventory: {rel}: {e}')
        blanked = blank(raw)
        if re.search(r'#\s*\[\s*path\s*=', blanked):
            raise ExtractError(f'inventory: {rel}: #[path] attribute — module tree can no longer be followed syntactically')
        t, _ = strip_guarded(blanked)
        seen[rel] = t; order.append(rel)
        base = os.path.dirname(path) if is_mod_root else os.path.join(os.path.dirname(path), os.path.splitext(os.path.basename(path))[0])
        for m in re.finditer(r'(?<![\w])mod\s+(\w+)\s*;', t):
            name = m.group(1)
            c1, c2 = os.path.join(base, name + '.rs'), os.path.join(base, name, 'mod.rs')
            if os.path.exists(c2): visit(c2, True)
            elif os.path.exists(c1): visit(c1, False)
            else: raise ExtractError(f'inventory: {rel}: `mod {name};` resolves to no file')
    main = os.path.join(src, 'main.rs')
    if not os.path.exists(main):
        raise ExtractError('inventory: main.rs not found')
    visit(main, True)
    return [(rel, seen[rel]) for rel in order]

# ----------------------------------------------------------------------------- functions and calls
FN = re.compile(r'\bfn\s+(\w+)')
IMPL = re.compile(r'\bimpl\b(?:\s*<[^{;]*?>)?\s*(?:[\w:<>,\s\']+?\s+for\s+)?([A-Za-z_]\w*)[^{;]*\{')
TRAIT = re.compile(r'\btrait\s+(\w+)[^{;]*\{')

def functions(t):
    """[(name, owner_type|None, body_start, body_end)] for every fn with a body"""
    owners = []           # (start, end, type)
    for m in IMPL.finditer(t):
        b = m.end() - 1
        owners.append((b, match_brace(t, b), m.group(1)))
    for m in TRAIT.finditer(t):
        b = m.end() - 1
        owners.append((b, match_brace(t, b), m.group(1)))
    fns = []
    for m in FN.finditer(t):
        # signature runs to `{` (body) or `;` (trait method without body)
        j, n = m.end(), len(t)
        while j < n and t[j] not in '{;':
            if t[j] in '([':
                j = match_brace(t, j); continue
            j += 1
        if j >= n or t[j] == ';': continue
        e = match_brace(t, j)
        owner = None
        for a, b, ty in owners:
            if a < m.start() < b and (owner is None or a > owner[0]): owner = (a, ty)
        fns.append((m.group(1), owner[1] if owner else None, m.start(), e))
    return fns

def enclosing(fns, pos):
    best = None
    for name, owner, a, b in fns:
        if a <= pos < b and (best is None or a > best[2]): best = (name, owner, a, b)
    return best

KEYWORDS = {'if', 'while', 'for', 'match', 'return', 'loop', 'fn', 'Some', 'Ok', 'Err', 'None', 'Box', 'Vec', 'String', 'let', 'move', 'in', 'as'}

def calls(body, owner):
    """name-based call edges out of a fn body: ('T', f) qualified, ('.', f) method, ('', f) free"""
    out = set()
    for m in re.finditer(r'\b([A-Za-z_]\w*)\s*::\s*(?:<[^>]*>\s*::\s*)?([a-z_]\w*)\s*(?:::\s*<[^>]*>\s*)?\(', body):
        ty = owner if m.group(1) == 'Self' and owner else m.group(1)
        out.add((ty, m.group(2)))
    for m in re.finditer(r'\.\s*([a-z_]\w*)\s*(?:::\s*<[^>]*>\s*)?\(', body):
        out.add(('.', m.group(1)))
    for m in re.finditer(r'(?<![\w:.])([a-z_]\w*)\s*\(', body):
        if m.group(1) not in KEYWORDS: out.add(('', m.group(1)))
    return out

# ----------------------------------------------------------------------------- the two pattern tables
SHARED = [   # (kind, regex)
    ('static mut',       r"(?<!')\bstatic\s+mut\b"),
    ('static',           r"(?<!')\bstatic\s+(?!mut\b)[A-Za-z_]\w*\s*:"),
    ('thread_local!',    r'\bthread_local\s*!'),
    ('lazy_static',      r'\blazy_static\b'),
    ('OnceLock',         r'\bOnceLock\b'),
    ('OnceCell',         r'\bOnceCell\b'),
    ('LazyLock',         r'\bLazy(?:Lock|Cell)?\b'),
    ('Mutex',            r'\bMutex\b'),
    ('RwLock',           r'\bRwLock\b'),
    ('Atomic*',          r'\bAtomic[A-Z]\w*'),
    ('Arc',              r'\bArc\b'),
    ('Condvar',          r'\bCondvar\b'),
    ('UnsafeCell',       r'\b(?:Sync)?UnsafeCell\b'),
    ('unsafe',           r'\bunsafe\b'),
    ('Box::leak',        r'\bBox\s*::\s*leak\b'),
    ('env::set_var',     r'\bset_var\b'),
    ('env::remove_var',  r'\bremove_var\b'),
    ('set_current_dir',  r'\bset_current_dir\b'),
]

EFFECTS = [
    ('FileExt::write_file',               r'\bwrite_file\b'),
    ('FileExt::create_file',              r'\bcreate_file\b'),
    ('FileExt::delete_file',              r'\bdelete_file\b'),
    ('FileExt::copy_*',                   r'\bcopy_\w+\s*\('),
    ('FileExt::create_directory',         r'\bcreate_directory\b'),
    ('FileExt::delete_directory',         r'\bdelete_directory\b'),
    ('FileExt::create_symlink',           r'\bcreate_symlink\b'),
    ('FileExt::read_or_create_and_write', r'\bread_or_create_and_write\b'),
    ('fs::write',                         r'\bfs\s*::\s*write\b'),
    ('fs::remove_*',                      r'\bremove_(?:file|dir|dir_all)\b'),
    ('fs::rename',                        r'\bfs\s*::\s*rename\b|(?<![\w.])rename\s*\('),
    ('fs::create_dir*',                   r'\bcreate_dir(?:_all)?\b'),
    ('fs::copy',                          r'\bfs\s*::\s*copy\b'),
    ('fs::hard_link',                     r'\bhard_link\b'),
    ('fs::soft_link/symlink',             r'\bsoft_link\b|\bsymlink(?:_file|_dir)?\s*\('),
    ('fs::set_permissions',               r'\bset_permissions\b'),
    ('File::set_len/set_times',           r'\.\s*set_(?:len|times|modified)\s*\('),
    ('OpenOptions',                       r'\bOpenOptions\b'),
    ('File::create',                      r'\bFile\s*::\s*create(?:_new)?\b|\bFile\s*::\s*options\b'),
    ('DirBuilder',                        r'\bDirBuilder\b'),
    ('set_current_dir',                   r'\bset_current_dir\b'),
    ('Command::new',                      r'\bCommand\b'),
    ('use std::fs::*/{…write…}',          r'\buse\s+std\s*::\s*fs\s*::\s*\*'),
    ('process spawn (FileExt::get_current_user runs `whoami`)', r'\bget_current_user\b'),
    ('FileExt::<function not known to be read-only>', r'\bFileExt\s*::\s*(?!(?:' + '|'.join([
        'does_file_exist', 'does_directory_exist', 'file_modified_utc', 'get_path_separator', 'get_static_filepath', 'is_symlink',
        'read_file', 'read_file_partially', 'resolve_symlink_path', 'symlink_points_to', 'get_current_user', 'get_temp_folder_path',
        'absolute_path_to_working_directory', 'working_directory', 'build_path']) + r')\b)\w+'),
]

# effects that are expected: (file regex, function regex, kind prefix) — and only when NOT reachable from the request entry points
EXPECTED_EFFECTS = [
    (r'^log/mod\.rs$', r'^(Log::)?info$', 'process spawn (FileExt::get_current_user'),     # banner printed by Server::setup
]

# entry points executed per connection / per request
REQUEST_ROOTS = [('Server', 'process'), ('Server', 'process_request'), ('Server', 'run')]

# what the inventory is expected to be.  (file regex, function regex, kinds)
EXPECTED_SHARED = [
    (r'^thread_pool/mod\.rs$',                   r'.*',                          {'Arc', 'Mutex'}),
    # start-up code: any function of entry_point/ may write the process environment (a refactoring that moves the eleven
    # set_var blocks into a helper is not a new shared-state item) - as long as it is NOT reachable from the request entry
    # points, which the rule below checks for every env mutation
    (r'^entry_point/',                           r'.*',                          {'env::set_var'}),
    (r'^server/mod\.rs$',                        r'^(Server::)?setup$',          {'env::set_var'}),
    (r'^main\.rs$',                              r'^main$',                      {'env::set_var'}),
]
STARTUP_ONLY_FILES = re.compile(r'^(entry_point/|thread_pool/|main\.rs$)')

def scan(src):
    """-> dict(shared=[item], effects=[item], files=n, functions=n, reachable=[qualified names])
    item = dict(file, line, function, kind, text, on_request_path, expected, why)"""
    files = module_files(src)
    all_fns = {}          # (file, qual) -> (body text, owner)
    by_owner_name, by_name = {}, {}
    per_file_fns = {}
    for rel, t in files:
        fns = functions(t)
        per_file_fns[rel] = fns
        for name, owner, a, b in fns:
            qual = f'{owner}::{name}' if owner else name
            key = (rel, qual)
            all_fns[key] = (t[a:b], owner)
            by_name.setdefault(name, []).append(key)
            if owner: by_owner_name.setdefault((owner, name), []).append(key)
    # reachability (over-approximation by names)
    work = [k for ty, f in REQUEST_ROOTS for k in by_owner_name.get((ty, f), [])]
    if len(work) < 2:
        raise ExtractError('inventory: Server::process / Server::run not found — request entry points changed')
    reach = set(work)
    while work:
        k = work.pop()
        body, owner = all_fns[k]
        for ty, f in calls(body, owner):
            if ty in ('.', ''):
                targets = by_name.get(f, [])
            else:
                targets = by_owner_name.get((ty, f), [])
                if not targets and ty[:1].islower():      # module-qualified free function: entry_point::bootstrap(
                    targets = [x for x in by_name.get(f, []) if all_fns[x][1] is None]
            for x in targets:
                if x not in reach:
                    reach.add(x); work.append(x)

    _raw = {}
    def raw_lines(rel):
        if rel not in _raw: _raw[rel] = open(os.path.join(src, rel), encoding='utf-8').read().split('\n')
        return _raw[rel]
    def items(table):
        found = []
        for rel, t in files:
            fns = per_file_fns[rel]
            lines = t.split('\n')
            for kind, rx in table:
                for m in re.finditer(rx, t):
                    ln = t.count('\n', 0, m.start()) + 1
                    enc = enclosing(fns, m.start())
                    if enc: fn = (f'{enc[1]}::{enc[0]}' if enc[1] else enc[0])
                    else:
                        ls = lines[ln - 1].lstrip()
                        # a `use` statement may span lines: look back for the `use` that is still open
                        k = t.rfind(';', 0, m.start()); k2 = t.rfind('}', 0, m.start())
                        head = t[max(k, k2) + 1:m.start()].lstrip()
                        fn = '<use>' if (ls.startswith('use ') or ls.startswith('pub use ') or head.startswith('use ') or head.startswith('pub use ')) else '<module level>'
                    on_path = (fn in ('<module level>',)) or ((rel, fn) in reach)
                    found.append(dict(file=rel, line=ln, function=fn, kind=kind,
                                      text=raw_lines(rel)[ln - 1].strip()[:160],
                                      on_request_path=bool(on_path)))
        found.sort(key=lambda d: (d['file'], d['line'], d['kind']))
        return found

    shared = items(SHARED)
    for it in shared:
        exp = any(re.search(fr, it['file']) and (it['function'] == '<use>' or re.search(fnr, it['function'])) and it['kind'] in kinds
                  for fr, fnr, kinds in EXPECTED_SHARED)
        why = ''
        if not exp:
            why = 'new shared-state item (not in the expected inventory)'
        if it['kind'] in ('env::set_var', 'env::remove_var', 'set_current_dir') and it['function'] != '<use>':
            if not STARTUP_ONLY_FILES.search(it['file']) and not (it['file'] == 'server/mod.rs' and it['function'].endswith('setup')):
                exp = False; why = 'process-global mutation outside the start-up code (entry_point, thread_pool, main, Server::setup)'
            elif it['on_request_path']:
                exp = False; why = 'process-global mutation in a function reachable from Server::process / Server::run'
        it['expected'] = exp; it['why'] = why
    effects = items(EFFECTS)
    for it in effects:
        exp = any(re.search(fr, it['file']) and re.search(fnr, it['function']) and it['kind'].startswith(kp)
                  for fr, fnr, kp in EXPECTED_EFFECTS) and not it['on_request_path']
        it['expected'] = exp
        it['why'] = '' if exp else 'file-system write/create/delete/rename (or process spawn / chdir) in non-test source' + \
            (', in a function reachable from Server::process / run' if it['on_request_path'] else '')
    return dict(shared=shared, effects=effects, files=len(files), functions=len(all_fns),
                reachable=sorted(f'{f}::{q}' for f, q in reach))

# ----------------------------------------------------------------------------- Lean rendering
def _rows(items):
    agg = {}
    for it in items:
        k = (it['file'], it['function'], it['kind'])
        agg[k] = agg.get(k, 0) + 1
    return agg

def generate(src):
    inv = scan(src)
    def table(name, doc, items):
        agg = _rows(items)
        rows = ',\n  '.join(f'({lean_str(f)}, {lean_str(fn)}, {lean_str(k)}, {n})' for (f, fn, k), n in sorted(agg.items()))
        return f'/-- {doc} — (file, enclosing function, kind, occurrences) -/\ndef {name} : List (String × String × String × Nat) := [\n  {rows}]\n\n' \
            if rows else f'/-- {doc} — (file, enclosing function, kind, occurrences) -/\ndef {name} : List (String × String × String × Nat) := []\n\n'
    text = (f'/- inventory of {inv["files"]} non-test source files, {inv["functions"]} functions; '
            f'{len(inv["reachable"])} functions are reachable (by name) from Server::process / process_request / run -/\n\n')
    text += table('sharedStateInventory', 'every static / lock / atomic / Arc / env mutation / unsafe in non-test source', inv['shared'])
    text += table('sharedStateUnexpected', 'the part of `sharedStateInventory` that is NOT the expected start-up / thread-pool state (a broken C08 tie when non-empty)',
                  [i for i in inv['shared'] if not i['expected']])
    text += table('effectInventory', 'every file-system write/create/delete/rename, chdir or process spawn in non-test source', inv['effects'])
    text += table('effectUnexpected', 'the part of `effectInventory` that is not the start-up banner\'s `whoami` (a broken C13 tie when non-empty)',
                  [i for i in inv['effects'] if not i['expected']])
    return [('Inventory', text)]

if __name__ == '__main__':
    src = sys.argv[1] if len(sys.argv) > 1 else os.environ.get('RWS_SRC', '/repo/src')
    inv = scan(src)
    for sec in ('shared', 'effects'):
        print(f'== {sec} ({len(inv[sec])})')
        for it in inv[sec]:
            print(f"  {'ok ' if it['expected'] else 'NEW'} {it['file']}:{it['line']} [{it['function']}] {it['kind']}"
                  f"{' (request path)' if it['on_request_path'] else ''}  {it['why']}")
    print(f"files {inv['files']} functions {inv['functions']} reachable {len(inv['reachable'])}")
