"""Table for the JSON scanners (C19 / C20): the scalars for which Rust's `char::is_numeric` holds.

Since the scanners read whole UTF-8 characters (fix F24d) `char.is_numeric()` in
`RawUnprocessedJSONArray::split_into_vector_of_strings` and `JSON::parse_as_properties` is applied
to every scalar, not only to ASCII.  The data behind it (general categories Nd, Nl, No) is a
private table of std, so it is obtained *behaviourally*, as gens/cors.py does for `to_lowercase`: a
small Rust program compiled with the same `rustc` that builds the harness prints the inclusive
ranges above U+007F; the result is cached per `rustc -V`.  The source of the repository is only
consulted to assert that the scanners still call `is_numeric` (the reason for the table)."""
import os, subprocess, hashlib, tempfile
from gen_tables import ExtractError, read

PROBE = r'''
fn main() {
    let mut out = String::new();
    let mut cur: Option<(u32, u32)> = None;
    for u in 0x80u32..=0x110000 {
        let is = char::from_u32(u).map(|c| c.is_numeric()).unwrap_or(false);
        match (is, cur) {
            (true, None) => cur = Some((u, u)),
            (true, Some((a, _))) => cur = Some((a, u)),
            (false, Some((a, b))) => { out.push_str(&format!("R {} {}\n", a, b)); cur = None; }
            _ => {}
        }
    }
    // self check: ASCII digits and nothing else below U+0080
    let ascii: Vec<u32> = (0u32..0x80).filter(|u| char::from_u32(*u).unwrap().is_numeric()).collect();
    out.push_str(&format!("A {}\n", ascii.iter().map(|x| x.to_string()).collect::<Vec<_>>().join(" ")));
    print!("{}", out);
}
'''

def _probe():
    here = os.path.dirname(os.path.abspath(__file__))
    cache = os.path.join(here, '..', '.cache'); os.makedirs(cache, exist_ok=True)
    try:
        ver = subprocess.run(['rustc', '-V'], stdout=subprocess.PIPE, check=True).stdout.decode().strip()
    except Exception as e:
        raise ExtractError(f'numeric probe: rustc not runnable: {e}')
    key = hashlib.sha256((ver + PROBE).encode()).hexdigest()[:16]
    p = os.path.join(cache, f'unicode_numeric_{key}.txt')
    if os.path.exists(p):
        return ver, open(p).read()
    with tempfile.TemporaryDirectory() as d:
        open(os.path.join(d, 'probe.rs'), 'w').write(PROBE)
        r = subprocess.run(['rustc', '-O', '--edition', '2021', '-o', os.path.join(d, 'probe'), os.path.join(d, 'probe.rs')],
                           stdout=subprocess.PIPE, stderr=subprocess.STDOUT)
        if r.returncode != 0:
            raise ExtractError('numeric probe: does not compile: ' + r.stdout.decode()[-400:])
        r = subprocess.run([os.path.join(d, 'probe')], stdout=subprocess.PIPE, stderr=subprocess.STDOUT)
        if r.returncode != 0:
            raise ExtractError('numeric probe: run failed: ' + r.stdout.decode()[-400:])
        txt = r.stdout.decode()
    tmp = p + '.%d.tmp' % os.getpid()
    open(tmp, 'w').write(txt); os.replace(tmp, p)
    return ver, txt

def generate(src):
    found = False
    for root, _, files in os.walk(os.path.join(src, 'json')):
        for f in files:
            if f.endswith('.rs') and 'is_numeric' in read(src, os.path.relpath(os.path.join(root, f), src)): found = True
    if not found:
        raise ExtractError('json/**: no call of char::is_numeric any more (the table UnicodeNumericTab has lost its reason)')
    ver, txt = _probe()
    ranges, ascii_ = [], None
    for ln in txt.split('\n'):
        if not ln: continue
        f = ln.split(' ')
        if f[0] == 'R': ranges.append((int(f[1]), int(f[2])))
        elif f[0] == 'A': ascii_ = [int(x) for x in f[1:]]
        else: raise ExtractError('numeric probe: ' + ln)
    if ascii_ != list(range(48, 58)):
        raise ExtractError('numeric probe: the ASCII numerics are not exactly 0..9')
    if not any(lo <= 0x663 <= hi for lo, hi in ranges) or not any(lo <= 0xBD <= hi for lo, hi in ranges) or any(lo <= 0xE9 <= hi for lo, hi in ranges):
        raise ExtractError('numeric probe: landmark scalars (U+0663, U+00BD numeric; U+00E9 not) are not classified as expected')
    if ranges != sorted(ranges) or any(a[1] + 1 >= b[0] for a, b in zip(ranges, ranges[1:])):
        raise ExtractError('numeric probe: ranges not sorted / not maximal')
    items = ['(%d, %d)' % r for r in ranges]
    body = ',\n  '.join(', '.join(items[i:i + 8]) for i in range(0, len(items), 8))
    n = sum(hi - lo + 1 for lo, hi in ranges)
    text = f'''namespace UnicodeNumeric

/-- toolchain the table was probed from -/
def probedFrom : String := "{ver}"

/-- the scalars above U+007F for which `char::is_numeric` holds (general categories Nd, Nl, No), as inclusive
    ranges in increasing order: {n} scalars in {len(ranges)} ranges.  Below U+0080 the numerics are `0`..`9`. -/
def ranges : List (Nat × Nat) := [
  {body}]

end UnicodeNumeric
'''
    return [('UnicodeNumericTab', text)]
