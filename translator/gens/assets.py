"""Built-in pages embedded with include_bytes! by the index / not_found / style / script / favicon
controllers -> lean/Rws/Gen/Assets.lean (byte lists), with the file path and MIME constant each
controller uses when the file exists in the working directory."""
import os, re
from gen_tables import ExtractError, read, lean_bytes

CTRL = [('index', 'IndexController', 'INDEX_FILEPATH'), ('not_found', 'NotFoundController', 'NOT_FOUND_FILEPATH'),
        ('style', 'StyleController', 'STYLE_FILEPATH'), ('script', 'ScriptController', 'SCRIPT_FILEPATH'),
        ('favicon', 'FaviconController', 'FAVICON_FILEPATH')]

def generate(src):
    mime = read(src, 'mime_type/mod.rs')
    mconst = dict(re.findall(r'pub const\s+(\w+)\s*:\s*&\'static str\s*=\s*"([^"]*)"', mime))
    out = []
    for d, ctrl, pathconst in CTRL:
        rel = f'app/controller/{d}/mod.rs'
        text = read(src, rel)
        incs = set(re.findall(r'include_bytes!\("([^"]+)"\)', text))
        if len(incs) != 1: raise ExtractError(f'{rel}: expected exactly one embedded file, found {sorted(incs)}')
        fname = incs.pop()
        try: data = open(os.path.join(src, 'app', 'controller', d, fname), 'rb').read()
        except OSError as e: raise ExtractError(f'{rel}: {e}')
        m = re.search(r'pub const\s+' + pathconst + r'\s*:\s*&\'static str\s*=\s*"([^"]*)"', text)
        if not m: raise ExtractError(f'{rel}: {pathconst} not found')
        # MIME constant used for the embedded bytes: get_content_range(<file>.to_vec(), MimeType::X.to_string())
        mm = re.findall(r'\.to_vec\(\),\s*MimeType::(\w+)\.to_string\(\)', text)
        if not mm or len(set(mm)) != 1 or mm[0] not in mconst: raise ExtractError(f'{rel}: MIME type of the embedded file not recognised ({mm})')
        name = d.replace('_', '')
        out.append(f'/-- `{ctrl}`: embedded `{fname}` ({len(data)} bytes) -/\ndef {name}Bytes : List UInt8 := {lean_bytes(data)}\n'
                   f'/-- `{ctrl}::{pathconst}` -/\ndef {name}Path : List UInt8 := {lean_bytes(m.group(1))}\n'
                   f'/-- MIME type the controller gives the embedded bytes -/\ndef {name}Mime : List UInt8 := {lean_bytes(mconst[mm[0]])}\n')
    for n in ('TEXT_HTML', 'TEXT_PLAIN'):
        out.append(f'def mime{n.title().replace("_","")} : List UInt8 := {lean_bytes(mconst[n])}\n')
    return [('Assets', 'namespace Assets\n\n' + '\n'.join(out) + '\nend Assets\n')]
