"""Replacement tables of the dependency crate url-search-params 12.0.0 (`encode_uri_component`,
`decode_uri_component`): the (pattern, replacement) pairs of the `str::replace` calls in SOURCE
ORDER.  The crate is not part of /repo/src but its content is part of the modelled behaviour
(`URL::percent_encode/percent_decode/build_query/parse_query` delegate to it); it is read from
the cargo registry (the copy the harness links against)."""
import re, os, glob
from gen_tables import ExtractError, fn_body, lean_bytes

CRATE = 'url-search-params-12.0.0'

def crate_source():
    home = os.environ.get('CARGO_HOME', os.path.expanduser('~/.cargo'))
    hits = sorted(glob.glob(os.path.join(home, 'registry', 'src', '*', CRATE, 'src', 'lib.rs')))
    if not hits:
        raise ExtractError(f'{CRATE}: src/lib.rs not found under {home}/registry/src/*')
    texts = {open(h, encoding='utf-8').read() for h in hits}
    if len(texts) != 1:
        raise ExtractError(f'{CRATE}: several differing copies in the registry: {hits}')
    return hits[0], texts.pop()

def rust_str(lit, rel):
    """value of a Rust string literal body (between the quotes)"""
    out, i = [], 0
    while i < len(lit):
        c = lit[i]
        if c == '\\':
            i += 1
            e = lit[i]
            m = {'n': '\n', 'r': '\r', 't': '\t', '\\': '\\', '"': '"', "'": "'", '0': '\0'}
            if e not in m: raise ExtractError(f'{rel}: unsupported escape \\{e}')
            out.append(m[e])
        else:
            out.append(c)
        i += 1
    return ''.join(out)

def symbols(text, rel):
    m = re.search(r'pub\s+const\s+SYMBOL\s*:\s*Symbol\s*=\s*Symbol\s*\{(.*?)\n\};', text, re.S)
    if not m: raise ExtractError(f'{rel}: const SYMBOL not found')
    tab = {}
    for mm in re.finditer(r'(\w+)\s*:\s*"((?:[^"\\]|\\.)*)"\s*,', m.group(1)):
        tab[mm.group(1)] = rust_str(mm.group(2), rel)
    if len(tab) < 20: raise ExtractError(f'{rel}: SYMBOL table not recognised')
    return tab

ARG = r'(?:SYMBOL\.(\w+)|"((?:[^"\\]|\\.)*)")'

def table(text, fn, sym, rel):
    body = fn_body(text, fn, rel)
    calls = list(re.finditer(r'(component|_result)\s*\.\s*replace\s*\(\s*' + ARG + r'\s*,\s*' + ARG + r'\s*\)', body))
    # every statement must be one we understand: `let mut _result = component.replace(..);`,
    # `_result = _result.replace(..);`, `return _result`
    n_replace = len(re.findall(r'\breplace\b', body))
    stmts = [s.strip() for s in body.strip()[1:-1].split(';') if s.strip()]
    if n_replace != len(calls) or len(stmts) != len(calls) + 1 or not re.fullmatch(r'return\s+_result', stmts[-1]):
        raise ExtractError(f'{rel}: fn {fn}: unrecognised statements')
    if calls[0].group(1) != 'component' or any(c.group(1) != '_result' for c in calls[1:]):
        raise ExtractError(f'{rel}: fn {fn}: the replace chain is not linear')
    for k, st in enumerate(stmts[:-1]):
        want = r'let\s+mut\s+_result\s*=\s*component' if k == 0 else r'_result\s*=\s*_result'
        if not re.match(want + r'\s*\.\s*replace\s*\(', st):
            raise ExtractError(f'{rel}: fn {fn}: statement {k} is not a chained replace')
    rows = []
    def val(symname, lit):
        if symname is not None:
            if symname not in sym: raise ExtractError(f'{rel}: SYMBOL.{symname} unknown')
            return sym[symname]
        return rust_str(lit, rel)
    for c in calls:
        pat, to = val(c.group(2), c.group(3)), val(c.group(4), c.group(5))
        if pat == '': raise ExtractError(f'{rel}: fn {fn}: empty pattern')
        rows.append((pat, to))
    return rows

def lean_table(name, doc, rows):
    body = ',\n  '.join('(%s, %s)' % (lean_bytes(p), lean_bytes(t)) for p, t in rows)
    return f'/-- {doc} ({len(rows)} entries, source order) -/\ndef {name} : List (List UInt8 × List UInt8) := [\n  {body}]\n'

def generate(src):
    path, text = crate_source()
    rel = CRATE + '/src/lib.rs'
    sym = symbols(text, rel)
    enc = table(text, 'encode_uri_component', sym, rel)
    dec = table(text, 'decode_uri_component', sym, rel)
    out = lean_table('queryEncodeTable', '`url_search_params::encode_uri_component`: (pattern, replacement) of each `replace`', enc)
    out += '\n' + lean_table('queryDecodeTable', '`url_search_params::decode_uri_component`: (pattern, replacement) of each `replace`', dec)
    return [('QueryTab', out)]
