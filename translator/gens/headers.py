"""Header names and fixed header values (src/header/mod.rs), client-hint constants and lists
(src/client_hint/mod.rs), Range::BYTES -> lean/Rws/Gen/HeaderTab.lean"""
import re
from gen_tables import ExtractError, read, fn_body, lean_bytes

def consts(text, rel):
    d = {}
    for m in re.finditer(r'pub const\s+(\w+)\s*:\s*&\'static str\s*=\s*"((?:[^"\\]|\\.)*)"\s*;', text):
        d[m.group(1)] = bytes(m.group(2), 'utf-8').decode('unicode_escape')
    if not d:
        raise ExtractError(f'{rel}: no string constants found')
    return d

def array_items(body, rel, fn):
    m = re.search(r'let hint_list = \[(.*?)\];', body, re.S)
    if not m: raise ExtractError(f'{rel}: {fn}: hint_list array not found')
    items = [x.strip() for x in m.group(1).split(',') if x.strip()]
    if not re.search(r'hint_list\.join\(", "\)', body):
        raise ExtractError(f'{rel}: {fn}: expected hint_list.join(", ")')
    return items

def generate(src):
    hrel, crel, rrel = 'header/mod.rs', 'client_hint/mod.rs', 'range/mod.rs'
    htext, ctext, rtext = read(src, hrel), read(src, crel), read(src, rrel)
    H = consts(htext, hrel); CH = consts(ctext, crel); R = consts(rtext, rrel)
    def resolve(tok):
        scope, name = tok.split('::')
        table = {'ClientHint': CH, 'Header': H, 'Range': R}.get(scope)
        if table is None or name not in table: raise ExtractError(f'cannot resolve {tok}')
        return table[name]
    hint = [resolve(t) for t in array_items(fn_body(ctext, 'get_client_hint_list', crel), crel, 'get_client_hint_list')]
    vary = [resolve(t) for t in array_items(fn_body(ctext, 'get_vary_header_value', crel), crel, 'get_vary_header_value')]
    # the order in which get_header_list pushes, as data: the function must have exactly this shape
    body = fn_body(htext, 'get_header_list', hrel)
    pushes = re.findall(r'header_list\.push\((\w+)\);', body)
    expected = ['client_hint_header', 'critical_client_hint_header', 'vary_header', 'x_content_type_options_header',
                'accept_ranges_header', 'x_frame_options_header', 'date_iso_8601_header', 'no_cache']
    if pushes != expected or 'header_list = cors_header_list;' not in body or 'vary_value = vec![cors_vary];' not in body \
       or 'vary_value.push(client_hint_vary);' not in body or 'vary_value.join(", ")' not in body:
        raise ExtractError(f'{hrel}: get_header_list no longer has the modelled shape (pushes: {pushes})')
    need = ['_ORIGIN', '_VARY', '_X_CONTENT_TYPE_OPTIONS', '_X_CONTENT_TYPE_OPTIONS_VALUE_NOSNIFF', '_ACCEPT_RANGES', '_X_FRAME_OPTIONS',
            '_X_FRAME_OPTIONS_VALUE_SAME_ORIGIN', '_DATE_UNIX_EPOCH_NANOS', '_CACHE_CONTROL', '_DO_NOT_STORE_CACHE', '_LAST_MODIFIED_UNIX_EPOCH_NANOS',
            '_CONTENT_TYPE', '_CONTENT_LENGTH', '_CONTENT_RANGE', '_RANGE', '_HOST', '_CONTENT_DISPOSITION', 'NAME_VALUE_SEPARATOR']
    out = []
    for n in need:
        if n not in H: raise ExtractError(f'{hrel}: constant {n} missing')
        ln = 'h' + ''.join(p.capitalize() for p in n.strip('_').lower().split('_'))
        out.append(f'/-- `Header::{n}` = {H[n]!r} -/\ndef {ln} : List UInt8 := {lean_bytes(H[n])}\n')
    out.append(f'/-- `ClientHint::ACCEPT_CLIENT_HINTS` -/\ndef hAcceptCh : List UInt8 := {lean_bytes(CH["ACCEPT_CLIENT_HINTS"])}\n')
    out.append(f'/-- `ClientHint::CRITICAL_CLIENT_HINTS` -/\ndef hCriticalCh : List UInt8 := {lean_bytes(CH["CRITICAL_CLIENT_HINTS"])}\n')
    out.append('/-- `ClientHint::get_client_hint_list()` items, in order -/\ndef clientHintList : List (List UInt8) := [' + ', '.join(lean_bytes(x) for x in hint) + ']\n')
    out.append('/-- `ClientHint::get_vary_header_value()` items, in order -/\ndef varyHintList : List (List UInt8) := [' + ', '.join(lean_bytes(x) for x in vary) + ']\n')
    out.append(f'/-- `Range::BYTES` -/\ndef rangeBytes : List UInt8 := {lean_bytes(R["BYTES"])}\n')
    return [('HeaderTab', 'namespace Hdr\n\n' + '\n'.join(out) + '\nend Hdr\n')]
