"""MimeType::detect_mime_type (src/mime_type/mod.rs) -> lean/Rws/Gen/MimeTab.lean

The function is a long sequence of rules, tried in source order:

  A  let is_X = request_uri.ends_with(MimeType::S);
     if is_X { return MimeType::T.to_string(); }

  B  let mut is_X = false;
     let boxed_extension = MimeType::get_extension_from_filename(request_uri);
     if !boxed_extension.is_none() {
         let V = vec![MimeType::S1, MimeType::S2, ...];
         let extension = boxed_extension.unwrap();
         let suffix = [".", extension].join("");
         is_X = V.contains(&suffix.as_str())
     }
     if is_X { return MimeType::T.to_string(); }

  Z  return MimeType::T.to_string();          (last statement: the default)

The body is consumed from its first byte to its last with anchored patterns for exactly these
three shapes; anything else (a new kind of test, a rule guarded by something more, a statement
after the default, a constant that is not a plain literal) raises ExtractError, so an edit of the
rule list is either translated or reported, never silently dropped.  Every SUFFIX / type constant
is resolved to its literal through the `pub const NAME: &'static str = "...";` lines of the impl.
`get_extension_from_filename` must still be `Path::new(filename).extension().and_then(OsStr::to_str)`
(that is what `Rws.Mime.extension` models).
"""
import re
from gen_tables import ExtractError, read, fn_body, lean_bytes

REL = 'mime_type/mod.rs'

def strip_comments(text):
    """remove // and /* */ comments outside string literals"""
    out, i, n = [], 0, len(text)
    while i < n:
        c = text[i]
        if c == '"':
            j = i + 1
            while j < n and text[j] != '"':
                j += 2 if text[j] == '\\' else 1
            out.append(text[i:j + 1]); i = j + 1
        elif text.startswith('//', i):
            j = text.find('\n', i)
            i = n if j < 0 else j
        elif text.startswith('/*', i):
            j = text.find('*/', i + 2)
            if j < 0: raise ExtractError(f'{REL}: unterminated block comment')
            i = j + 2
        else:
            out.append(c); i += 1
    return ''.join(out)

def constants(text):
    consts = {}
    for m in re.finditer(r'\bconst\s+([A-Za-z_][A-Za-z0-9_]*)\s*:([^=;]*)=([^;]*);', text):
        name, ty, val = m.group(1), m.group(2).strip(), m.group(3).strip()
        if not re.fullmatch(r"&\s*('static\s+)?str", ty):
            raise ExtractError(f'{REL}: const {name}: type `{ty}` is not &str')
        mv = re.fullmatch(r'"([^"\\]*)"', val)
        if not mv:
            raise ExtractError(f'{REL}: const {name}: value `{val}` is not a plain string literal')
        if name in consts:
            raise ExtractError(f'{REL}: const {name} defined twice')
        consts[name] = mv.group(1)
    if not consts:
        raise ExtractError(f'{REL}: no `pub const NAME: &str = "...";` lines found')
    return consts

ID = r'[A-Za-z_][A-Za-z0-9_]*'
S = r'\s*'
RET = rf'return{S}MimeType{S}::{S}({ID}){S}\.{S}to_string{S}\({S}\){S};'
PAT_A = re.compile(
    rf'{S}let\s+(?P<v>{ID}){S}={S}request_uri{S}\.{S}ends_with{S}\({S}MimeType{S}::{S}(?P<s>{ID}){S}\){S};'
    rf'{S}if\s+(?P=v){S}\{{{S}' + RET.replace('(' + ID + ')', f'(?P<t>{ID})', 1) + rf'{S}\}}')
PAT_B = re.compile(
    rf'{S}let\s+mut\s+(?P<v>{ID}){S}={S}false{S};'
    rf'{S}let\s+boxed_extension{S}={S}MimeType{S}::{S}get_extension_from_filename{S}\({S}request_uri{S}\){S};'
    rf'{S}if{S}!{S}boxed_extension{S}\.{S}is_none{S}\({S}\){S}\{{'
    rf'{S}let\s+(?P<l>{ID}){S}={S}vec{S}!{S}\[(?P<items>[^\]]*)\]{S};'
    rf'{S}let\s+extension{S}={S}boxed_extension{S}\.{S}unwrap{S}\({S}\){S};'
    rf'{S}let\s+suffix{S}={S}\[{S}"\."{S},{S}extension{S}\]{S}\.{S}join{S}\({S}""{S}\){S};'
    rf'{S}(?P=v){S}={S}(?P=l){S}\.{S}contains{S}\({S}&{S}suffix{S}\.{S}as_str{S}\({S}\){S}\){S};?'
    rf'{S}\}}'
    rf'{S}if\s+(?P=v){S}\{{{S}' + RET.replace('(' + ID + ')', f'(?P<t>{ID})', 1) + rf'{S}\}}')
PAT_Z = re.compile(rf'{S}' + RET.replace('(' + ID + ')', f'(?P<t>{ID})', 1) + rf'{S}$')
PAT_ITEM = re.compile(rf'{S}MimeType{S}::{S}({ID}){S}')

def parse_rules(body):
    """body: text between the outer braces of detect_mime_type, comments removed.
    returns ([('endsWith', [S], T) | ('extIn', [S..], T)], default T) with constant NAMES"""
    rules, pos = [], 0
    while True:
        mz = PAT_Z.match(body, pos)
        if mz:
            return rules, mz.group('t')
        ma = PAT_A.match(body, pos)
        if ma:
            rules.append(('endsWith', [ma.group('s')], ma.group('t')))
            pos = ma.end(); continue
        mb = PAT_B.match(body, pos)
        if mb:
            items = mb.group('items').split(',')
            if items and items[-1].strip() == '': items.pop()      # trailing comma
            names = []
            for it in items:
                mi = PAT_ITEM.fullmatch(it)
                if not mi:
                    raise ExtractError(f'{REL}: detect_mime_type: rule #{len(rules)+1}: vec! item `{it.strip()}` is not MimeType::CONST')
                names.append(mi.group(1))
            if not names:
                raise ExtractError(f'{REL}: detect_mime_type: rule #{len(rules)+1}: empty suffix list')
            rules.append(('extIn', names, mb.group('t')))
            pos = mb.end(); continue
        ctx = ' '.join(body[pos:pos + 160].split())
        raise ExtractError(f'{REL}: detect_mime_type: statement after rule #{len(rules)} has an unknown shape: `{ctx}…`')

def extract(src):
    text = strip_comments(read(src, REL))
    consts = constants(text)
    sig = re.search(r'\bfn\s+detect_mime_type\s*\(\s*request_uri\s*:\s*&\s*str\s*\)\s*->\s*String\s*\{', text)
    if not sig:
        raise ExtractError(f'{REL}: fn detect_mime_type(request_uri: &str) -> String not found')
    body = fn_body(text, 'detect_mime_type', REL)[1:-1]
    rules, dflt = parse_rules(body)
    if not rules:
        raise ExtractError(f'{REL}: detect_mime_type: no rules recognised')
    ext = ''.join(fn_body(text, 'get_extension_from_filename', REL).split())
    if ext != '{Path::new(filename).extension().and_then(OsStr::to_str)}':
        raise ExtractError(f'{REL}: get_extension_from_filename is no longer Path::new(filename).extension().and_then(OsStr::to_str)')
    if not re.search(r'\bfn\s+get_extension_from_filename\s*\(\s*filename\s*:\s*&\s*str\s*\)\s*->\s*Option\s*<\s*&\s*str\s*>', text):
        raise ExtractError(f'{REL}: get_extension_from_filename: signature changed')
    def lit(name, where):
        if name not in consts:
            raise ExtractError(f'{REL}: detect_mime_type: {where}: constant MimeType::{name} has no `pub const` line')
        return consts[name]
    out = []
    for k, (kind, ss, t) in enumerate(rules, 1):
        out.append((kind, [(s, lit(s, f'rule #{k}')) for s in ss], (t, lit(t, f'rule #{k}'))))
    return out, (dflt, lit(dflt, 'default'))

def safe(s):
    """a literal as it may appear inside a Lean comment"""
    t = ''.join(ch if 32 <= ord(ch) < 127 else '?' for ch in s)
    return t.replace('-/', '-?').replace('/-', '/?')

def generate(src):
    rules, (dn, dv) = extract(src)
    lines = []
    for kind, ss, (tn, tv) in rules:
        if kind == 'endsWith':
            (sn, sv), = ss
            lines.append(f'  .endsWith {lean_bytes(sv)} {lean_bytes(tv)}  -- {safe(sv)} -> {safe(tv)}')
        else:
            lst = '[' + ', '.join(lean_bytes(sv) for _, sv in ss) + ']'
            lines.append(f'  .extIn {lst} {lean_bytes(tv)}  -- {" ".join(safe(sv) for _, sv in ss)} -> {safe(tv)}')
    # the comma goes before the trailing comment
    body = []
    for i, l in enumerate(lines):
        code, _, comment = l.partition('  -- ')
        body.append(code + (',' if i + 1 < len(lines) else '') + '  -- ' + comment)
    n_sfx = sum(len(ss) for _, ss, _ in rules)
    text = f'''/-- one rule of `MimeType::detect_mime_type` (src/mime_type/mod.rs):
    `endsWith sfx ty` — `if request_uri.ends_with(sfx) {{ return ty }}`;
    `extIn sfxs ty`   — `if let Some(e) = get_extension_from_filename(request_uri) {{ if sfxs.contains("." + e) {{ return ty }} }}`.
    (Declared here, not in Rws/Mime.lean, because generated files cannot import.) -/
inductive MimeRule where
  | endsWith (suffix : List UInt8) (ty : List UInt8)
  | extIn (suffixes : List (List UInt8)) (ty : List UInt8)
deriving Repr, DecidableEq

/-- the rules of `detect_mime_type` in source order ({len(rules)} rules, {n_sfx} suffixes), constants resolved -/
def mimeRules : List MimeRule := [
{chr(10).join(body)}
]

/-- the final `return` of `detect_mime_type`: MimeType::{dn} = "{safe(dv)}" -/
def mimeDefault : List UInt8 := {lean_bytes(dv)}
'''
    return [('MimeTab', text)]
