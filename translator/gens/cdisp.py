"""The three Content-Disposition type words (`DISPOSITION_TYPE`, src/header/content_disposition/mod.rs)
and the property keys that `ContentDisposition::parse` compares with -> lean/Rws/Gen/CdispTab.lean"""
import re
from gen_tables import ExtractError, read, fn_body, lean_bytes

def generate(src):
    rel = 'header/content_disposition/mod.rs'
    text = read(src, rel)
    m = re.search(r'pub const DISPOSITION_TYPE\s*:\s*DispositionType\s*=\s*DispositionType\s*\{(.*?)\};', text, re.S)
    if not m:
        raise ExtractError(f'{rel}: DISPOSITION_TYPE constant not found')
    d = dict(re.findall(r'(\w+)\s*:\s*"([^"\\]*)"', m.group(1)))
    if sorted(d) != ['attachment', 'form_data', 'inline']:
        raise ExtractError(f'{rel}: DISPOSITION_TYPE has fields {sorted(d)}, expected inline/attachment/form_data')
    body = fn_body(text, 'parse', rel)
    keys = re.findall(r'let (is_filename_field|is_name_field) = key == "([^"\\]*)";', body)
    if [k for k, _ in keys] != ['is_filename_field', 'is_name_field'] * 2 or keys[0][1] != keys[2][1] or keys[1][1] != keys[3][1]:
        raise ExtractError(f'{rel}: parse no longer compares the key of the second and third element with two fixed words ({keys})')
    if 'split(SYMBOL.semicolon)' not in body or body.count('split_once(SYMBOL.equals)') != 2 \
       or body.count('replace(SYMBOL.quotation_mark, SYMBOL.empty_string)') != 4 or body.count('key.trim()') != 2:
        raise ExtractError(f'{rel}: parse no longer has the modelled shape (split on ;, split_once on =, key.trim(), quote removal)')
    out = [
        f'/-- `DISPOSITION_TYPE.inline` -/\ndef inline : List UInt8 := {lean_bytes(d["inline"])}\n',
        f'/-- `DISPOSITION_TYPE.attachment` -/\ndef attachment : List UInt8 := {lean_bytes(d["attachment"])}\n',
        f'/-- `DISPOSITION_TYPE.form_data` -/\ndef formData : List UInt8 := {lean_bytes(d["form_data"])}\n',
        f'/-- the key that sets `file_name` -/\ndef keyFilename : List UInt8 := {lean_bytes(keys[0][1])}\n',
        f'/-- the key that sets `field_name` -/\ndef keyName : List UInt8 := {lean_bytes(keys[1][1])}\n',
    ]
    return [('CdispTab', 'namespace Cdisp\n\n' + '\n'.join(out) + '\nend Cdisp\n')]
