import re
from gen_tables import ExtractError, read, fn_body, lean_str, lean_bytes

# ----------------------------------------------------------------------------- base64
def generate(src):
    rel = 'core/base64/mod.rs'
    body = fn_body(read(src, rel), 'get_base64_char_list', rel)
    items = []
    for m in re.finditer(r"\('(.)'\s*\.\.=\s*'(.)'\)|base64_table\.push\('(.)'\)", body):
        if m.group(1):
            a, b = ord(m.group(1)), ord(m.group(2))
            if a > b: raise ExtractError(f'{rel}: empty char range')
            items.extend(range(a, b + 1))
        else:
            items.append(ord(m.group(3)))
    if not items:
        raise ExtractError(f'{rel}: get_base64_char_list: no alphabet items recognised')
    # every statement of the function must be one we understood
    n_stmts = len(re.findall(r';', body))
    n_ranges = len(re.findall(r"\.\.=", body))
    n_push = len(re.findall(r"base64_table\.push\(", body))
    n_append = len(re.findall(r"base64_table\.append\(", body))
    if n_ranges != n_append or n_stmts != 1 + 2 * n_ranges + n_push:
        raise ExtractError(f'{rel}: get_base64_char_list: unrecognised statements')
    chars = ', '.join("'%s'" % chr(c) if chr(c) not in "'\\" else "'\\%s'" % chr(c) for c in items)
    return [('Base64Tab', f'''/-- `Base64::get_base64_char_list()` as the source builds it ({len(items)} entries) -/
def base64Alphabet : List Char := [{chars}]
''')]
