"""C11 tables.

1. `CorsTab`  — the constants that `src/cors/mod.rs` reads, regenerated from the source:
   the seven RWS_CONFIG_CORS_* variable names (`src/entry_point/mod.rs`), `Origin`, the two
   Access-Control-Request-* and six Access-Control-Allow/Expose/Max-Age header names
   (`src/header/mod.rs`), `Cors::MAX_AGE` (`src/cors/mod.rs`), `METHOD.options`
   (`src/request/mod.rs`).  The extractor also asserts that the CORS functions refer to
   exactly these constants (a renamed / re-pointed constant breaks the tie loudly).

2. `UnicodeLowerTab` — the data behind Rust's `str::to_lowercase()` for the toolchain that
   builds the harness: per-scalar lower-case mapping (run-length compressed), and the two
   character classes of the Final_Sigma rule.  The std tables are private, so they are
   obtained *behaviourally*: a 30-line Rust program (compiled with the same `rustc`) prints
   `char::to_lowercase` of every scalar and probes `str::to_lowercase` on `aΣ<c>a` / `aΣ<c>`
   to classify `<c>`.  The result is cached per `rustc -V`.
"""
import os, re, subprocess, hashlib, tempfile
from gen_tables import ExtractError, read, fn_body, lean_bytes

# ------------------------------------------------------------------------------ constants
def _const(text, rel, name):
    m = re.search(r'pub\s+const\s+' + re.escape(name) + r'\s*:\s*&\'static\s+str\s*=\s*"((?:[^"\\]|\\.)*)"\s*;', text)
    if not m:
        raise ExtractError(f'{rel}: const {name} not found')
    s = m.group(1)
    if '\\' in s:
        raise ExtractError(f'{rel}: const {name}: escape sequences are not expected here')
    return s

VARS = [('varAllowAll', 'RWS_CONFIG_CORS_ALLOW_ALL'), ('varAllowOrigins', 'RWS_CONFIG_CORS_ALLOW_ORIGINS'),
        ('varAllowCredentials', 'RWS_CONFIG_CORS_ALLOW_CREDENTIALS'), ('varAllowHeaders', 'RWS_CONFIG_CORS_ALLOW_HEADERS'),
        ('varAllowMethods', 'RWS_CONFIG_CORS_ALLOW_METHODS'), ('varExposeHeaders', 'RWS_CONFIG_CORS_EXPOSE_HEADERS'),
        ('varMaxAge', 'RWS_CONFIG_CORS_MAX_AGE')]
HDRS = [('hOrigin', '_ORIGIN'), ('hRequestMethod', '_ACCESS_CONTROL_REQUEST_METHOD'),
        ('hRequestHeaders', '_ACCESS_CONTROL_REQUEST_HEADERS'), ('hAllowOrigin', '_ACCESS_CONTROL_ALLOW_ORIGIN'),
        ('hAllowCredentials', '_ACCESS_CONTROL_ALLOW_CREDENTIALS'), ('hAllowMethods', '_ACCESS_CONTROL_ALLOW_METHODS'),
        ('hAllowHeaders', '_ACCESS_CONTROL_ALLOW_HEADERS'), ('hExposeHeaders', '_ACCESS_CONTROL_EXPOSE_HEADERS'),
        ('hMaxAge', '_ACCESS_CONTROL_MAX_AGE')]

def cors_tab(src):
    ep = read(src, 'entry_point/mod.rs'); hd = read(src, 'header/mod.rs')
    co = read(src, 'cors/mod.rs'); rq = read(src, 'request/mod.rs')
    out = ['namespace Cors\n']
    for lean, rust in VARS:
        v = _const(ep, 'entry_point/mod.rs', rust)
        out.append(f'/-- `Config::{rust}` -/\ndef {lean} : List UInt8 := {lean_bytes(v)}  -- "{v}"\n')
    for lean, rust in HDRS:
        v = _const(hd, 'header/mod.rs', rust)
        out.append(f'/-- `Header::{rust}` -/\ndef {lean} : List UInt8 := {lean_bytes(v)}  -- "{v}"\n')
    v = _const(co, 'cors/mod.rs', 'MAX_AGE')
    out.append(f'/-- `Cors::MAX_AGE` -/\ndef maxAgeDefault : List UInt8 := {lean_bytes(v)}  -- "{v}"\n')
    m = re.search(r'pub\s+const\s+METHOD\s*:\s*Method\s*=\s*Method\s*\{(.*?)\};', rq, re.S)
    if not m: raise ExtractError('request/mod.rs: METHOD table not found')
    mm = re.search(r'\boptions\s*:\s*"([^"\\]*)"', m.group(1))
    if not mm: raise ExtractError('request/mod.rs: METHOD.options not found')
    out.append(f'/-- `METHOD.options` -/\ndef methodOptions : List UInt8 := {lean_bytes(mm.group(1))}  -- "{mm.group(1)}"\n')
    # which constants each CORS function mentions (shape assertion; order/flow is tied by the differential run)
    want = {
        'allow_all': {'_ORIGIN', '_ACCESS_CONTROL_ALLOW_ORIGIN', '_ACCESS_CONTROL_ALLOW_CREDENTIALS', '_ACCESS_CONTROL_REQUEST_METHOD',
                      '_ACCESS_CONTROL_ALLOW_METHODS', '_ACCESS_CONTROL_REQUEST_HEADERS', '_ACCESS_CONTROL_ALLOW_HEADERS',
                      '_ACCESS_CONTROL_EXPOSE_HEADERS', '_ACCESS_CONTROL_MAX_AGE'},
        '_process': {'_ORIGIN', '_ACCESS_CONTROL_ALLOW_ORIGIN', '_ACCESS_CONTROL_ALLOW_CREDENTIALS', '_ACCESS_CONTROL_ALLOW_METHODS',
                     '_ACCESS_CONTROL_ALLOW_HEADERS', '_ACCESS_CONTROL_EXPOSE_HEADERS', '_ACCESS_CONTROL_MAX_AGE'},
        'process_using_default_config': {'_ORIGIN', '_ACCESS_CONTROL_ALLOW_ORIGIN', '_ACCESS_CONTROL_ALLOW_CREDENTIALS',
                     '_ACCESS_CONTROL_ALLOW_METHODS', '_ACCESS_CONTROL_ALLOW_HEADERS', '_ACCESS_CONTROL_EXPOSE_HEADERS',
                     '_ACCESS_CONTROL_MAX_AGE'},
        'get_headers': set(),
    }
    wantv = {
        'allow_all': set(), '_process': set(),
        'process_using_default_config': {'RWS_CONFIG_CORS_ALLOW_ORIGINS', 'RWS_CONFIG_CORS_ALLOW_CREDENTIALS', 'RWS_CONFIG_CORS_ALLOW_METHODS',
                                         'RWS_CONFIG_CORS_ALLOW_HEADERS', 'RWS_CONFIG_CORS_EXPOSE_HEADERS', 'RWS_CONFIG_CORS_MAX_AGE'},
        'get_headers': {'RWS_CONFIG_CORS_ALLOW_ALL'},
    }
    for fn in want:
        body = fn_body(co, fn, 'cors/mod.rs')
        got = set(re.findall(r'Header::(_[A-Z_]+)', body))
        gotv = set(re.findall(r'Config::(RWS_[A-Z_]+)', body))
        if got != want[fn] or gotv != wantv[fn]:
            raise ExtractError(f'cors/mod.rs: fn {fn} refers to constants {sorted(got | gotv)}, expected {sorted(want[fn] | wantv[fn])}')
    out.append('end Cors\n')
    return '\n'.join(out)

# ------------------------------------------------------------------------------ unicode
PROBE = r'''
fn sigma(s: &str) -> char { s.to_lowercase().chars().nth(1).unwrap() }
fn main() {
    let mut out = String::new();
    for u in 0u32..0x110000 {
        let c = match char::from_u32(u) { Some(c) => c, None => continue };
        let l: Vec<u32> = c.to_lowercase().map(|x| x as u32).collect();
        if l != vec![u] {
            out.push_str(&format!("L {}", u));
            for x in &l { out.push_str(&format!(" {}", x)); }
            out.push('\n');
        }
        // Final_Sigma probes: t1 = sigma not final in "a\u{3a3}<c>a"  <=> Case_Ignorable(c) || Cased(c)
        //                     t2 = sigma not final in "a\u{3a3}<c>"   <=> !Case_Ignorable(c) && Cased(c)
        let t1 = sigma(&format!("a\u{3a3}{}a", c)) == '\u{3c3}';
        let t2 = sigma(&format!("a\u{3a3}{}", c)) == '\u{3c3}';
        if t1 && !t2 { out.push_str(&format!("I {}\n", u)); }
        if t2 { out.push_str(&format!("C {}\n", u)); }
        if !t1 && t2 { out.push_str("X inconsistent\n"); }
    }
    // whole-string conversion of a lone capital sigma and of I-with-dot, as a self check
    out.push_str(&format!("S {}\n", "\u{3a3}".to_lowercase().chars().map(|x| (x as u32).to_string()).collect::<Vec<_>>().join(" ")));
    print!("{}", out);
}
'''

def _probe():
    here = os.path.dirname(os.path.abspath(__file__))
    cache = os.path.join(here, '..', '.cache'); os.makedirs(cache, exist_ok=True)
    try:
        ver = subprocess.run(['rustc', '-V'], stdout=subprocess.PIPE, check=True).stdout.decode().strip()
    except Exception as e:
        raise ExtractError(f'unicode probe: rustc not runnable: {e}')
    key = hashlib.sha256((ver + PROBE).encode()).hexdigest()[:16]
    p = os.path.join(cache, f'unicode_lower_{key}.txt')
    if os.path.exists(p):
        return ver, open(p).read()
    with tempfile.TemporaryDirectory() as d:
        open(os.path.join(d, 'probe.rs'), 'w').write(PROBE)
        r = subprocess.run(['rustc', '-O', '--edition', '2021', '-o', os.path.join(d, 'probe'), os.path.join(d, 'probe.rs')],
                           stdout=subprocess.PIPE, stderr=subprocess.STDOUT)
        if r.returncode != 0:
            raise ExtractError('unicode probe: does not compile: ' + r.stdout.decode()[-400:])
        r = subprocess.run([os.path.join(d, 'probe')], stdout=subprocess.PIPE, stderr=subprocess.STDOUT)
        if r.returncode != 0:
            raise ExtractError('unicode probe: run failed: ' + r.stdout.decode()[-400:])
        txt = r.stdout.decode()
    tmp = p + '.%d.tmp' % os.getpid()
    open(tmp, 'w').write(txt); os.replace(tmp, p)
    return ver, txt

def _ranges(xs):
    out = []
    for x in xs:
        if out and out[-1][1] + 1 == x: out[-1][1] = x
        else: out.append([x, x])
    return out

def _runs(pairs):
    """compress single-scalar mappings (c -> t) into (lo, hi, step, tlo): for lo<=c<=hi with
    (c-lo) % step == 0 the image is tlo + (c-lo)"""
    runs = []
    for c, t in pairs:
        if runs:
            lo, hi, step, tlo = runs[-1]
            d = c - hi
            if t - c == tlo - lo and d in (1, 2) and (step == 0 or step == d):
                runs[-1] = [lo, c, d, tlo]; continue
        runs.append([c, c, 0, t])
    return [(lo, hi, step or 1, tlo) for lo, hi, step, tlo in runs]

def unicode_tab():
    ver, txt = _probe()
    single, multi, ign, cased = [], [], [], []
    lone_sigma = None
    for ln in txt.split('\n'):
        if not ln: continue
        f = ln.split(' ')
        if f[0] == 'L':
            c, img = int(f[1]), [int(x) for x in f[2:]]
            if len(img) == 1: single.append((c, img[0]))
            else: multi.append((c, img))
        elif f[0] == 'I': ign.append(int(f[1]))
        elif f[0] == 'C': cased.append(int(f[1]))
        elif f[0] == 'S': lone_sigma = [int(x) for x in f[1:]]
        else: raise ExtractError('unicode probe: ' + ln)
    if lone_sigma != [0x3C3] or (0x3A3, 0x3C3) not in single or (0x41, 0x61) not in single or (0x130, [0x69, 0x307]) not in multi:
        raise ExtractError('unicode probe: landmark mappings (A, U+03A3, U+0130) are not the expected ones')
    if not (65 in cased and 97 in cased and 39 in ign and 32 not in ign and 32 not in cased):
        raise ExtractError('unicode probe: landmark classes are not the expected ones')
    runs = _runs(single)
    # self check of the compression
    back = {}
    for lo, hi, step, tlo in runs:
        for c in range(lo, hi + 1, step): back[c] = tlo + (c - lo)
    if back != dict(single): raise ExtractError('unicode probe: run-length compression is not lossless')
    fmt4 = lambda r: '(%d, %d, %d, %d)' % r
    fmt2 = lambda r: '(%d, %d)' % (r[0], r[1])
    def chunk(items, n=8):
        return ',\n  '.join(', '.join(items[i:i + n]) for i in range(0, len(items), n))
    text = f'''namespace Unicode

/-- toolchain the tables were probed from -/
def probedFrom : String := "{ver}"

/-- single-scalar lower-case mappings of `char::to_lowercase`, run-length compressed:
    `(lo, hi, step, tlo)`: for `lo ≤ c ≤ hi` with `(c - lo) % step = 0` the image is `tlo + (c - lo)`.
    {len(single)} scalars in {len(runs)} runs (ASCII included). -/
def lowerRuns : List (Nat × Nat × Nat × Nat) := [
  {chunk([fmt4(r) for r in runs], 4)}]

/-- scalars whose lower-case image has more than one scalar -/
def lowerMulti : List (Nat × List Nat) := [{', '.join('(%d, [%s])' % (c, ', '.join(map(str, i))) for c, i in multi)}]

/-- `Case_Ignorable` as `str::to_lowercase`'s Final_Sigma rule sees it (inclusive ranges; {len(ign)} scalars) -/
def caseIgnorable : List (Nat × Nat) := [
  {chunk([fmt2(r) for r in _ranges(ign)])}]

/-- `Cased ∧ ¬Case_Ignorable` (the rule consults `Cased` only on a scalar that is not
    case-ignorable; inclusive ranges; {len(cased)} scalars) -/
def casedNotIgnorable : List (Nat × Nat) := [
  {chunk([fmt2(r) for r in _ranges(cased)])}]

end Unicode
'''
    return text

def generate(src):
    return [('CorsTab', cors_tab(src)), ('UnicodeLowerTab', unicode_tab())]
