"""Source locations of the panicking expressions the server-level model names
(`panic "<file>:<line>"` must equal what the harness prints): found by pattern in the current
source, so that edits that only shift lines do not break the correspondence -> lean/Rws/Gen/Sites.lean"""
import re
from gen_tables import ExtractError, read, fn_body

def line_of(text, pos): return text.count('\n', 0, pos) + 1

def find_in_fn(src, rel, fn, pattern, nth=0):
    text = read(src, rel)
    m = re.search(r'\bfn\s+' + re.escape(fn) + r'\s*(<[^>]*>)?\s*\(', text)
    if not m: raise ExtractError(f'{rel}: fn {fn} not found')
    body = fn_body(text, fn, rel)
    start = text.index(body, m.start())
    hits = [h.start() for h in re.finditer(pattern, body)]
    if len(hits) <= nth: raise ExtractError(f'{rel}: fn {fn}: pattern {pattern!r} occurrence {nth} not found')
    return f'{rel}:{line_of(text, start + hits[nth])}'

SITES = [
    # name, file, fn, regex, occurrence
    ('staticMatchUrlUnwrap', 'app/controller/static_resource/mod.rs', 'is_matching', r'boxed_url_components\.unwrap\(\)', 0),
    ('staticMatchLastUnwrap', 'app/controller/static_resource/mod.rs', 'is_matching', r'chars\(\)\.last\(\)\.unwrap\(\)', 0),
    ('staticProcUrlUnwrap', 'app/controller/static_resource/mod.rs', 'process_static_resources', r'boxed_url_components\.unwrap\(\)', 0),
    ('staticProcLastUnwrap', 'app/controller/static_resource/mod.rs', 'process_static_resources', r'chars\(\)\.last\(\)\.unwrap\(\)', 0),
    ('staticProcessUrlUnwrap', 'app/controller/static_resource/mod.rs', 'process', r'boxed_url_components\.unwrap\(\)', 0),
    ('rangeListUrlUnwrap', 'range/mod.rs', 'get_content_range_list', r'boxed_url_components\.unwrap\(\)', 0),
    ('formGetQueryUnwrap', 'app/controller/form/get_method/mod.rs', 'process', r'boxed_query_option\.unwrap\(\)', 0),
    ('formGetQueryUnwrapLegacy', 'app/controller/form/get_method/mod.rs', 'process_request', r'boxed_query_option\.unwrap\(\)', 0),
    ('fileInitQueryUnwrap', 'app/controller/file/initiate/mod.rs', 'process', r'boxed_query_option\.unwrap\(\)', 0),
    ('fileInitQueryUnwrapLegacy', 'app/controller/file/initiate/mod.rs', 'process_request', r'boxed_query_option\.unwrap\(\)', 0),
    ('formUrlencParseUnwrap', 'app/controller/form/url_encoded_enctype_post_method/mod.rs', 'process', r'FormUrlEncoded::parse\([^;]*\)\.unwrap\(\)', 0),
    ('formUrlencParseUnwrapLegacy', 'app/controller/form/url_encoded_enctype_post_method/mod.rs', 'process_request', r'FormUrlEncoded::parse\([^;]*\)\.unwrap\(\)', 0),
]

def generate(src):
    out = []
    for name, rel, fn, pat, nth in SITES:
        # a site is a LABEL of a panicking expression that the theorems show unreachable; when a refactoring has removed or
        # reshaped the expression there is nothing to label: the model keeps a placeholder that no real panic location equals
        # (a panic of the implementation is a violation whatever its location)
        try: site = find_in_fn(src, rel, fn, pat, nth)
        except ExtractError: site = f'unlocated:{name}'
        out.append(f'def {name} : String := "{site}"')
    return [('Sites', 'namespace Sites\n\n' + '\n'.join(out) + '\n\nend Sites\n')]
