import re
from gen_tables import ExtractError, read, fn_body, lean_bytes

# ----------------------------------------------------------------------------- http
# request method list (src/request/mod.rs: `METHOD` constants + `Request::method_list()`),
# HTTP version list (src/http/mod.rs: `VERSION` constants + `HTTP::version_list()`),
# header constants used by the request model (src/header/mod.rs) and the SYMBOL constants the
# request serialiser/parser refer to (src/symbol/mod.rs).

def const_struct(text, const_name, type_name, rel):
    """`pub const <const_name>: <type_name> = <type_name> { field: "…", … };` -> {field: value}"""
    m = re.search(r'pub\s+const\s+' + const_name + r'\s*:\s*' + type_name + r'\s*=\s*' + type_name + r'\s*\{(.*?)\};',
                  text, re.S)
    if not m:
        raise ExtractError(f'{rel}: const {const_name} not found')
    body = m.group(1)
    fields = {}
    for fm in re.finditer(r'(\w+)\s*:\s*"((?:[^"\\]|\\.)*)"\s*,', body):
        fields[fm.group(1)] = rust_unescape(fm.group(2), rel)
    n_fields = len(re.findall(r'^\s*\w+\s*:', body, re.M))
    if not fields or n_fields != len(fields):
        raise ExtractError(f'{rel}: const {const_name}: {n_fields} fields, {len(fields)} understood')
    return fields

def rust_unescape(s, rel):
    out, i = [], 0
    while i < len(s):
        c = s[i]
        if c != '\\':
            out.append(c); i += 1; continue
        n = s[i + 1]
        if n == 'n': out.append('\n'); i += 2
        elif n == 'r': out.append('\r'); i += 2
        elif n == 't': out.append('\t'); i += 2
        elif n == '0': out.append('\0'); i += 2
        elif n in '\\"\'': out.append(n); i += 2
        elif n == 'u':
            m = re.match(r'\\u\{([0-9a-fA-F]+)\}', s[i:])
            if not m: raise ExtractError(f'{rel}: bad \\u escape in {s!r}')
            out.append(chr(int(m.group(1), 16))); i += m.end()
        elif n == 'x':
            out.append(chr(int(s[i + 2:i + 4], 16))); i += 4
        else:
            raise ExtractError(f'{rel}: unknown escape \\{n} in {s!r}')
    return ''.join(out)

def list_fn(text, fn_name, const_name, fields, rel):
    """a `fn <fn_name>() -> Vec<String>` of the shape
         let <var> = <CONST>.<field>.to_string();  (one per entry)
         let <list> … = vec![ <var>, … ];
       -> the listed constants' values, in `vec!` order"""
    body = fn_body(text, fn_name, rel)
    binds = dict(re.findall(r'let\s+(\w+)\s*=\s*' + const_name + r'\.(\w+)\.to_string\(\)\s*;', body))
    m = re.search(r'vec!\[(.*?)\]', body, re.S)
    if not m:
        raise ExtractError(f'{rel}: fn {fn_name}: no vec![…]')
    names = [x.strip() for x in m.group(1).split(',') if x.strip()]
    out = []
    for n in names:
        if n not in binds or binds[n] not in fields:
            raise ExtractError(f'{rel}: fn {fn_name}: list entry {n} is not a {const_name} constant')
        out.append(fields[binds[n]])
    # every statement must be one we understood: the bindings, the `let list = vec![..];`
    n_stmts = len(re.findall(r';', body))
    if n_stmts != len(binds) + 1 or len(set(names)) != len(names) or not out:
        raise ExtractError(f'{rel}: fn {fn_name}: unrecognised statements ({n_stmts} statements, {len(binds)} bindings)')
    return out

def header_const(text, name, rel):
    m = re.search(r'pub\s+const\s+' + name + r'\s*:\s*&\'static\s+str\s*=\s*"((?:[^"\\]|\\.)*)"\s*;', text)
    if not m:
        raise ExtractError(f'{rel}: const {name} not found')
    return rust_unescape(m.group(1), rel)

def lean_list(items):
    return '[' + ', '.join(lean_bytes(x) for x in items) + ']'

def generate(src):
    rq, ht, hd, sy = 'request/mod.rs', 'http/mod.rs', 'header/mod.rs', 'symbol/mod.rs'
    rq_t, ht_t, hd_t, sy_t = read(src, rq), read(src, ht), read(src, hd), read(src, sy)
    method = const_struct(rq_t, 'METHOD', 'Method', rq)
    methods = list_fn(rq_t, 'method_list', 'METHOD', method, rq)
    version = const_struct(ht_t, 'VERSION', 'Version', ht)
    versions = list_fn(ht_t, 'version_list', 'VERSION', version, ht)
    symbol = const_struct(sy_t, 'SYMBOL', 'Symbol', sy)
    for k in ('whitespace', 'new_line_carriage_return', 'empty_string', 'colon'):
        if k not in symbol:
            raise ExtractError(f'{sy}: SYMBOL.{k} not found')
    sep = header_const(hd_t, 'NAME_VALUE_SEPARATOR', hd)
    clen = header_const(hd_t, '_CONTENT_LENGTH', hd)
    host = header_const(hd_t, '_HOST', hd)
    text = f'''/-- `Request::method_list()` (src/{rq}), in source order: {", ".join(methods)} -/
def methodList : List (List UInt8) := {lean_list(methods)}

/-- `HTTP::version_list()` (src/{ht}), in source order: {", ".join(versions)} -/
def versionList : List (List UInt8) := {lean_list(versions)}

/-- `Header::NAME_VALUE_SEPARATOR` (src/{hd}) -/
def headerNameValueSeparator : List UInt8 := {lean_bytes(sep)}
/-- `Header::_CONTENT_LENGTH` -/
def headerContentLength : List UInt8 := {lean_bytes(clen)}
/-- `Header::_HOST` -/
def headerHost : List UInt8 := {lean_bytes(host)}

/-- `SYMBOL.whitespace`, `SYMBOL.new_line_carriage_return`, `SYMBOL.empty_string`, `SYMBOL.colon` (src/{sy}) -/
def symbolWhitespace : List UInt8 := {lean_bytes(symbol['whitespace'])}
def symbolNewLineCarriageReturn : List UInt8 := {lean_bytes(symbol['new_line_carriage_return'])}
def symbolEmptyString : List UInt8 := {lean_bytes(symbol['empty_string'])}
def symbolColon : List UInt8 := {lean_bytes(symbol['colon'])}
'''
    return [('HttpTab', text)]
