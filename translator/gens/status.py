"""Status-code / reason-phrase table and the constants the response serialisers and the
response parser use, regenerated from the source (C15).

  response/mod.rs : `STATUS_CODE_REASON_PHRASE` (field -> code, phrase) and the order in which
                    `Response::status_code_reason_phrase_list()` lists the fields
  http/mod.rs     : `VERSION` + `HTTP::version_list()` order
  range/mod.rs    : STRING_SEPARATOR, BOUNDARY, BYTERANGES, MULTIPART, BYTES
  header/mod.rs   : _CONTENT_TYPE, _CONTENT_RANGE, _CONTENT_LENGTH, NAME_VALUE_SEPARATOR
  mime_type       : APPLICATION_OCTET_STREAM;  request/mod.rs: METHOD.head / METHOD.options
"""
import re
from gen_tables import ExtractError, read, fn_body, lean_bytes


def const_block(text, decl, rel):
    """text of `pub const <decl> = <Type> { ... };` (balanced braces)"""
    m = re.search(r'pub\s+const\s+' + re.escape(decl) + r'\s*:\s*\w+\s*=\s*\w+\s*\{', text)
    if not m:
        raise ExtractError(f'{rel}: const {decl} not found')
    i = m.end() - 1
    depth, j = 0, i
    while j < len(text):
        if text[j] == '{': depth += 1
        elif text[j] == '}':
            depth -= 1
            if depth == 0: return text[i:j + 1]
        j += 1
    raise ExtractError(f'{rel}: const {decl}: unbalanced braces')


def str_const(text, name, rel):
    m = re.findall(r'pub\s+const\s+' + re.escape(name) + r'\s*:\s*&\'static\s+str\s*=\s*"((?:[^"\\]|\\.)*)"\s*;', text)
    if len(m) != 1:
        raise ExtractError(f'{rel}: string constant {name}: expected exactly one definition, found {len(m)}')
    if '\\' in m[0]:
        raise ExtractError(f'{rel}: string constant {name}: escape sequences are not expected here')
    return m[0]


def field_strings(block, rel, what):
    """`name: "text",` fields of a struct literal"""
    out = {}
    for m in re.finditer(r'(\w+)\s*:\s*"((?:[^"\\]|\\.)*)"', block):
        if '\\' in m.group(2):
            raise ExtractError(f'{rel}: {what}.{m.group(1)}: escape sequences are not expected here')
        if m.group(1) in out:
            raise ExtractError(f'{rel}: {what}.{m.group(1)} defined twice')
        out[m.group(1)] = m.group(2)
    return out


def generate(src):
    rel = 'response/mod.rs'
    text = read(src, rel)
    block = const_block(text, 'STATUS_CODE_REASON_PHRASE', rel)
    rows = {}
    for m in re.finditer(r'(n\d+_\w+)\s*:\s*&StatusCodeReasonPhrase\s*\{\s*status_code\s*:\s*&(-?\d+)\s*,\s*'
                         r'reason_phrase\s*:\s*"((?:[^"\\]|\\.)*)"\s*,?\s*\}', block):
        if m.group(1) in rows:
            raise ExtractError(f'{rel}: STATUS_CODE_REASON_PHRASE.{m.group(1)} defined twice')
        if '\\' in m.group(3):
            raise ExtractError(f'{rel}: reason phrase of {m.group(1)} has an escape sequence')
        rows[m.group(1)] = (int(m.group(2)), m.group(3))
    n_fields = len(re.findall(r'&StatusCodeReasonPhrase\s*\{', block))
    if n_fields != len(rows) or not rows:
        raise ExtractError(f'{rel}: STATUS_CODE_REASON_PHRASE: {n_fields} entries, {len(rows)} recognised')
    body = fn_body(text, 'status_code_reason_phrase_list', rel)
    order = re.findall(r'STATUS_CODE_REASON_PHRASE\s*\.\s*(\w+)\s*,?', body)
    if not order or len(order) != len(re.findall(r'STATUS_CODE_REASON_PHRASE', body)):
        raise ExtractError(f'{rel}: status_code_reason_phrase_list: unrecognised items')
    if not re.search(r'let\s+list\s*=\s*vec!\s*\[', body) or len(re.findall(r';', body)) != 1:
        raise ExtractError(f'{rel}: status_code_reason_phrase_list: unexpected statements')
    for f in order:
        if f not in rows:
            raise ExtractError(f'{rel}: status_code_reason_phrase_list names unknown field {f}')
    table = [rows[f] for f in order]
    for code, _ in table:
        if not (-32768 <= code <= 32767):
            raise ExtractError(f'{rel}: status code {code} does not fit i16')

    rel_h = 'http/mod.rs'
    th = read(src, rel_h)
    vers = field_strings(const_block(th, 'VERSION', rel_h), rel_h, 'VERSION')
    vbody = fn_body(th, 'version_list', rel_h)
    lets = dict(re.findall(r'let\s+(\w+)\s*=\s*VERSION\s*\.\s*(\w+)\s*\.to_string\(\)\s*;', vbody))
    mv = re.search(r'vec!\s*\[([^\]]*)\]', vbody)
    if not mv:
        raise ExtractError(f'{rel_h}: version_list: vec! not found')
    vorder = [x.strip() for x in mv.group(1).split(',') if x.strip()]
    vlist = []
    for v in vorder:
        if v not in lets or lets[v] not in vers:
            raise ExtractError(f'{rel_h}: version_list: item {v} not resolved')
        vlist.append(vers[lets[v]])
    if not vlist:
        raise ExtractError(f'{rel_h}: version_list: empty')

    rel_r = 'range/mod.rs'
    tr = read(src, rel_r)
    rel_hd = 'header/mod.rs'
    thd = read(src, rel_hd)
    rel_m = 'mime_type/mod.rs'
    tm = read(src, rel_m)
    rel_q = 'request/mod.rs'
    tq = read(src, rel_q)
    methods = field_strings(const_block(tq, 'METHOD', rel_q), rel_q, 'METHOD')
    for k in ('head', 'options'):
        if k not in methods:
            raise ExtractError(f'{rel_q}: METHOD.{k} not found')
    consts = [
        ('respStringSeparator', str_const(tr, 'STRING_SEPARATOR', rel_r), 'Range::STRING_SEPARATOR'),
        ('respBoundaryWord', str_const(tr, 'BOUNDARY', rel_r), 'Range::BOUNDARY'),
        ('respByteranges', str_const(tr, 'BYTERANGES', rel_r), 'Range::BYTERANGES'),
        ('respMultipart', str_const(tr, 'MULTIPART', rel_r), 'Range::MULTIPART'),
        ('respBytesUnit', str_const(tr, 'BYTES', rel_r), 'Range::BYTES'),
        ('respContentType', str_const(thd, '_CONTENT_TYPE', rel_hd), 'Header::_CONTENT_TYPE'),
        ('respContentRange', str_const(thd, '_CONTENT_RANGE', rel_hd), 'Header::_CONTENT_RANGE'),
        ('respContentLength', str_const(thd, '_CONTENT_LENGTH', rel_hd), 'Header::_CONTENT_LENGTH'),
        ('respNameValueSeparator', str_const(thd, 'NAME_VALUE_SEPARATOR', rel_hd), 'Header::NAME_VALUE_SEPARATOR'),
        ('respOctetStream', str_const(tm, 'APPLICATION_OCTET_STREAM', rel_m), 'MimeType::APPLICATION_OCTET_STREAM'),
        ('respMethodHead', methods['head'], 'METHOD.head'),
        ('respMethodOptions', methods['options'], 'METHOD.options'),
    ]
    out = [f'/-- `Response::status_code_reason_phrase_list()` in list order: (status code, reason phrase as UTF-8 bytes); {len(table)} rows -/',
           'def statusTable : List (Int × List UInt8) := [']
    out.append(',\n'.join(f'  ({code}, {lean_bytes(phrase)})' for code, phrase in table))
    out.append(']\n')
    out.append('/-- the same rows, phrases as text (for reading; not used by the model) -/')
    out.append('def statusTableText : List (Int × String) := [' + ', '.join(f'({c}, "{p}")' for c, p in table) + ']\n')
    out.append(f'/-- `HTTP::version_list()` in list order -/')
    out.append('def respVersionList : List (List UInt8) := [' + ', '.join(lean_bytes(v) for v in vlist) + ']  -- ' + ', '.join(vlist) + '\n')
    for name, val, origin in consts:
        out.append(f'/-- `{origin}` = "{val}" -/')
        out.append(f'def {name} : List UInt8 := {lean_bytes(val)}\n')
    return [('StatusTab', '\n'.join(out))]
