"""Configuration tables (C12), extracted from the current source tree:

  * `Config` string constants (variable names, default values) and numeric getter defaults
    — src/entry_point/mod.rs
  * the order in which `set_default_values` installs (variable, default) pairs
  * the flag table of `CommandLineArgument::get_command_line_arg_list` (short, long, variable)
    — src/entry_point/command_line_args/mod.rs
  * which variable / fallback each typed getter reads
  * that `read_system_environment_variables` and `bootstrap` have the shape the model assumes
  * the DOCUMENTED spellings: the two example command lines of `rws.command_line`, the
    content of the example `rws.config.toml`, the `export NAME="value"` lines of `rws.variables`
    (all in the repository root, next to src/)
"""
import os, re, shlex
from gen_tables import ExtractError, read, fn_body, lean_bytes

EP = 'entry_point/mod.rs'
CL = 'entry_point/command_line_args/mod.rs'
EV = 'entry_point/environment_variables/mod.rs'
CF = 'entry_point/config_file/mod.rs'


def consts(text):
    strs, nums = {}, {}
    for m in re.finditer(r'pub const (\w+)\s*:\s*&\'static str\s*=\s*"((?:[^"\\]|\\.)*)"\s*;', text):
        if '\\' in m.group(2):
            raise ExtractError(f'{EP}: escape sequence in constant {m.group(1)}')
        strs[m.group(1)] = m.group(2)
    for m in re.finditer(r'pub const (\w+)\s*:\s*&\'static i(?:32|64)\s*=\s*&(-?\d+)\s*;', text):
        nums[m.group(1)] = int(m.group(2))
    return strs, nums


def flag_rows(src, strs):
    body = fn_body(read(src, CL), 'get_command_line_arg_list', CL)
    rows = []
    pat = re.compile(r'CommandLineArgument\s*\{\s*short_form:\s*"([^"\\]*)"\.to_string\(\),\s*'
                     r'long_form:\s*"([^"\\]*)"\.to_string\(\),\s*'
                     r'environment_variable:\s*Config::(\w+)\.to_string\(\),\s*'
                     r'_hint:[^}]*\}', re.S)
    for m in pat.finditer(body):
        short, long_, cname = m.groups()
        if cname not in strs:
            raise ExtractError(f'{CL}: Config::{cname} is not a string constant of {EP}')
        rows.append((short, long_, strs[cname]))
    n_struct = len(re.findall(r'CommandLineArgument\s*\{', body))
    n_push = len(re.findall(r'argument_list\.push\(argument\)', body))
    if not rows or n_struct != len(rows) or n_push != len(rows):
        raise ExtractError(f'{CL}: get_command_line_arg_list: {n_struct} struct literals, {n_push} pushes, '
                           f'{len(rows)} rows recognised')
    for s, l, v in rows:
        for x in (s, l, v):
            if not x or '=' in x or '\0' in x:
                raise ExtractError(f'{CL}: empty flag/variable or one containing "="')
    # the matcher itself: "-" + short, "--" + long, compared with eq, first match wins
    parse = fn_body(read(src, CL), '_parse', CL)
    need = [r'split_once\(\'=\'\)', r'\["-",\s*&short_form\]\.join\(""\)', r'\["--",\s*&long_form\]\.join\(""\)',
            r'parameter\.eq\(_param_short_form\.as_str\(\)\)\s*\|\|\s*parameter\.eq\(_param_long_form\.as_str\(\)\)',
            r'\.find\(', r'set_environment_variable\(predefined_argument,\s*value\.to_string\(\)\)']
    for n in need:
        if not re.search(n, parse):
            raise ExtractError(f'{CL}: _parse no longer has the modelled shape (missing /{n}/)')
    setter = fn_body(read(src, CL), 'set_environment_variable', CL)
    if not re.search(r'env::set_var\(&argument\.environment_variable,\s*&value\)', setter):
        raise ExtractError(f'{CL}: set_environment_variable no longer sets argument.environment_variable to value')
    return rows


def default_rows(text, strs):
    body = fn_body(text, 'set_default_values', EP)
    rows = []
    pat = re.compile(r'let is_var_set = env::var\(Config::(\w+)\)\.is_ok\(\);\s*'
                     r'if !is_var_set \{\s*env::set_var\(Config::(\w+),\s*Config::(\w+)\);', re.S)
    for m in pat.finditer(body):
        a, b, d = m.groups()
        if a != b:
            raise ExtractError(f'{EP}: set_default_values tests {a} but sets {b}')
        if a not in strs or d not in strs:
            raise ExtractError(f'{EP}: set_default_values: unresolved constant {a} / {d}')
        rows.append((strs[a], strs[d]))
    if len(rows) != len(re.findall(r'env::set_var\(', body)) or len(rows) != len(re.findall(r'env::var\(', body)):
        raise ExtractError(f'{EP}: set_default_values: statements outside the recognised "if unset then set default" shape')
    if re.search(r'remove_var', body):
        raise ExtractError(f'{EP}: set_default_values removes variables')
    return rows


def getters(text, strs, nums):
    b1 = fn_body(text, 'get_ip_port_thread_count', EP)
    b2 = fn_body(text, 'get_request_allocation_size', EP)
    def one(body, fn, local, init_re, var_local, parse_re):
        m = re.search(r'let mut ' + local + r'\s*:\s*\w+\s*=\s*' + init_re + r'\s*;', body)
        if not m: raise ExtractError(f'{EP}: {fn}: initial value of {local} not recognised')
        v = re.search(r'let ' + var_local + r'\s*=\s*env::var\(Config::(\w+)\);', body)
        if not v or v.group(1) not in strs: raise ExtractError(f'{EP}: {fn}: variable read into {var_local} not recognised')
        if parse_re and not re.search(parse_re, body):
            raise ExtractError(f'{EP}: {fn}: parse of {local} not recognised')
        return m.group(1), strs[v.group(1)]
    ipd, ipv = one(b1, 'get_ip_port_thread_count', 'ip', r'Config::(\w+)\.to_string\(\)', 'boxed_ip', None)
    pd, pv = one(b1, 'get_ip_port_thread_count', 'port', r'\*Config::(\w+)', 'boxed_port', r'_port\.parse::<i32>\(\)')
    td, tv = one(b1, 'get_ip_port_thread_count', 'thread_count', r'\*Config::(\w+)', 'boxed_thread_count', r'_thread_count\.parse\(\)')
    ad, av = one(b2, 'get_request_allocation_size', 'request_allocation_size', r'\*Config::(\w+)', 'boxed_port', r'_request_allocation_size\.parse::<i64>\(\)')
    if ipd not in strs: raise ExtractError(f'{EP}: ip fallback {ipd} unresolved')
    for d in (pd, td, ad):
        if d not in nums: raise ExtractError(f'{EP}: numeric fallback {d} unresolved')
    if not re.search(r'->\s*\(String,\s*i32,\s*i32\)', text) or not re.search(r'fn get_request_allocation_size\(\)\s*->\s*i64', text):
        raise ExtractError(f'{EP}: getter return types changed')
    return dict(ip=(ipv, strs[ipd]), port=(pv, nums[pd]), threads=(tv, nums[td]), alloc=(av, nums[ad]))


def check_shapes(src, text):
    boot = fn_body(text, 'bootstrap', EP)
    calls = re.findall(r'(\w+)\s*\(([^)]*)\)\s*;', boot)
    want = [('read_system_environment_variables', ''), ('override_environment_variables_from_config', 'None'),
            ('override_environment_variables_from_command_line_args', '')]
    # NOTE: the ORDER of the three calls is model logic (hand-written, tied by the differential run),
    # only the set of calls is asserted here.
    if sorted(calls) != sorted(want):
        raise ExtractError(f'{EP}: bootstrap no longer consists of the three modelled calls: {calls}')
    ev = fn_body(read(src, EV), 'read_system_environment_variables', EV)
    if re.search(r'set_var|remove_var', ev):
        raise ExtractError(f'{EV}: read_system_environment_variables writes the environment (model: identity)')
    cf = read(src, CF)
    ov = fn_body(cf, 'override_environment_variables_from_config', CF)
    if '"/rws.config.toml"' not in ov:
        raise ExtractError(f'{CF}: config file name changed')


def doc_tables(src, rows):
    root = os.path.dirname(os.path.abspath(src.rstrip('/')))
    def rd(name):
        try: return open(os.path.join(root, name), encoding='utf-8').read()
        except OSError as e: raise ExtractError(f'{name}: {e}')
    cl = rd('rws.command_line')
    lines = [l for l in cl.split('\n') if l.strip() and not l.lstrip().startswith('#')]
    if len(lines) != 2 or not all(l.startswith('rws ') for l in lines):
        raise ExtractError('rws.command_line: expected exactly two example command lines starting with "rws "')
    cmds = [shlex.split(l) for l in lines]
    toml = rd('rws.config.toml')
    var = rd('rws.variables')
    exports = []
    for l in var.split('\n'):
        l = l.strip()
        if not l or l.startswith('#'): continue
        m = re.fullmatch(r'export (\w+)="([^"\\]*)"', l)
        if not m: raise ExtractError(f'rws.variables: line not of the form export NAME="value": {l!r}')
        exports.append((m.group(1), m.group(2)))
    return cmds, toml, exports


def generate(src):
    text = read(src, EP)
    strs, nums = consts(text)
    rows = flag_rows(src, strs)
    defaults = default_rows(text, strs)
    g = getters(text, strs, nums)
    check_shapes(src, text)
    cmds, toml, exports = doc_tables(src, rows)
    L = []
    L.append('/-- one row of `CommandLineArgument::get_command_line_arg_list()` -/')
    L.append('structure FlagRow where\n  short : List UInt8\n  long : List UInt8\n  var : List UInt8\nderiving Repr, DecidableEq, BEq\n')
    L.append(f'/-- the flag table in source order ({len(rows)} rows): short form, long form, environment variable -/')
    L.append('def flagTable : List FlagRow := [')
    body = []
    for i, (s, l, v) in enumerate(rows):
        sep = ',' if i + 1 < len(rows) else ''
        body.append(f'  ⟨{lean_bytes(s)}, {lean_bytes(l)}, {lean_bytes(v)}⟩{sep}  -- -{s} --{l} {v}')
    L.append('\n'.join(body))
    L.append(']\n')
    L.append(f'/-- `set_default_values`: (variable, default) in the order the source installs them ({len(defaults)} pairs) -/')
    L.append('def defaults : List (List UInt8 × List UInt8) := [')
    body = []
    for i, (v, d) in enumerate(defaults):
        sep = ',' if i + 1 < len(defaults) else ''
        body.append(f'  ({lean_bytes(v)}, {lean_bytes(d)}){sep}  -- {v} = "{d}"')
    L.append('\n'.join(body))
    L.append(']\n')
    L.append('/-- typed getters: the variable each reads and the fallback used when it is unset/unparsable -/')
    L.append(f'def ipVar : List UInt8 := {lean_bytes(g["ip"][0])}')
    L.append(f'def ipFallback : List UInt8 := {lean_bytes(g["ip"][1])}')
    L.append(f'def portVar : List UInt8 := {lean_bytes(g["port"][0])}')
    L.append(f'def portFallback : Int := {g["port"][1]}')
    L.append(f'def threadCountVar : List UInt8 := {lean_bytes(g["threads"][0])}')
    L.append(f'def threadCountFallback : Int := {g["threads"][1]}')
    L.append(f'def allocVar : List UInt8 := {lean_bytes(g["alloc"][0])}')
    L.append(f'def allocFallback : Int := {g["alloc"][1]}\n')
    D = []
    D.append('/-- `rws.command_line`: the arguments of the two documented example invocations (without `rws`) -/')
    for k, c in enumerate(cmds):
        D.append(f'def docCommandLine{k+1} : List (List UInt8) := [')
        D.append(',\n'.join(f'  {lean_bytes(a)}' for a in c[1:]))
        D.append(']  -- ' + ' '.join(c[1:])[:60] + ' …\n')
    D.append('/-- the example `rws.config.toml` of the repository root, byte for byte -/')
    D.append(f'def docConfigToml : List UInt8 := {lean_bytes(toml)}\n')
    D.append('/-- `rws.variables`: NAME, value of every `export NAME="value"` line -/')
    D.append('def docVariables : List (List UInt8 × List UInt8) := [')
    D.append(',\n'.join(f'  ({lean_bytes(n)}, {lean_bytes(v)})' for n, v in exports))
    D.append(']\n')
    # `Server::setup`: the calls that build the effective configuration, in source order (the model's `startup` is
    # `bootstrap ∘ setDefaults`; the harness runs the same two calls itself, so their ORDER inside setup is read here)
    SV = 'server/mod.rs'
    setup = fn_body(read(src, SV), 'setup', SV)
    calls = [c for c in re.findall(r'\b(set_default_values|bootstrap|override_environment_variables_from_\w+|read_system_environment_variables)\s*\(', setup)]
    if 'set_default_values' not in calls or 'bootstrap' not in calls:
        raise ExtractError(f'{SV}: Server::setup no longer calls set_default_values and bootstrap directly: {calls}')
    L.append('/-- the configuration calls of `Server::setup`, in source order -/')
    L.append('def setupCalls : List String := [' + ', '.join('"%s"' % c for c in calls) + ']\n')
    return [('ConfigTab', '\n'.join(L)), ('ConfigDoc', '\n'.join(D))]
