#!/bin/bash
# tools_slice.sh <ID> — scratch workspace for developing one property slice:
#   /tmp/s/<ID>/verif  (copy of /verif, warm build dirs)   /tmp/s/<ID>/repo (git worktree of /repo, branch slice-<ID>)
set -e
ID=$1
mkdir -p /tmp/s/$ID
rm -rf /tmp/s/$ID/verif
cp -r /verif /tmp/s/$ID/verif
rm -rf /tmp/s/$ID/verif/.git
if [ ! -d /tmp/s/$ID/repo ]; then
  git -C /repo worktree add -q -b slice-$ID /tmp/s/$ID/repo HEAD
fi
echo "export RWS_SRC=/tmp/s/$ID/repo/src" > /tmp/s/$ID/env.sh
echo ready /tmp/s/$ID
