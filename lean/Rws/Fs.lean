/-
  Rws.Fs — the file system as a PARAMETER of the server model (DESIGN.md 2.1).

  A tree is a flat association list from absolute locations (component lists below the
  model's root) to entries; directories are implied by the entries below them (the harness
  creates parents the same way) or listed explicitly (empty directories).  OS path
  resolution is the lexical walk `Fs.walk`: split on `/`, skip empty components and `.`,
  pop on `..`, follow symbolic links (relative targets from the link's directory, absolute
  ones from the root) with a fuel that plays the role of ELOOP.  The functions the server
  calls (`metadata`, `File::open`, `symlink_metadata`, `read_link`, whole-file read) are total
  functions of the tree.

  Assumed, not verified: Linux resolves paths as `walk` does on trees without symlink loops;
  a regular file followed by further components (even an empty one: trailing slash) is ENOTDIR.
-/
import Rws.Prim
namespace Rws.Fs
open Rws

abbrev Comp := Bytes
abbrev Loc := List Comp

inductive Entry where
  | file : Bytes → Entry
  | dir  : Entry
  | link : Bytes → Entry
deriving Repr, DecidableEq

structure Tree where
  entries : List (Loc × Entry)
deriving Repr

/-- components of a path string: `split('/')` -/
def comps (path : Bytes) : List Comp := splitAll [47] path

def Tree.get (t : Tree) (l : Loc) : Option Entry :=
  match t.entries.lookup l with
  | some e => some e
  | none =>
    if l.isEmpty || t.entries.any (fun p => l.isPrefixOf p.1 && l.length < p.1.length)
    then some .dir else none

/-- lexical path walk from location `cur` over the remaining components.
    `followLast = false` gives `lstat` semantics for the final component. -/
def walk (t : Tree) (followLast : Bool) : Nat → Loc → List Comp → Option Loc
  | 0, _, _ => none
  | _ + 1, cur, [] => some cur
  | fuel + 1, cur, c :: rest =>
    if c = [] || c = [46] then walk t followLast fuel cur rest
    else if c = [46, 46] then walk t followLast fuel cur.dropLast rest
    else
      let cand := cur ++ [c]
      match t.get cand with
      | none => none
      | some (.file _) => if rest.isEmpty then some cand else none
      | some .dir => walk t followLast fuel cand rest
      | some (.link target) =>
        if rest.isEmpty && !followLast then some cand
        else walk t followLast fuel (if target.head? = some 47 then [] else cur) (comps target ++ rest)

def fuelFor (path : Bytes) : Nat := 2 * path.length + 4096

/-- resolve an absolute path string (follows every link) -/
def locate (t : Tree) (path : Bytes) : Option Loc := walk t true (fuelFor path) [] (comps path)

structure Meta where
  isDir  : Bool
  isFile : Bool
  len    : Nat
deriving Repr, DecidableEq

/-- `std::fs::metadata(path)` (follows links); `none` = Err -/
def metadata (t : Tree) (path : Bytes) : Option Meta :=
  match locate t path with
  | none => none
  | some l =>
    match t.get l with
    | some (.file c) => some ⟨false, true, c.length⟩
    | some .dir      => some ⟨true, false, 4096⟩
    | _              => none

/-- `File::open(path).is_ok()` for reading: on Linux opening a directory read-only succeeds -/
def canOpen (t : Tree) (path : Bytes) : Bool := (metadata t path).isSome

/-- the whole content of the regular file at `path` together with the location it came from
    (ghost: which file's bytes these are) -/
def readFile (t : Tree) (path : Bytes) : Option (Loc × Bytes) :=
  match locate t path with
  | none => none
  | some l =>
    match t.get l with
    | some (.file c) => some (l, c)
    | _ => none

/-- `symlink_metadata(path).file_type().is_symlink()`; `none` = Err (path does not exist) -/
def isSymlink (t : Tree) (path : Bytes) : Option Bool :=
  match walk t false (fuelFor path) [] (comps path) with
  | none => none
  | some l =>
    match t.entries.lookup l with
    | some (.link _) => some true
    | _ => some false

/-- `read_link(path)` -/
def readLink (t : Tree) (path : Bytes) : Option Bytes :=
  match walk t false (fuelFor path) [] (comps path) with
  | none => none
  | some l =>
    match t.entries.lookup l with
    | some (.link target) => some target
    | _ => none

/-- the absolute path string of a location -/
def pathOf (l : Loc) : Bytes := l.foldl (fun acc c => acc ++ [47] ++ c) []

/-- no symbolic link anywhere at or below `root` -/
def noLinkUnder (t : Tree) (root : Loc) : Bool :=
  t.entries.all (fun p => match p.2 with
    | .link _ => !(root.isPrefixOf p.1)
    | _ => true)

end Rws.Fs
