/-
  Rws.ContentDisposition — model of `src/header/content_disposition/mod.rs`.

  `parse`      ↔ `ContentDisposition::parse(raw: &str) -> Result<ContentDisposition, String>`
  `property`   ↔ the block the function repeats for `parts.get(1)` and `parts.get(2)`:
                 `split_once("=")`, `key.trim()`, `key == "filename"` / `key == "name"`,
                 `value.to_string().replace("\"", "")`
  `asString`   ↔ `ContentDisposition::as_string(&self) -> Result<String, String>`
  `CD`         ↔ `struct ContentDisposition { disposition_type, field_name, file_name }`

  The function, statement by statement (quirks included):

  * `raw.split(";")` — on EVERY semicolon, also one inside a quoted value; Rust's `split` yields
    at least one piece, so the `parts.len() == 0` branch is dead and `parts.get(0).unwrap()` cannot
    panic (`splitAll` returns a non-empty list: the model keeps the `[]` case as the panic site so
    that the totality theorem shows it unreachable instead of assuming it);
  * the first piece is compared, UNtrimmed and case-sensitively, with the three type words
    (regenerated from `DISPOSITION_TYPE`: `Rws.Gen.Cdisp`); anything else is an error;
  * second piece: no `=` → error; key trimmed with `str::trim` (Unicode `White_Space`,
    `Rws.Utf8.trim`), value NOT trimmed, every `"` removed; a key that is neither `filename` nor
    `name` is silently ignored;
  * third piece: the same, but an unknown key is an error; `filename` / `name` given twice: the
    later one wins; pieces after the third are ignored;
  * `form-data` without `name` is an error.

  Rust `&str` / `String` are UTF-8 byte lists.  Splitting on the ASCII bytes `;` `=` `"` and
  trimming by `Rws.Utf8.trim` are exact on valid UTF-8 (the only inputs a `&str` can hold): an
  ASCII byte never occurs inside a multi-byte sequence.  Error texts are dropped.
-/
import Rws.Prim
import Rws.Utf8
import Rws.Gen.CdispTab
import Rws.Gen.HeaderTab

namespace Rws.ContentDisposition
open Rws

structure CD where
  dispositionType : Bytes
  fieldName : Option Bytes
  fileName : Option Bytes
deriving Repr, DecidableEq, Inhabited

/-- `value.to_string().replace("\"", "")` -/
def unquote (v : Bytes) : Bytes := v.filter (fun b => b != 34)

/-- one `parts.get(i)` block: `none` when the element has no `=`; otherwise the updated
    `(filename, fieldname)` pair and whether the key was one of the two known words -/
def property (elem : Bytes) (filename fieldname : Option Bytes) :
    Option (Option Bytes × Option Bytes × Bool) :=
  match splitOnce elem [61] with
  | none => none
  | some (key, value) =>
    let key := Utf8.trim key
    let isFilename := key == Gen.Cdisp.keyFilename
    let isName := key == Gen.Cdisp.keyName
    let filename := if isFilename then some (unquote value) else filename
    let fieldname := if isName then some (unquote value) else fieldname
    some (filename, fieldname, isFilename || isName)

/-- the tail of `parse` after the type word was accepted -/
def finish (dtype : Bytes) (filename fieldname : Option Bytes) : Outcome CD :=
  if dtype == Gen.Cdisp.formData && fieldname.isNone then .err
  else .ok ⟨dtype, fieldname, filename⟩

/-- `ContentDisposition::parse` -/
def parse (raw : Bytes) : Outcome CD :=
  match splitAll [59] raw with
  | [] => .panic "header/content_disposition/mod.rs:97"
  | dtype :: rest =>
    if dtype != Gen.Cdisp.inline && dtype != Gen.Cdisp.attachment && dtype != Gen.Cdisp.formData then .err
    else
      match rest with
      | [] => finish dtype none none
      | second :: rest2 =>
        match property second none none with
        | none => .err
        | some (filename, fieldname, _) =>
          match rest2 with
          | [] => finish dtype filename fieldname
          | third :: _ =>
            match property third filename fieldname with
            | none => .err
            | some (filename, fieldname, known) =>
              if !known then .err else finish dtype filename fieldname

/-- `"{}: {}"` with the header name constant -/
def headLine (dtype : Bytes) : Bytes := Gen.Hdr.hContentDisposition ++ [58, 32] ++ dtype

/-- `; name="…"` -/
def nameParam (v : Bytes) : Bytes := [59, 32, 110, 97, 109, 101, 61, 34] ++ v ++ [34]
/-- `; filename="…"` -/
def filenameParam (v : Bytes) : Bytes := [59, 32, 102, 105, 108, 101, 110, 97, 109, 101, 61, 34] ++ v ++ [34]

/-- the `if is_inline { … }` block: `formatted` after it -/
def stageInline (c : CD) (formatted : Bytes) : Outcome Bytes :=
  if c.dispositionType == Gen.Cdisp.inline then
    if c.fileName.isSome then .err
    else if c.fieldName.isSome then .err
    else .ok (headLine c.dispositionType)
  else .ok formatted

/-- the `if is_attachment { … }` block -/
def stageAttachment (c : CD) (formatted : Bytes) : Outcome Bytes :=
  if c.dispositionType == Gen.Cdisp.attachment then
    if c.fieldName.isSome then .err
    else match c.fileName with
      | some f => .ok (headLine c.dispositionType ++ filenameParam f)
      | none => .ok (headLine c.dispositionType)
  else .ok formatted

/-- the `if is_form_data { … }` block -/
def stageFormData (c : CD) (formatted : Bytes) : Outcome Bytes :=
  if c.dispositionType == Gen.Cdisp.formData then
    match c.fieldName with
    | none => .err
    | some n =>
      match c.fileName with
      | some f => .ok (headLine c.dispositionType ++ nameParam n ++ filenameParam f)
      | none => .ok (headLine c.dispositionType ++ nameParam n)
  else .ok formatted

/-- `ContentDisposition::as_string`: `formatted = ""`, then the three independent `if` blocks in
    source order; a type that is none of the three words answers `Ok("")` -/
def asString (c : CD) : Outcome Bytes :=
  match stageInline c [] with
  | .ok f1 =>
    match stageAttachment c f1 with
    | .ok f2 => stageFormData c f2
    | .err => .err
    | .panic s => .panic s
  | .err => .err
  | .panic s => .panic s

end Rws.ContentDisposition
