/-
  Rws.ContentDisposition — model of `ContentDisposition::parse`
  (src/header/content_disposition/mod.rs): split on `;`, the first piece is the type
  (inline | attachment | form-data, compared exactly), the second and third pieces are
  `key=value` with `key.trim()` ∈ {filename, name} and quotation marks removed from the value.
-/
import Rws.Prim
import Rws.Utf8
namespace Rws.ContentDisposition
open Rws

structure CD where
  dispositionType : Bytes
  fieldName : Option Bytes
  fileName  : Option Bytes
deriving Repr, DecidableEq

def tInline : Bytes := [105, 110, 108, 105, 110, 101]
def tAttachment : Bytes := [97, 116, 116, 97, 99, 104, 109, 101, 110, 116]
def tFormData : Bytes := [102, 111, 114, 109, 45, 100, 97, 116, 97]
def kFilename : Bytes := [102, 105, 108, 101, 110, 97, 109, 101]
def kName : Bytes := [110, 97, 109, 101]

def unquoteAll (v : Bytes) : Bytes := v.filter (· != 34)

/-- one `key=value` piece: `none` = no `=`; otherwise (isFilename, isName, value without quotes) -/
def piece (p : Bytes) : Option (Bool × Bool × Bytes) :=
  match splitOnce p [61] with
  | none => none
  | some (k, v) =>
    let key := Utf8.trim k
    some (key = kFilename, key = kName, unquoteAll v)

def parse (raw : Bytes) : Outcome CD :=
  let parts := splitAll [59] raw
  match parts with
  | [] => .err
  | ty :: rest =>
    if ty ≠ tInline && ty ≠ tAttachment && ty ≠ tFormData then .err
    else
      -- second element
      let s2 : Outcome (Option Bytes × Option Bytes) :=
        match rest[0]? with
        | none => .ok (none, none)
        | some p => match piece p with
          | none => .err
          | some (isF, isN, v) => .ok (if isF then some v else none, if isN then some v else none)
      match s2 with
      | .err => .err
      | .panic s => .panic s
      | .ok (fn1, nm1) =>
        let s3 : Outcome (Option Bytes × Option Bytes) :=
          match rest[1]? with
          | none => .ok (fn1, nm1)
          | some p => match piece p with
            | none => .err
            | some (isF, isN, v) =>
              if !isF && !isN then .err
              else .ok (if isF then some v else fn1, if isN then some v else nm1)
        match s3 with
        | .err => .err
        | .panic s => .panic s
        | .ok (fn, nm) =>
          if ty = tFormData && nm = none then .err
          else .ok ⟨ty, nm, fn⟩

end Rws.ContentDisposition
