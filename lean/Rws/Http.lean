/-
  Rws.Http — the data types shared by the request / response / range / multipart / server
  models.  Field for field the Rust structs (`src/header/mod.rs`, `src/request/mod.rs`,
  `src/range/mod.rs`, `src/response/mod.rs`, `src/body/multipart_form_data/mod.rs`).
  Rust `String` fields are UTF-8 byte lists.
-/
import Rws.Prim
namespace Rws

structure Header where
  name  : Bytes
  value : Bytes
deriving Repr, DecidableEq, Inhabited

structure Request where
  method  : Bytes
  uri     : Bytes          -- request_uri
  version : Bytes          -- http_version
  headers : List Header
  body    : Bytes
deriving Repr, DecidableEq, Inhabited

/-- `Range { start: u64, end: u64 }` -/
structure Range where
  start : Nat
  stop  : Nat              -- `end` (inclusive in all uses)
deriving Repr, DecidableEq, Inhabited

structure ContentRange where
  unit        : Bytes
  range       : Range
  size        : Bytes      -- a String in the Rust code
  body        : Bytes
  contentType : Bytes
deriving Repr, DecidableEq, Inhabited

structure Response where
  version : Bytes
  status  : Int            -- i16
  reason  : Bytes
  headers : List Header
  parts   : List ContentRange   -- content_range_list
deriving Repr, DecidableEq, Inhabited

/-- `Part` of multipart/form-data -/
structure Part where
  headers : List Header
  body    : Bytes
deriving Repr, DecidableEq, Inhabited

/-- `x.name.to_lowercase() == name.to_lowercase()` restricted to ASCII case folding -/
def eqIgnoreAsciiCase (a b : Bytes) : Bool := a.map asciiLower == b.map asciiLower

end Rws
