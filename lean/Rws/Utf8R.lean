/-
  Rws.Utf8R — the Unicode-aware pieces of Rust std that the response parser applies to
  wire data, modelled on UTF-8 byte lists (slice C15; to be unified with the other slices'
  UTF-8 file).

  `valid`      ↔ `String::from_utf8(..).is_ok()`  (RFC 3629: no overlongs, no surrogates, ≤ U+10FFFF)
  `wsLen`      ↔ byte length of a leading `char::is_whitespace` scalar (Unicode White_Space:
                 U+0009..000D, 0020, 0085, 00A0, 1680, 2000..200A, 2028, 2029, 202F, 205F, 3000)
  `allWs`      ↔ `s.trim().len() == 0`
  `trim`       ↔ `str::trim`
  `upperCmp`   ↔ `str::to_uppercase` *as far as a comparison with an ASCII text can see*:
                 ASCII letters are upper-cased, the ten non-ASCII scalars whose upper-case
                 image is pure ASCII (ß→SS, ı→I, ſ→S, ﬀ→FF, ﬁ→FI, ﬂ→FL, ﬃ→FFI, ﬄ→FFL, ﬅ→ST,
                 ﬆ→ST) are replaced by that image, every other non-ASCII scalar is left as it
                 is (its real upper-case image contains a non-ASCII scalar, so the comparison
                 with an ASCII text fails either way).
  `lowerCmp`   ↔ `str::to_lowercase`, same idea: ASCII letters are lower-cased; the only
                 non-ASCII scalar with a pure-ASCII lower-case image is U+212A KELVIN SIGN → `k`.
  All functions are applied to byte lists for which `valid` holds.
-/
import Rws.Prim
namespace Rws.Utf8R
open Rws

def isCont (b : UInt8) : Bool := 0x80 ≤ b && b ≤ 0xBF

/-- what a lead byte announces: number of continuation bytes and the range allowed for the
    first of them (RFC 3629 table: no overlongs, no surrogates, nothing above U+10FFFF) -/
def lead (b0 : UInt8) : Option (Nat × UInt8 × UInt8) :=
  if b0 < 0x80 then some (0, 0, 0)
  else if 0xC2 ≤ b0 && b0 ≤ 0xDF then some (1, 0x80, 0xBF)
  else if b0 = 0xE0 then some (2, 0xA0, 0xBF)
  else if (0xE1 ≤ b0 && b0 ≤ 0xEC) || b0 = 0xEE || b0 = 0xEF then some (2, 0x80, 0xBF)
  else if b0 = 0xED then some (2, 0x80, 0x9F)
  else if b0 = 0xF0 then some (3, 0x90, 0xBF)
  else if 0xF1 ≤ b0 && b0 ≤ 0xF3 then some (3, 0x80, 0xBF)
  else if b0 = 0xF4 then some (3, 0x80, 0x8F)
  else none

/-- exactly what `String::from_utf8` accepts -/
def valid : Bytes → Bool
  | [] => true
  | b0 :: rest =>
    match lead b0 with
    | some (0, _, _) => valid rest
    | some (1, lo, hi) =>
      match rest with
      | b1 :: r => lo ≤ b1 && b1 ≤ hi && valid r
      | _ => false
    | some (2, lo, hi) =>
      match rest with
      | b1 :: b2 :: r => lo ≤ b1 && b1 ≤ hi && isCont b2 && valid r
      | _ => false
    | some (3, lo, hi) =>
      match rest with
      | b1 :: b2 :: b3 :: r => lo ≤ b1 && b1 ≤ hi && isCont b2 && isCont b3 && valid r
      | _ => false
    | _ => false

/-- UTF-8 encodings of the non-ASCII White_Space scalars -/
def wsSeqs : List Bytes := [
  [0xC2, 0x85], [0xC2, 0xA0], [0xE1, 0x9A, 0x80],
  [0xE2, 0x80, 0x80], [0xE2, 0x80, 0x81], [0xE2, 0x80, 0x82], [0xE2, 0x80, 0x83], [0xE2, 0x80, 0x84],
  [0xE2, 0x80, 0x85], [0xE2, 0x80, 0x86], [0xE2, 0x80, 0x87], [0xE2, 0x80, 0x88], [0xE2, 0x80, 0x89],
  [0xE2, 0x80, 0x8A], [0xE2, 0x80, 0xA8], [0xE2, 0x80, 0xA9], [0xE2, 0x80, 0xAF], [0xE2, 0x81, 0x9F],
  [0xE3, 0x80, 0x80]]

/-- byte length of the white-space scalar the text starts with; 0 when it does not start with one -/
def wsLen (s : Bytes) : Nat :=
  match s with
  | [] => 0
  | b :: _ =>
    if isAsciiWs b then 1
    else match wsSeqs.find? (fun q => q.isPrefixOf s) with
      | some q => q.length
      | none => 0

/-- the same, looking at the end of the text (argument: the text reversed) -/
def wsLenRev (r : Bytes) : Nat :=
  match r with
  | [] => 0
  | b :: _ =>
    if isAsciiWs b then 1
    else match wsSeqs.find? (fun q => q.reverse.isPrefixOf r) with
      | some q => q.length
      | none => 0

def allWsAux : Nat → Bytes → Bool
  | _, [] => true
  | 0, _ :: _ => false
  | f + 1, s => let n := wsLen s; if n = 0 then false else allWsAux f (s.drop n)

/-- `s.trim().len() == 0` -/
def allWs (s : Bytes) : Bool := allWsAux s.length s

def trimStartAux : Nat → Bytes → Bytes
  | 0, s => s
  | f + 1, s => let n := wsLen s; if n = 0 then s else trimStartAux f (s.drop n)

def trimEndRevAux : Nat → Bytes → Bytes
  | 0, r => r
  | f + 1, r => let n := wsLenRev r; if n = 0 then r else trimEndRevAux f (r.drop n)

def trimStart (s : Bytes) : Bytes := trimStartAux s.length s
def trimEnd (s : Bytes) : Bytes := (trimEndRevAux s.length s.reverse).reverse
/-- `str::trim` -/
def trim (s : Bytes) : Bytes := trimEnd (trimStart s)

/-- non-ASCII scalars whose `to_uppercase` image is pure ASCII -/
def upSpecial : List (Bytes × Bytes) := [
  ([0xC3, 0x9F], [83, 83]), ([0xC4, 0xB1], [73]), ([0xC5, 0xBF], [83]),
  ([0xEF, 0xAC, 0x80], [70, 70]), ([0xEF, 0xAC, 0x81], [70, 73]), ([0xEF, 0xAC, 0x82], [70, 76]),
  ([0xEF, 0xAC, 0x83], [70, 70, 73]), ([0xEF, 0xAC, 0x84], [70, 70, 76]),
  ([0xEF, 0xAC, 0x85], [83, 84]), ([0xEF, 0xAC, 0x86], [83, 84])]

def upperCmpAux : Nat → Bytes → Bytes
  | _, [] => []
  | 0, _ :: _ => []
  | f + 1, b :: t =>
    if b < 0x80 then asciiUpper b :: upperCmpAux f t
    else match upSpecial.find? (fun p => p.1.isPrefixOf (b :: t)) with
      | some p => p.2 ++ upperCmpAux f ((b :: t).drop p.1.length)
      | none => b :: upperCmpAux f t

def upperCmp (s : Bytes) : Bytes := upperCmpAux s.length s

def lowerCmpAux : Nat → Bytes → Bytes
  | _, [] => []
  | 0, _ :: _ => []
  | f + 1, b :: t =>
    if b < 0x80 then asciiLower b :: lowerCmpAux f t
    else if ([0xE2, 0x84, 0xAA] : Bytes).isPrefixOf (b :: t) then 107 :: lowerCmpAux f (t.drop 2)
    else b :: lowerCmpAux f t

def lowerCmp (s : Bytes) : Bytes := lowerCmpAux s.length s

end Rws.Utf8R
