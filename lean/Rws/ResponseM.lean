/-
  Rws.ResponseM — model of the response serialisers and the response parser (C15).

  src/response/mod.rs
    `generateBody`            ↔ `Response::generate_body`
    `generateResponse`        ↔ `Response::generate_response(response, request)` (associated fn,
                                 the one the server uses; HEAD and OPTIONS get no body)
    `generate`                ↔ `Response::generate(&mut self)` (instance method; returns the
                                 bytes AND the mutated `self`: the Content-Type header is pushed
                                 onto `self` instead of the clone — F18, open finding)
    `parseStatusLine`         ↔ `Response::_parse_http_version_status_code_reason_phrase_string`
                                 over the regenerated `Gen.statusTable` / `Gen.respVersionList`
    `parseHeaderString`       ↔ `Response::parse_http_response_header_string`
    `getHeader`               ↔ `Response::get_header` / `_get_header` (exact name match, first hit)
    `isMultipartCT`           ↔ `Response::_is_multipart_byteranges_content_type`
    `parseLoop` / `finishBody` / `parse` ↔ `Response::parse_raw_response_via_cursor` / `Response::parse`
  src/range/mod.rs
    `parseContentRangeRaw`    ↔ `Range::_parse_raw_content_range_header_value`
    `parseContentRangeValue`  ↔ `Range::_parse_content_range_header_value`
    `bodyLoop`, `partStep`, `parseMultipartBodyWithBoundary`
                              ↔ `Range::parse_multipart_body_with_boundary` (`parse_line_as_bytes`
                                 = `readLine`, `convert_bytes_array_to_string` = `Utf8R.valid`)
  src/body/multipart_form_data/mod.rs
    `extractBoundary`         ↔ `FormMultipartData::extract_boundary`
  src/ext/string_ext/mod.rs
    `truncateCrLf`            ↔ `StringExt::truncate_new_line_carriage_return`

  The tree modelled is the one with the three `fix:` commits of this slice:
  F20 (`Content-Length: x` is an error, was `unwrap` panic response/mod.rs:856), F19 (a single
  part reads range and size back from `Content-Range`), and the part-header repair (a
  `Content-Range` part line without ": " is an error, was index panic response/mod.rs:477).
  No panic site is left on the path of `Response::parse`; the functions still return
  `Outcome` and the theorem `C15_parse_total` states that `panic` is never produced.

  Deliberate abstractions (each sound for the comparison, each exercised by the generators):
  * The cursor is the list of bytes not yet read; `read_until(b'\n')` is `Prim.readLine`;
    reads from a `Cursor<&[u8]>` cannot fail, so the `is_err()` branches after them are dropped.
  * `total_bytes`/`bytes_read` are `i32` in Rust (`len as i32`, checked additions); the model
    uses `Nat`.  Equal for inputs shorter than 2 GiB.
  * `to_uppercase` / `to_lowercase` / `trim` are modelled on UTF-8 bytes by `Utf8R.upperCmp`,
    `Utf8R.lowerCmp`, `Utf8R.trim`, `Utf8R.allWs` (see that file: exact as far as a comparison
    with ASCII text / a split on ASCII delimiters can observe).
  * `content_length` (parsed, passed along, never read) is not carried; only the success of
    its `parse::<usize>()` is modelled.
  * Error texts are dropped (`err`).
-/
import Rws.Prim
import Rws.Http
import Rws.Utf8R
import Rws.Gen.StatusTab
import Rws.Multipart

namespace Rws.Resp
open Rws

/-! ## small std pieces -/

/-- `i16::to_string` / `i64::to_string` -/
def intToDec (i : Int) : Bytes :=
  if i < 0 then 45 :: natToDec (-i).toNat else natToDec i.toNat

/-- `str::parse::<iN>()` before the range check: optional `+`/`-`, one or more ASCII digits -/
def parseInt? (s : Bytes) : Option Int :=
  match s with
  | 45 :: t =>
    if t.isEmpty then none
    else if t.all (fun b => 48 ≤ b && b ≤ 57) then
      some (- Int.ofNat (t.foldl (fun acc b => acc * 10 + (b.toNat - 48)) 0))
    else none
  | _ =>
    match parseNat? s with
    | some n => some (Int.ofNat n)
    | none => none

def parseI16? (s : Bytes) : Option Int :=
  match parseInt? s with
  | some i => if -32768 ≤ i ∧ i ≤ 32767 then some i else none
  | none => none

def parseI64? (s : Bytes) : Option Int :=
  match parseInt? s with
  | some i => if -9223372036854775808 ≤ i ∧ i ≤ 9223372036854775807 then some i else none
  | none => none

/-- `str::parse::<usize>()` (64-bit) -/
def parseUsize? (s : Bytes) : Option Nat :=
  match parseNat? s with
  | some n => if n < 18446744073709551616 then some n else none
  | none => none

/-- `StringExt::truncate_new_line_carriage_return`: `replace("\r", "").replace("\n", "")` -/
def truncateCrLf (s : Bytes) : Bytes := (s.filter (fun b => b != 13)).filter (fun b => b != 10)

/-! ## serialisers -/

/-- `bytes <start>-<end>/<size>` -/
def contentRangeValue (c : ContentRange) : Bytes :=
  Gen.respBytesUnit ++ [32] ++ natToDec c.range.start ++ [45] ++ natToDec c.range.stop ++ [47] ++ c.size

/-- one part of a multipart/byteranges body as `generate_body` writes it
    (`Content-Type` + `": "` + `" "` + value: two blanks after the colon) -/
def partBytes (first : Bool) (c : ContentRange) : Bytes :=
  (if first then [] else [13, 10]) ++ [45, 45] ++ Gen.respStringSeparator ++ [13, 10] ++
  Gen.respContentType ++ Gen.respNameValueSeparator ++ [32] ++ c.contentType ++ [13, 10] ++
  Gen.respContentRange ++ Gen.respNameValueSeparator ++ [32] ++ contentRangeValue c ++ [13, 10] ++
  [13, 10] ++ c.body

/-- `Response::generate_body` -/
def generateBody (l : List ContentRange) : Bytes :=
  match l with
  | [] => []
  | [c] => c.body
  | c :: rest =>
    partBytes true c ++ rest.flatMap (partBytes false) ++ [13, 10, 45, 45] ++ Gen.respStringSeparator

/-- `multipart/byteranges; boundary=String_separator` as the serialisers join it -/
def multipartContentType : Bytes :=
  Gen.respMultipart ++ [47] ++ Gen.respByteranges ++ [59] ++ [32] ++ Gen.respBoundaryWord ++ [61] ++
  Gen.respStringSeparator

/-- the framing headers `generate_response` pushes after the caller's headers -/
def framingHeaders (parts : List ContentRange) : List Header :=
  match parts with
  | [] => []
  | [c] => [⟨Gen.respContentType, c.contentType⟩, ⟨Gen.respContentRange, contentRangeValue c⟩,
            ⟨Gen.respContentLength, natToDec c.body.length⟩]
  | _ :: _ :: _ => [⟨Gen.respContentType, multipartContentType⟩]

def headerLine (h : Header) : Bytes := h.name ++ Gen.respNameValueSeparator ++ h.value ++ [13, 10]

def headersBytes (hs : List Header) : Bytes := hs.flatMap headerLine

def statusLine (r : Response) : Bytes := r.version ++ [32] ++ intToDec r.status ++ [32] ++ r.reason

/-- status line, header lines, blank line -/
def headBytes (r : Response) (hs : List Header) : Bytes :=
  statusLine r ++ [13, 10] ++ headersBytes hs ++ [13, 10]

/-- `Response::generate_response(response, request)` -/
def generateResponse (r : Response) (q : Request) : Bytes :=
  let h := headBytes r (r.headers ++ framingHeaders r.parts)
  if q.method == Gen.respMethodHead || q.method == Gen.respMethodOptions then h
  else h ++ generateBody r.parts

/-- `Response::generate(&mut self)`: the bytes and the value of `self` afterwards.
    With exactly one part the Content-Type header goes to `self`, not to the copy that is
    serialised (F18). -/
def generate (r : Response) : Bytes × Response :=
  match r.parts with
  | [c] =>
    (headBytes r (r.headers ++ [⟨Gen.respContentRange, contentRangeValue c⟩,
                                ⟨Gen.respContentLength, natToDec c.body.length⟩]) ++ generateBody r.parts,
     { r with headers := r.headers ++ [⟨Gen.respContentType, c.contentType⟩] })
  | _ => (headBytes r (r.headers ++ framingHeaders r.parts) ++ generateBody r.parts, r)

/-! ## parser -/

/-- `_parse_http_version_status_code_reason_phrase_string` -/
def parseStatusLine (line : Bytes) : Outcome (Bytes × Int × Bytes) :=
  match splitOnce (truncateCrLf line) [32] with
  | none => .err
  | some (v, rest) =>
    if !(Gen.respVersionList.contains (Utf8R.upperCmp v)) then .err
    else match splitOnce rest [32] with
      | none => .err
      | some (code, reason) =>
        match parseI16? code with
        | none => .err
        | some n =>
          match Gen.statusTable.find? (fun row => row.1 == n) with
          | none => .err
          | some row =>
            if Utf8R.upperCmp row.2 == Utf8R.upperCmp reason then .ok (v, n, reason) else .err

/-- `parse_http_response_header_string`: `split_once(": ")`, CR/LF removed from the value -/
def parseHeaderString (s : Bytes) : Outcome Header :=
  match splitOnce s Gen.respNameValueSeparator with
  | none => .err
  | some (n, v) => .ok ⟨n, truncateCrLf v⟩

/-- `get_header`: first header whose name is exactly `name` -/
def getHeader (hs : List Header) (name : Bytes) : Option Header := hs.find? (fun h => h.name == name)

/-- `_is_multipart_byteranges_content_type` -/
def isMultipartCT (value : Bytes) : Bool :=
  startsWith value (Gen.respMultipart ++ [47] ++ Gen.respByteranges)

/-- `FormMultipartData::extract_boundary` (shared with the multipart/form-data parser: the text
    after the first `boundary=`, without one pair of enclosing quotation marks since F33) -/
def extractBoundary (value : Bytes) : Option Bytes :=
  match Multipart.extractBoundary value with
  | .ok b => some b
  | _ => none

/-- `_parse_raw_content_range_header_value` -/
def parseContentRangeRaw (v : Bytes) : Option (Int × Int × Int) :=
  match splitOnce (Utf8R.lowerCmp (Utf8R.trim v)) [32] with
  | none => none
  | some (u, rest) =>
    if u != [98, 121, 116, 101, 115] then none
    else match splitOnce rest [45] with
      | none => none
      | some (s, r2) =>
        match parseI64? s with
        | none => none
        | some st =>
          match splitOnce r2 [47] with
          | none => none
          | some (e, z) =>
            match parseI64? e with
            | none => none
            | some en =>
              match parseI64? z with
              | none => none
              | some sz => some (st, en, sz)

/-- `_parse_content_range_header_value`: start ≤ end ≤ size -/
def parseContentRangeValue (v : Bytes) : Option (Int × Int × Int) :=
  match parseContentRangeRaw v with
  | none => none
  | some (st, en, sz) =>
    if st > en then none else if st > sz then none else if en > sz then none else some (st, en, sz)

/-- one `read_until` + `String::from_utf8` -/
def readValid (rest : Bytes) : Outcome (Bytes × Bytes) :=
  let p := readLine rest
  if Utf8R.valid p.1 then .ok p else .err

/-- the `while is_not_boundary` loop: lines are appended to the body until a line that is
    valid UTF-8 and contains the boundary text; a line that is not UTF-8 is body whatever it
    contains.  Result: body collected (still with the CR LF before the boundary line), the
    unread bytes, `bytes_read`. -/
def bodyLoop (boundary : Bytes) (total : Nat) : Nat → Bytes → Bytes → Nat → Outcome (Bytes × Bytes × Nat)
  | 0, _, _, _ => .err
  | fuel + 1, rest, body, br =>
    let p := readLine rest
    let br' := br + p.1.length
    if !Utf8R.valid p.1 then bodyLoop boundary total fuel p.2 (body ++ p.1) br'
    else if containsSub p.1 boundary then .ok (body, p.2, br')
    else if br' = total || p.1.length = 0 then .err
    else bodyLoop boundary total fuel p.2 (body ++ p.1) br'

/-- `if string.starts_with("Content-Type")`: take the value (trimmed) and read the next line -/
def stageCT (p : Bytes × Bytes) : Outcome (Bytes × (Bytes × Bytes)) :=
  if startsWith p.1 Gen.respContentType then
    match parseHeaderString p.1 with
    | .err => .err
    | .panic s => .panic s
    | .ok h =>
      match readValid p.2 with
      | .err => .err
      | .panic s => .panic s
      | .ok p' => .ok (Utf8R.trim h.value, p')
  else .ok ([], p)

/-- `if string.starts_with("Content-Range")`: parse it, read the next line, which must be blank -/
def stageCR (p : Bytes × Bytes) : Outcome (Option (Nat × Nat × Bytes) × (Bytes × Bytes)) :=
  if startsWith p.1 Gen.respContentRange then
    match parseHeaderString p.1 with
    | .err => .err
    | .panic s => .panic s
    | .ok h =>
      match parseContentRangeValue h.value with
      | none => .err
      | some (st, en, sz) =>
        match readValid p.2 with
        | .err => .err
        | .panic s => .panic s
        | .ok p' => if Utf8R.allWs p'.1 then .ok (some (st.toNat, en.toNat, intToDec sz), p') else .err
  else .ok (none, p)

/-- everything one call of `parse_multipart_body_with_boundary` does after the boundary-line
    step, up to its recursive call `k` -/
def partStep (boundary : Bytes) (total : Nat)
    (k : Bytes → List ContentRange → Nat → Outcome (List ContentRange))
    (pA : Bytes × Bytes) (acc : List ContentRange) (br : Nat) : Outcome (List ContentRange) :=
  match stageCT pA with
  | .err => .err
  | .panic s => .panic s
  | .ok (ct, pB) =>
    match stageCR pB with
    | .err => .err
    | .panic s => .panic s
    | .ok (none, pC) =>
      -- since F74: a part with a Content-Type line but no Content-Range line, and a line that belongs to no part
      -- (neither blank nor a delimiter), are errors (before: skipped silently, the part was dropped)
      if !ct.isEmpty then .err
      else if !Utf8R.allWs pC.1 && !containsSub pC.1 boundary then .err
      else k pC.2 acc br
    | .ok (some (st, en, size), pC) =>
      if ct.isEmpty then .err        -- since F74: a Content-Range line without a Content-Type line
      else
        match bodyLoop boundary total (pC.2.length + 1) pC.2 [] br with
        | .err => .err
        | .panic s => .panic s
        | .ok (body, rest', br') =>
          k rest' (acc ++ [⟨Gen.respBytesUnit, ⟨st, en⟩, size, body.dropLast.dropLast, ct⟩]) br'

/-- `Range::parse_multipart_body_with_boundary` (fuel ≥ unread bytes + 1) -/
def parseMultipartBodyWithBoundary (boundary : Bytes) (total : Nat) :
    Nat → Bytes → List ContentRange → Nat → Bool → Outcome (List ContentRange)
  | 0, _, _, _, _ => .err
  | fuel + 1, rest, acc, br, opened =>
    let p0 := readLine rest
    let br0 := br + p0.1.length
    if !Utf8R.valid p0.1 then .err
    else if p0.1.isEmpty then .ok acc
    else if !Utf8R.allWs p0.1 && !opened && !containsSub p0.1 boundary then .err
    else
      let hasB := containsSub p0.1 boundary
      match (if hasB then readValid p0.2 else .ok p0) with
      | .err => .err
      | .panic s => .panic s
      | .ok pA =>
        partStep boundary total
          (fun rest' acc' br' => parseMultipartBodyWithBoundary boundary total fuel rest' acc' br' (opened || hasB))
          pA acc br0

/-- the `if current_string_is_empty { … }` block of `parse_raw_response_via_cursor` -/
def finishBody (total : Nat) (rest : Bytes) (resp : Response) (br : Nat) : Outcome Response :=
  match getHeader resp.headers Gen.respContentType with
  | some h =>
    if isMultipartCT h.value then
      match extractBoundary h.value with
      | none => .err
      | some b =>
        match parseMultipartBodyWithBoundary b total (rest.length + 1) rest [] br false with
        | .err => .err
        | .panic s => .panic s
        | .ok l => .ok { resp with parts := l }
    else
      match getHeader resp.headers Gen.respContentRange with
      | none => .ok { resp with parts := [⟨Gen.respBytesUnit, ⟨0, rest.length⟩, natToDec rest.length, rest, h.value⟩] }
      | some cr =>
        match parseContentRangeValue cr.value with
        | none => .err
        | some (st, en, sz) =>
          .ok { resp with parts := [⟨Gen.respBytesUnit, ⟨st.toNat, en.toNat⟩, intToDec sz, rest, h.value⟩] }
  | none =>
    match getHeader resp.headers Gen.respContentRange with
    | none => .ok { resp with parts := [⟨Gen.respBytesUnit, ⟨0, rest.length⟩, natToDec rest.length, rest, Gen.respOctetStream⟩] }
    | some cr =>
      match parseContentRangeValue cr.value with
      | none => .err
      | some (st, en, sz) =>
        .ok { resp with parts := [⟨Gen.respBytesUnit, ⟨st.toNat, en.toNat⟩, intToDec sz, rest, Gen.respOctetStream⟩] }

/-- `parse_raw_response_via_cursor` (fuel ≥ unread bytes + 1; `first` = `iteration_number == 0`) -/
def parseLoop (total : Nat) : Nat → Bytes → Bool → Response → Nat → Outcome Response
  | 0, _, _, _, _ => .err
  | fuel + 1, rest, first, resp, br =>
    let p := readLine rest
    let br' := br + p.1.length
    if !Utf8R.valid p.1 then .err
    else
      match (if first then
               (match parseStatusLine p.1 with
                | .ok (v, c, r) => Outcome.ok { resp with version := v, status := c, reason := r }
                | .err => .err
                | .panic s => .panic s)
             else .ok resp) with
      | .err => .err
      | .panic s => .panic s
      | .ok resp1 =>
        if Utf8R.allWs p.1 then finishBody total p.2 resp1 br'
        else if p.1.length != 0 then
          if first then parseLoop total fuel p.2 false resp1 br'
          else
            match parseHeaderString p.1 with
            | .err => .err
            | .panic s => .panic s
            | .ok h =>
              if h.name == Gen.respContentLength && (parseUsize? h.value).isNone then .err
              else parseLoop total fuel p.2 false { resp1 with headers := resp1.headers ++ [h] } br'
        else .err

/-- `Response::parse` -/
def parse (bytes : Bytes) : Outcome Response :=
  parseLoop bytes.length (bytes.length + 1) bytes true ⟨[], 0, [], [], []⟩ 0

end Rws.Resp
