/-
  Rws.RangeM — model of the byte-range arithmetic and file slicing:
  `src/range/mod.rs` and the status selection of `src/app/controller/static_resource/mod.rs`.

  `parseU64`              ↔ `str::parse::<u64>()` (optional `+`, ASCII digits, value ≤ u64::MAX)
  `trimU`                 ↔ `str::trim()` (Unicode `White_Space`, on the UTF-8 bytes)
  `parseStep`/`parseLoop`/`parseRange`
                          ↔ `Range::parse_range_in_content_range(filelength, range_str)`
                            (one `parseStep` = one iteration of the `for (i, part)` loop, the three
                            bounds checks included; the suffix branch uses `checked_sub` — fix F2a)
  `readFilePartially`     ↔ `FileExt::read_file_partially(path, start, end)` of file-ext 12.1.0
                            (`buff_length = (end - start) + 1`, seek to `start`, read at most
                            `buff_length` bytes: it reads what exists)
  `parseContentRange`     ↔ `Range::parse_content_range(filepath, filelength, raw_range_value)`
  `getContentRangeList`   ↔ `Range::get_content_range_list(request_uri, range_header)`
  `getContentRange`       ↔ `Range::get_content_range(body, mime_type)`
  `fitToFile`             ↔ `StaticResourceController::fit_content_range_list_to_file` (fix F2b)
  `process`               ↔ `StaticResourceController::process` / `process_request` (two copies of
                            the same statements) restricted to what decides status and parts.

  Deliberate abstractions (each is sound for the comparison because the harness fixes that part
  of the outside world and the differential run feeds both sides the same thing):
  * The file system is a parameter: the request names a regular file (or a symbolic link to one)
    under the working directory whose contents are `f`; `metadata().len()` is `f.length`.  URL
    parsing of the request target, `get_static_filepath`, the `is_symlink`/`resolve_symlink_path`
    branch and the 500 answers for I/O failures are not modelled (they select WHICH file is read,
    slice C01/C02); the harness runs the real code over a plain file and over a symlink to it.
  * The MIME type is the opaque parameter `ct` (`MimeType::detect_mime_type(filepath)`).
  * Every `Err(Error { .. })` built on the modelled paths carries
    `n416_range_not_satisfiable`; the model's `.err` stands for exactly that and the error text
    is dropped.  `process` turns it into the reply `⟨416, []⟩` (the real reply carries the text as
    an HTML part; texts are not compared).
  * `process` returns only the status code and the content-range list; the Last-Modified header it
    pushes (a timestamp) is not modelled.
  * `read_file_partially` seeks with `SeekFrom::Start(start)`; the OS rejects offsets above
    `i64::MAX`.  Not modelled: no file is that long (the parser has checked `start ≤ filelength`).
  * `parseStep` merges the loop body's four `if i == … && length != 0` blocks into one decision
    tree (same tests, same order of effects); the second `num.parse()` of the suffix block cannot
    fail after the first one succeeded and is not repeated.
  * No panic site remains in `range/mod.rs` on these paths after repair F2a (`checked_sub`).  The
    only modelled panic is the `(end - start) + 1` overflow inside file-ext, reachable only for a
    file of `u64::MAX` bytes; its site string is the crate-relative one
    (`file-ext-12.1.0/file_ext_impl/mod.rs:48`).
  Rust `String`s are UTF-8 byte lists; all delimiters (`-`, `,`, `=`) are ASCII.
-/
import Rws.Prim
import Rws.Http

namespace Rws.RangeM
open Rws

/-- `num.parse::<u64>()`: `None` stands for `Err(ParseIntError)` -/
def parseU64 (s : Bytes) : Option Nat :=
  match parseNat? s with
  | some n => if n ≤ 18446744073709551615 then some n else none
  | none   => none

/-! ### `str::trim()` — Unicode `White_Space` on UTF-8 bytes
  U+0009..U+000D, U+0020, U+0085, U+00A0, U+1680, U+2000..U+200A, U+2028, U+2029, U+202F,
  U+205F, U+3000.  On valid UTF-8 a leading (trailing) byte pattern below is a leading
  (trailing) scalar: the lead bytes C2/E1/E2/E3 never occur inside another scalar. -/

/-- number of bytes of the white-space scalar at the head of `s` (0: none) -/
def wsPrefixLen : Bytes → Nat
  | [] => 0
  | b :: rest =>
    if b = 32 || (9 ≤ b && b ≤ 13) then 1
    else if b = 194 then
      match rest with
      | c :: _ => if c = 133 || c = 160 then 2 else 0
      | [] => 0
    else if b = 225 then
      match rest with
      | c :: d :: _ => if c = 154 && d = 128 then 3 else 0
      | _ => 0
    else if b = 226 then
      match rest with
      | c :: d :: _ =>
        if c = 128 && ((128 ≤ d && d ≤ 138) || d = 168 || d = 169 || d = 175) then 3
        else if c = 129 && d = 159 then 3 else 0
      | _ => 0
    else if b = 227 then
      match rest with
      | c :: d :: _ => if c = 128 && d = 128 then 3 else 0
      | _ => 0
    else 0

/-- the same on the reversed string: number of bytes of the white-space scalar at the END -/
def wsSuffixLen : Bytes → Nat
  | [] => 0
  | b :: rest =>
    if b = 32 || (9 ≤ b && b ≤ 13) then 1
    else
      match rest with
      | [] => 0
      | c :: rest2 =>
        if c = 194 && (b = 133 || b = 160) then 2
        else
          match rest2 with
          | [] => 0
          | d :: _ =>
            if d = 225 && c = 154 && b = 128 then 3
            else if d = 226 && c = 128 && ((128 ≤ b && b ≤ 138) || b = 168 || b = 169 || b = 175) then 3
            else if d = 226 && c = 129 && b = 159 then 3
            else if d = 227 && c = 128 && b = 128 then 3
            else 0

def dropWs (len : Bytes → Nat) : Nat → Bytes → Bytes
  | 0, s => s
  | fuel + 1, s => if len s = 0 then s else dropWs len fuel (s.drop (len s))

def trimStartU (s : Bytes) : Bytes := dropWs wsPrefixLen s.length s
def trimEndU (s : Bytes) : Bytes := (dropWs wsSuffixLen s.length s.reverse).reverse
/-- `part.trim()` -/
def trimU (s : Bytes) : Bytes := trimEndU (trimStartU s)

/-! ### `Range::parse_range_in_content_range` -/

/-- the loop state: `range.start`, `range.end`, `start_range_not_provided` -/
structure PState where
  start   : Nat
  stop    : Nat
  noStart : Bool
deriving Repr, DecidableEq

/-- the three checks at the end of every iteration (range/mod.rs:123-148) -/
def checks (L : Nat) (st : PState) : Outcome PState :=
  if st.stop > L then .err
  else if st.start > L then .err
  else if st.start > st.stop then .err
  else .ok st

/-- one iteration of `for (i, part) in parts.iter().enumerate()` -/
def parseStep (L i : Nat) (part : Bytes) (st : PState) : Outcome PState :=
  let num := trimU part
  if num.length = 0 then checks L st
  else if i = 0 then
    match parseU64 num with
    | some v => checks L { st with start := v, noStart := false }
    | none   => .err
  else if i = 1 then
    match parseU64 num with
    | some v =>
      if st.noStart then
        -- `-n`: start = filelength.checked_sub(n) (None → 416), end = filelength
        if v ≤ L then checks L { st with start := L - v, stop := L } else .err
      else checks L { st with stop := v }
    | none   => .err
  else checks L st

def parseLoop (L : Nat) : Nat → List Bytes → PState → Outcome PState
  | _, [], st => .ok st
  | i, p :: ps, st =>
    match parseStep L i p st with
    | .ok st'  => parseLoop L (i + 1) ps st'
    | .err     => .err
    | .panic s => .panic s

/-- `Range::parse_range_in_content_range(filelength, range_str)` -/
def parseRange (L : Nat) (spec : Bytes) : Outcome Range :=
  match parseLoop L 0 (splitAll [45] spec) ⟨0, L, true⟩ with
  | .ok st   => .ok ⟨st.start, st.stop⟩
  | .err     => .err
  | .panic s => .panic s

/-! ### file slicing -/

/-- `FileExt::read_file_partially(path, start, end)` on a file holding `f`; `end` is inclusive.
    `(end - start) + 1` is u64 arithmetic with overflow checks. -/
def readFilePartially (f : Bytes) (s e : Nat) : Outcome Bytes :=
  if e < s then .panic "file-ext-12.1.0/file_ext_impl/mod.rs:48"
  else if e - s + 1 > 18446744073709551615 then .panic "file-ext-12.1.0/file_ext_impl/mod.rs:48"
  else .ok ((f.drop s).take (e - s + 1))

/-- the `for byte in bytes` loop of `parse_content_range`: the first failing spec decides -/
def specsLoop (f ct : Bytes) (L : Nat) : List Bytes → Outcome (List ContentRange)
  | [] => .ok []
  | spec :: rest =>
    match parseRange L spec with
    | .ok r =>
      match readFilePartially f r.start r.stop with
      | .ok body =>
        match specsLoop f ct L rest with
        | .ok tl   => .ok (⟨[98, 121, 116, 101, 115], r, natToDec L, body, ct⟩ :: tl)
        | .err     => .err
        | .panic s => .panic s
      | .err     => .err
      | .panic s => .panic s
    | .err     => .err
    | .panic s => .panic s

/-- `Range::parse_content_range(filepath, filelength, raw_range_value)` over the file `f` -/
def parseContentRange (f ct : Bytes) (L : Nat) (raw : Bytes) : Outcome (List ContentRange) :=
  -- "bytes="
  if !startsWith raw [98, 121, 116, 101, 115, 61] then .err
  else
    match (splitAll [61] raw)[1]? with
    | none => .err
    | some rawBytes => specsLoop f ct L (splitAll [44] rawBytes)

/-- `Range::get_content_range_list(request_uri, range)` when the target is a regular file
    holding `f` (`md.len() = f.length`) -/
def getContentRangeList (f ct : Bytes) (rangeValue : Bytes) : Outcome (List ContentRange) :=
  parseContentRange f ct f.length rangeValue

/-- `Range::get_content_range(body, mime_type)`: the library's whole-body convention `0-L/L` -/
def getContentRange (body mime : Bytes) : ContentRange :=
  ⟨[98, 121, 116, 101, 115], ⟨0, body.length⟩, natToDec body.length, body, mime⟩

/-! ### status selection in the static resource controller -/

/-- `StaticResourceController::fit_content_range_list_to_file` -/
def fitToFile : List ContentRange → Outcome (List ContentRange)
  | [] => .ok []
  | c :: rest =>
    match parseU64 c.size with
    | some size =>
      if c.range.start ≥ size then .err
      else
        match fitToFile rest with
        | .ok tl   =>
          .ok ((if c.range.stop ≥ size then { c with range := ⟨c.range.start, size - 1⟩ } else c) :: tl)
        | .err     => .err
        | .panic s => .panic s
    | none =>
      match fitToFile rest with
      | .ok tl   => .ok (c :: tl)
      | .err     => .err
      | .panic s => .panic s

/-- what `process` decides: `response.status_code` and `response.content_range_list` -/
structure Reply where
  status : Nat
  parts  : List ContentRange
deriving Repr, DecidableEq

/-- `StaticResourceController::process` / `process_request` for a request whose target is a
    regular file holding `f`; `rangeHdr` is the value of the request's Range header if it has
    one, `resp0` what the incoming `response` holds. -/
def process (f ct : Bytes) (rangeHdr : Option Bytes) (method : Bytes) (resp0 : Reply) : Outcome Reply :=
  -- process_static_resources: the header, or the default `bytes=0-`
  let value := match rangeHdr with
    | some v => v
    | none   => [98, 121, 116, 101, 115, 61, 48, 45]
  let listed := getContentRangeList f ct value
  let fitted := match rangeHdr, listed with
    | some _, .ok l => fitToFile l
    | _, r => r
  match fitted with
  | .ok list =>
    if list.length ≠ 0 then
      -- "OPTIONS"
      if method = [79, 80, 84, 73, 79, 78, 83] then .ok ⟨204, list⟩
      else if rangeHdr.isSome then .ok ⟨206, list⟩
      else .ok ⟨200, list⟩
    else .ok resp0
  | .err     => .ok ⟨416, []⟩
  | .panic s => .panic s

end Rws.RangeM
