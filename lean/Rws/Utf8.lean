/-
  Rws.Utf8 — the two pieces of Rust `std` text handling that the parsers apply to client bytes
  line by line, modelled on bytes:

  * `Utf8.valid bs`  = `String::from_utf8(bs).is_ok()` (equivalently `str::from_utf8`): the
    well-formed byte sequences of Unicode Table 3-7 — no overlong forms (C0, C1, E0 80..9F,
    F0 80..8F), no surrogates (ED A0..BF), nothing above U+10FFFF (F4 90.., F5..FF).
  * `Utf8.trimStart / trimEnd / trim` = `str::trim_start / trim_end / trim`: Rust trims scalars
    with the Unicode `White_Space` property: U+0009..U+000D, U+0020, U+0085, U+00A0, U+1680,
    U+2000..U+200A, U+2028, U+2029, U+202F, U+205F, U+3000 (25 scalars).  The model matches
    their UTF-8 encodings on the byte list.  This is exact for every input that satisfies
    `Utf8.valid` (the only inputs Rust can call `trim` on): in well-formed UTF-8 a lead byte
    always starts a scalar and determines its length, so a prefix (suffix) of the bytes equals
    the encoding of a white-space scalar iff the first (last) scalar is that one.
    On input that is not valid UTF-8 the functions are still total but mean nothing.

  Tied to the real std by the differential ops `utf8valid <hex>` and `utf8trim <hex>`
  (lean/RwsDriver/Request.lean, harness/src/ops/request.rs, props/c14.py: exhaustive over all
  1- and 2-byte strings, all boundary 3- and 4-byte forms, every White_Space scalar and its
  neighbours).
-/
import Rws.Prim
namespace Rws.Utf8

/-- a continuation byte 80..BF -/
def isCont (b : UInt8) : Bool := 128 ≤ b && b ≤ 191

/-- states of the validator: `acc` = at a scalar boundary; `c1/c2/c3` = that many continuation
    bytes 80..BF still due; `e0/ed/f0/f4` = the second byte of a sequence whose lead byte
    restricts it (E0: A0..BF, no overlong; ED: 80..9F, no surrogates; F0: 90..BF, no overlong;
    F4: 80..8F, nothing above U+10FFFF); `rej` = ill-formed -/
inductive St where
  | acc | c1 | c2 | c3 | e0 | ed | f0 | f4 | rej
deriving DecidableEq, Repr

/-- one byte of Unicode Table 3-7 (well-formed UTF-8 byte sequences) -/
def step : St → UInt8 → St
  | .acc, b =>
    if b < 128 then .acc                              -- 00..7F
    else if 194 ≤ b && b ≤ 223 then .c1               -- C2..DF (C0, C1 are overlong)
    else if b = 224 then .e0
    else if b = 237 then .ed
    else if 225 ≤ b && b ≤ 239 then .c2               -- E1..EC, EE..EF
    else if b = 240 then .f0
    else if 241 ≤ b && b ≤ 243 then .c3               -- F1..F3
    else if b = 244 then .f4
    else .rej                                         -- 80..C1, F5..FF
  | .c1, b => if isCont b then .acc else .rej
  | .c2, b => if isCont b then .c1 else .rej
  | .c3, b => if isCont b then .c2 else .rej
  | .e0, b => if 160 ≤ b && b ≤ 191 then .c1 else .rej
  | .ed, b => if 128 ≤ b && b ≤ 159 then .c1 else .rej
  | .f0, b => if 144 ≤ b && b ≤ 191 then .c2 else .rej
  | .f4, b => if 128 ≤ b && b ≤ 143 then .c2 else .rej
  | .rej, _ => .rej

/-- `String::from_utf8(bs).is_ok()`: the bytes drive the validator from a scalar boundary back to
    a scalar boundary -/
def valid (bs : Bytes) : Bool := bs.foldl step .acc == .acc

/-- UTF-8 encodings of the non-ASCII `White_Space` scalars -/
def wsTable : List Bytes := [
  [194, 133],       -- U+0085 NEXT LINE
  [194, 160],       -- U+00A0 NO-BREAK SPACE
  [225, 154, 128],  -- U+1680 OGHAM SPACE MARK
  [226, 128, 128],  -- U+2000 EN QUAD
  [226, 128, 129],  -- U+2001
  [226, 128, 130],  -- U+2002
  [226, 128, 131],  -- U+2003
  [226, 128, 132],  -- U+2004
  [226, 128, 133],  -- U+2005
  [226, 128, 134],  -- U+2006
  [226, 128, 135],  -- U+2007
  [226, 128, 136],  -- U+2008
  [226, 128, 137],  -- U+2009
  [226, 128, 138],  -- U+200A HAIR SPACE
  [226, 128, 168],  -- U+2028 LINE SEPARATOR
  [226, 128, 169],  -- U+2029 PARAGRAPH SEPARATOR
  [226, 128, 175],  -- U+202F NARROW NO-BREAK SPACE
  [226, 129, 159],  -- U+205F MEDIUM MATHEMATICAL SPACE
  [227, 128, 128]   -- U+3000 IDEOGRAPHIC SPACE
]

/-- number of bytes of the `White_Space` scalar whose encoding the list starts with; 0 if none
    (ASCII: U+0009..U+000D and U+0020, `isAsciiWs`) -/
def wsLen : Bytes → Nat
  | [] => 0
  | b :: t =>
    if isAsciiWs b then 1
    else
      match wsTable.find? (fun w => w.isPrefixOf (b :: t)) with
      | some w => w.length
      | none => 0

/-- the same test on the REVERSED byte list (last byte first): length of the `White_Space`
    scalar the string ends with; 0 if none -/
def wsLenRev : Bytes → Nat
  | [] => 0
  | d :: t =>
    if isAsciiWs d then 1
    else
      match wsTable.find? (fun w => w.reverse.isPrefixOf (d :: t)) with
      | some w => w.length
      | none => 0

/-- drop white-space scalars from the front as long as there is one; `fuel` ≥ the number of
    scalars (the byte length is enough) -/
def dropWs (len : Bytes → Nat) : Nat → Bytes → Bytes
  | 0, s => s
  | fuel + 1, s => if len s = 0 then s else dropWs len fuel (s.drop (len s))

/-- `str::trim_start` -/
def trimStart (s : Bytes) : Bytes := dropWs wsLen s.length s
/-- `str::trim_end` -/
def trimEnd (s : Bytes) : Bytes := (dropWs wsLenRev s.length s.reverse).reverse
/-- `str::trim` -/
def trim (s : Bytes) : Bytes := trimEnd (trimStart s)

end Rws.Utf8
