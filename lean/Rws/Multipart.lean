/-
  Rws.Multipart — model of `src/body/multipart_form_data/mod.rs` (tree with the repairs F21,
  F22 a–c, F32, F33 and F34 applied, see known_findings.json) and of the header-line parser it calls.

  `parse`            ↔ `FormMultipartData::parse` + `parse_form_part_recursively`
  `run`              ↔ the per-part `loop` of `parse_form_part_recursively` (a self-call per part
                       before F34) with its header loop, body loop and the trimming of the last
                       line break, as ONE state machine over
                       the remaining lines (`Mode.hdr` = inside the `while !current_string_is_empty`
                       loop, `Mode.body` = inside the `while !current_string_is_boundary` loop)
  `splitLines`       ↔ the successive `cursor.read_until(b'\n', &mut buf)` results
  `isDelimiterLine`  ↔ `if b.len() >= boundary.len() { find_subsequence(b, boundary) … }`
  `findSubsequence`  ↔ `find_subsequence` (`windows(n)` panics for `n = 0`)
  `trimBody`         ↔ the removal of the trailing CRLF / LF (`body_length >= 2`)
  `generate`, `genLoop`, `generatePart`, `headerLine` ↔ `generate`, its `for` loop + `join`,
                       `generate_part`, `Header::as_string`
  `extractBoundary`, `unquote` ↔ `extract_boundary`
  `getHeader`        ↔ `Part::get_header`
  `parseHeader`      ↔ `Header::parse_header` (= `Header::parse`), src/header/mod.rs
  `filterCtl`, `truncCrLf` ↔ `StringExt::filter_ascii_control_characters`,
                       `StringExt::truncate_new_line_carriage_return`, src/ext/string_ext/mod.rs
  `trimU`            ↔ `str::trim` (Unicode `White_Space`)

  Rust `String`s are UTF-8 byte lists.  Deliberate abstractions, each sound for the comparison:

  * The cursor is the list of lines still to be read: `read_until(b'\n')` returns the next
    maximal chunk that ends in LF (or the unterminated rest), which is the next element of
    `splitLines data`; it returns 0 bytes exactly when that list is empty.
    `bytes_read` is the cursor position, so `bytes_read == total_bytes` is "no line left" and
    `bytes_read == 0` holds exactly on entry of the first call (a first line of 0 bytes means
    empty data, and then the call ends in the header loop without recursing).
  * The per-part loop and the two loops inside it are written as one structural recursion over
    the remaining lines with the loop the code is in as an explicit mode; every branch of the
    Rust code is one branch of `run`, in source order.
  * The part body is collected as the reversed list of its lines and concatenated when the
    delimiter is met (`Vec::append` per line in the code).  `trimBody` inspects the last two
    bytes through the reversed list instead of `get(len-2)`, `get(len-1)`, `remove`.
  * `str::trim`, `char::is_ascii_control`, `str::replace`, `str::contains`, `split_once` work on
    bytes.  This is exact on valid UTF-8 (every line passes `String::from_utf8` first, the
    boundary is a `String`): the patterns are ASCII or whole UTF-8 sequences of the 25
    `White_Space` characters (`wsChars`), and UTF-8 is self-synchronising.
  * Error texts are dropped (`Outcome.err`).  `read_until` on a `Cursor<&[u8]>` cannot fail.
  * `getHeader` folds case for ASCII only (`to_lowercase` is Unicode); the driver answers
    `nonascii` instead of comparing when a name is not ASCII.
-/
import Rws.Prim
import Rws.Http
import Rws.Utf8M

namespace Rws.Multipart
open Rws

/-! ### `str` primitives on UTF-8 bytes -/

/-- `char::is_ascii_control`: U+0000..U+001F and U+007F -/
def isAsciiControl (b : UInt8) : Bool := b < 32 || b = 127

/-- UTF-8 of the characters with the Unicode property `White_Space` (`char::is_whitespace`):
    U+0009..U+000D, U+0020, U+0085, U+00A0, U+1680, U+2000..U+200A, U+2028, U+2029, U+202F,
    U+205F, U+3000 -/
def wsChars : List Bytes := [
  [9], [10], [11], [12], [13], [32], [194, 133], [194, 160], [225, 154, 128],
  [226, 128, 128], [226, 128, 129], [226, 128, 130], [226, 128, 131], [226, 128, 132],
  [226, 128, 133], [226, 128, 134], [226, 128, 135], [226, 128, 136], [226, 128, 137],
  [226, 128, 138], [226, 128, 168], [226, 128, 169], [226, 128, 175], [226, 129, 159],
  [227, 128, 128]]

/-- byte length of the white-space character `s` starts with (0: none) -/
def wsPrefixLen (s : Bytes) : Nat :=
  match wsChars.find? (fun w => w.isPrefixOf s) with
  | some w => w.length
  | none => 0

/-- byte length of the white-space character `s` ends with (0: none) -/
def wsSuffixLen (s : Bytes) : Nat :=
  match wsChars.find? (fun w => w.isSuffixOf s) with
  | some w => w.length
  | none => 0

def trimStartFuel : Nat → Bytes → Bytes
  | 0, s => s
  | n + 1, s => if wsPrefixLen s = 0 then s else trimStartFuel n (s.drop (wsPrefixLen s))

def trimEndFuel : Nat → Bytes → Bytes
  | 0, s => s
  | n + 1, s => if wsSuffixLen s = 0 then s else trimEndFuel n (s.take (s.length - wsSuffixLen s))

/-- `str::trim_start` -/
def trimStartU (s : Bytes) : Bytes := trimStartFuel s.length s
/-- `str::trim_end` -/
def trimEndU (s : Bytes) : Bytes := trimEndFuel s.length s
/-- `str::trim` -/
def trimU (s : Bytes) : Bytes := trimEndU (trimStartU s)

/-- `StringExt::filter_ascii_control_characters`:
    `str.replace(|x: char| x.is_ascii_control(), "").trim().to_string()` -/
def filterCtl (s : Bytes) : Bytes := trimU (s.filter (fun b => !isAsciiControl b))

/-- `StringExt::truncate_new_line_carriage_return`: `str.replace("\r", "").replace("\n", "")` -/
def truncCrLf (s : Bytes) : Bytes := (s.filter (fun b => b != 13)).filter (fun b => b != 10)

/-- `s.split_once(":")` -/
def splitColon : Bytes → Option (Bytes × Bytes)
  | [] => none
  | c :: cs =>
    if c = 58 then some ([], cs)
    else match splitColon cs with
      | some (a, b) => some (c :: a, b)
      | none => none

/-- `Header::parse_header` -/
def parseHeader (raw : Bytes) : Outcome Header :=
  let escaped := truncCrLf (filterCtl raw)
  match splitColon escaped with
  | none => .err
  | some (name, value) => .ok ⟨trimU name, trimU value⟩

/-! ### the reader -/

/-- the chunks successive `read_until(b'\n')` calls return: each ends in LF except possibly
    the last; no chunk is empty; their concatenation is the data -/
def splitLines : Bytes → List Bytes
  | [] => []
  | c :: cs =>
    if c = 10 then [c] :: splitLines cs
    else match splitLines cs with
      | [] => [[c]]
      | l :: ls => (c :: l) :: ls

/-- `find_subsequence`: `haystack.windows(needle.len()).position(|w| w == needle)` -/
def findSubsequence (hay needle : Bytes) : Outcome (Option Nat) :=
  if needle.isEmpty then .panic "body/multipart_form_data/mod.rs:247"
  else .ok (findSub hay needle)

/-- the delimiter test of the body loop -/
def isDelimiterLine (line b : Bytes) : Outcome Bool :=
  if line.length ≥ b.length then
    match findSubsequence line b with
    | .ok r => .ok r.isSome
    | .err => .err
    | .panic s => .panic s
  else .ok false

/-- removal of the line break that precedes the delimiter: CRLF, or a bare LF, when at least
    two bytes were collected -/
def trimBody (body : Bytes) : Bytes :=
  match body.reverse with
  | 10 :: 13 :: r => r.reverse
  | 10 :: x :: r => (x :: r).reverse
  | _ => body

/-- which loop of `parse_form_part_recursively` the reader is in, with the loop's state:
    the headers of the current part, and the lines of its body read so far (latest first) -/
inductive Mode where
  | hdr  (hs : List Header)
  | body (hs : List Header) (acc : List Bytes)

/-- the data ended inside the header loop (`bytes_read == total_bytes`): only a blank line
    after the closing delimiter of at least one complete part is a proper end -/
def eofInHeaders (empty : Bool) (hs : List Header) (parts : List Part) : Outcome (List Part) :=
  if empty && hs.isEmpty && !parts.isEmpty then .ok parts else .err

/-- `parse_form_part_recursively` after the first-line block -/
def run (b : Bytes) : List Bytes → Mode → List Part → Outcome (List Part)
  | [], .hdr hs, parts =>
    -- `read_until` gave 0 bytes: the line is "", which is blank
    if containsSub [] b then .err else eofInHeaders true hs parts
  | line :: rest, .hdr hs, parts =>
    if !Utf8M.valid line then .err
    else
      let s := filterCtl line
      let empty := (trimU s).isEmpty
      if containsSub s b then .err                       -- "missing body part"
      else if rest.isEmpty then eofInHeaders empty hs parts
      else if empty && hs.isEmpty then .err              -- part without headers
      else if !empty then
        match parseHeader s with
        | .ok h => run b rest (.hdr (hs ++ [h])) parts
        | .err => .err
        | .panic p => .panic p
      else run b rest (.body hs []) parts
  | [], .body _ _, _ => .err                             -- "No end boundary present"
  | line :: rest, .body hs acc, parts =>
    match isDelimiterLine line b with
    | .ok true =>
      let part : Part := ⟨hs, trimBody acc.reverse.flatten⟩
      if rest.isEmpty then .ok (parts ++ [part])
      else run b rest (.hdr []) (parts ++ [part])
    | .ok false => run b rest (.body hs (line :: acc)) parts
    | .err => .err
    | .panic p => .panic p

/-- `FormMultipartData::parse(data, boundary)` -/
def parse (data b : Bytes) : Outcome (List Part) :=
  match splitLines data with
  | [] =>
    -- empty data: the first line is ""
    if containsSub [] b then run b [] (.hdr []) [] else .err
  | line :: rest =>
    if !Utf8M.valid line then .err
    else
      let s := truncCrLf (filterCtl line)
      if containsSub s b then run b rest (.hdr []) [] else .err

/-! ### the writer -/

/-- `Header::as_string`: `format!("{}: {}", name, value)` -/
def headerLine (h : Header) : Bytes := h.name ++ 58 :: 32 :: h.value

/-- `generate_part` -/
def generatePart (p : Part) : Outcome Bytes :=
  if p.headers.isEmpty then .err
  else .ok ((p.headers.map (fun h => headerLine h ++ [13, 10])).flatten ++ 13 :: 10 :: p.body)

/-- the `for` loop of `generate` followed by `join("\r\n")`: what follows the first boundary -/
def genLoop (b : Bytes) : List Part → Outcome Bytes
  | [] => .ok []
  | p :: ps =>
    match generatePart p with
    | .ok pb =>
      match genLoop b ps with
      | .ok r => .ok (13 :: 10 :: pb ++ 13 :: 10 :: b ++ r)
      | .err => .err
      | .panic s => .panic s
    | .err => .err
    | .panic s => .panic s

/-- `FormMultipartData::generate(part_list, boundary)` -/
def generate (ps : List Part) (b : Bytes) : Outcome Bytes :=
  if ps.isEmpty then .err
  else match genLoop b ps with
    | .ok r => .ok (b ++ r)
    | .err => .err
    | .panic s => .panic s

/-- `b.strip_prefix("\"").and_then(|u| u.strip_suffix("\"")).unwrap_or(b)` -/
def unquote (b : Bytes) : Bytes :=
  match b with
  | 34 :: u =>
    match u.reverse with
    | 34 :: r => r.reverse
    | _ => b
  | _ => b

/-- `extract_boundary`: `content_type.split_once("boundary=")`, the part after it, without one
    pair of enclosing quotation marks -/
def extractBoundary (contentType : Bytes) : Outcome Bytes :=
  match splitOnce contentType [98, 111, 117, 110, 100, 97, 114, 121, 61] with
  | some (_, b) => .ok (unquote b)
  | none => .err

/-- `Part::get_header` (ASCII case folding only) -/
def getHeader (p : Part) (name : Bytes) : Option Header :=
  p.headers.find? (fun x => eqIgnoreAsciiCase x.name name)

end Rws.Multipart
