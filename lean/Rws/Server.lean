/-
  Rws.Server — model of `Server::process` (what the shipped binary runs per connection) and
  of the legacy `Server::process_request` (src/server/mod.rs), over the scripted transport
  `Rws.Transport`, the file-system model and the controller chains.

  One connection = one `read` into a zero-filled buffer of `alloc` bytes, `Request::parse` of
  the WHOLE buffer, the origin-form check, the application handler, `generate_response`,
  `write_all`, `flush`.

  `App` is either the real chain or an abstract handler answering a fixed `Response` or an
  error (the property C04 quantifies over handlers).

  Ghost outputs: the bytes of every `write` call, what the peer received, the number of
  `flush` calls, the tree locations read.
-/
import Rws.Controllers
import Rws.Request
import Rws.Transport
namespace Rws.Server
open Rws Rws.Static Rws.Transport

inductive App where
  | real
  | fails    -- `Application::execute` returns `Err(message)`; the message is `ctx.errText`
  | okEmpty  -- returns `Response::get_response(200, None, None)`
deriving Repr, DecidableEq

inductive ReadScript where
  | data : Bytes → ReadScript
  | error : ReadScript
deriving Repr

structure Wire where
  writes   : List Bytes    -- the buffer handed to each successful `write` call
  received : Bytes
  flushes  : Nat
deriving Repr, DecidableEq

inductive Res where
  | ok | err
deriving Repr, DecidableEq

structure Outcome2 where
  result : Res
  wire   : Wire
  reads  : List Fs.Loc
deriving Repr

/-- the buffers successive `write` calls of one `write_all` see (a failing call records nothing) -/
def writeBufs (buf : Bytes) : List WCall → List Bytes
  | [] => if buf.isEmpty then [] else [buf]
  | c :: cs =>
    if buf.isEmpty then []
    else match c with
      | .fail => []
      | .acc 0 => [buf]
      | .acc (n + 1) => buf :: writeBufs (buf.drop (min (n + 1) buf.length)) cs

/-- number of `char`s of valid UTF-8 text: bytes that are not continuation bytes -/
def charCount (s : Bytes) : Nat := (s.filter (fun b => !(128 ≤ b && b ≤ 191))).length

/-- `Server::bad_request_response_to(message, method)` -/
def badRequestResponse (ctx : Ctx) (method : Bytes) : Outcome Bytes :=
  let errorRequest : Request := ⟨method, [], [], [], []⟩
  match HeaderList.getHeaderList ctx.env ctx.now errorRequest with
  | .panic s => .panic s
  | .err => .err
  | .ok hs =>
    let size := charCount ctx.errText
    let part : ContentRange := ⟨Gen.respBytesUnit, ⟨0, size⟩, natToDec size, ctx.errText, Controllers.textPlain⟩
    let resp : Response := ⟨Controllers.http11, 400, Controllers.reasonOf 400, hs, [part]⟩
    .ok (Resp.generateResponse resp errorRequest)

/-- `stream.write_all(raw)`, then `flush` if it succeeded -/
structure Sent where
  wrote   : Bool
  flushed : Bool
  wire    : Wire

def send (raw : Bytes) (script : List WCall) (flushOk : Bool) : Sent :=
  let w := writeAll raw script
  ⟨w.ok, w.ok && flushOk, ⟨writeBufs raw script, w.received, if w.ok then 1 else 0⟩⟩

/-- the request buffer: `alloc` zero bytes overwritten from the start by what `read` delivered -/
def fillBuffer (alloc : Nat) (data : Bytes) : Bytes :=
  let d := data.take alloc
  d ++ List.replicate (alloc - d.length) 0

def isOriginForm (req : Request) : Bool := req.uri.head? = some 47

def appExecute (ctx : Ctx) (app : App) (req : Request) : Outcome (Option Controllers.Answer) :=
  match app with
  | .fails => .ok none
  | .okEmpty => .ok (some ⟨⟨Controllers.http11, 200, Controllers.reasonOf 200, [], []⟩, []⟩)
  | .real =>
    match Controllers.execute ctx req false with
    | .ok a => .ok (some a)
    | .err => .err
    | .panic s => .panic s

/-- `Server::process(stream, connection, app)` -/
def process (ctx : Ctx) (app : App) (alloc : Nat) (read : ReadScript) (script : List WCall) (flushOk : Bool) :
    Outcome Outcome2 :=
  let answer400 (method : Bytes) : Outcome Outcome2 :=
    match badRequestResponse ctx method with
    | .panic s => .panic s
    | .err => .err
    | .ok raw => let s := send raw script flushOk; .ok ⟨.err, s.wire, []⟩
  match read with
  | .error => answer400 methodGet
  | .data d =>
    match Req.parse (fillBuffer alloc d) with
    | .panic s => .panic s
    | .err => answer400 methodGet
    | .ok req =>
      if !isOriginForm req then answer400 req.method
      else
        match appExecute ctx app req with
        | .panic s => .panic s
        | .err => .err
        | .ok none => answer400 req.method
        | .ok (some a) =>
          let raw := Resp.generateResponse a.response req
          let s := send raw script flushOk
          .ok ⟨if s.wrote && s.flushed then .ok else .err, s.wire, a.reads⟩

/-- `Server::process_request(stream, peer_addr)`: returns the response bytes whatever the
    transport did -/
def processRequest (ctx : Ctx) (alloc : Nat) (read : ReadScript) (script : List WCall) (flushOk : Bool) :
    Outcome (Bytes × Wire × List Fs.Loc) :=
  let answer400 (method : Bytes) : Outcome (Bytes × Wire × List Fs.Loc) :=
    match badRequestResponse ctx method with
    | .panic s => .panic s
    | .err => .err
    | .ok raw => let s := send raw script flushOk; .ok (raw, s.wire, [])
  match read with
  | .error => answer400 methodGet
  | .data d =>
    match Req.parse (fillBuffer alloc d) with
    | .panic s => .panic s
    | .err => answer400 methodGet
    | .ok req =>
      if !isOriginForm req then answer400 req.method
      else
        match Controllers.execute ctx req true with
        | .panic s => .panic s
        | .err => .err
        | .ok a =>
          let raw := Resp.generateResponse a.response req
          let s := send raw script flushOk
          .ok (raw, s.wire, a.reads)

end Rws.Server
