/-
  Rws.Legacy — the older public parsers of src/range/mod.rs and src/response/mod.rs that the
  library still offers next to `Response::parse` (tree with the C20 `fix:` commits), modelled as far
  as the CONTROL FLOW goes: which inputs are answered `Ok`, which `Err`, how many parts / which
  headers were read.  Part bodies are not carried (they never influence a branch).

  src/range/mod.rs
    `partsLoop`, `bodyLoop`, `parseMultipartBody` ↔ `Range::parse_multipart_body`
                                 = `Range::_parse_multipart_body` (delegates since the fix)
    `convertLegacy`            ↔ `Range::_convert_bytes_array_to_string` (`String::from_utf8(..).unwrap()`:
                                 a `Vec<u8> -> String` helper without an error channel; OPEN finding)
  src/response/mod.rs
    `headerLegacy`             ↔ `Response::_parse_http_response_header_string`
    `legacyLoop`, `parseResponseLegacy` ↔ `Response::_parse_raw_response_via_cursor`, `Response::_parse_response`
  src/entry_point/config_file/mod.rs
    `readConfigBytes`          ↔ `read_config_file(Cursor::new(bytes), "")` on ARBITRARY bytes
                                 (`BufRead::lines()` fails on a line that is not UTF-8: `Err` since the fix;
                                 the lines are all read before `_parse` applies any setting)

  Reused from Rws.ResponseM (same Rust code is called): `readValid` (`parse_line_as_bytes` +
  `convert_bytes_array_to_string`), `stageCT`, `stageCR` (the `Content-Type` / `Content-Range` blocks,
  which are textually the same in `parse_multipart_body` and `parse_multipart_body_with_boundary`),
  `parseStatusLine`, `getHeader`, `isMultipartCT`, `parseUsize?`, `truncateCrLf`.

  Loops: `parse_multipart_body`, `_parse_raw_response_via_cursor` are `loop`s in the code since the
  fixes (one recursive call per part / per header line before); here recursion on fuel.  Every
  iteration consumes at least one byte or returns, so `length + 1` is enough fuel; the `0` cases
  are unreachable and answer `err` / the value read so far.
-/
import Rws.Prim
import Rws.Http
import Rws.Utf8R
import Rws.ResponseM
import Rws.Config

namespace Rws.Legacy
open Rws

/-- `--String_separator` -/
def sep : Bytes := [45, 45] ++ Gen.respStringSeparator

/-- the `while !buf.starts_with(separator)` loop after the first body line: lines are read (raw, no
    UTF-8 test) until one starts with the separator; the end of the data is an error (since the
    fix; an endless loop before).  Result: the unread bytes. -/
def bodyLoop : Nat → Bytes → Outcome Bytes
  | 0, _ => .err
  | fuel + 1, rest =>
    let p := readLine rest
    if p.1.isEmpty then .err
    else if startsWith p.1 sep then .ok p.2
    else bodyLoop fuel p.2

/-- one `loop` iteration of `Range::parse_multipart_body` per fuel unit; `n` = parts pushed.
    The inner body loop runs on the same fuel: it is at least the number of unread bytes + 1. -/
def partsLoop : Nat → Bytes → Nat → Outcome Nat
  | 0, _, _ => .err
  | fuel + 1, rest, n =>
    let p0 := readLine rest
    if !Utf8R.valid p0.1 then .err
    else if p0.1.isEmpty then .ok n
    else
      match (if startsWith p0.1 sep then Resp.readValid p0.2 else .ok p0) with
      | .err => .err
      | .panic s => .panic s
      | .ok pA =>
        match Resp.stageCT pA with
        | .err => .err
        | .panic s => .panic s
        | .ok (ct, pB) =>
          match Resp.stageCR pB with
          | .err => .err
          | .panic s => .panic s
          | .ok (none, pC) => partsLoop fuel pC.2 n
          | .ok (some _, pC) =>
            -- "read next line - separator between content ranges"
            match Resp.readValid pC.2 with
            | .err => .err
            | .panic s => .panic s
            | .ok pD =>
              if ct.isEmpty then partsLoop fuel pD.2 n
              else if startsWith pD.1 sep then partsLoop fuel pD.2 (n + 1)
              else
                match bodyLoop fuel pD.2 with
                | .err => .err
                | .panic s => .panic s
                | .ok rest' => partsLoop fuel rest' (n + 1)

/-- `Range::parse_multipart_body(&mut Cursor::new(bytes), vec![])`: the number of parts -/
def parseMultipartBody (bytes : Bytes) : Outcome Nat := partsLoop (bytes.length + 1) bytes 0

/-- U+FFFD -/
def replacement : Bytes := [0xEF, 0xBF, 0xBD]

/-- `String::from_utf8_lossy` (core::str::Utf8Chunks): every maximal prefix of a well-formed
    sequence that is not completed - a lead byte with the continuation bytes that did fit, or
    one byte that cannot start a sequence - becomes one U+FFFD; the byte that did not fit is
    looked at again.  Fuel = length. -/
def lossyAux : Nat → Bytes → Bytes
  | 0, _ => []
  | _, [] => []
  | fuel + 1, b0 :: rest =>
    match Utf8R.lead b0 with
    | none => replacement ++ lossyAux fuel rest
    | some (0, _, _) => b0 :: lossyAux fuel rest
    | some (1, lo, hi) =>
      match rest with
      | [] => replacement
      | b1 :: r1 =>
        if lo ≤ b1 && b1 ≤ hi then b0 :: b1 :: lossyAux fuel r1 else replacement ++ lossyAux fuel rest
    | some (2, lo, hi) =>
      match rest with
      | [] => replacement
      | b1 :: r1 =>
        if lo ≤ b1 && b1 ≤ hi then
          match r1 with
          | [] => replacement
          | b2 :: r2 =>
            if Utf8R.isCont b2 then b0 :: b1 :: b2 :: lossyAux fuel r2 else replacement ++ lossyAux fuel r1
        else replacement ++ lossyAux fuel rest
    | some (_, lo, hi) =>
      match rest with
      | [] => replacement
      | b1 :: r1 =>
        if lo ≤ b1 && b1 ≤ hi then
          match r1 with
          | [] => replacement
          | b2 :: r2 =>
            if Utf8R.isCont b2 then
              match r2 with
              | [] => replacement
              | b3 :: r3 =>
                if Utf8R.isCont b3 then b0 :: b1 :: b2 :: b3 :: lossyAux fuel r3 else replacement ++ lossyAux fuel r2
            else replacement ++ lossyAux fuel r1
        else replacement ++ lossyAux fuel rest

def lossy (bs : Bytes) : Bytes := lossyAux bs.length bs

/-- `Range::_convert_bytes_array_to_string` (`String::from_utf8_lossy` since F73) -/
def convertLegacy (bs : Bytes) : Outcome Bytes := .ok (lossy bs)

/-- `Response::_parse_http_response_header_string`: `split(": ")`, piece 0 is the name, piece 1
    (or "" when there is none, since the fix) without CR/LF the value; later pieces are dropped -/
def headerLegacy (s : Bytes) : Header :=
  match splitAll Gen.respNameValueSeparator s with
  | [] => ⟨[], []⟩
  | [n] => ⟨n, []⟩
  | n :: v :: _ => ⟨n, Resp.truncateCrLf v⟩

/-- what `_parse_response` hands back: the fields of `Response` with the part list as a count -/
structure LResp where
  version : Bytes
  status : Int
  reason : Bytes
  headersRev : List Header
  nparts : Nat
deriving Repr, DecidableEq, Inhabited

/-- the `if current_string_is_empty { … }` block of `_parse_raw_response_via_cursor` -/
def finishLegacy (rest : Bytes) (resp : LResp) : LResp :=
  match Resp.getHeader resp.headersRev.reverse Gen.respContentType with
  | none => resp
  | some h =>
    if Resp.isMultipartCT h.value then
      let q := readLine rest
      match partsLoop (q.2.length + 1) q.2 0 with
      | .ok n => { resp with nparts := n }
      | _ => { resp with nparts := 0 }
    else { resp with nparts := 1 }

/-- `Response::_parse_raw_response_via_cursor` (`first` = `iteration_number == 0`); every failure
    ends the reading and leaves what was read so far -/
def legacyLoop : Nat → Bytes → Bool → LResp → LResp
  | 0, _, _, resp => resp
  | fuel + 1, rest, first, resp =>
    let p := readLine rest
    if !Utf8R.valid p.1 then resp
    else
      match (if first then
               (match Resp.parseStatusLine p.1 with
                | .ok (v, c, r) => some { resp with version := v, status := c, reason := r }
                | _ => none)
             else some resp) with
      | none => resp
      | some resp1 =>
        if Utf8R.allWs p.1 then finishLegacy p.2 resp1
        else if p.1.length != 0 then
          if first then legacyLoop fuel p.2 false { resp1 with headersRev := ⟨[], []⟩ :: resp1.headersRev }
          else
            let h := headerLegacy p.1
            if h.name == Gen.respContentLength && (Resp.parseUsize? h.value).isNone then resp1
            else legacyLoop fuel p.2 false { resp1 with headersRev := h :: resp1.headersRev }
        else resp1

/-- `Response::_parse_response` -/
def parseResponseLegacy (bytes : Bytes) : LResp :=
  legacyLoop (bytes.length + 1) bytes true ⟨[], 0, [], [], 0⟩

/-- `read_config_file(Cursor::new(bytes), "")` with the process environment `e` -/
def readConfigBytes (bytes : Bytes) (e : Config.Env) : Outcome Config.Env :=
  if Config.validUtf8 bytes then Config.readConfigFile bytes e else .err

end Rws.Legacy
