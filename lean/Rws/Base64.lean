/-
  Rws.Base64 — model of `src/core/base64/mod.rs`.

  `encode`            ↔ `Base64::encode`           (3-byte grouping loop)
  `encodeSeq`         ↔ `Base64::encode_sequence`  (shifts and masks on `u8`)
  `decode`            ↔ `Base64::decode`           (4-character grouping: the loop index runs
                                                   over *characters* but is bounded by the
                                                   *byte* length `text.len()`)
  `decodeSeq`         ↔ `Base64::decode_sequence`  (branch on the number of `=`)
  `numToChar`/`charToNum` ↔ `convert_number_to_base64_char` / `convert_base64_char_to_number`
  over the alphabet regenerated from the source (`Rws.Gen.base64Alphabet`).

  One deliberate abstraction: `Base64::decode` builds each 4-character chunk as bytes
  (`c as u8`, a truncation) and re-reads it with `String::from_utf8`.  The model answers
  `err` for a chunk that contains a byte ≥ 0x80 instead of modelling that re-decoding.
  This is sound for the comparison because (a) `from_utf8` either fails (Err) or yields a
  string with a non-ASCII character, which `decode_sequence` rejects in every branch, and
  (b) the correspondence run feeds Latin-1, multi-byte and astral characters to both sides.
-/
import Rws.Prim
import Rws.Gen.Base64Tab

namespace Rws.Base64
open Rws

/-- `convert_number_to_base64_char` -/
def numToChar (n : UInt8) : Outcome Char :=
  if n > 63 then .err
  else match Gen.base64Alphabet[n.toNat]? with
    | some c => .ok c
    | none   => .err

/-- `convert_base64_char_to_number`: the map is filled by enumerating the list, so a
    repeated character would map to its *last* index. -/
def charToNum (c : Char) : Outcome UInt8 :=
  match (Gen.base64Alphabet.zipIdx.reverse.find? (fun p => p.1 = c)) with
  | some p => .ok (UInt8.ofNat p.2)
  | none   => .err

/-- `encode_sequence` -/
def encodeSeq (bs : Bytes) : Outcome (List Char) :=
  match bs with
  | [] => .err
  | [a] =>
    match numToChar (a >>> 2), numToChar ((a &&& 3) <<< 4) with
    | .ok c0, .ok c1 => .ok [c0, c1, '=', '=']
    | _, _ => .err
  | [a, b] =>
    match numToChar (a >>> 2), numToChar (((a &&& 3) <<< 4) ||| (b >>> 4)),
          numToChar ((b &&& 15) <<< 2) with
    | .ok c0, .ok c1, .ok c2 => .ok [c0, c1, c2, '=']
    | _, _, _ => .err
  | [a, b, c] =>
    match numToChar (a >>> 2), numToChar (((a &&& 3) <<< 4) ||| (b >>> 4)),
          numToChar (((b &&& 15) <<< 2) ||| ((c &&& 192) >>> 6)), numToChar (c &&& 63) with
    | .ok c0, .ok c1, .ok c2, .ok c3 => .ok [c0, c1, c2, c3]
    | _, _, _, _ => .err
  | _ => .err

/-- `encode` -/
def encode : Bytes → Outcome (List Char)
  | [] => .ok []
  | [a] => encodeSeq [a]
  | [a, b] => encodeSeq [a, b]
  | a :: b :: c :: rest =>
    match encodeSeq [a, b, c] with
    | .ok s =>
      match encode rest with
      | .ok r => .ok (s ++ r)
      | e => e
    | e => e

/-- `decode_sequence` on a chunk of ASCII characters -/
def decodeSeq (cs : List Char) : Outcome Bytes :=
  let eqs := cs.count '='
  if eqs = 2 then
    match cs[0]?, cs[1]? with
    | some x0, some x1 =>
      match charToNum x0, charToNum x1 with
      | .ok n0, .ok n1 => .ok [(n0 <<< 2) ||| (n1 >>> 4)]
      | _, _ => .err
    | _, _ => .err
  else if eqs = 1 then
    match cs[0]?, cs[1]?, cs[2]? with
    | some x0, some x1, some x2 =>
      match charToNum x0, charToNum x1, charToNum x2 with
      | .ok n0, .ok n1, .ok n2 =>
        .ok [(n0 <<< 2) ||| (n1 >>> 4), ((60 &&& n2) >>> 2) ||| ((n1 &&& 15) <<< 4)]
      | _, _, _ => .err
    | _, _, _ => .err
  else if eqs = 0 then
    match cs[0]?, cs[1]?, cs[2]?, cs[3]? with
    | some x0, some x1, some x2, some x3 =>
      match charToNum x0, charToNum x1, charToNum x2, charToNum x3 with
      | .ok n0, .ok n1, .ok n2, .ok n3 =>
        .ok [(n0 <<< 2) ||| (n1 >>> 4), ((60 &&& n2) >>> 2) ||| ((n1 &&& 15) <<< 4),
             ((n2 &&& 3) <<< 6) ||| (n3 &&& 63)]
      | _, _, _, _ => .err
    | _, _, _, _ => .err
  else .err   -- three or more `=`: an error since the fix for F23 (was `Ok([])`)

/-- one chunk of `decode`: bytes `c as u8`, `String::from_utf8`, `decode_sequence` -/
def decodeChunk (cs : List Char) : Outcome Bytes :=
  if cs.any (fun c => charAsU8 c ≥ 128) then .err
  else decodeSeq (cs.map (fun c => u8AsChar (charAsU8 c)))

/-- the loop of `decode`: `cs` = characters from the current index on, `rem` = byte length
    minus current index (> 0 while the loop runs). -/
def decodeLoop (cs : List Char) (rem : Nat) : Outcome Bytes :=
  if h : rem = 0 then .ok []
  else
    let k := min 4 rem
    if cs.length < k then .err
    else
      match decodeChunk (cs.take k) with
      | .ok bs =>
        match decodeLoop (cs.drop k) (rem - k) with
        | .ok r => .ok (bs ++ r)
        | e => e
      | e => e
termination_by rem
decreasing_by omega

/-- `decode` -/
def decode (text : List Char) : Outcome Bytes :=
  if text.length = 0 then .ok [] else decodeLoop text (utf8Len text)

end Rws.Base64
