/-
  Rws.Mime — model of src/mime_type/mod.rs.

  * `extension`  mirrors `MimeType::get_extension_from_filename(filename)`
                 = `Path::new(filename).extension().and_then(OsStr::to_str)` (Unix `std::path`).
  * `ruleMatches`, `detectWith`, `detect` mirror `MimeType::detect_mime_type(request_uri)`:
                 an interpreter over the rule list `Gen.mimeRules`, which the translator
                 (translator/gens/mime.py) re-extracts from the function body IN SOURCE ORDER on every
                 run; the first rule whose test succeeds returns its type, otherwise `Gen.mimeDefault`.
                 (`MimeRule` itself is declared in the generated file Rws/Gen/MimeTab.lean because a
                 generated file cannot import; `Rws.Mime.MimeRule` below is the same type.)

  Strings are byte lists (UTF-8).  Both functions are total and never panic or fail, so they return
  plain values, not `Outcome`.

  `std::path::Path::extension` on Unix, as modelled (checked exhaustively against the real function
  by props/mime_part.py for all strings up to length 7 over {a, A, '.', '/'} and by random strings):
    file_name  = the last `Component` if it is `Normal`: going from the back, empty components (from
                 `//` or a trailing `/`) and `.` components are skipped; a `..` component, a bare root
                 and the empty path have no file name;
    extension  = `rsplit_file_at_dot(file_name)`: `None` for `..`; split at the LAST `.`: no dot → `None`,
                 nothing before the dot (`.bashrc`) → `None`, otherwise the bytes after it (possibly
                 empty: `a.` → `Some("")`).
  Deliberate abstractions: none for Unix paths (a leading `./` `CurDir` component and the root are
  never `Normal`, which the skip loop below reproduces because the component it finally looks at is
  then empty or `.`).  `OsStr::to_str` always succeeds: the input is a `&str` and splitting valid
  UTF-8 at ASCII bytes keeps both halves valid.  Windows prefixes/backslashes are not modelled.
-/
import Rws.Prim
import Rws.Gen.MimeTab
namespace Rws.Mime
open Rws

export Rws.Gen (MimeRule)

/-- On the REVERSED path: drop trailing `/` bytes and trailing `.` components (`…/.`), as
    `Components::next_back` skips them. What is left starts (reading backwards) with the last
    component that is neither empty nor `.` — or is a lone `.`/empty when there is none. -/
def stripTrail : Bytes → Bytes
  | [] => []
  | c :: r =>
    if c = 47 then stripTrail r
    else if c = 46 then
      match r with
      | [] => [46]
      | d :: r' => if d = 47 then stripTrail r' else c :: d :: r'
    else c :: r

/-- the reversed last component that `file_name` would look at (bytes back to the previous `/`) -/
def lastCompRev (p : Bytes) : Bytes := (stripTrail p.reverse).takeWhile (· != 47)

/-- `rsplit_file_at_dot` + `before.and(after)` on a reversed component -/
def extOfCompRev (c : Bytes) : Option Bytes :=
  if c = [46, 46] then none                         -- `..` is ParentDir, not a file name
  else
    match c.dropWhile (· != 46) with
    | [] => none                                    -- no dot (also: empty component, root)
    | _ :: before =>
      if before = [] then none                      -- the only dot is the first byte: `.bashrc`, `.`
      else some (c.takeWhile (· != 46)).reverse

/-- `MimeType::get_extension_from_filename` -/
def extension (p : Bytes) : Option Bytes := extOfCompRev (lastCompRev p)

/-- the test of one rule of `detect_mime_type` on `request_uri = p` -/
def ruleMatches (p : Bytes) : MimeRule → Bool
  | .endsWith sfx _ => endsWith p sfx
  | .extIn sfxs _ =>
    match extension p with
    | none => false
    | some e => sfxs.contains (46 :: e)             -- `[".", extension].join("")` ∈ vec![…]

def _root_.Rws.Gen.MimeRule.ty : MimeRule → Bytes
  | .endsWith _ t => t
  | .extIn _ t => t

def _root_.Rws.Gen.MimeRule.suffixes : MimeRule → List Bytes
  | .endsWith s _ => [s]
  | .extIn ss _ => ss

/-- the `if … { return … }` chain over an arbitrary rule list -/
def detectWith (rules : List MimeRule) (dflt : Bytes) (p : Bytes) : Bytes :=
  match rules.find? (ruleMatches p) with
  | some r => r.ty
  | none => dflt

/-- `MimeType::detect_mime_type` -/
def detect (p : Bytes) : Bytes := detectWith Gen.mimeRules Gen.mimeDefault p

end Rws.Mime
