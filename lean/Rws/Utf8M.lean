/-
  Rws.Utf8M — the acceptance test of Rust's `String::from_utf8` / `str::from_utf8` on a byte
  list (written for the C16 slice; the C14 slice builds `Rws/Utf8.lean` at the same time, the two
  are meant to be unified).

  `valid bs = true` exactly when `bs` is well-formed UTF-8 in the sense of the Unicode standard,
  table 3-7, which is what `core::str::from_utf8` implements:

      00..7F
      C2..DF 80..BF
      E0     A0..BF 80..BF            (no overlong 3-byte forms)
      E1..EC 80..BF 80..BF
      ED     80..9F 80..BF            (no surrogates U+D800..U+DFFF)
      EE..EF 80..BF 80..BF
      F0     90..BF 80..BF 80..BF     (no overlong 4-byte forms)
      F1..F3 80..BF 80..BF 80..BF
      F4     80..8F 80..BF 80..BF     (nothing above U+10FFFF)

  C0, C1, F5..FF never occur; a truncated sequence is invalid.
-/
import Rws.Prim
namespace Rws.Utf8M
open Rws

/-- continuation byte 80..BF -/
def isCont (b : UInt8) : Bool := 128 ≤ b && b ≤ 191

/-- `String::from_utf8(bs).is_ok()` -/
def valid : Bytes → Bool
  | [] => true
  | b0 :: rest =>
    if b0 < 128 then valid rest
    else if 194 ≤ b0 && b0 ≤ 223 then
      match rest with
      | b1 :: r => isCont b1 && valid r
      | _ => false
    else if b0 = 224 then
      match rest with
      | b1 :: b2 :: r => (160 ≤ b1 && b1 ≤ 191) && isCont b2 && valid r
      | _ => false
    else if (225 ≤ b0 && b0 ≤ 236) || b0 = 238 || b0 = 239 then
      match rest with
      | b1 :: b2 :: r => isCont b1 && isCont b2 && valid r
      | _ => false
    else if b0 = 237 then
      match rest with
      | b1 :: b2 :: r => (128 ≤ b1 && b1 ≤ 159) && isCont b2 && valid r
      | _ => false
    else if b0 = 240 then
      match rest with
      | b1 :: b2 :: b3 :: r => (144 ≤ b1 && b1 ≤ 191) && isCont b2 && isCont b3 && valid r
      | _ => false
    else if 241 ≤ b0 && b0 ≤ 243 then
      match rest with
      | b1 :: b2 :: b3 :: r => isCont b1 && isCont b2 && isCont b3 && valid r
      | _ => false
    else if b0 = 244 then
      match rest with
      | b1 :: b2 :: b3 :: r => (128 ≤ b1 && b1 ≤ 143) && isCont b2 && isCont b3 && valid r
      | _ => false
    else false

end Rws.Utf8M
