/-
  Rws.Query — model of the query-string / urlencoded-form codec.

  `encodeComponent`  ↔ `URL::percent_encode`  = `url_search_params::encode_uri_component`
  `decodeComponent`  ↔ `URL::percent_decode`  = `url_search_params::decode_uri_component`
        both are SEQUENCES of `str::replace` calls; the (pattern, replacement) pairs are
        regenerated from the crate source in source order (`Rws.Gen.queryEncodeTable`,
        `Rws.Gen.queryDecodeTable`) and applied left to right with `Rws.replaceAll`.
  `buildQuery`       ↔ `URL::build_query`     = `url_search_params::build_url_search_params`
  `parseQuery`       ↔ `URL::parse_query`     = `url_search_params::parse_url_search_params`
  `FormUrlEncoded.parse` / `.generate` ↔ `src/body/form_urlencoded/mod.rs`

  Representation.  Rust `String`s are UTF-8 byte lists.  A `HashMap<String,String>` VALUE is
  the canonical association list: strictly sorted by key (bytewise lexicographic = `str::cmp`),
  built with `insertKV` (replace on equal key = `HashMap::insert`, i.e. the last insertion
  wins).  A `HashMap` that is ITERATED (`build_query`'s argument) is an association list with
  distinct keys in the — unspecified — iteration order.

  Deliberate abstractions:
  * `str::to_lowercase` (the sort key of `build_url_search_params`) is modelled exactly on
    ASCII and as the identity on non-ASCII scalars (`lowerAscii`).  Sound for the property:
    the order of the `&`-separated pieces does not influence what `parseQuery` returns for
    distinct keys (theorem `C17_query` is proved for every permutation of the pieces); the
    correspondence run compares `qbuild` outputs strictly when no piece holds a cased
    non-ASCII character and as multisets of pieces otherwise (props/c17.py).
  * `slice::sort_by` (stable) is modelled by a stable insertion sort (`sortPieces`).
  * `str::trim` / `char::is_whitespace`: the Unicode White_Space set is written out as UTF-8
    byte sequences (`wsSeqs`); on valid UTF-8 a byte-sequence prefix/suffix match is a
    character match (lead bytes are not continuation bytes).  Exercised for every scalar in
    the thorough tier.
  * `String::from_utf8` is `validUtf8` (RFC 3629: no overlongs, no surrogates, ≤ U+10FFFF).
  * `str::split(c)` for a one-byte ASCII separator is `splitByte` (structural; equals
    `Rws.splitAll [c]`).
-/
import Rws.Prim
import Rws.Gen.QueryTab

namespace Rws.Query
open Rws

/-! ### percent-encoding: chains of `str::replace` -/

/-- `s.replace(p₁,t₁).replace(p₂,t₂)…` in table order -/
def applyTable (tab : List (Bytes × Bytes)) (s : Bytes) : Bytes :=
  tab.foldl (fun acc p => replaceAll p.1 p.2 acc) s

/-- `encode_uri_component` -/
def encodeComponent (s : Bytes) : Bytes := applyTable Gen.queryEncodeTable s

/-- `decode_uri_component` -/
def decodeComponent (s : Bytes) : Bytes := applyTable Gen.queryDecodeTable s

/-! ### ordering of strings (`str::cmp` = bytewise lexicographic) -/

def bytesLt : Bytes → Bytes → Bool
  | _, [] => false
  | [], _ :: _ => true
  | a :: as, b :: bs => if a < b then true else if b < a then false else bytesLt as bs

/-- `a.cmp(b) != Greater` -/
def bytesLe (a b : Bytes) : Bool := !bytesLt b a

/-- `to_lowercase`, exact on ASCII, identity elsewhere (see the header) -/
def lowerAscii (s : Bytes) : Bytes := s.map asciiLower

/-- stable insertion: `x` goes before the first element that is strictly greater -/
def insertPiece (x : Bytes) : List Bytes → List Bytes
  | [] => [x]
  | y :: ys => if bytesLe (lowerAscii x) (lowerAscii y) then x :: y :: ys else y :: insertPiece x ys

/-- `key_value_list.sort_by(|a, b| a.to_lowercase().cmp(&b.to_lowercase()))` (stable) -/
def sortPieces : List Bytes → List Bytes
  | [] => []
  | x :: xs => insertPiece x (sortPieces xs)

/-- `[encode(key), "=", encode(value)].join("")` -/
def piece (kv : Bytes × Bytes) : Bytes := encodeComponent kv.1 ++ 61 :: encodeComponent kv.2

/-- `list.join("&")` -/
def joinAmp : List Bytes → Bytes
  | [] => []
  | [p] => p
  | p :: q :: t => p ++ 38 :: joinAmp (q :: t)

/-- `build_url_search_params`; the argument lists the map in iteration order -/
def buildQuery (m : List (Bytes × Bytes)) : Bytes := joinAmp (sortPieces (m.map piece))

/-! ### `HashMap<String,String>` values: sorted association lists -/

/-- `map.insert(k, v)` on the canonical form -/
def insertKV (k v : Bytes) : List (Bytes × Bytes) → List (Bytes × Bytes)
  | [] => [(k, v)]
  | (k', v') :: t =>
    if bytesLt k k' then (k, v) :: (k', v') :: t
    else if k = k' then (k, v) :: t
    else (k', v') :: insertKV k v t

/-- a map built by inserting the pairs in list order -/
def mapOfList (l : List (Bytes × Bytes)) : List (Bytes × Bytes) :=
  l.foldl (fun m kv => insertKV kv.1 kv.2 m) []

/-! ### Unicode white space (`char::is_whitespace`) on UTF-8 -/

/-- White_Space: U+0009..000D, 0020, 0085, 00A0, 1680, 2000..200A, 2028, 2029, 202F, 205F, 3000 -/
def wsSeqs : List Bytes := [
  [9], [10], [11], [12], [13], [32], [194, 133], [194, 160], [225, 154, 128],
  [226, 128, 128], [226, 128, 129], [226, 128, 130], [226, 128, 131], [226, 128, 132],
  [226, 128, 133], [226, 128, 134], [226, 128, 135], [226, 128, 136], [226, 128, 137],
  [226, 128, 138], [226, 128, 168], [226, 128, 169], [226, 128, 175], [226, 129, 159],
  [227, 128, 128]]

/-- the input without its first character when that is white space -/
def stripWsPrefix (s : Bytes) : Option Bytes :=
  match wsSeqs.find? (fun w => w.isPrefixOf s) with
  | some w => some (s.drop w.length)
  | none => none

/-- the reversed input without its LAST character when that is white space -/
def stripWsPrefixRev (r : Bytes) : Option Bytes :=
  match wsSeqs.find? (fun w => w.reverse.isPrefixOf r) with
  | some w => some (r.drop w.length)
  | none => none

def trimStartFuel : Nat → Bytes → Bytes
  | 0, s => s
  | n + 1, s => match stripWsPrefix s with
    | some t => trimStartFuel n t
    | none => s

def trimEndRevFuel : Nat → Bytes → Bytes
  | 0, r => r
  | n + 1, r => match stripWsPrefixRev r with
    | some t => trimEndRevFuel n t
    | none => r

/-- `str::trim_start` -/
def trimStartU (s : Bytes) : Bytes := trimStartFuel s.length s
/-- `str::trim_end` -/
def trimEndU (s : Bytes) : Bytes := (trimEndRevFuel s.length s.reverse).reverse
/-- `str::trim` -/
def trimU (s : Bytes) : Bytes := trimEndU (trimStartU s)

/-! ### `parse_url_search_params` -/

/-- `s.split(c)` for a one-byte separator: at least one piece -/
def splitByte (c : UInt8) : Bytes → List Bytes
  | [] => [[]]
  | b :: t =>
    if b = c then [] :: splitByte c t
    else match splitByte c t with
      | h :: r => (b :: h) :: r
      | [] => [[b]]

/-- one `&`-separated parameter: first two `=`-fields, decoded; `none` when the key is empty -/
def parsePiece (p : Bytes) : Option (Bytes × Bytes) :=
  match splitByte 61 p with
  | [] => none
  | [k] => if k = [] then none else some (decodeComponent k, decodeComponent [])
  | k :: v :: _ => if k = [] then none else some (decodeComponent k, decodeComponent v)

/-- `parse_url_search_params` -/
def parseQuery (s : Bytes) : List (Bytes × Bytes) :=
  if trimU s = [] then []
  else mapOfList ((splitByte 38 s).filterMap parsePiece)

/-! ### `String::from_utf8` -/

def isCont (b : UInt8) : Bool := 128 ≤ b && b ≤ 191

def validUtf8 : Bytes → Bool
  | [] => true
  | b0 :: t =>
    if b0 < 128 then validUtf8 t
    else if 194 ≤ b0 && b0 ≤ 223 then
      match t with
      | b1 :: t' => isCont b1 && validUtf8 t'
      | _ => false
    else if 224 ≤ b0 && b0 ≤ 239 then
      match t with
      | b1 :: b2 :: t' =>
        (if b0 = 224 then 160 ≤ b1 && b1 ≤ 191
         else if b0 = 237 then 128 ≤ b1 && b1 ≤ 159
         else isCont b1) && isCont b2 && validUtf8 t'
      | _ => false
    else if 240 ≤ b0 && b0 ≤ 244 then
      match t with
      | b1 :: b2 :: b3 :: t' =>
        (if b0 = 240 then 144 ≤ b1 && b1 ≤ 191
         else if b0 = 244 then 128 ≤ b1 && b1 ≤ 143
         else isCont b1) && isCont b2 && isCont b3 && validUtf8 t'
      | _ => false
    else false

/-! ### `FormUrlEncoded` -/

/-- `c.is_ascii_control()` on a byte of valid UTF-8 -/
def isAsciiControl (b : UInt8) : Bool := b < 32 || b = 127

namespace FormUrlEncoded

/-- `FormUrlEncoded::parse`: UTF-8 or `Err`; ASCII control characters removed; trimmed -/
def parse (data : Bytes) : Outcome (List (Bytes × Bytes)) :=
  if validUtf8 data then
    .ok (parseQuery (trimU (data.filter (fun b => !isAsciiControl b))))
  else .err

/-- `FormUrlEncoded::generate` -/
def generate (m : List (Bytes × Bytes)) : Bytes := buildQuery m

end FormUrlEncoded

end Rws.Query
