/-
  Rws.Request — model of the request parser / serialiser of src/request/mod.rs
  (tree with the fix commits for F16, F17, F5, F10, F28 applied; see known_findings.json).

  Rust fn                                                            model (namespace Rws.Req)
  ---------------------------------------------------------------    -------------------------
  StringExt::truncate_new_line_carriage_return (ext/string_ext)      truncateNlCr
  Request::parse_method_and_request_uri_and_http_version_string      parseRequestLine
  Request::parse_http_request_header_string                          parseHeaderString
  the `loop { … }` of Request::cursor_read (header lines)            headerLoop
  Request::cursor_read called with iteration_number = 0              cursorRead
  Request::parse / Request::parse_request                            parse
  Request::_generate_request / generate_request                      generateHead
  Request::generate                                                  generate
  Request::get_header                                                getHeader
  Request::method_list, HTTP::version_list, Header::NAME_VALUE_SEPARATOR, Header::_CONTENT_LENGTH,
  SYMBOL.whitespace / new_line_carriage_return                       Rws.Gen.* (generated from the source)

  Strings are UTF-8 byte lists.  `cursor.read_until(b'\n')` repeated to the end of input is
  `splitLines` (every line keeps its terminator; the concatenation of the lines is the
  input; reading at the end of input = the line list is empty); `cursor.read_to_end()` is the
  concatenation of the lines not yet read.  `String::from_utf8` = `Utf8.valid`,
  `str::trim` = `Utf8.trim` (full Unicode White_Space, see Rws/Utf8.lean),
  `str::to_ascii_uppercase` = `map asciiUpper` (bytes ≥ 0x80 untouched: exactly what Rust does).

  Deliberate abstractions
  * Error texts are dropped (`Outcome.err`), as in the comparison protocol.
  * `content_length` (parsed from a `Content-Length` line, never read afterwards) and
    `iteration_number` are dead values of `cursor_read`; the model does not carry them.  Since
    the F5 fix the parse of the value cannot panic, so no observable behaviour depends on them.
  * `cursor_read` is public and could be called with `iteration_number ≠ 0`; only the call that
    `parse_request` makes (0, empty request) is modelled.
  * `eprintln!` of a swallowed error is not modelled (stderr is not compared).
  * `get_header` compares `x.name.to_lowercase() == name.to_lowercase()`, which is Unicode-aware
    in Rust.  `getHeader` folds ASCII letters only (`eqIgnoreAsciiCase`).  The two agree whenever
    the two names do not differ in the case of a NON-ASCII letter (e.g. `É` vs `é`, or the Kelvin
    sign `K` vs `k`); the correspondence run compares the two sides on ASCII names and on
    non-ASCII names that are byte-identical or caseless, and judges the remaining Unicode
    cases on the implementation alone against Python's `str.lower()`.
  * No panic site is left on this path: `read_until`/`read_to_end` on a `Cursor` cannot fail,
    and the `unwrap`s that remain are guarded by `is_ok()`/`is_none()` tests.
-/
import Rws.Prim
import Rws.Http
import Rws.Utf8
import Rws.Gen.HttpTab
namespace Rws.Req
open Rws

/-- `StringExt::truncate_new_line_carriage_return`: `str.replace("\r", "").replace("\n", "")` -/
def truncateNlCr (s : Bytes) : Bytes := (s.filter (· != 13)).filter (· != 10)

/-- all the `read_until(b'\n')` results until the end of input: every line with its `\n`
    (the last one possibly without) -/
def splitLines : Bytes → List Bytes
  | [] => []
  | c :: cs =>
    if c = 10 then [c] :: splitLines cs
    else
      match splitLines cs with
      | [] => [[c]]
      | l :: ls => (c :: l) :: ls

/-- `Request::parse_method_and_request_uri_and_http_version_string` -/
def parseRequestLine (line : Bytes) : Outcome (Bytes × Bytes × Bytes) :=
  let t := Utf8.trim line
  match splitOnce t Gen.symbolWhitespace with
  | none => .err
  | some (method, withoutMethod) =>
    if !(Gen.methodList.contains (method.map asciiUpper)) then .err
    else
      match splitOnce withoutMethod Gen.symbolWhitespace with
      | none => .err
      | some (uri, version) =>
        if !(Gen.versionList.contains (version.map asciiUpper)) then .err
        else .ok (method, uri, version)

/-- `Request::parse_http_request_header_string` (after F17: `split_once`) -/
def parseHeaderString (line : Bytes) : Header :=
  let (rawName, rawValue) :=
    match splitOnce line Gen.headerNameValueSeparator with
    | some p => p
    | none => (line, [])
  { name := truncateNlCr rawName, value := truncateNlCr rawValue }

/-- the header `loop` of `cursor_read` over the lines not yet read: the headers it pushes and
    the lines it leaves for `read_to_end`.  Ends at the end of input (`read_until` returns an
    empty line, whose trim is empty), at a line that is not UTF-8 (consumed, error swallowed)
    and at a blank line (consumed). -/
def headerLoop : List Bytes → List Header × List Bytes
  | [] => ([], [])
  | l :: ls =>
    if !Utf8.valid l then ([], ls)
    else if (Utf8.trim l).length == 0 then ([], ls)
    else
      let (hs, rest) := headerLoop ls
      (parseHeaderString l :: hs, rest)

/-- the first `read_until(b'\n')` of a cursor over `bytes`, and the lines left in the cursor -/
def firstRead (bytes : Bytes) : Bytes × List Bytes :=
  match splitLines bytes with
  | [] => ([], [])            -- `read_until` at the end of input: 0 bytes
  | l :: ls => (l, ls)

/-- `Request::cursor_read(cursor, 0, &mut empty_request, 0)`; the result is the request as
    `parse_request` returns it -/
def cursorRead (bytes : Bytes) : Outcome Request :=
  let (string, ls) := firstRead bytes
  if !Utf8.valid string then .err
  else
    let currentStringIsEmpty := (Utf8.trim string).length == 0
    match parseRequestLine string with
    | .err => .err
    | .panic s => .panic s
    | .ok (method, uri, version) =>
      if currentStringIsEmpty then
        .ok { method := method, uri := uri, version := version, headers := [], body := [] }
      else
        let (hs, rest) := headerLoop ls
        .ok { method := method, uri := uri, version := version, headers := hs, body := rest.flatten }

/-- `Request::parse` = `Request::parse_request` -/
def parse (bytes : Bytes) : Outcome Request := cursorRead bytes

/-- `Request::_generate_request`: request line (note the blank before CRLF: the four pieces are
    joined with `SYMBOL.whitespace`), header lines, blank line -/
def generateHead (r : Request) : Bytes :=
  let status := r.method ++ Gen.symbolWhitespace ++ r.uri ++ Gen.symbolWhitespace ++ r.version ++
                Gen.symbolWhitespace ++ Gen.symbolNewLineCarriageReturn
  let headers := r.headers.flatMap (fun h =>
    h.name ++ Gen.headerNameValueSeparator ++ h.value ++ Gen.symbolNewLineCarriageReturn)
  status ++ headers ++ Gen.symbolNewLineCarriageReturn

/-- `Request::generate` -/
def generate (r : Request) : Bytes := generateHead r ++ r.body

/-- `Request::get_header` (ASCII case folding, see the header of this file) -/
def getHeader (headers : List Header) (name : Bytes) : Option Header :=
  headers.find? (fun x => eqIgnoreAsciiCase x.name name)

end Rws.Req
