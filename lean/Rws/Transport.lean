/-
  Rws.Transport — the scripted transport the server writes to, and `Write::write_all`.

  `WCall` is the outcome the peer/OS gives to ONE `write` call: accept at most `n` bytes, or
  fail.  When the script is exhausted the transport accepts everything (that is what the
  harness' `Scripted` stream does).  `writeAll` mirrors std's `Write::write_all`:
  loop { match write(buf) { Ok(0) => Err(WriteZero), Ok(n) => buf = &buf[n..], Err(e) => Err(e) } }
  (`ErrorKind::Interrupted` retries are not scripted).
-/
import Rws.Prim
namespace Rws.Transport
open Rws

inductive WCall where
  | acc  : Nat → WCall
  | fail : WCall
deriving Repr, DecidableEq

/-- result of delivering `buf`: did every byte get accepted, what the peer received, how many
    `write` calls were made, and the unused rest of the script -/
structure WResult where
  ok       : Bool
  received : Bytes
  calls    : Nat
  rest     : List WCall
deriving Repr, DecidableEq

def writeAll (buf : Bytes) : List WCall → WResult
  | [] => ⟨true, buf, if buf.isEmpty then 0 else 1, []⟩
  | c :: cs =>
    if buf.isEmpty then ⟨true, [], 0, c :: cs⟩
    else match c with
      | .fail  => ⟨false, [], 1, cs⟩
      | .acc 0 => ⟨false, [], 1, cs⟩
      | .acc (n + 1) =>
        let k := min (n + 1) buf.length
        let r := writeAll (buf.drop k) cs
        ⟨r.ok, buf.take k ++ r.received, r.calls + 1, r.rest⟩

/-- a single `write` call (what the server did before the fix F11) -/
def writeOnce (buf : Bytes) : List WCall → WResult
  | [] => ⟨true, buf, 1, []⟩
  | .fail :: cs => ⟨false, [], 1, cs⟩
  | .acc n :: cs => ⟨true, buf.take n, 1, cs⟩

/-- every scripted call accepts at least one byte and none fails -/
def Progressing : List WCall → Bool
  | [] => true
  | .fail :: _ => false
  | .acc 0 :: _ => false
  | .acc (_ + 1) :: cs => Progressing cs

end Rws.Transport
