/-
  Rws.Config — model of the start-up configuration fold of rws (property C12).

  Rust functions mirrored (all under src/entry_point/):
    * `set_default_values`                         (mod.rs)            → `setDefaults`
    * `read_system_environment_variables`          (environment_variables/mod.rs) → `readSystemEnv`
    * `override_environment_variables_from_config` (config_file/mod.rs) → `overrideFromConfig`
      `read_config_file`, `strip_comment`, `strip_whitespaces`          → `readConfigFile`,
                                                   `configArgs`, `processLine`, `stripComment`, `stripSpaces`
    * `CommandLineArgument::_parse`, `set_environment_variable`
      (command_line_args/mod.rs)                   → `parseArgs`, `parseArg`
    * `override_environment_variables_from_command_line_args`          → `parseArgs` on `std::env::args()`
    * `bootstrap`                                  (mod.rs)            → `bootstrap`
    * `Server::setup`'s `set_default_values(); bootstrap();`           → `startup`
    * `get_ip_port_thread_count`, `get_request_allocation_size`         → `getIpPortThreadCount`,
                                                                         `getRequestAllocationSize`

  State.  The process environment is the single store all sources are folded into.  It is
  modelled as an association list `Env` (newest binding first; `get` = first match, `set` = cons),
  and every start-up stage is a function `Env → inputs → Outcome Env`.

  Tables.  The flag table, the (variable, default) pairs in the order `set_default_values`
  installs them and the getters' variables/fallbacks come from `Rws.Gen.ConfigTab`, regenerated
  from the source on every run (translator/gens/config.py).

  Deliberate abstractions (each one sound for the comparison with the harness):
    * `println!`/`eprintln!` output is not modelled (the harness ignores it too).
    * `std::env::var(k).is_ok()` is "present and valid UTF-8" (`getOk`); `validUtf8` is a
      hand-written validator of the same language Rust's `String::from_utf8` accepts.
    * `std::env::set_var(k, v)` panics inside std when `v` contains a NUL byte (keys come from
      the table and are never empty / never contain `=` or NUL — asserted by the translator).
      The panic site is in std, not in the repository: it is modelled as `panic "std:env::set_var"`
      and the harness canonicalises a std panic location to the same string.  Start-up runs on
      the main thread, so this panic ends the process: no partial state is observable.
    * `std::env::args()` panics on an argument that is not valid Unicode, `read_to_string` refuses
      a file that is not valid UTF-8: command-line arguments are assumed valid UTF-8 (the driver
      answers `badutf8` otherwise, as does the harness), a non-UTF-8 file is the `unreadable` case
      of `overrideFromConfig` (environment unchanged), decided by `validUtf8` in the model.
    * All string surgery of `read_config_file` is on ASCII delimiters (`#`, ` `, TAB, `=`, `[`,
      `]`, `'`, `"`, `_`), so it is modelled on UTF-8 bytes.  (`strip_whitespaces` removes TAB
      as well as U+0020 since the `fix:` commit "TAB is white space in rws.config.toml"; the
      model is of the fixed code.)  `str::trim()` (used by `strip_comment`
      only when the line has a `#`) removes Unicode `White_Space`; `wsLen`/`wsLenRev` recognise
      exactly those 25 code points by their UTF-8 encodings — exact on valid UTF-8 because a lead
      byte is never a continuation byte.
    * `BufRead::lines()`: pieces are separated by `\n`, one `\r` before the `\n` is dropped, a
      final piece without `\n` is produced only when non-empty (`fileLines`).
    * "file absent" (or unreadable) is `none` for `overrideFromConfig`; the working directory and
      `FileExt::get_static_filepath` are the harness's business (it creates the directory).
-/
import Rws.Prim
import Rws.Gen.ConfigTab
namespace Rws.Config
open Rws Rws.Gen

/-! ### the process environment -/

abbrev Env := List (Bytes × Bytes)

/-- `std::env::var_os(k)` -/
def Env.get (e : Env) (k : Bytes) : Option Bytes := e.lookup k

/-- `std::env::set_var(k, v)` (NUL check is done by the caller, see `setVar`) -/
def Env.set (e : Env) (k v : Bytes) : Env := (k, v) :: e

def isCont (b : UInt8) : Bool := 0x80 ≤ b && b ≤ 0xBF

/-- the language `String::from_utf8` accepts -/
def validUtf8 : Bytes → Bool
  | [] => true
  | b :: t =>
    if b < 0x80 then validUtf8 t
    else if 0xC2 ≤ b && b ≤ 0xDF then
      match t with
      | c1 :: t1 => isCont c1 && validUtf8 t1
      | _ => false
    else if 0xE0 ≤ b && b ≤ 0xEF then
      match t with
      | c1 :: c2 :: t2 =>
        (if b = 0xE0 then 0xA0 ≤ c1 && c1 ≤ 0xBF
         else if b = 0xED then 0x80 ≤ c1 && c1 ≤ 0x9F
         else isCont c1) && isCont c2 && validUtf8 t2
      | _ => false
    else if 0xF0 ≤ b && b ≤ 0xF4 then
      match t with
      | c1 :: c2 :: c3 :: t3 =>
        (if b = 0xF0 then 0x90 ≤ c1 && c1 ≤ 0xBF
         else if b = 0xF4 then 0x80 ≤ c1 && c1 ≤ 0x8F
         else isCont c1) && isCont c2 && isCont c3 && validUtf8 t3
      | _ => false
    else false

/-- `std::env::var(k)` when it `is_ok()`: present and valid Unicode -/
def Env.getOk (e : Env) (k : Bytes) : Option Bytes :=
  match e.get k with
  | some v => if validUtf8 v then some v else none
  | none => none

/-- `env::set_var(k, v)`: panics (inside std) when the value holds a NUL byte -/
def setVar (e : Env) (k v : Bytes) : Outcome Env :=
  if v.contains 0 then .panic "std:env::set_var" else .ok (e.set k v)

/-! ### set_default_values -/

/-- one `let is_var_set = env::var(K).is_ok(); if !is_var_set { env::set_var(K, D) }` block -/
def setDefault (e : Env) (kd : Bytes × Bytes) : Env :=
  match e.getOk kd.1 with
  | some _ => e
  | none => e.set kd.1 kd.2

/-- `set_default_values()`: the blocks in source order (defaults never contain NUL) -/
def setDefaultsWith (tab : List (Bytes × Bytes)) (e : Env) : Env := tab.foldl setDefault e
def setDefaults (e : Env) : Env := setDefaultsWith Gen.defaults e

/-- `read_system_environment_variables()`: prints, changes nothing -/
def readSystemEnv (e : Env) : Env := e

/-! ### CommandLineArgument::_parse -/

/-- `s.split_once(b)` for a one-byte (ASCII) separator -/
def splitOnceByte (b : UInt8) : Bytes → Option (Bytes × Bytes)
  | [] => none
  | c :: t =>
    if c = b then some ([], t)
    else match splitOnceByte b t with
      | some (x, y) => some (c :: x, y)
      | none => none

/-- the closure given to `.find(...)`: `parameter == "-" + short || parameter == "--" + long` -/
def rowMatches (p : Bytes) (r : FlagRow) : Bool :=
  p == 45 :: r.short || p == 45 :: 45 :: r.long

/-- the body of the `for unparsed_argument in args.iter()` loop -/
def parseArgWith (tab : List FlagRow) (e : Env) (arg : Bytes) : Outcome Env :=
  match splitOnceByte 61 arg with
  | none => .ok e
  | some (p, v) =>
    match tab.find? (rowMatches p) with
    | none => .ok e
    | some r => setVar e r.var v

/-- `CommandLineArgument::_parse(args, argument_list)` -/
def parseArgsWith (tab : List FlagRow) : List Bytes → Env → Outcome Env
  | [], e => .ok e
  | a :: rest, e =>
    match parseArgWith tab e a with
    | .ok e' => parseArgsWith tab rest e'
    | .err => .err
    | .panic s => .panic s

/-- `override_environment_variables_from_command_line_args()` on `std::env::args()` = `args`
    (program name and every other word included: words without `=` are skipped by the loop) -/
def parseArgs (args : List Bytes) (e : Env) : Outcome Env := parseArgsWith Gen.flagTable args e

/-! ### read_config_file -/

/-- ASCII `White_Space`: U+0009..U+000D and U+0020 -/
def isAsciiWsByte (b : UInt8) : Bool := b == 32 || (9 ≤ b && b ≤ 13)

/-- third byte of `E2 80 xx` for U+2000..U+200A, U+2028, U+2029, U+202F -/
def isE280Ws (b : UInt8) : Bool := (0x80 ≤ b && b ≤ 0x8A) || b == 0xA8 || b == 0xA9 || b == 0xAF

/-- length of a Unicode `White_Space` character encoded at the head of `s` (0: none):
    U+0009..000D, 0020, 0085 (C2 85), 00A0 (C2 A0), 1680 (E1 9A 80), 2000..200A (E2 80 80..8A),
    2028/2029/202F (E2 80 A8/A9/AF), 205F (E2 81 9F), 3000 (E3 80 80) -/
def wsLen : Bytes → Nat
  | [] => 0
  | b :: t =>
    if isAsciiWsByte b then 1
    else if b == 0xC2 then
      (match t with
       | c :: _ => if c == 0x85 || c == 0xA0 then 2 else 0
       | [] => 0)
    else if b == 0xE1 then
      (match t with
       | c :: d :: _ => if c == 0x9A && d == 0x80 then 3 else 0
       | _ => 0)
    else if b == 0xE2 then
      (match t with
       | c :: d :: _ => if (c == 0x80 && isE280Ws d) || (c == 0x81 && d == 0x9F) then 3 else 0
       | _ => 0)
    else if b == 0xE3 then
      (match t with
       | c :: d :: _ => if c == 0x80 && d == 0x80 then 3 else 0
       | _ => 0)
    else 0

/-- the same on the reversed string: a `White_Space` character encoded at the END of the text
    (`b` is the text's last byte) -/
def wsLenRev : Bytes → Nat
  | [] => 0
  | b :: t =>
    if isAsciiWsByte b then 1
    else if b == 0x85 || b == 0xA0 || b == 0x9F || isE280Ws b then
      (match t with
       | c :: t' =>
         if c == 0xC2 && (b == 0x85 || b == 0xA0) then 2
         else (match t' with
           | d :: _ =>
             if (d == 0xE1 && c == 0x9A && b == 0x80) || (d == 0xE2 && c == 0x80 && isE280Ws b) ||
                (d == 0xE2 && c == 0x81 && b == 0x9F) || (d == 0xE3 && c == 0x80 && b == 0x80) then 3 else 0
           | [] => 0)
       | [] => 0)
    else 0

def dropWs (len : Bytes → Nat) : Nat → Bytes → Bytes
  | 0, s => s
  | fuel + 1, s => if len s = 0 then s else dropWs len fuel (s.drop (len s))

/-- `str::trim()` -/
def trimUnicode (s : Bytes) : Bytes :=
  let a := dropWs wsLen s.length s
  (dropWs wsLenRev a.length a.reverse).reverse

/-- `strip_comment(line)`: untouched when there is no `#`, else the TRIMMED text before it -/
def stripComment (line : Bytes) : Bytes :=
  match splitOnceByte 35 line with
  | none => line
  | some (a, _) => trimUnicode a

/-- `strip_whitespaces(line)`: `line.replace(" ", "").replace("\t", "")` — U+0020 and TAB -/
def stripSpaces (line : Bytes) : Bytes := line.filter (fun b => b != 32 && b != 9)

def isQuoteOrBracket (b : UInt8) : Bool := b == 39 || b == 34 || b == 93 || b == 91

/-- one iteration of the `for boxed_line in lines` loop: new table prefix, pushed argument -/
def processLine (pfx : Bytes) (line : Bytes) : Bytes × Option Bytes :=
  let w := stripSpaces (stripComment line)
  let pfx := if w.head? = some 91 then w.filter (fun b => b != 91 && b != 93) else pfx
  match splitOnceByte 61 w with
  | none => (pfx, none)
  | some (k, v) =>
    let value := v.filter (fun b => !isQuoteOrBracket b)
    let key := k.map (fun b => if b = 95 then 45 else b)
    let arg := if pfx.isEmpty then 45 :: 45 :: (key ++ 61 :: value)
               else 45 :: 45 :: (pfx ++ 45 :: (key ++ 61 :: value))
    (pfx, some arg)

/-- `BufRead::lines()` on the content: `cur` is the current piece, reversed -/
def fileLinesAux : Bytes → Bytes → List Bytes
  | cur, [] => if cur.isEmpty then [] else [cur.reverse]
  | cur, c :: t =>
    if c = 10 then
      (match cur with
       | 13 :: cur' => cur'.reverse
       | _ => cur.reverse) :: fileLinesAux [] t
    else fileLinesAux (c :: cur) t

def fileLines (content : Bytes) : List Bytes := fileLinesAux [] content

/-- the loop of `read_config_file`: the synthetic arguments, in file order -/
def argsOfLines : Bytes → List Bytes → List Bytes
  | _, [] => []
  | pfx, l :: ls =>
    match processLine pfx l with
    | (pfx', some a) => a :: argsOfLines pfx' ls
    | (pfx', none) => argsOfLines pfx' ls

/-- the `argument_list` that `read_config_file(cursor, "")` hands to `_parse` -/
def configArgs (content : Bytes) : List Bytes := argsOfLines [] (fileLines content)

/-- `read_config_file(Cursor::new(content), "")` (content: valid UTF-8) -/
def readConfigFile (content : Bytes) (e : Env) : Outcome Env :=
  if (configArgs content).any (fun a => a.contains 0) then .err   -- F72: a synthesised argument with a NUL: `Err` before any setting is applied
  else parseArgsWith Gen.flagTable (configArgs content) e

/-- `override_environment_variables_from_config(None)`: `none` = no readable `rws.config.toml`
    in the working directory; a file that is not UTF-8 makes `read_to_string` fail: same. -/
def overrideFromConfig (file : Option Bytes) (e : Env) : Outcome Env :=
  match file with
  | none => .ok e
  | some content =>
    if validUtf8 content then
      match readConfigFile content e with
      | .err => .ok e          -- `let _ = read_config_file(..)`: the error is dropped, nothing was applied
      | o => o
    else .ok e

/-! ### bootstrap, Server::setup -/

/-- `bootstrap()` -/
def bootstrap (file : Option Bytes) (args : List Bytes) (e : Env) : Outcome Env :=
  let e := readSystemEnv e
  match overrideFromConfig file e with
  | .ok e1 => parseArgs args e1
  | .err => .err
  | .panic s => .panic s

/-- `set_default_values(); bootstrap();` as `Server::setup` runs them -/
def startup (e : Env) (file : Option Bytes) (args : List Bytes) : Outcome Env :=
  bootstrap file args (setDefaults e)

/-- the value the running server sees for variable `k` -/
def effective (o : Outcome Env) (k : Bytes) : Option Bytes :=
  match o with
  | .ok e => e.get k
  | _ => none

/-! ### typed getters -/

/-- `str::parse::<iN>()`: optional sign, at least one digit, value within `[-2^(n-1), 2^(n-1))` -/
def parseSigned (bits : Nat) (s : Bytes) : Option Int :=
  let (neg, ds) := match s with
    | 43 :: t => (false, t)
    | 45 :: t => (true, t)
    | _ => (false, s)
  if ds.isEmpty then none
  else if ds.all (fun b => 48 ≤ b && b ≤ 57) then
    let n : Nat := ds.foldl (fun acc b => acc * 10 + (b.toNat - 48)) 0
    if neg then (if n ≤ 2 ^ (bits - 1) then some (- (n : Int)) else none)
    else (if n < 2 ^ (bits - 1) then some (n : Int) else none)
  else none

def getParsed (bits : Nat) (e : Env) (k : Bytes) (fallback : Int) : Int :=
  match e.getOk k with
  | some v => (parseSigned bits v).getD fallback
  | none => fallback

/-- `get_ip_port_thread_count()` -/
def getIpPortThreadCount (e : Env) : Bytes × Int × Int :=
  ((e.getOk Gen.ipVar).getD Gen.ipFallback,
   getParsed 32 e Gen.portVar Gen.portFallback,
   getParsed 32 e Gen.threadCountVar Gen.threadCountFallback)

/-- `get_request_allocation_size()` -/
def getRequestAllocationSize (e : Env) : Int := getParsed 64 e Gen.allocVar Gen.allocFallback

end Rws.Config
