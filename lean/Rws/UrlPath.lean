/-
  Rws.UrlPath — model of `src/url/path/mod.rs` (tree with the three F26 repairs: a closing `]]`
  without an opening `[[` is an error, a pattern that ends inside an opened token is an error,
  `extract` answers `Err` for a path that does not start with a static part).

  `extractParts`  ↔ `UrlPath::extract_parts_from_pattern`   (`step` = the body of its `for` loop)
  `isMatching`    ↔ `UrlPath::is_matching`                   (`matchLoop` = its `for (index, part)` loop)
  `extract`       ↔ `UrlPath::extract`                       (`extractLoop`, `toPairs`)
  `build`         ↔ `UrlPath::build`                         (`buildLoop`)
  `isWhitespace`, `isControl` ↔ `char::is_whitespace` (White_Space), `char::is_control` (Cc)

  These functions work on `char`s (`chars()`, `Vec<char>`, `String::remove(0)`, `chars().skip(n)`),
  so strings are `List Char` here (a Lean `Char` is a Unicode scalar value, as a Rust `char`).

  Every `unwrap()` / index / subtraction of the Rust code that is not guarded by an `is_some()` /
  `is_err()` test on the same value is a `panic "url/path/mod.rs:<line>"` branch of the model; the
  theorems of RwsProofs/C20.lean show that none of them is reachable (the part lists that
  `extractParts` returns alternate between static parts with a non-empty text and named tokens).

  Quirks kept:
  * `is_matching` cuts the path after a token with `url_path.chars().skip(occurence_place)`, where
    `occurence_place` is the BYTE offset `str::find` returned: with a non-ASCII token value more
    characters are skipped than the token has (`utf8Len` of the prefix, applied as a character count);
  * `is_matching` never uses the token values it collects, `extract` does not check the path for
    white space, a token value may be empty, a later token with the same name overrides;
  * `extract` on pattern parts `[token, token, …]` cannot happen any more (see the invariant).

  Deliberate abstractions: `println!` output is dropped; error texts are dropped; the `HashMap`
  that `extract` returns is the list of its insertions in order (the driver prints the resulting
  map sorted by key, later insertions overriding, as the harness prints the real map);
  `number_of_parts - 1` (usize) is only evaluated inside the loop, where `number_of_parts ≥ 1`.
  Buffers and part lists are kept reversed (`push` = cons) so that long inputs run in linear time.
-/
import Rws.Prim

namespace Rws.UrlPath
open Rws

abbrev Text := List Char

/-- `char::is_whitespace`: the 25 scalars with the Unicode property `White_Space` -/
def isWhitespace (c : Char) : Bool :=
  let n := c.toNat
  (9 ≤ n && n ≤ 13) || n == 32 || n == 0x85 || n == 0xA0 || n == 0x1680 ||
  (0x2000 ≤ n && n ≤ 0x200A) || n == 0x2028 || n == 0x2029 || n == 0x202F || n == 0x205F || n == 0x3000

/-- `char::is_control`: general category Cc = U+0000..U+001F, U+007F..U+009F -/
def isControl (c : Char) : Bool :=
  let n := c.toNat
  n < 32 || (127 ≤ n && n ≤ 159)

def badChar (c : Char) : Bool := isWhitespace c || isControl c

structure Part where
  isStatic : Bool
  name : Option Text
  value : Option Text
  staticPattern : Option Text
deriving Repr, DecidableEq, Inhabited

def staticPart (t : Text) : Part := ⟨true, none, none, some t⟩
def tokenPart (k : Text) : Part := ⟨false, some k, none, none⟩

/-- loop state of `extract_parts_from_pattern`; `partsRev` and `bufRev` are reversed -/
structure St where
  partsRev : List Part
  bufRev : Text
  prev : Option Char
  opened : Bool
deriving Repr, DecidableEq, Inhabited

def St.init : St := ⟨[], [], none, false⟩

/-- the static part the `[[` block pushes: the buffer without its last two characters (`[[`),
    when that is not empty (`buf` = the buffer, reversed, after `_buffer.push(_char)`) -/
def pushStatic (partsRev : List Part) (buf : Text) : List Part :=
  if buf.length ≥ 2 then
    let pat := (buf.drop 2).reverse
    if pat.isEmpty then partsRev else staticPart pat :: partsRev
  else partsRev

/-- the block `if _char == '[' && previous_char == Some('[')` -/
def openTok (st : St) (c : Char) (buf : Text) : Outcome St :=
  if st.opened then .err
  else
    match pushStatic st.partsRev buf with
    | p :: r => if !p.isStatic then .err else .ok ⟨p :: r, [], some c, true⟩
    | [] => .ok ⟨[], [], some c, true⟩

/-- the block `if _char == ']' && previous_char == Some(']')` -/
def closeTok (st : St) (c : Char) (buf : Text) : Outcome St :=
  if !st.opened then .err
  else if buf.length < 2 then .panic "url/path/mod.rs:70"
  else .ok ⟨tokenPart (buf.drop 2).reverse :: st.partsRev, [], some c, false⟩

/-- one iteration of `for _char in _pattern.chars()` -/
def step (st : St) (c : Char) : Outcome St :=
  if badChar c then .err
  else
    let buf := c :: st.bufRev
    if c == '[' && st.prev == some '[' then openTok st c buf
    else if c == ']' && st.prev == some ']' then closeTok st c buf
    else .ok ⟨st.partsRev, buf, some c, st.opened⟩

/-- a `for` loop whose body may `return Err(..)` (or panic): the state after the last element -/
def foldOutcome {σ α : Type} (f : σ → α → Outcome σ) : List α → σ → Outcome σ
  | [], st => .ok st
  | c :: cs, st =>
    match f st c with
    | .ok st' => foldOutcome f cs st'
    | .err => .err
    | .panic s => .panic s

/-- `for _char in _pattern.chars() { … }` -/
def loop (pattern : Text) (st : St) : Outcome St := foldOutcome step pattern st

/-- what follows the loop: an opened token is an error, a non-empty buffer is the last static part -/
def finish (st : St) : Outcome (List Part) :=
  if st.opened then .err
  else if st.bufRev.isEmpty then .ok st.partsRev.reverse
  else .ok (staticPart st.bufRev.reverse :: st.partsRev).reverse

/-- `UrlPath::extract_parts_from_pattern` -/
def extractParts (pattern : Text) : Outcome (List Part) :=
  match loop pattern St.init with
  | .ok st => finish st
  | .err => .err
  | .panic s => .panic s

/-- `for (index, part) in parts.iter().enumerate()` of `is_matching`; the list is the parts from
    `index` on, `url` is `url_path` -/
def matchLoop : List Part → Text → Outcome Bool
  | [], _ => .ok true
  | part :: rest, url =>
    if part.isStatic then
      match part.staticPattern with
      | none => .panic "url/path/mod.rs:134"
      | some pat =>
        if !pat.isPrefixOf url then .ok false
        else matchLoop rest (url.drop pat.length)
    else
      match rest with
      | [] => .ok true
      | next :: _ =>
        match next.staticPattern with
        | none => .panic "url/path/mod.rs:159"
        | some [] => .panic "url/path/mod.rs:159"
        | some (d :: _) =>
          if url.contains d then
            -- `occurence_place`: byte offset of the first `d`; then `chars().skip(occurence_place)`
            matchLoop rest (url.drop (utf8Len (url.takeWhile (· != d))))
          else .ok false

/-- `UrlPath::is_matching` -/
def isMatching (path pattern : Text) : Outcome Bool :=
  if path.any badChar then .err
  else
    match extractParts pattern with
    | .ok parts => matchLoop parts path
    | .err => .err
    | .panic s => .panic s

/-- the `for (index, part)` loop of `extract`: `prev` = `previous_part`, `accRev` =
    `resulting_parts` reversed -/
def extractLoop : List Part → Option Part → Text → List Part → Outcome (List Part)
  | [], _, _, accRev => .ok accRev.reverse
  | part :: rest, prev, path, accRev =>
    if part.isStatic then
      let r : Outcome (Text × List Part) :=
        match prev with
        | none => .ok (path, accRev)
        | some pv =>
          match part.staticPattern with
          | none => .panic "url/path/mod.rs:211"
          | some [] => .panic "url/path/mod.rs:212"
          | some (f :: _) =>
            .ok (path.dropWhile (· != f), { pv with value := some (path.takeWhile (· != f)) } :: accRev)
      match r with
      | .err => .err
      | .panic s => .panic s
      | .ok (path1, acc1) =>
        match part.staticPattern with
        | none => .panic "url/path/mod.rs:236"
        | some pat =>
          if pat.isPrefixOf path1 then extractLoop rest (some part) (path1.drop pat.length) acc1
          else .err
    else
      let acc1 := if rest.isEmpty then { part with value := some path } :: accRev else accRev
      extractLoop rest (some part) path acc1

/-- the loop that fills the map: `part.name.unwrap()`, `part.value.unwrap()` -/
def toPairs : List Part → Outcome (List (Text × Text))
  | [] => .ok []
  | p :: ps =>
    match p.name with
    | none => .panic "url/path/mod.rs:264"
    | some k =>
      match p.value with
      | none => .panic "url/path/mod.rs:265"
      | some v =>
        match toPairs ps with
        | .ok r => .ok ((k, v) :: r)
        | .err => .err
        | .panic s => .panic s

/-- `UrlPath::extract`: the insertions into the map, in order -/
def extract (path pattern : Text) : Outcome (List (Text × Text)) :=
  match extractParts pattern with
  | .err => .err
  | .panic s => .panic s
  | .ok parts =>
    match extractLoop parts none path [] with
    | .ok res => toPairs res
    | .err => .err
    | .panic s => .panic s

/-- the `for part in parts` loop of `build`; `accRev` = `strings_array` reversed -/
def buildLoop (params : List (Text × Text)) : List Part → List Text → Outcome Text
  | [], accRev => .ok accRev.reverse.flatten
  | part :: rest, accRev =>
    if part.isStatic then
      match part.staticPattern with
      | none => .panic "url/path/mod.rs:285"
      | some pat => buildLoop params rest (pat :: accRev)
    else
      match part.name with
      | none => .panic "url/path/mod.rs:287"
      | some key =>
        match params.lookup key with
        | none => .err
        | some v => buildLoop params rest (v :: accRev)

/-- `UrlPath::build` (`params`: the map as an association list with distinct keys) -/
def build (params : List (Text × Text)) (pattern : Text) : Outcome Text :=
  match extractParts pattern with
  | .ok parts => buildLoop params parts []
  | .err => .err
  | .panic s => .panic s

end Rws.UrlPath
