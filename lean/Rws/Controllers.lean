/-
  Rws.Controllers — models of the controllers of `src/app/controller/**` other than the
  static resource controller (Rws.Static), and of the two controller chains
  `App::execute` (production, `legacy = false`) and `App::handle_request` (`legacy = true`)
  of `src/app/mod.rs`.

  Each controller is `matches : Ctx → Request → Outcome Bool` and
  `process : Ctx → Request → Outcome Static.Reply` (what it does to the incoming response).
  The production and legacy variants of a controller are textual copies of each other in
  the Rust source; where they differ the difference is a parameter here.

  Abstractions: as in Rws.Static (error texts are the opaque `ctx.errText`; HashMap
  iteration order of the echo endpoints is modelled as key order — the comparison sorts the
  echoed lines on both sides).
-/
import Rws.Static
import Rws.Query
import Rws.Multipart
import Rws.ContentDisposition
import Rws.Unicode
import Rws.ResponseM
import Rws.HeaderList
import Rws.Gen.Assets
namespace Rws.Controllers
open Rws Rws.Fs Rws.Gen Rws.Static

def textPlain : Bytes := Assets.mimeTextPlain

/-- a whole-body part `0-len/len` of type text/plain, as the echo controllers build it
    (`range.end = len`, `size = len`) -/
def plainPart (body : Bytes) : ContentRange := RangeM.getContentRange body textPlain

def reply (status : Nat) (parts : List ContentRange) : Reply := ⟨some status, [], some parts, []⟩

/-- the error replies: status + opaque message text -/
def errorReply (ctx : Ctx) (status : Nat) : Reply := reply status [plainPart ctx.errText]

/-! ### built-in pages: index, style, script, favicon, not found -/

/-- the common body of IndexController / StyleController / ScriptController /
    FaviconController / NotFoundController `process`: serve `<cwd>/<path>` when it is a
    regular file, else the embedded bytes -/
def assetProcess (ctx : Ctx) (status : Nat) (path embedded mime : Bytes) : Reply :=
  let full := ctx.cwd ++ [47] ++ path
  match metadata ctx.tree full with
  | some md =>
    if md.isFile then
      if !pathAllowed path then ⟨some 500, [], some [RangeM.getContentRange ctx.errText htmlMime], []⟩
      else match readFile ctx.tree full with
        | some (loc, content) => ⟨some status, [], some [RangeM.getContentRange content (Mime.detect path)], [loc]⟩
        | none => ⟨some 500, [], some [RangeM.getContentRange ctx.errText htmlMime], []⟩
    else reply status [RangeM.getContentRange embedded mime]
  | none => reply status [RangeM.getContentRange embedded mime]

def isGHO (m : Bytes) : Bool := m = methodGet || m = methodHead || m = methodOptions

def indexMatches (req : Request) : Bool := req.uri = [47]
def styleMatches (legacy : Bool) (req : Request) : Bool :=
  (legacy || isGHO req.method) && req.uri = [47, 115, 116, 121, 108, 101, 46, 99, 115, 115]
def scriptMatches (legacy : Bool) (req : Request) : Bool :=
  (legacy || isGHO req.method) && req.uri = [47, 115, 99, 114, 105, 112, 116, 46, 106, 115]
def faviconMatches (req : Request) : Bool :=
  isGHO req.method && req.uri = [47, 102, 97, 118, 105, 99, 111, 110, 46, 115, 118, 103]

/-! ### echo endpoints -/

/-- `"{} is {}{}"` per field, joined; fields in key order -/
def echoLines (sep : Bytes) (m : List (Bytes × Bytes)) : Bytes :=
  m.flatMap (fun kv => kv.1 ++ [32, 105, 115, 32] ++ kv.2 ++ sep)

def crlf : Bytes := [13, 10]

/-- `get_request_allocation_size()`: the variable parsed as i64, else 10000 -/
def requestAllocationSize (ctx : Ctx) : Int :=
  match Cors.envVar ctx.env [82, 87, 83, 95, 67, 79, 78, 70, 73, 71, 95, 82, 69, 81, 85, 69, 83, 84, 95, 65, 76, 76, 79, 67, 65, 84, 73, 79, 78, 95, 83, 73, 90, 69, 95, 73, 78, 95, 66, 89, 84, 69, 83] with
  | some v => match Resp.parseI64? v with
    | some n => n
    | none => 10000
  | none => 10000

def pathIs (req : Request) (p : Bytes) : Outcome Bool :=
  match UrlParse.requestUriPath req.uri with
  | .ok path => .ok (path = p)
  | .err => .ok false
  | .panic s => .panic s

def fileInitPath : Bytes := [47, 102, 105, 108, 101, 45, 117, 112, 108, 111, 97, 100, 47, 105, 110, 105, 116, 105, 97, 116, 101]

def fileInitMatches (req : Request) : Outcome Bool :=
  match pathIs req fileInitPath with
  | .ok b => .ok (b && req.method = methodPost)
  | e => e

def fileInitProcess (ctx : Ctx) (req : Request) (legacy : Bool) : Outcome Reply :=
  match UrlParse.requestUriQuery req.uri with
  | .panic s => .panic s
  | .err => .panic (if legacy then Sites.fileInitQueryUnwrapLegacy else Sites.fileInitQueryUnwrap)
  | .ok none => .ok ⟨some 400, [], none, []⟩
  | .ok (some form) =>
    let has (k : Bytes) := (form.lookup k).isSome
    -- "name", "lastModified", "size"
    if !has [110, 97, 109, 101] || !has [108, 97, 115, 116, 77, 111, 100, 105, 102, 105, 101, 100] || !has [115, 105, 122, 101] then
      .ok ⟨some 400, [], none, []⟩
    else
      let alloc := requestAllocationSize ctx
      let shown := if alloc > 4000 then alloc - 4000 else alloc
      -- "request_allocation_size_in_bytes is N\r\n"
      let last : Bytes := [114, 101, 113, 117, 101, 115, 116, 95, 97, 108, 108, 111, 99, 97, 116, 105, 111, 110, 95, 115, 105, 122, 101, 95, 105, 110, 95, 98, 121, 116, 101, 115] ++
        [32, 105, 115, 32] ++ Resp.intToDec shown ++ crlf
      .ok (reply 200 [plainPart (echoLines crlf form ++ last)])

def formUrlencPath : Bytes := [47, 102, 111, 114, 109, 45, 117, 114, 108, 45, 101, 110, 99, 111, 100, 101, 100, 45, 101, 110, 99, 116, 121, 112, 101, 45, 112, 111, 115, 116, 45, 109, 101, 116, 104, 111, 100]
def formUrlencCT : Bytes := [97, 112, 112, 108, 105, 99, 97, 116, 105, 111, 110, 47, 120, 45, 119, 119, 119, 45, 102, 111, 114, 109, 45, 117, 114, 108, 101, 110, 99, 111, 100, 101, 100]

def formUrlencMatches (req : Request) : Bool :=
  match getHeader req Hdr.hContentType with
  | none => false
  | some h =>
    Unicode.toLowercase h.value = formUrlencCT && req.uri = formUrlencPath && req.method = methodPost

def formUrlencProcess (ctx : Ctx) (req : Request) (legacy : Bool) : Outcome Reply :=
  if !Query.validUtf8 req.body then .ok (errorReply ctx 400)
  else match Query.FormUrlEncoded.parse req.body with
    | .ok form => .ok (reply 200 [plainPart (echoLines crlf form)])
    | .err => .panic (if legacy then Sites.formUrlencParseUnwrapLegacy else Sites.formUrlencParseUnwrap)
    | .panic s => .panic s

def formGetPath : Bytes := [47, 102, 111, 114, 109, 45, 103, 101, 116, 45, 109, 101, 116, 104, 111, 100]

def formGetMatches (req : Request) : Outcome Bool :=
  match pathIs req formGetPath with
  | .ok b => .ok (b && req.method = methodGet)
  | e => e

def formGetProcess (_ctx : Ctx) (req : Request) (legacy : Bool) : Outcome Reply :=
  match UrlParse.requestUriQuery req.uri with
  | .panic s => .panic s
  | .err => .panic (if legacy then Sites.formGetQueryUnwrapLegacy else Sites.formGetQueryUnwrap)
  | .ok none => .ok ⟨some 200, [], none, []⟩
  | .ok (some form) => .ok (reply 200 [plainPart (echoLines crlf form)])

def formMultipartPath : Bytes := [47, 102, 111, 114, 109, 45, 109, 117, 108, 116, 105, 112, 97, 114, 116, 45, 101, 110, 99, 116, 121, 112, 101, 45, 112, 111, 115, 116, 45, 109, 101, 116, 104, 111, 100]
def formMultipartCT : Bytes := [109, 117, 108, 116, 105, 112, 97, 114, 116, 47, 102, 111, 114, 109, 45, 100, 97, 116, 97, 59, 32, 98, 111, 117, 110, 100, 97, 114, 121, 61]

/-- `StringExt::filter_ascii_control_characters`: control characters removed, then `trim()` -/
def filterAsciiControl (s : Bytes) : Bytes := RangeM.trimU (s.filter (fun b => !(b < 32 || b = 127)))

def formMultipartMatches (req : Request) : Outcome Bool :=
  match getHeader req Hdr.hContentType with
  | none => .ok false
  | some h =>
    match UrlParse.requestUriPath req.uri with
    | .panic s => .panic s
    | .err => .ok false
    | .ok path =>
      if !startsWith (filterAsciiControl (Unicode.toLowercase h.value)) formMultipartCT then .ok false
      else .ok (path = formMultipartPath && req.method = methodPost)

/-- the per-part loop of the multipart echo controller -/
def multipartLines (ps : List Part) : Option Bytes :=
  match ps with
  | [] => some []
  | p :: rest =>
    match Multipart.getHeader p Hdr.hContentDisposition with
    | none => none
    | some h =>
      match ContentDisposition.parse h.value with
      | .ok cd =>
        match cd.fieldName with
        | none => none
        | some name =>
          if !Query.validUtf8 p.body then none
          else match multipartLines rest with
            | some tl => some (name ++ [32, 105, 115, 32] ++ p.body ++ [32, 13, 10] ++ tl)
            | none => none
      | _ => none

def formMultipartProcess (ctx : Ctx) (req : Request) : Outcome Reply :=
  match getHeader req Hdr.hContentType with
  | none => .panic "unreachable: content-type checked by the matcher"
  | some h =>
    match Multipart.extractBoundary h.value with
    | .panic s => .panic s
    | .err => .ok (errorReply ctx 400)
    | .ok boundary =>
      match Multipart.parse req.body boundary with
      | .panic s => .panic s
      | .err => .ok (errorReply ctx 400)
      | .ok parts =>
        match multipartLines parts with
        | none => .ok (errorReply ctx 400)
        | some body => .ok (reply 200 [plainPart body])

/-! ### the controller chain -/

/-- `Response::get_response(501, Some(header_list), None)` then the first matching controller -/
structure Answer where
  response : Response
  reads    : List Loc
deriving Repr

def reasonOf (status : Int) : Bytes :=
  match Gen.statusTable.lookup status with
  | some r => r
  | none => []

def http11 : Bytes := [72, 84, 84, 80, 47, 49, 46, 49]

def applyReply (r : Response) (rep : Reply) : Answer :=
  let r1 := match rep.status with
    | some s => { r with status := (s : Int), reason := reasonOf s }
    | none => r
  let r2 := { r1 with headers := r1.headers ++ rep.extraHeaders }
  let r3 := match rep.parts with
    | some p => { r2 with parts := p }
    | none => r2
  ⟨r3, rep.reads⟩

/-- `App::execute` (`legacy = false`) / `App::handle_request` (`legacy = true`) -/
def execute (ctx : Ctx) (req : Request) (legacy : Bool) : Outcome Answer :=
  match HeaderList.getHeaderList ctx.env ctx.now req with
  | .panic s => .panic s
  | .err => .err
  | .ok hs =>
    let r0 : Response := ⟨http11, 501, reasonOf 501, hs, []⟩
    let fin (rep : Outcome Reply) : Outcome Answer :=
      match rep with
      | .ok rep => .ok (applyReply r0 rep)
      | .err => .err
      | .panic s => .panic s
    if indexMatches req then fin (.ok (assetProcess ctx 200 Assets.indexPath Assets.indexBytes Assets.indexMime))
    else if styleMatches legacy req then fin (.ok (assetProcess ctx 200 Assets.stylePath Assets.styleBytes Assets.styleMime))
    else if scriptMatches legacy req then fin (.ok (assetProcess ctx 200 Assets.scriptPath Assets.scriptBytes Assets.scriptMime))
    else match fileInitMatches req with
    | .panic s => .panic s
    | .err => .err
    | .ok true => fin (fileInitProcess ctx req legacy)
    | .ok false =>
      if formUrlencMatches req then fin (formUrlencProcess ctx req legacy)
      else match formGetMatches req with
      | .panic s => .panic s
      | .err => .err
      | .ok true => fin (formGetProcess ctx req legacy)
      | .ok false =>
        match formMultipartMatches req with
        | .panic s => .panic s
        | .err => .err
        | .ok true => fin (formMultipartProcess ctx req)
        | .ok false =>
          if faviconMatches req then fin (.ok (assetProcess ctx 200 Assets.faviconPath Assets.faviconBytes Assets.faviconMime))
          else
            let sm : Outcome Bool := if legacy then .ok (isMatchingLegacy ctx req) else isMatching ctx req
            match sm with
            | .panic s => .panic s
            | .err => .err
            | .ok true => fin (Static.process ctx req legacy)
            | .ok false => fin (.ok (assetProcess ctx 404 Assets.notfoundPath Assets.notfoundBytes Assets.notfoundMime))

end Rws.Controllers
