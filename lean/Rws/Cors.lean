/-
  Rws.Cors — model of `src/cors/mod.rs` (after the F15 repair: exact origin membership).

  Rust                                         model
  ------------------------------------------   -----------------------------------------
  std::env::var(NAME) (.is_err() / .unwrap())  `envVar env NAME` (`none` = Err: the variable
                                               is absent OR its value is not valid Unicode)
  str::parse::<bool>()                         `parseBool` ("true" / "false", nothing else)
  Request::get_header(name)                    `getHeader req name` (first header whose
                                               `to_lowercase()`d name equals the
                                               `to_lowercase()`d argument — full Unicode
                                               lower-casing, `Rws.Unicode.toLowercase`)
  [String]::join(",")                          `join [44]`
  Cors::allow_all(request)                     `allowAll req`
  Cors::_process(request, cors)                `processWith cors req`
  Cors::process_using_default_config(request)  `processUsingDefaultConfig env req`
  Cors::get_headers(request)                   `getHeaders env req`
  Cors::get_vary_header_value()                `varyHeaderValue`

  The process environment is a parameter: `Env := Bytes → Option Bytes` (name ↦ raw value
  bytes, as the OS holds them).  Names and header constants come from `Rws.Gen.Cors`
  (regenerated from `src/entry_point/mod.rs`, `src/header/mod.rs`, `src/cors/mod.rs`,
  `src/request/mod.rs`).

  Deliberate abstractions (each sound for the comparison):
  * `eprintln!` diagnostics are not modelled (the harness does not capture stderr).
  * `Vec::push` sequences are written as list concatenation of the pushed segments, in push
    order; each segment mirrors one `if … { headers.push(..) }` block.
  * The `Error` payload of `Result<_, Error>` is dropped (`Outcome.err`); none of the three
    `Result`-returning functions has an `Err` path, and none can panic (every `unwrap()` is
    guarded by `is_some()` / `is_err()`), so the model returns `.ok` everywhere; `getHeaders`
    still follows the Rust `is_err()` fall-through structure.
  * `toLowercase` on bytes that are not UTF-8 is unspecified by Rust (a `String` is always
    UTF-8); see `Rws/Unicode.lean`.  The drivers answer `badutf8` for such inputs.
-/
import Rws.Prim
import Rws.Http
import Rws.Unicode
import Rws.Gen.CorsTab
namespace Rws.Cors
open Rws.Gen.Cors

/-- the process environment: variable name ↦ raw value bytes -/
abbrev Env := Bytes → Option Bytes

/-- an environment given as an association list (first binding wins) -/
def envOf (l : List (Bytes × Bytes)) : Env := fun n => l.lookup n

/-- `std::env::var(name).ok()`: `Err(NotPresent)` and `Err(NotUnicode)` both read as `none` -/
def envVar (env : Env) (name : Bytes) : Option Bytes :=
  match env name with
  | some v => if Unicode.validUtf8 v then some v else none
  | none => none

/-- `s.parse::<bool>().ok()` -/
def parseBool (s : Bytes) : Option Bool :=
  if s = [116, 114, 117, 101] then some true
  else if s = [102, 97, 108, 115, 101] then some false
  else none

/-- `bool::to_string()` -/
def boolToString (b : Bool) : Bytes :=
  if b then [116, 114, 117, 101] else [102, 97, 108, 115, 101]

/-- `Request::get_header` (src/request/mod.rs:53) -/
def getHeader (req : Request) (name : Bytes) : Option Header :=
  req.headers.find? (fun x => Unicode.toLowercase x.name == Unicode.toLowercase name)

/-- `[String]::join(sep)` -/
def join (sep : Bytes) : List Bytes → Bytes
  | [] => []
  | [x] => x
  | x :: y :: rest => x ++ sep ++ join sep (y :: rest)

/-- `struct Cors` -/
structure Cors where
  allowAll         : Bool
  allowOrigins     : List Bytes
  allowMethods     : List Bytes
  allowHeaders     : List Bytes
  allowCredentials : Bool
  exposeHeaders    : List Bytes
  maxAge           : Bytes
deriving Repr, DecidableEq, Inhabited

/-- `Cors::get_vary_header_value` -/
def varyHeaderValue : Bytes := hOrigin

/-- `request.method == METHOD.options` -/
def isOptions (req : Request) : Bool := req.method == methodOptions

/-! ### `Cors::allow_all` (src/cors/mod.rs:29) -/

/-- the `if is_options { … }` block of `allow_all` -/
def allowAllPreflight (req : Request) : List Header :=
  (match getHeader req hRequestMethod with
   | some m => [⟨hAllowMethods, m.value⟩]
   | none => []) ++
  (match getHeader req hRequestHeaders with
   | some rh => [⟨hAllowHeaders, Unicode.toLowercase rh.value⟩,
                 ⟨hExposeHeaders, Unicode.toLowercase rh.value⟩]
   | none => []) ++
  [⟨hMaxAge, maxAgeDefault⟩]

def allowAllHeaders (req : Request) : List Header :=
  match getHeader req hOrigin with
  | none => []
  | some origin =>
    [⟨hAllowOrigin, origin.value⟩, ⟨hAllowCredentials, [116, 114, 117, 101]⟩] ++
    (if isOptions req then allowAllPreflight req else [])

def allowAll (req : Request) : Outcome (List Header) := .ok (allowAllHeaders req)

/-! ### `Cors::_process` (src/cors/mod.rs:84) -/

/-- the `if is_options { … }` block of `_process` -/
def processPreflight (cors : Cors) : List Header :=
  [⟨hAllowMethods, join [44] cors.allowMethods⟩,
   ⟨hAllowHeaders, Unicode.toLowercase (join [44] cors.allowHeaders)⟩,
   ⟨hExposeHeaders, Unicode.toLowercase (join [44] cors.exposeHeaders)⟩,
   ⟨hMaxAge, cors.maxAge⟩]

def processWithHeaders (cors : Cors) (req : Request) : List Header :=
  match getHeader req hOrigin with
  | none => []
  | some origin =>
    -- `cors.allow_origins.contains(&origin_value)`
    if !cors.allowOrigins.contains origin.value then []
    else
      [⟨hAllowOrigin, origin.value⟩] ++
      (if cors.allowCredentials then [⟨hAllowCredentials, boolToString cors.allowCredentials⟩] else []) ++
      (if isOptions req then processPreflight cors else [])

def processWith (cors : Cors) (req : Request) : Outcome (List Header) :=
  .ok (processWithHeaders cors req)

/-! ### `Cors::process_using_default_config` (src/cors/mod.rs:148) -/

/-- `allow_origins.split(',').any(|allowed| !allowed.is_empty() && allowed == origin_value)` -/
def originAllowed (allowOrigins originValue : Bytes) : Bool :=
  (splitAll [44] allowOrigins).any (fun allowed => !allowed.isEmpty && allowed == originValue)

/-- the credentials block: header only when the variable is readable and parses to `true` -/
def envCredentials (env : Env) : List Header :=
  match envVar env varAllowCredentials with
  | none => []
  | some v =>
    match parseBool v with
    | none => []
    | some b => if b then [⟨hAllowCredentials, boolToString b⟩] else []

/-- one `env::var(NAME)` → `headers.push(Header { name, value: f(value) })` block -/
def envHeader (env : Env) (var name : Bytes) (f : Bytes → Bytes) : List Header :=
  match envVar env var with
  | none => []
  | some v => [⟨name, f v⟩]

/-- the `if is_options { … }` block of `process_using_default_config` -/
def envPreflight (env : Env) : List Header :=
  envHeader env varAllowMethods hAllowMethods id ++
  envHeader env varAllowHeaders hAllowHeaders Unicode.toLowercase ++
  envHeader env varExposeHeaders hExposeHeaders Unicode.toLowercase ++
  envHeader env varMaxAge hMaxAge id

def defaultConfigHeaders (env : Env) (req : Request) : List Header :=
  let allowOrigins : Bytes :=
    match envVar env varAllowOrigins with
    | some v => v
    | none => []
  match getHeader req hOrigin with
  | none => []
  | some origin =>
    if !originAllowed allowOrigins origin.value then []
    else
      [⟨hAllowOrigin, origin.value⟩] ++ envCredentials env ++
      (if isOptions req then envPreflight env else [])

def processUsingDefaultConfig (env : Env) (req : Request) : Outcome (List Header) :=
  .ok (defaultConfigHeaders env req)

/-! ### `Cors::get_headers` (src/cors/mod.rs:257) -/

/-- the tail of `get_headers`: `Cors::allow_all`, `vec![]` on `Err` -/
def getHeadersTail (req : Request) : Outcome (List Header) :=
  match allowAll req with
  | .ok hs => .ok hs
  | .err => .ok []
  | .panic s => .panic s

def getHeaders (env : Env) (req : Request) : Outcome (List Header) :=
  match envVar env varAllowAll with
  | none =>
    match allowAll req with
    | .ok hs => .ok hs
    | .err => getHeadersTail req
    | .panic s => .panic s
  | some v =>
    match parseBool v with
    | none => getHeadersTail req
    | some isAllowAll =>
      if !isAllowAll then
        match processUsingDefaultConfig env req with
        | .ok hs => .ok hs
        | .err => getHeadersTail req
        | .panic s => .panic s
      else getHeadersTail req

end Rws.Cors
