/-
  Rws.Prim — primitives shared by every model file.

  * `Outcome α` is what a modelled Rust function returns: a value, an `Err(_)` (the error
    text is not modelled: the correspondence check drops it too) or a panic at a named
    source site (`file:line` of the Rust expression that would panic).
  * `Bytes` is `List UInt8`.  Rust `String`/`&str` values are modelled either as byte lists
    (everything that is split on ASCII delimiters) or as `List Char` (the few APIs that
    index by character).

  Import-free on purpose: the driver executable links only against core.
-/
namespace Rws

abbrev Bytes := List UInt8

inductive Outcome (α : Type) where
  | ok    : α → Outcome α
  | err   : Outcome α
  | panic : String → Outcome α
deriving Repr, DecidableEq

namespace Outcome

@[inline] def bind {α β : Type} (x : Outcome α) (f : α → Outcome β) : Outcome β :=
  match x with
  | ok a    => f a
  | err     => err
  | panic s => panic s

instance : Monad Outcome where
  pure := ok
  bind := bind

def isOk {α : Type} : Outcome α → Bool
  | ok _ => true
  | _    => false

def isErr {α : Type} : Outcome α → Bool
  | err => true
  | _   => false

def isPanic {α : Type} : Outcome α → Bool
  | panic _ => true
  | _       => false

@[simp] theorem bind_ok {α β : Type} (a : α) (f : α → Outcome β) : bind (ok a) f = f a := rfl
@[simp] theorem bind_err {α β : Type} (f : α → Outcome β) : bind (err : Outcome α) f = err := rfl
@[simp] theorem bind_panic {α β : Type} (s : String) (f : α → Outcome β) :
    bind (panic s : Outcome α) f = panic s := rfl

end Outcome

/-- `text.len()` of a Rust `String` whose characters are `cs`: the UTF-8 byte length. -/
def utf8Len : List Char → Nat
  | []      => 0
  | c :: cs => c.utf8Size + utf8Len cs

/-- `c as u8` in Rust: truncation of the scalar value to its low 8 bits. -/
def charAsU8 (c : Char) : UInt8 := UInt8.ofNat c.toNat

/-- `b as char` in Rust for a `u8`: the scalar value U+0000..U+00FF. -/
def u8AsChar (b : UInt8) : Char := Char.ofNat b.toNat

/-! ### byte-list primitives mirroring Rust std on `&[u8]` / ASCII-delimited `&str` -/

/-- `haystack.starts_with(needle)` -/
def startsWith (hay needle : Bytes) : Bool := needle.isPrefixOf hay

/-- `haystack.ends_with(needle)` -/
def endsWith (hay needle : Bytes) : Bool := needle.isSuffixOf hay

/-- position of the first occurrence of `needle` (non-empty) in `hay`, as `windows().position()` -/
def findSub (hay needle : Bytes) : Option Nat :=
  go hay 0
where
  go : Bytes → Nat → Option Nat
    | [], i => if needle.isEmpty then some i else none
    | h :: t, i => if needle.isPrefixOf (h :: t) then some i else go t (i + 1)

/-- `s.contains(needle)` on strings (an empty needle is contained in everything). -/
def containsSub (hay needle : Bytes) : Bool := (findSub hay needle).isSome

/-- `s.split_once(sep)` for a non-empty separator. -/
def splitOnce (s sep : Bytes) : Option (Bytes × Bytes) :=
  match findSub s sep with
  | some i => some (s.take i, s.drop (i + sep.length))
  | none   => none

/-- Rust `str::replace(pat, to)` for a non-empty pattern: left to right, non-overlapping. -/
def replaceAll (pat to : Bytes) (l : Bytes) : Bytes :=
  if h : pat ≠ [] ∧ pat.isPrefixOf l then
    to ++ replaceAll pat to (l.drop pat.length)
  else
    match l with
    | []      => []
    | c :: cs => c :: replaceAll pat to cs
termination_by l.length
decreasing_by
  · have hp := List.length_pos_iff.mpr h.1
    have hl : pat.length ≤ l.length := (List.isPrefixOf_iff_prefix.mp h.2).length_le
    simp only [List.length_drop]; omega
  · simp

/-- `s.split(sep)` for a non-empty separator (Rust yields at least one piece). -/
def splitAll (sep : Bytes) (s : Bytes) : List Bytes :=
  go s [] s.length
where
  go (rest cur : Bytes) : Nat → List Bytes
    | 0 => [cur.reverse ++ rest]
    | fuel + 1 =>
      match rest with
      | [] => [cur.reverse]
      | c :: cs =>
        if sep ≠ [] ∧ sep.isPrefixOf (c :: cs) then
          cur.reverse :: go ((c :: cs).drop sep.length) [] fuel
        else go cs (c :: cur) fuel

/-- one `read_until(b'\n')` step: the line including its terminator, and the rest. -/
def readLine : Bytes → Bytes × Bytes
  | []      => ([], [])
  | c :: cs => if c = 10 then ([c], cs) else
      let (l, r) := readLine cs
      (c :: l, r)

/-- ASCII white space as `char::is_whitespace` sees it on ASCII input. -/
def isAsciiWs (b : UInt8) : Bool := b = 32 || (9 ≤ b && b ≤ 13)

def asciiLower (b : UInt8) : UInt8 := if 65 ≤ b && b ≤ 90 then b + 32 else b
def asciiUpper (b : UInt8) : UInt8 := if 97 ≤ b && b ≤ 122 then b - 32 else b

def trimStartAscii (s : Bytes) : Bytes := s.dropWhile isAsciiWs
def trimEndAscii (s : Bytes) : Bytes := (s.reverse.dropWhile isAsciiWs).reverse
def trimAscii (s : Bytes) : Bytes := trimEndAscii (trimStartAscii s)

/-- decimal digits of a natural number, as `to_string()` prints it -/
def natToDec (n : Nat) : Bytes := (Nat.toDigits 10 n).map (fun c => UInt8.ofNat c.toNat)

/-- `str::parse::<uN>()` on bytes: optional leading `+`, then one or more ASCII digits. -/
def parseNat? (s : Bytes) : Option Nat :=
  let s := match s with
    | 43 :: t => t
    | _ => s
  if s.isEmpty then none
  else if s.all (fun b => 48 ≤ b && b ≤ 57) then
    some (s.foldl (fun acc b => acc * 10 + (b.toNat - 48)) 0)
  else none

/-! ### hex helpers for the line protocol (driver only) -/

def hexDigit (n : Nat) : Char :=
  if n < 10 then Char.ofNat (48 + n) else Char.ofNat (87 + n)

def toHex (bs : Bytes) : String :=
  String.ofList (bs.foldr (fun b acc => hexDigit (b.toNat / 16) :: hexDigit (b.toNat % 16) :: acc) [])

def hexVal (c : Char) : Option Nat :=
  if '0' ≤ c ∧ c ≤ '9' then some (c.toNat - 48)
  else if 'a' ≤ c ∧ c ≤ 'f' then some (c.toNat - 87)
  else if 'A' ≤ c ∧ c ≤ 'F' then some (c.toNat - 55)
  else none

def ofHex (s : String) : Option Bytes :=
  go s.toList
where
  go : List Char → Option Bytes
    | [] => some []
    | [_] => none
    | a :: b :: t =>
      match hexVal a, hexVal b, go t with
      | some x, some y, some r => some (UInt8.ofNat (x * 16 + y) :: r)
      | _, _, _ => none

/-- the protocol writes `-` for the empty byte string -/
def toHexField (bs : Bytes) : String := if bs.isEmpty then "-" else toHex bs
def ofHexField (s : String) : Option Bytes := if s = "-" then some [] else ofHex s

end Rws
