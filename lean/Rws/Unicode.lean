/-
  Rws.Unicode — the Unicode-aware std functions of Rust `str` that the rws code applies to
  configuration / client text, on UTF-8 byte lists:

  * `validUtf8`    = `String::from_utf8(..).is_ok()` / `OsString::into_string().is_ok()`
                     (strict: no overlongs, no surrogates, ≤ U+10FFFF);
  * `toLowercase`  = `str::to_lowercase()`: every scalar is replaced by its
                     `char::to_lowercase()` image (1–3 scalars), except U+03A3 `Σ`, which
                     becomes `ς` when it is word-final (Final_Sigma: preceded by
                     case-ignorable* cased, and NOT followed by case-ignorable* cased) and `σ`
                     otherwise — exactly the loop in `alloc::str::to_lowercase`.

  The per-scalar data (lower-case mapping, `Case_Ignorable`, `Cased`) are private tables of
  std; `Rws.Gen.Unicode` (translator/gens/cors.py) regenerates them from the behaviour of the
  very toolchain that builds the harness.  What is hand-written here is the algorithm:
  UTF-8 decoding/encoding, table lookup, the Final_Sigma context rule.  It is tied to std by
  the differential runs (C11: non-ASCII configured header names, `İ`, `Σ` in every context).

  On a byte list that is NOT valid UTF-8 (never a Rust `String`; the drivers answer
  `badutf8` before calling a model) `toLowercase` lower-cases the ASCII bytes only.
  ASCII-only inputs take a table-free fast path (same result as the general path), so that
  kernel evaluation of examples never unfolds the tables.
-/
import Rws.Prim
import Rws.Gen.UnicodeLowerTab
namespace Rws.Unicode
open Rws.Gen.Unicode

def isCont (b : UInt8) : Bool := 0x80 ≤ b && b ≤ 0xBF

/-- strict UTF-8 decoder: the scalar values, or `none` where `String::from_utf8` fails -/
def decodeUtf8 : Bytes → Option (List Nat)
  | [] => some []
  | b0 :: r0 =>
    if b0 < 0x80 then (decodeUtf8 r0).map (b0.toNat :: ·)
    else match r0 with
      | [] => none
      | b1 :: r1 =>
        if 0xC2 ≤ b0 && b0 ≤ 0xDF then
          if isCont b1 then
            (decodeUtf8 r1).map (((b0.toNat - 0xC0) * 64 + (b1.toNat - 0x80)) :: ·)
          else none
        else match r1 with
          | [] => none
          | b2 :: r2 =>
            if 0xE0 ≤ b0 && b0 ≤ 0xEF then
              let c := (b0.toNat - 0xE0) * 4096 + (b1.toNat - 0x80) * 64 + (b2.toNat - 0x80)
              if isCont b1 && isCont b2 && 0x800 ≤ c && !(0xD800 ≤ c && c ≤ 0xDFFF) then
                (decodeUtf8 r2).map (c :: ·)
              else none
            else match r2 with
              | [] => none
              | b3 :: r3 =>
                if 0xF0 ≤ b0 && b0 ≤ 0xF4 then
                  let c := (b0.toNat - 0xF0) * 262144 + (b1.toNat - 0x80) * 4096 +
                           (b2.toNat - 0x80) * 64 + (b3.toNat - 0x80)
                  if isCont b1 && isCont b2 && isCont b3 && 0x10000 ≤ c && c ≤ 0x10FFFF then
                    (decodeUtf8 r3).map (c :: ·)
                  else none
                else none

def encodeScalar (c : Nat) : Bytes :=
  if c < 0x80 then [UInt8.ofNat c]
  else if c < 0x800 then [UInt8.ofNat (0xC0 + c / 64), UInt8.ofNat (0x80 + c % 64)]
  else if c < 0x10000 then
    [UInt8.ofNat (0xE0 + c / 4096), UInt8.ofNat (0x80 + c / 64 % 64), UInt8.ofNat (0x80 + c % 64)]
  else
    [UInt8.ofNat (0xF0 + c / 262144), UInt8.ofNat (0x80 + c / 4096 % 64),
     UInt8.ofNat (0x80 + c / 64 % 64), UInt8.ofNat (0x80 + c % 64)]

def encodeUtf8 (cs : List Nat) : Bytes := cs.flatMap encodeScalar

def isAscii (bs : Bytes) : Bool := bs.all (· < 128)

def validUtf8 (bs : Bytes) : Bool := isAscii bs || (decodeUtf8 bs).isSome

def inRanges (rs : List (Nat × Nat)) (c : Nat) : Bool := rs.any (fun r => r.1 ≤ c && c ≤ r.2)

/-- `char::to_lowercase()` as a list of scalars -/
def lowerChar (c : Nat) : List Nat :=
  if c < 128 then [if 65 ≤ c ∧ c ≤ 90 then c + 32 else c]
  else match lowerMulti.lookup c with
    | some l => l
    | none =>
      match lowerRuns.find? (fun r => r.1 ≤ c && c ≤ r.2.1 && (c - r.1) % r.2.2.1 == 0) with
      | some r => [r.2.2.2 + (c - r.1)]
      | none => [c]

/-- `case_ignorable_then_cased(iter)`: skip case-ignorable scalars, then is the next one cased? -/
def caseIgnorableThenCased (it : List Nat) : Bool :=
  match it.dropWhile (inRanges caseIgnorable) with
  | c :: _ => inRanges casedNotIgnorable c
  | [] => false

/-- the `for (i, c) in self.char_indices()` loop; `before` = `self[..i].chars().rev()` -/
def lowerGo (before : List Nat) : List Nat → List Nat
  | [] => []
  | c :: rest =>
    (if c = 0x3A3 then
       [if caseIgnorableThenCased before && !caseIgnorableThenCased rest then 0x3C2 else 0x3C3]
     else lowerChar c) ++ lowerGo (c :: before) rest

def lowerScalars (cs : List Nat) : List Nat := lowerGo [] cs

/-- `str::to_lowercase()` on UTF-8 bytes -/
def toLowercase (bs : Bytes) : Bytes :=
  if isAscii bs then bs.map asciiLower
  else match decodeUtf8 bs with
    | some cs => encodeUtf8 (lowerScalars cs)
    | none => bs.map asciiLower

end Rws.Unicode
