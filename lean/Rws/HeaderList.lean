/-
  Rws.HeaderList — model of `Header::get_header_list(request)` (src/header/mod.rs): the list
  every response starts from.  Pushes, in source order (the translator checks the order):
  CORS grants, Accept-CH, Critical-CH, Vary, X-Content-Type-Options, Accept-Ranges,
  X-Frame-Options, Date-Unix-Epoch-Nanos, Cache-Control.
  The clock is a parameter: `now` is the decimal text of `DateTimeExt::_now_unix_epoch_nanos()`.
-/
import Rws.Cors
import Rws.Gen.HeaderTab
namespace Rws.HeaderList
open Rws Rws.Gen

/-- `[..].join(", ")` -/
def joinCommaSpace : List Bytes → Bytes
  | [] => []
  | [x] => x
  | x :: y :: t => x ++ [44, 32] ++ joinCommaSpace (y :: t)

def hintValue : Bytes := joinCommaSpace Hdr.clientHintList
def varyValue : Bytes := joinCommaSpace [Cors.varyHeaderValue, joinCommaSpace Hdr.varyHintList]

/-- the eight headers pushed after the CORS grants -/
def fixedHeaders (now : Bytes) : List Header :=
  [⟨Hdr.hAcceptCh, hintValue⟩, ⟨Hdr.hCriticalCh, hintValue⟩, ⟨Hdr.hVary, varyValue⟩,
   ⟨Hdr.hXContentTypeOptions, Hdr.hXContentTypeOptionsValueNosniff⟩, ⟨Hdr.hAcceptRanges, Hdr.rangeBytes⟩,
   ⟨Hdr.hXFrameOptions, Hdr.hXFrameOptionsValueSameOrigin⟩, ⟨Hdr.hDateUnixEpochNanos, now⟩,
   ⟨Hdr.hCacheControl, Hdr.hDoNotStoreCache⟩]

/-- `Header::get_header_list` -/
def getHeaderList (env : Cors.Env) (now : Bytes) (req : Request) : Outcome (List Header) :=
  match Cors.getHeaders env req with
  | .ok cors => .ok (cors ++ fixedHeaders now)
  | .err => .err
  | .panic s => .panic s

end Rws.HeaderList
