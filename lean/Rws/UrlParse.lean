/-
  Rws.UrlParse — model of the dependency crate `url-build-parse 11.0.0` (`parse_url` and every
  helper it reaches) and of the two `Request` accessors built on it.

  `parseUrl`          ↔ `url_build_parse::parse_url`          (lib.rs:96)  = `URL::parse`
  `extractScheme`     ↔ `extract_scheme`                      (lib.rs:268)
  `extractAuthority`  ↔ `extract_authority`                   (lib.rs:278)
  `extractPath`       ↔ `extract_path`                        (lib.rs:337)
  `extractQuery`      ↔ `extract_query`                       (lib.rs:371)
  `extractFragment`   ↔ `extract_fragment`                    (lib.rs:395)
  `parseQueryMark`    ↔ `parse_query`                         (lib.rs:415)
  `parseFragment`     ↔ `parse_fragment`                      (lib.rs:421)
  `parseAuthority`    ↔ `parse_authority`                     (lib.rs:427)
  `extractUserinfo`   ↔ `extract_userinfo`                    (lib.rs:454)
  `extractHost`       ↔ `extract_host`                        (lib.rs:479)
  `extractPort`       ↔ `extract_port`                        (lib.rs:503)
  `requestUriQuery`   ↔ `Request::get_uri_query` / `get_query` (src/request/mod.rs:108)
  `requestUriPath`    ↔ `Request::get_uri_path` / `get_path`   (src/request/mod.rs:127)

  Every `unwrap()` of the crate is a `panic "url-build-parse-11.0.0/lib.rs:<line>"` site (the
  harness prints a dependency's panic location as `<crate-dir>/<file>:<line>`).  Only the one at
  line 448 (`extract_port(..).unwrap()` on an unparsable port) is reachable; the others are kept
  where the code has them.  `url.chars().count() == 0` is `url = []` (a string has no characters
  iff it has no bytes).  All separators are ASCII, so byte-level `split_once` / `contains` are
  exact on UTF-8.  `usize` is 64 bits (the target the harness is built for).
  The query map is the canonical association list of `Rws.Query`.
-/
import Rws.Prim
import Rws.Query

namespace Rws.UrlParse
open Rws

structure UserInfo where
  username : Bytes
  password : Option Bytes
deriving Repr, DecidableEq, Inhabited

structure Authority where
  userInfo : Option UserInfo
  host     : Bytes
  port     : Option Nat
deriving Repr, DecidableEq, Inhabited

structure UrlComponents where
  scheme    : Bytes
  authority : Option Authority
  path      : Bytes
  query     : Option (List (Bytes × Bytes))
  fragment  : Option Bytes
deriving Repr, DecidableEq, Inhabited

/-- `extract_scheme` -/
def extractScheme (url : Bytes) : Outcome (Bytes × Bytes) :=
  match splitOnce url [58] with
  | some (scheme, rest) => .ok (scheme, rest)
  | none => .err

/-- `extract_authority`: (authority text, remaining url) -/
def extractAuthority (url : Bytes) : Outcome (Option Bytes × Option Bytes) :=
  if url = [] then .err
  else if !containsSub url [47, 47] then .ok (none, some url)
  else
    match splitOnce url [47, 47] with
    | none => .panic "url-build-parse-11.0.0/lib.rs:288"
    | some (_, url) =>
      let slash := containsSub url [47]
      let qmark := containsSub url [63]
      let hash := containsSub url [35]
      if !slash && !qmark && !hash then .ok (some url, none)
      else
        match (if slash then splitOnce url [47] else none) with
        | some (a, r) => .ok (some a, some (47 :: r))
        | none =>
          match (if !slash && qmark then splitOnce url [63] else none) with
          | some (a, r) => .ok (some a, some (63 :: r))
          | none =>
            match (if !slash && !qmark && hash then splitOnce url [35] else none) with
            | some (a, r) => .ok (some a, some (35 :: r))
            | none => .err

/-- `extract_path`: (path, remaining url) -/
def extractPath (url : Bytes) : Outcome (Bytes × Option Bytes) :=
  if url = [] then .err
  else
    let qmark := containsSub url [63]
    let hash := containsSub url [35]
    if !qmark && !hash then .ok (url, none)
    else
      let delimiter : UInt8 := if !qmark && hash then 35 else 63
      match splitOnce url [delimiter] with
      | some (p, r) => .ok (p, some (delimiter :: r))
      | none => .err

/-- `extract_query`: (query with its `?`, remaining url) -/
def extractQuery (url : Bytes) : Outcome (Option Bytes × Option Bytes) :=
  if url = [] then .ok (none, none)
  else if containsSub url [35] then
    match splitOnce url [35] with
    | none => .panic "url-build-parse-11.0.0/lib.rs:380"
    | some (q, r) => .ok (if q = [] then none else some q, some (35 :: r))
  else .ok (some url, none)

/-- `extract_fragment`: the fragment with its `#` -/
def extractFragment (url : Bytes) : Outcome Bytes :=
  if url = [] then .err
  else if !containsSub url [35] then .err
  else
    match splitOnce url [35] with
    | none => .panic "url-build-parse-11.0.0/lib.rs:408"
    | some (_, f) => .ok (35 :: f)

/-- `parse_query` of the crate: drops everything up to the first `?` -/
def parseQueryMark (q : Bytes) : Outcome Bytes :=
  match splitOnce q [63] with
  | none => .panic "url-build-parse-11.0.0/lib.rs:416"
  | some (_, r) => .ok r

/-- `parse_fragment` -/
def parseFragment (f : Bytes) : Outcome Bytes :=
  match splitOnce f [35] with
  | none => .panic "url-build-parse-11.0.0/lib.rs:422"
  | some (_, r) => .ok r

/-- `extract_userinfo`: (username, password, remaining authority); never an `Err` -/
def extractUserinfo (a : Bytes) : Outcome (Option Bytes × Option Bytes × Bytes) :=
  if containsSub a [64] then
    match splitOnce a [64] with
    | none => .panic "url-build-parse-11.0.0/lib.rs:463"
    | some (ui, rest) =>
      if containsSub ui [58] then
        match splitOnce ui [58] with
        | none => .panic "url-build-parse-11.0.0/lib.rs:467"
        | some (u, p) => .ok (some u, some p, rest)
      else .ok (some ui, none, rest)
  else .ok (none, none, a)

/-- `extract_host`: (host, remaining authority); never an `Err` -/
def extractHost (a : Bytes) : Outcome (Bytes × Option Bytes) :=
  if containsSub a [93] then
    match splitOnce a [93] with
    | none => .panic "url-build-parse-11.0.0/lib.rs:485"
    | some (h, rest) => .ok (h ++ [93], if containsSub rest [58] then some rest else none)
  else if containsSub a [58] then
    match splitOnce a [58] with
    | none => .panic "url-build-parse-11.0.0/lib.rs:494"
    | some (h, rest) => .ok (h, some (58 :: rest))
  else .ok (a, none)

/-- `str::parse::<usize>()` (64-bit) -/
def parseUsize? (s : Bytes) : Option Nat :=
  match parseNat? s with
  | some n => if n < 18446744073709551616 then some n else none
  | none => none

/-- `extract_port` -/
def extractPort (a : Bytes) : Outcome (Option Nat) :=
  if containsSub a [58] then
    match splitOnce a [58] with
    | none => .panic "url-build-parse-11.0.0/lib.rs:508"
    | some (_, p) =>
      match parseUsize? p with
      | some n => .ok (some n)
      | none => .err
  else .ok none

/-- `parse_authority`: (username, password, host, port) -/
def parseAuthority (a : Bytes) : Outcome (Option Bytes × Option Bytes × Bytes × Option Nat) :=
  match extractUserinfo a with
  | .panic s => .panic s
  | .err => .panic "url-build-parse-11.0.0/lib.rs:440"
  | .ok (username, password, rest) =>
    match extractHost rest with
    | .panic s => .panic s
    | .err => .panic "url-build-parse-11.0.0/lib.rs:444"
    | .ok (host, rest) =>
      match rest with
      | none => .ok (username, password, host, none)
      | some r =>
        match extractPort r with
        | .panic s => .panic s
        | .err => .panic "url-build-parse-11.0.0/lib.rs:448"
        | .ok port => .ok (username, password, host, port)

/-- the part of `parse_url` after the path has been taken (lib.rs:175-195) -/
def parseTail (c : UrlComponents) (rem : Bytes) : Outcome UrlComponents :=
  match extractQuery rem with
  | .panic s => .panic s
  | .err => .err
  | .ok (q, rest) =>
    let fragStep (c : UrlComponents) (rem : Bytes) : Outcome UrlComponents :=
      match extractFragment rem with
      | .panic s => .panic s
      | .err => .err
      | .ok f =>
        match parseFragment f with
        | .panic s => .panic s
        | .err => .panic "url-build-parse-11.0.0/lib.rs:192"
        | .ok fr => .ok { c with fragment := some fr }
    match q with
    | some q =>
      match parseQueryMark q with
      | .panic s => .panic s
      | .err => .panic "url-build-parse-11.0.0/lib.rs:178"
      | .ok pq =>
        let c := { c with query := some (Query.parseQuery pq) }
        match rest with
        | none => .ok c
        | some r => fragStep c r
    | none => fragStep c rem

/-- `parse_url` -/
def parseUrl (url : Bytes) : Outcome UrlComponents :=
  match extractScheme url with
  | .panic s => .panic s
  | .err => .err
  | .ok (scheme, rem) =>
    match extractAuthority rem with
    | .panic s => .panic s
    | .err => .err
    | .ok (auth, rest) =>
      let withAuth : Outcome (Option Authority) :=
        match auth with
        | none => .ok none
        | some a =>
          match parseAuthority a with
          | .panic s => .panic s
          | .err => .err
          | .ok (username, password, host, port) =>
            let ui : Option UserInfo := match username with
              | some u => some ⟨u, password⟩
              | none => none
            .ok (some ⟨ui, host, port⟩)
      match withAuth with
      | .panic s => .panic s
      | .err => .err
      | .ok authority =>
        let c : UrlComponents := ⟨scheme, authority, [], none, none⟩
        match rest with
        | none => .ok c
        | some rem =>
          match extractPath rem with
          | .panic s => .panic s
          | .err => .err
          | .ok (path, rest) =>
            let c := { c with path := path }
            match rest with
            | none => .ok c
            | some rem => parseTail c rem

/-- `"http://localhost/"` -/
def prefixQuery : Bytes := [104, 116, 116, 112, 58, 47, 47, 108, 111, 99, 97, 108, 104, 111, 115, 116, 47]
/-- `"http://localhost"` -/
def prefixPath : Bytes := [104, 116, 116, 112, 58, 47, 47, 108, 111, 99, 97, 108, 104, 111, 115, 116]

/-- `Request::get_uri_query` (= `get_query`) as a function of `request_uri` -/
def requestUriQuery (uri : Bytes) : Outcome (Option (List (Bytes × Bytes))) :=
  match parseUrl (prefixQuery ++ uri) with
  | .panic s => .panic s
  | .err => .err
  | .ok c => .ok c.query

/-- `Request::get_uri_path` (= `get_path`) as a function of `request_uri` -/
def requestUriPath (uri : Bytes) : Outcome Bytes :=
  match parseUrl (prefixPath ++ uri) with
  | .panic s => .panic s
  | .err => .err
  | .ok c => .ok c.path

end Rws.UrlParse
