/-
  Rws.Json — model of `src/json/**` (C19; JSON part of C20), tree AFTER the `fix:` commits of
  branch slice-C19 (readers propagate the splitter's error; a leading `-` starts a number; `{}`
  parses; integral floats keep `.0`) and of branch slice-C19b (F24d: the scanners read whole
  UTF-8 characters; F24f: the nesting counters ignore brackets inside string literals).

  `splitIntoVectorOfStrings`  ↔ `RawUnprocessedJSONArray::split_into_vector_of_strings`
        (src/json/array/mod.rs).  The Rust code reads the text ONE CHARACTER AT A TIME through a
        cursor (`json::read_utf8_char` + `String::from_utf8`), never looks ahead and never goes
        back; every `while` loop of it is one constructor of `SSt`, `splitStep` is "what the code
        does with the character just read in that loop" and `splitRun` feeds the characters in order.
  `parseListInt/Bool/String/Null/Float` ↔ `JSONArrayOf*::parse_as_list_*`
  `listIntToJson … ` ↔ `JSONArrayOf*::to_json_from_list_*`, `JSONArrayOfObjects::to_json`
  `JSONProperty.parse` ↔ `JSONProperty::parse` (src/json/property/mod.rs)
  `JSONValue.display` ↔ `impl Display for JSONValue` (all but the f64 case)
  `parseAsProperties` ↔ `JSON::parse_as_properties` (src/json/object/mod.rs): same scheme,
        states `OSt`, step `objStep`, driver `objRun`, end of input `objEof`.
  `toJsonString` ↔ `JSON::to_json_string`
  `readUtf8Char`, `readChars` ↔ `json::read_utf8_char` followed by `String::from_utf8` (the byte level
        of one read, on ARBITRARY bytes), and that read repeated to the end of the input.

  Text is `List Char`.  The cursors work on bytes; the model works on characters, which is
  the same thing because the argument of both entry points is a Rust `String` (well-formed
  UTF-8 by construction; the drivers answer `badutf8` for anything else) and
  (a) every read of a single character is `read_utf8_char` (the first byte announces the length
  of the sequence, that many bytes are taken) followed by `String::from_utf8` of those bytes:
  at a character boundary of well-formed UTF-8 this yields exactly the next character and
  consumes exactly its bytes — `RwsProofs/C19.lean: C19_read_chars` proves it for `readChars`;
  (b) `read_until(d)` is only used with ASCII delimiters, which never occur inside a multi-byte
  character, so the cursor stays on a character boundary and the segment it returns is valid UTF-8,
  (c) the 3/4-byte reads of `ull`/`rue`/`alse` succeed exactly when the next characters are
  those letters (anything else — too few bytes, a piece of a multi-byte character, other text —
  is `Err`, and the function returns at once, so the cursor is never used off a boundary),
  (d) `bytes_read == total_bytes` holds exactly when the cursor is at the end of the text, i.e.
  when no character is left (`bytes_read` is incremented by the number of bytes of every read).
  Deliberate abstractions:
  * FLOATS ARE OPAQUE TOKENS.  An `f64` is represented by a text accepted by Rust's
    `f64::from_str` (`isRustFloat`, the documented grammar); on the writing side by the text
    Rust's `Display` prints for it (supplied by the harness).  `raw_value != 0.0` is
    "the token is not `0` / `-0`"; `is_finite` is "the token is not `inf`/`-inf`/`NaN`".
  * error texts are dropped (`err`); the `i32` bracket counters are `Nat` (no overflow below
    2^31 brackets).
  * `char::is_numeric` (Unicode categories Nd, Nl, No — since F24d it sees every scalar) is
    `isNumeric`: `0`..`9` below U+0080, the generated table `Rws.Gen.UnicodeNumeric.ranges`
    (probed from the toolchain, translator/gens/jsonnum.py; compared with the running std by the
    op `jnumeric`) above.  `str::parse` and `f64::from_str` only know ASCII digits: `isDigit`.
  Panic sites that remain in the code and are kept in the model:
  `json/array/string/mod.rs:22` (`chars().next().unwrap()` on an empty item) and `:26`
  (`string[1..len-1]` on the one-character item `"`); `RwsProofs/C20Json.lean` proves that no
  item the splitter produces reaches them.
-/
import Rws.Prim
import Rws.Gen.UnicodeNumericTab

namespace Rws.Json
open Rws

abbrev Text := List Char

/-! ### character classes (Rust std) -/

/-- `char::is_whitespace` (Unicode `White_Space`) -/
def isWs (c : Char) : Bool :=
  let n := c.toNat
  n = 32 || (9 ≤ n && n ≤ 13) || n = 0x85 || n = 0xA0 || n = 0x1680 ||
  (0x2000 ≤ n && n ≤ 0x200A) || n = 0x2028 || n = 0x2029 || n = 0x202F || n = 0x205F || n = 0x3000

/-- `char::is_ascii_control` -/
def isAsciiControl (c : Char) : Bool := c.toNat < 32 || c.toNat = 127

def isDigit (c : Char) : Bool := 48 ≤ c.toNat && c.toNat ≤ 57

/-- `char::is_numeric`: `'0'..='9' => true, c => c > '\x7f' && unicode::N(c)` -/
def isNumeric (c : Char) : Bool :=
  if c.toNat < 128 then isDigit c
  else Rws.Gen.UnicodeNumeric.ranges.any (fun r => r.1 ≤ c.toNat && c.toNat ≤ r.2)

/-- `str::trim` -/
def trimStart (s : Text) : Text := s.dropWhile isWs
def trimEnd (s : Text) : Text := (s.reverse.dropWhile isWs).reverse
def trim (s : Text) : Text := trimEnd (trimStart s)

/-- `StringExt::filter_ascii_control_characters` -/
def filterControl (s : Text) : Text := trim (s.filter (fun c => !isAsciiControl c))

/-- the test `char != ' ' && char != '\n' && char != '\r' && !char.is_ascii_control()` negated -/
def isSkip (c : Char) : Bool := c = ' ' || c = '\n' || c = '\r' || isAsciiControl c

/-! ### one character from the byte cursor (`json::read_utf8_char` + `String::from_utf8`) -/

/-- the `match first_byte[0]` of `json::read_utf8_char`: number of bytes the first byte announces -/
def announcedLen (b : UInt8) : Nat :=
  if 0xC0 ≤ b && b ≤ 0xDF then 2 else if 0xE0 ≤ b && b ≤ 0xEF then 3 else if 0xF0 ≤ b && b ≤ 0xF7 then 4 else 1

/-- `json::read_utf8_char`: the bytes of the next character as its first byte announces them and
    the bytes left in the cursor; `none` = a `read_exact` fails (no byte left, or fewer than announced) -/
def readUtf8CharBytes : List UInt8 → Option (List UInt8 × List UInt8)
  | [] => none
  | b :: rest =>
    if rest.length < announcedLen b - 1 then none
    else some (b :: rest.take (announcedLen b - 1), rest.drop (announcedLen b - 1))

/-- the read of one character as every single-character site of the scanners does it: `read_utf8_char`, then
    `String::from_utf8(char_buffer)` — `Ok` exactly when the buffer is the well-formed encoding of one scalar
    (the lead byte fixes the length of the buffer, so a valid buffer holds exactly one character) -/
def readUtf8Char (bs : List UInt8) : Option (Char × List UInt8) :=
  match readUtf8CharBytes bs with
  | none => none
  | some (cb, rest) =>
    match ByteArray.utf8DecodeChar? cb.toByteArray 0 with
    | some c => if c.utf8Size = cb.length then some (c, rest) else none
    | none => none

/-- that read repeated until no byte is left (`fuel` = number of bytes: every read takes at least one) -/
def readCharsFuel : Nat → List UInt8 → Option (List Char)
  | _, [] => some []
  | 0, _ :: _ => none
  | fuel + 1, b :: bs =>
    match readUtf8Char (b :: bs) with
    | none => none
    | some (c, rest) =>
      match readCharsFuel fuel rest with
      | some cs => some (c :: cs)
      | none => none

def readChars (bs : List UInt8) : Option (List Char) := readCharsFuel bs.length bs

/-! ### decimal integers -/

def digitChar (d : Nat) : Char := Char.ofNat (48 + d)

/-- decimal digits, least significant first -/
def natToDecR (n : Nat) : Text :=
  if h : n < 10 then [digitChar n] else digitChar (n % 10) :: natToDecR (n / 10)
termination_by n
decreasing_by omega

/-- `u128::to_string` -/
def natToDec (n : Nat) : Text := (natToDecR n).reverse

/-- `i128::to_string` (and every narrower width) -/
def intToDec : Int → Text
  | .ofNat n   => natToDec n
  | .negSucc n => '-' :: natToDec (n + 1)

def digitsVal (s : Text) : Nat := s.foldl (fun acc c => acc * 10 + (c.toNat - 48)) 0

/-- `str::parse::<iN>()` / `parse::<uN>()`: optional `+` (and `-` for signed types), one or more
    ASCII digits, value inside `[lo, hi]` (anything else, overflow included, is `Err`) -/
def parseInt (signed : Bool) (lo hi : Int) (s : Text) : Option Int :=
  match s with
  | [] => none
  | c :: t =>
    let neg := c = '-' && signed
    let ds := if c = '+' || neg then t else s
    if ds.isEmpty then none
    else if !ds.all isDigit then none
    else
      let v : Int := if neg then - (Int.ofNat (digitsVal ds)) else Int.ofNat (digitsVal ds)
      if lo ≤ v ∧ v ≤ hi then some v else none

structure IntTy where
  signed : Bool
  lo : Int
  hi : Int

def tyI128 : IntTy := ⟨true, -170141183460469231731687303715884105728, 170141183460469231731687303715884105727⟩
def tyI64 : IntTy := ⟨true, -9223372036854775808, 9223372036854775807⟩
def tyI32 : IntTy := ⟨true, -2147483648, 2147483647⟩
def tyI16 : IntTy := ⟨true, -32768, 32767⟩
def tyI8 : IntTy := ⟨true, -128, 127⟩
def tyU128 : IntTy := ⟨false, 0, 340282366920938463463374607431768211455⟩
def tyU64 : IntTy := ⟨false, 0, 18446744073709551615⟩
def tyU32 : IntTy := ⟨false, 0, 4294967295⟩
def tyU16 : IntTy := ⟨false, 0, 65535⟩
def tyU8 : IntTy := ⟨false, 0, 255⟩

def IntTy.parse (ty : IntTy) (s : Text) : Option Int := parseInt ty.signed ty.lo ty.hi s
def IntTy.inRange (ty : IntTy) (n : Int) : Bool := decide (ty.lo ≤ n) && decide (n ≤ ty.hi)

/-! ### floats: opaque tokens -/

def stripSign (s : Text) : Text :=
  match s with
  | '+' :: t => t
  | '-' :: t => t
  | _ => s

/-- the texts `f64::from_str` / `f32::from_str` accept (grammar of the std documentation) -/
def isRustFloat (s : Text) : Bool :=
  let s := stripSign s
  let low := s.map Char.toLower
  if low = ['i','n','f'] || low = ['i','n','f','i','n','i','t','y'] || low = ['n','a','n'] then true
  else
    let intPart := s.takeWhile isDigit
    let r1 := s.dropWhile isDigit
    let fracPart := match r1 with
      | '.' :: t => t.takeWhile isDigit
      | _ => []
    let r2 := match r1 with
      | '.' :: t => t.dropWhile isDigit
      | _ => r1
    if intPart.isEmpty && fracPart.isEmpty then false
    else match r2 with
      | [] => true
      | e :: t =>
        if e = 'e' || e = 'E' then
          let ds := stripSign t
          !ds.isEmpty && ds.all isDigit
        else false

/-- text the object writer emits for an `f64` whose `Display` is `tok` (after the fix for
    integral values): `0.0` for zero, `.0` appended to a finite value printed without a point -/
def floatText (tok : Text) : Text :=
  if tok = ['0'] || tok = ['-','0'] then ['0','.','0']
  else if tok = ['i','n','f'] || tok = ['-','i','n','f'] || tok = ['N','a','N'] then tok
  else if tok.contains '.' then tok
  else tok ++ ['.','0']

/-- text the typed list writers emit for a float (`0.0` for zero, `Display` otherwise) -/
def floatItemText (tok : Text) : Text :=
  if tok = ['0'] || tok = ['-','0'] then ['0','.','0'] else tok

/-! ### the nesting counters of both scanners -/

/-- `is_inside_string` after the character `x`: toggled by a quotation mark that does not follow a
    backslash (`prev` = last character of the token read so far) -/
def strFlag (prev : Option Char) (inStr : Bool) (x : Char) : Bool :=
  if x = '"' && prev != some '\\' then !inStr else inStr

/-- a bracket counter after the character `x` (`inStr` = the flag AFTER `x`): brackets inside a string do not count -/
def bump (b : Char) (inStr : Bool) (n : Nat) (x : Char) : Nat :=
  if x = b && !inStr then n + 1 else n

/-! ### array splitter -/

inductive SSt where
  | start                                            -- loop "read the start of the array"
  | items                                            -- top of the main loop
  | str (tok : Text)                                 -- "read till non escaped quote" (token reversed)
  | lit (rest : Text) (tok : Text)                   -- `ull` / `rue` / `alse` still to be read
  | nestA (tok : Text) (opens closes : Nat) (inStr : Bool)   -- nested array
  | nestO (tok : Text) (opens closes : Nat) (inStr : Bool)   -- nested object
  | num (tok : Text) (point exp minus : Bool)        -- number
  | numWs (tok : Text)                               -- white space after a number
  | after                                            -- after the closing bracket
deriving DecidableEq, Repr

inductive SStep where
  | next (s : SSt)
  | emit (tok : Text) (s : SSt)
  | fail

/-- what the splitter does with the character `c` just read in state `st`; `last` = it was the
    last one of the text -/
def splitStep (st : SSt) (c : Char) (last : Bool) : SStep :=
  match st with
  | .start =>
    if last then .fail                                  -- "not proper start of the json array"
    else if !isWs c && c != '[' then .fail
    else if c = '[' then .next .items else .next .start
  | .items =>
    if c = ']' then .next .after
    else if c = ' ' then .next .items
    else if c = '"' then .next (.str ['"'])
    else if c = 'n' then .next (.lit ['u','l','l'] ['n'])
    else if c = 't' then .next (.lit ['r','u','e'] ['t'])
    else if c = 'f' then .next (.lit ['a','l','s','e'] ['f'])
    else if c = '[' then .next (.nestA ['['] 1 0 false)
    else if c = '{' then .next (.nestO ['{'] 1 0 false)
    else if c = ',' then .next .items
    else if isNumeric c || c = '-' then .next (.num [c] false false (c = '-'))
    else if c = '\r' || c = '\n' || isAsciiControl c then .next .items
    else .fail                                          -- "unknown type"
  | .str tok =>
    let notEnd := c != '"' && tok.head? != some '\\'
    if notEnd then .next (.str (c :: tok)) else .emit (c :: tok).reverse .items
  | .lit [] _ => .fail
  | .lit (x :: xs) tok =>
    if c = x then (if xs.isEmpty then .emit (c :: tok).reverse .items else .next (.lit xs (c :: tok)))
    else .fail
  | .nestA tok o cl s =>
    let s' := strFlag tok.head? s c
    if bump '[' s' o c = bump ']' s' cl c then .emit (c :: tok).reverse .items
    else .next (.nestA (c :: tok) (bump '[' s' o c) (bump ']' s' cl c) s')
  | .nestO tok o cl s =>
    let s' := strFlag tok.head? s c
    if bump '{' s' o c = bump '}' s' cl c then .emit (c :: tok).reverse .items
    else .next (.nestO (c :: tok) (bump '{' s' o c) (bump '}' s' cl c) s')
  | .num tok p e m =>
    if c = '.' && p then .fail
    else if c = 'e' && e then .fail
    else if c = '-' && m then .fail
    else if c = ' ' then .next (.numWs tok)
    else if isNumeric c || c = '.' || c = 'e' || c = '-' then .next (.num (c :: tok) (p || c = '.') (e || c = 'e') m)
    else if c = ',' then .emit tok.reverse .items
    else if c = ']' then .emit tok.reverse .after
    else .fail
  | .numWs tok =>
    if c = ',' then .emit tok.reverse .items
    else if c = ']' then .emit tok.reverse .after
    else .fail
  | .after => if isWs c then .next .after else .fail

/-- the cursor: `acc` = items pushed so far (reversed) -/
def splitRun : SSt → List Text → Text → Outcome (List Text)
  | st, acc, [] => if st = .after then .ok acc.reverse else .err   -- `read_exact` fails
  | st, acc, c :: rest =>
    match splitStep st c rest.isEmpty with
    | .next s => splitRun s acc rest
    | .emit tok s => splitRun s (tok :: acc) rest
    | .fail => .err

/-- `RawUnprocessedJSONArray::split_into_vector_of_strings` -/
def splitIntoVectorOfStrings (text : Text) : Outcome (List Text) := splitRun .start [] text

/-! ### typed list readers -/

/-- the `for item in items` loop of a reader whose per-item conversion is `f` -/
def mapItems {α : Type} (f : Text → Outcome α) : List Text → Outcome (List α)
  | [] => .ok []
  | t :: ts =>
    match f t with
    | .ok a =>
      match mapItems f ts with
      | .ok as => .ok (a :: as)
      | .err => .err
      | .panic s => .panic s
    | .err => .err
    | .panic s => .panic s

def readList {α : Type} (f : Text → Outcome α) (text : Text) : Outcome (List α) :=
  match splitIntoVectorOfStrings text with
  | .ok items => mapItems f items
  | .err => .err
  | .panic s => .panic s

def optOutcome {α : Type} : Option α → Outcome α
  | some a => .ok a
  | none => .err

def itemInt (ty : IntTy) (t : Text) : Outcome Int := optOutcome (ty.parse t)

def itemBool (t : Text) : Outcome Bool :=
  if t = ['t','r','u','e'] then .ok true else if t = ['f','a','l','s','e'] then .ok false else .err

def itemNull (t : Text) : Outcome Unit := if trim t = ['n','u','l','l'] then .ok () else .err

def itemFloat (t : Text) : Outcome Text := if isRustFloat t then .ok t else .err

/-- body of the loop of `parse_as_list_string` -/
def itemString (t : Text) : Outcome Text :=
  match trim t with
  | [] => .panic "json/array/string/mod.rs:22"
  | [c] => if c = '"' then .panic "json/array/string/mod.rs:26" else .err
  | c :: rest =>
    if c = '"' && rest.getLast? = some '"' then .ok rest.dropLast else .err

def parseListInt (ty : IntTy) (text : Text) : Outcome (List Int) := readList (itemInt ty) text
def parseListBool (text : Text) : Outcome (List Bool) := readList itemBool text
def parseListNull (text : Text) : Outcome (List Unit) := readList itemNull text
def parseListString (text : Text) : Outcome (List Text) := readList itemString text
def parseListFloat (text : Text) : Outcome (List Text) := readList itemFloat text

/-! ### typed list writers -/

/-- `json_vec.join("")` of `[`, the items separated by `sep`, `]` -/
def joinItems (sep : Text) : List Text → Text
  | [] => []
  | [x] => x
  | x :: y :: rest => x ++ sep ++ joinItems sep (y :: rest)

def listToJson (items : List Text) : Text := '[' :: (joinItems [','] items ++ [']'])

def boolText (b : Bool) : Text := if b then ['t','r','u','e'] else ['f','a','l','s','e']

def listIntToJson (xs : List Int) : Text := listToJson (xs.map intToDec)
def listBoolToJson (xs : List Bool) : Text := listToJson (xs.map boolText)
def listNullToJson (xs : List Unit) : Text := listToJson (xs.map (fun _ => ['n','u','l','l']))
def listStringToJson (xs : List Text) : Text := listToJson (xs.map (fun s => '"' :: (s ++ ['"'])))
def listFloatToJson (toks : List Text) : Text := listToJson (toks.map floatItemText)
/-- `JSONArrayOfObjects::to_json` on the objects' texts -/
def listObjectToJson (objs : List Text) : Text := '[' :: (joinItems [',','\r','\n'] objs ++ [']'])

/-! ### properties -/

structure JSONProperty where
  name : Text
  type : Text          -- `property_type`, a free `String` in Rust
deriving DecidableEq, Repr

structure JSONValue where
  f64    : Option Text := none     -- opaque token
  i128   : Option Int := none
  string : Option Text := none
  object : Option Text := none
  array  : Option Text := none
  bool   : Option Bool := none
  null   : Bool := false
deriving DecidableEq, Repr

def tString : Text := ['S','t','r','i','n','g']
def tBool : Text := ['b','o','o','l']
def tObject : Text := ['o','b','j','e','c','t']
def tArray : Text := ['a','r','r','a','y']
def tInteger : Text := ['i','1','2','8']
def tNumber : Text := ['f','6','4']

/-- `s.split_once(':')` -/
def splitOnceColon : Text → Option (Text × Text)
  | [] => none
  | c :: cs =>
    if c = ':' then some ([], cs)
    else match splitOnceColon cs with
      | some (a, b) => some (c :: a, b)
      | none => none

def removeQuotes (s : Text) : Text := s.filter (fun c => c != '"')

def startsEnds (a b : Char) (s : Text) : Bool := s.head? = some a && s.getLast? = some b

/-- the typing part of `JSONProperty::parse`: `name` = key without quotes, `value` = trimmed text after the colon -/
def classify (name value : Text) : Outcome (JSONProperty × JSONValue) :=
  if value = ['n','u','l','l'] then
    .ok (⟨name, tString⟩, { null := true })
  else if startsEnds '"' '"' value then
    .ok (⟨name, tString⟩, { string := some (removeQuotes value) })
  else if startsEnds '[' ']' value then
    .ok (⟨name, tArray⟩, { array := some value })
  else if startsEnds '{' '}' value then
    .ok (⟨name, tObject⟩, { object := some value })
  else if value = ['t','r','u','e'] then
    .ok (⟨name, tBool⟩, { bool := some true })
  else if value = ['f','a','l','s','e'] then
    .ok (⟨name, tBool⟩, { bool := some false })
  else
    match tyI128.parse value with
    | some n => .ok (⟨name, tInteger⟩, { i128 := some n })
    | none =>
      if isRustFloat value then .ok (⟨name, tNumber⟩, { f64 := some value })
      else .err

/-- `JSONProperty::parse` -/
def JSONProperty.parse (raw : Text) : Outcome (JSONProperty × JSONValue) :=
  match splitOnceColon (trim raw) with
  | none => .err
  | some (k, v) => classify (removeQuotes (trim k)) (trim v)

/-- `impl Display for JSONValue`; `none` = the `f64` case (`{:.13}`), which is not modelled -/
def JSONValue.display (v : JSONValue) : Option Text :=
  if v.f64.isSome then none
  else match v.i128 with
  | some n => some (intToDec n)
  | none =>
  match v.string with
  | some s => some s
  | none =>
  match v.array with
  | some a => some a
  | none =>
  if v.null then some ['n','u','l','l']
  else match v.object with
  | some o => some o
  | none =>
  match v.bool with
  | some b => some (boolText b)
  | none => some "Something Went Wrong. There is no value for any type.".toList

/-! ### object writer -/

/-- `format!("  \"{}\": {}", name, rendered)` -/
def propLine (name rendered : Text) : Text :=
  [' ',' ','"'] ++ name ++ ['"',':',' '] ++ rendered

/-- the text one `(property, value)` contributes to `properties_list` (none: nothing pushed).
    The six `if &property.property_type == …` tests are mutually exclusive. -/
def propText (p : JSONProperty) (v : JSONValue) : Option Text :=
  if p.type = tString then v.string.map (fun s => propLine p.name ('"' :: (s ++ ['"'])))
  else if p.type = tBool then v.bool.map (fun b => propLine p.name (boolText b))
  else if p.type = tInteger then v.i128.map (fun n => propLine p.name (intToDec n))
  else if p.type = tNumber then v.f64.map (fun t => propLine p.name (floatText t))
  else if p.type = tObject then v.object.map (fun o => propLine p.name o)
  else if p.type = tArray then v.array.map (fun a => propLine p.name a)
  else none

/-- `JSON::to_json_string` -/
def toJsonString (kvs : List (JSONProperty × JSONValue)) : Text :=
  ['{','\r','\n'] ++ joinItems [',','\r','\n'] (kvs.filterMap (fun pv => propText pv.1 pv.2)) ++ ['\r','\n','}']

/-! ### object scanner -/

inductive OSt where
  | preBrace                                  -- `read_until(b'{')`
  | preKey (seg : Text)                       -- `read_until(b'"')` before a key (segment reversed)
  | key (kvp : Text)                          -- `read_until(b'"')` inside the key (`key_value_pair` reversed)
  | colon (kvp : Text)                        -- loop "read until delimiter ':'"
  | value (kvp : Text)                        -- loop "read until char is not white space"
  | strVal (kvp : Text)                       -- "read till non escaped quote"
  | lit (rest : Text) (kvp : Text)            -- `ull` / `rue` / `alse`
  | arr (kvp : Text) (opens closes : Nat) (inStr : Bool)
  | obj (kvp : Text) (opens closes : Nat) (inStr : Bool)
  | num (kvp : Text)
  | tillComma (kvp : Text) (seg : Text)       -- "read till comma" with the check of what was skipped
  | skipComma (kvp : Text)                    -- "attempt to read till comma" (after a number closed by `}`)
deriving DecidableEq, Repr

inductive OStep where
  | next (s : OSt)
  | pairMaybe (kvp : Text)     -- pair complete; another one follows unless the text is exhausted
  | pairCont (kvp : Text)      -- pair complete; the loop goes on unconditionally
  | done                       -- `return Ok(properties)` for an object without properties
  | fail

/-- check of the segment read before a key (`line` in reading order):
    `some true` = empty object, `some false` = a key starts, `none` = error -/
def preKeyCheck (line : Text) (noProps : Bool) : Option Bool :=
  let f := filterControl line
  if noProps && f = ['}'] then some true
  else if f != ['"'] then none
  else some false

/-- check of what `read_until(b',')` skipped after a value -/
def tillCommaOk (seg : Text) : Bool :=
  let f := filterControl seg
  f.isEmpty || f = ['}'] || f = [',']

def objStep (st : OSt) (c : Char) (noProps : Bool) : OStep :=
  match st with
  | .preBrace => if c = '{' then .next (.preKey []) else .next .preBrace
  | .preKey seg =>
    if c = '"' then
      match preKeyCheck (c :: seg).reverse noProps with
      | some true => .done
      | some false => .next (.key (c :: seg))
      | none => .fail
    else .next (.preKey (c :: seg))
  | .key kvp => if c = '"' then .next (.colon (c :: kvp)) else .next (.key (c :: kvp))
  | .colon kvp =>
    if isSkip c then .next (.colon kvp)
    else if c = ':' then .next (.value (c :: kvp))
    else .fail
  | .value kvp =>
    if isSkip c then .next (.value kvp)
    else if c = '"' then .next (.strVal (c :: kvp))
    else if c = 'n' then .next (.lit ['u','l','l'] (c :: kvp))
    else if c = 't' then .next (.lit ['r','u','e'] (c :: kvp))
    else if c = 'f' then .next (.lit ['a','l','s','e'] (c :: kvp))
    else if c = '[' then .next (.arr (c :: kvp) 1 0 false)
    else if c = '{' then .next (.obj (c :: kvp) 1 0 false)
    else if isNumeric c || c = '-' then .next (.num (c :: kvp))
    else .fail
  | .strVal kvp =>
    let notEnd := c != '"' && kvp.head? != some '\\'
    if notEnd then .next (.strVal (c :: kvp)) else .next (.tillComma (c :: kvp) [])
  | .lit [] _ => .fail
  | .lit (x :: xs) kvp =>
    if c = x then (if xs.isEmpty then .next (.tillComma (c :: kvp) []) else .next (.lit xs (c :: kvp)))
    else .fail
  | .arr kvp o cl s =>
    let s' := strFlag kvp.head? s c
    if bump '[' s' o c = bump ']' s' cl c then .next (.tillComma (c :: kvp) [])
    else .next (.arr (c :: kvp) (bump '[' s' o c) (bump ']' s' cl c) s')
  | .obj kvp o cl s =>
    let s' := strFlag kvp.head? s c
    if bump '{' s' o c = bump '}' s' cl c then .next (.tillComma (c :: kvp) [])
    else .next (.obj (c :: kvp) (bump '{' s' o c) (bump '}' s' cl c) s')
  | .num kvp =>
    if c = '\r' || c = '\n' || c = ' ' then .next (.num kvp)
    else if isNumeric c || c = '.' || c = 'e' || c = '-' then .next (.num (c :: kvp))
    else if c = '}' then .next (.skipComma kvp)
    else if c = ',' then .pairCont kvp
    else .fail
  | .tillComma kvp seg =>
    if c = ',' then (if tillCommaOk (c :: seg).reverse then .pairMaybe kvp else .fail)
    else .next (.tillComma kvp (c :: seg))
  | .skipComma kvp => if c = ',' then .pairMaybe kvp else .next (.skipComma kvp)

abbrev Props := List (JSONProperty × JSONValue)

/-- `JSONProperty::parse(&key_value_pair)` and `properties.push(..)` -/
def finishPair (acc : Props) (kvp : Text) : Outcome Props :=
  match JSONProperty.parse kvp.reverse with
  | .ok pv => .ok (pv :: acc)
  | .err => .err
  | .panic s => .panic s

/-- the input ends while the scanner is in state `st` -/
def objEof (st : OSt) (acc : Props) : Outcome Props :=
  match st with
  | .preKey seg =>
    match preKeyCheck seg.reverse acc.isEmpty with
    | some true => .ok acc.reverse
    | _ => .err          -- not a key; or a key whose closing quote / `:` can not be read
  | .tillComma kvp seg =>
    if tillCommaOk seg.reverse then
      match finishPair acc kvp with
      | .ok acc' => .ok acc'.reverse
      | e => e
    else .err
  | .skipComma kvp =>
    match finishPair acc kvp with
    | .ok acc' => .ok acc'.reverse
    | e => e
  | _ => .err

def objRun : OSt → Props → Text → Outcome Props
  | st, acc, [] => objEof st acc
  | st, acc, c :: rest =>
    match objStep st c acc.isEmpty with
    | .next s => objRun s acc rest
    | .pairMaybe kvp =>
      match finishPair acc kvp with
      | .ok acc' => if rest.isEmpty then .ok acc'.reverse else objRun (.preKey []) acc' rest
      | e => e
    | .pairCont kvp =>
      match finishPair acc kvp with
      | .ok acc' => objRun (.preKey []) acc' rest
      | e => e
    | .done => .ok acc.reverse
    | .fail => .err

/-- `JSON::parse_as_properties` -/
def parseAsProperties (text : Text) : Outcome Props := objRun .preBrace [] text

end Rws.Json
