/-
  Rws.Static — model of `src/app/controller/static_resource/mod.rs` over the file system
  model `Rws.Fs`, and of the path-resolution half of `Range::get_content_range_list`
  (src/range/mod.rs) that `Rws.RangeM` leaves abstract (there the target is "a regular file
  holding f"; here it is found in the tree).

  `isMatching`            ↔ `<StaticResourceController as Controller>::is_matching`
  `isMatchingLegacy`      ↔ `StaticResourceController::is_matching_request`
  `contentRangeList`      ↔ `Range::get_content_range_list` (URL parse, metadata, symlink branch,
                             then `Range::parse_content_range` = `RangeM.parseContentRange`)
  `processStaticResources`↔ `StaticResourceController::process_static_resources`
  `process`               ↔ `Controller::process` (`legacy = false`) / `process_request` (`true`)

  Ghost output: `reads` — the tree locations whose bytes entered the reply (C01/C13).

  Abstractions (sound for the comparison, see DESIGN.md 2.1):
  * error texts are not modelled: an error reply carries the status and the opaque text
    `ctx.errText` (supplied by the harness from the real run, like the clock);
  * `FilterString::is_valid_input_string` (file-ext) is modelled as a predicate on the path;
  * the value of `Last-Modified-Unix-Epoch-Nanos` is the opaque text `ctx.mtime`; only the
    presence of the header is decided by the model (file_modified_utc succeeds iff the path
    can be opened);
  * I/O errors other than "does not exist" (permissions, EISDIR races) do not occur in the tree model.
-/
import Rws.Http
import Rws.Fs
import Rws.UrlParse
import Rws.RangeM
import Rws.Mime
import Rws.Cors
import Rws.Gen.HeaderTab
import Rws.Gen.Sites
namespace Rws.Static
open Rws Rws.Fs Rws.Gen

structure Ctx where
  tree    : Tree
  cwd     : Bytes          -- absolute path of the working directory (no trailing slash)
  env     : Cors.Env
  now     : Bytes
  mtime   : Bytes
  errText : Bytes

def methodGet : Bytes := [71, 69, 84]
def methodHead : Bytes := [72, 69, 65, 68]
def methodOptions : Bytes := [79, 80, 84, 73, 79, 78, 83]
def methodPost : Bytes := [80, 79, 83, 84]

/-- "http://localhost" ++ request_uri -/
def urlOf (uri : Bytes) : Bytes := UrlParse.prefixPath ++ uri

/-- split on `/` and `\` -/
def splitSeps : Bytes → List Bytes
  | [] => [[]]
  | c :: cs =>
    if c = 47 || c = 92 then [] :: splitSeps cs
    else match splitSeps cs with
      | [] => [[c]]
      | h :: t => (c :: h) :: t

/-- `has_parent_directory_segment`: some segment (split on `/` or `\`) is `..` -/
def hasParentDirSegment (path : Bytes) : Bool := (splitSeps path).any (· = [46, 46])

/-- `Request::get_header(name)`: first header whose lower-cased name equals the lower-cased `name` -/
def getHeader (req : Request) (name : Bytes) : Option Header := Cors.getHeader req name

/-- file-ext `FilterString::is_valid_input_string(path)`: ASCII control characters removed,
    trimmed, then no space, quote, double quote, ampersand, pipe or semicolon -/
def pathAllowed (path : Bytes) : Bool :=
  let p := RangeM.trimU (path.filter (fun b => !(b < 32 || b = 127)))
  !(p.any (fun b => b = 32 || b = 39 || b = 34 || b = 38 || b = 124 || b = 59))

def dotHtml : Bytes := [46, 104, 116, 109, 108]
def indexHtml : Bytes := [105, 110, 100, 101, 120, 46, 104, 116, 109, 108]
def slashIndexHtml : Bytes := 47 :: indexHtml
def defaultRange : Bytes := [98, 121, 116, 101, 115, 61, 48, 45]

/-- `directory_index`: "index.html" when the path ends in '/', "/index.html" otherwise;
    `chars().last().unwrap()` panics on an empty path -/
def directoryIndex (path : Bytes) (site : String) : Outcome Bytes :=
  match path.getLast? with
  | none => .panic site
  | some c => .ok (if c ≠ 47 then slashIndexHtml else indexHtml)

/-- `metadata(path)` succeeds and `is_file()`: the directory index and the `.html` fallback
    have to be regular files (F46) -/
def isRegularFile (t : Tree) (path : Bytes) : Bool :=
  match metadata t path with
  | some md => md.isFile
  | none => false

/-- `is_matching` of the production chain -/
def isMatching (ctx : Ctx) (req : Request) : Outcome Bool :=
  if req.method ≠ methodGet && req.method ≠ methodHead && req.method ≠ methodOptions then .ok false
  else
    match UrlParse.parseUrl (urlOf req.uri) with
    | .panic s => .panic s
    | .err => .panic Sites.staticMatchUrlUnwrap
    | .ok comps =>
      if hasParentDirSegment comps.path then .ok false
      else
        let staticPath := ctx.cwd ++ comps.path
        let dirIdx : Outcome (Option Bool) :=     -- none: not a directory; some b: directory, b = index opens
          match metadata ctx.tree staticPath with
          | some md =>
            if md.isDir then
              match directoryIndex comps.path Sites.staticMatchLastUnwrap with
              | .ok di => .ok (some (isRegularFile ctx.tree (staticPath ++ di)))
              | .err => .err
              | .panic s => .panic s
            else .ok none
          | none => .ok none
        match dirIdx with
        | .panic s => .panic s
        | .err => .err
        | .ok (some false) => .ok false
        | .ok d =>
          let isDirWithIndex := d = some true
          let matchingMethod := req.uri ≠ [47]
          if canOpen ctx.tree staticPath || isDirWithIndex then .ok matchingMethod
          else if endsWith staticPath dotHtml then .ok false
          else .ok (isRegularFile ctx.tree (ctx.cwd ++ comps.path ++ dotHtml) && matchingMethod)

/-- `is_matching_request` of the legacy chain: the raw request target is the path -/
def isMatchingLegacy (ctx : Ctx) (req : Request) : Bool :=
  if hasParentDirSegment req.uri then false
  else
    match metadata ctx.tree (ctx.cwd ++ req.uri) with
    | none => false
    | some md =>
      if md.isDir then false
      else
        let m := req.method
        canOpen ctx.tree (ctx.cwd ++ req.uri) &&
          (m = methodGet || m = methodHead || (m = methodOptions && req.uri ≠ [47]))

/-- a reply of the file-reading functions: a list of parts, or an error status -/
inductive Listed where
  | parts : List ContentRange → List Loc → Listed       -- with the locations read (ghost)
  | fail  : Nat → Listed
deriving Repr

/-- file-ext `resolve_symlink_path(symlink_directory, points_to)` (Unix) -/
def resolveSymlinkPath : Nat → Bytes → Bytes → Option Bytes
  | 0, _, _ => none
  | fuel + 1, dir, pointsTo =>
    if (pointsTo.length ≥ 2 && pointsTo[1]? = some 58) then some pointsTo
    else if pointsTo.head? = some 47 then some pointsTo
    else
      match splitOnce pointsTo [47] with
      | none => some (dir ++ [47] ++ pointsTo)
      | some (part, after) =>
        if part = [46, 46] then
          if dir.isEmpty then none
          else
            match splitOnce dir.reverse [47] with
            | some (_, remaining) => resolveSymlinkPath fuel remaining.reverse after
            | none => resolveSymlinkPath fuel [] after
        else
          resolveSymlinkPath fuel (if dir.isEmpty then part else dir ++ [47] ++ part) after

/-- `Range::get_content_range_list(request_uri, range)` over the tree -/
def contentRangeList (ctx : Ctx) (uri : Bytes) (rangeValue : Bytes) : Outcome Listed :=
  match UrlParse.parseUrl (urlOf uri) with
  | .panic s => .panic s
  | .err => .panic Sites.rangeListUrlUnwrap
  | .ok comps =>
    let staticPath := ctx.cwd ++ comps.path
    match metadata ctx.tree staticPath with
    | none => .ok (.fail 500)
    | some md =>
      if !md.isFile then .ok (.parts [] [])
      else
        match isSymlink ctx.tree staticPath with
        | none => .ok (.fail 500)
        | some isLink =>
          let path : Outcome (Option Bytes) :=
            if isLink then
              -- since F75: `std::fs::canonicalize(static_filepath)` - the OPERATING SYSTEM follows the link (as `metadata`
              -- above has done), whatever directory links or `//`, `/./` segments the requested path goes through; a failure,
              -- or a real path that is not valid Unicode, is a 500.  (Before: `resolve_symlink_path` edited the TEXT of the
              -- requested path, so a `..` of the link's target could leave the served directory.)
              match locate ctx.tree staticPath with
              | none => .ok none
              | some loc => if Unicode.validUtf8 (pathOf loc) then .ok (some (pathOf loc)) else .ok none
            else .ok (some staticPath)
          match path with
          | .panic s => .panic s
          | .err => .err
          | .ok none => .ok (.fail 500)
          | .ok (some p) =>
            if !pathAllowed p then .ok (.fail 416)
            else
              match readFile ctx.tree p with
              | none => .ok (.fail 416)      -- resolved path cannot be opened: every read fails
              | some (loc, content) =>
                -- `md.len()` is the length of the file the OS reaches through the original path
                match RangeM.parseContentRange content (Mime.detect p) md.len rangeValue with
                | .ok l => .ok (.parts l (if l.isEmpty then [] else [loc]))
                | .err => .ok (.fail 416)
                | .panic s => .panic s

def rangeHeaderValue (req : Request) : Bytes :=
  match getHeader req Hdr.hRange with
  | some h => h.value
  | none => defaultRange

/-- `process_static_resources` -/
def processStaticResources (ctx : Ctx) (req : Request) : Outcome Listed :=
  match UrlParse.parseUrl (urlOf req.uri) with
  | .panic s => .panic s
  | .err => .panic Sites.staticProcUrlUnwrap
  | .ok comps =>
    if hasParentDirSegment comps.path then .ok (.fail 403)
    else
      let staticPath := ctx.cwd ++ comps.path
      let md0 := match metadata ctx.tree staticPath with
        | some m => some m
        | none => match metadata ctx.tree (staticPath ++ dotHtml) with
          | some m => some m
          | none => metadata ctx.tree (staticPath ++ slashIndexHtml)
      match md0 with
      | none => .ok (.parts [] [])
      | some md =>
        if md.isDir then
          match directoryIndex comps.path Sites.staticProcLastUnwrap with
          | .panic s => .panic s
          | .err => .err
          | .ok di => contentRangeList ctx (comps.path ++ di) (rangeHeaderValue req)
        else if canOpen ctx.tree staticPath then
          match metadata ctx.tree staticPath with
          | none => .ok (.parts [] [])
          | some md1 =>
            if md1.isDir then
              match directoryIndex comps.path Sites.staticProcLastUnwrap with
              | .panic s => .panic s
              | .err => .err
              | .ok di => contentRangeList ctx (comps.path ++ di) (rangeHeaderValue req)
            else if md1.isFile then contentRangeList ctx req.uri (rangeHeaderValue req)
            else .ok (.parts [] [])
        else
          let htmlPath := ctx.cwd ++ comps.path ++ dotHtml
          if canOpen ctx.tree htmlPath then
            match metadata ctx.tree htmlPath with
            | some m2 =>
              if m2.isFile then contentRangeList ctx (comps.path ++ dotHtml) (rangeHeaderValue req)
              else .ok (.parts [] [])
            | none => .ok (.parts [] [])
          else .ok (.parts [] [])

/-- the reply of a controller: what it does to the incoming `Response` -/
structure Reply where
  status  : Option Nat                 -- `none`: status left as it was
  extraHeaders : List Header           -- pushed onto `response.headers`
  parts   : Option (List ContentRange) -- `none`: list left as it was
  reads   : List Loc
deriving Repr

def htmlMime : Bytes := [116, 101, 120, 116, 47, 104, 116, 109, 108]

/-- `process` (production, `legacy = false`: the Last-Modified lookup uses the parsed path) and
    `process_request` (legacy: it uses the raw target) -/
def process (ctx : Ctx) (req : Request) (legacy : Bool) : Outcome Reply :=
  match processStaticResources ctx req with
  | .panic s => .panic s
  | .err => .err
  | .ok (.fail status) =>
    .ok ⟨some status, [], some [RangeM.getContentRange ctx.errText htmlMime], []⟩
  | .ok (.parts l reads) =>
    let hasRange := (getHeader req Hdr.hRange).isSome
    let fitted : Outcome (List ContentRange) := if hasRange then RangeM.fitToFile l else .ok l
    match fitted with
    | .panic s => .panic s
    | .err => .ok ⟨some 416, [], some [RangeM.getContentRange ctx.errText htmlMime], []⟩
    | .ok list =>
      if list.isEmpty then .ok ⟨none, [], none, []⟩
      else
        let status := if req.method = methodOptions then 204 else if hasRange then 206 else 200
        let lmPath : Outcome Bytes :=
          if legacy then .ok (ctx.cwd ++ req.uri)
          else match UrlParse.parseUrl (urlOf req.uri) with
            | .ok comps => .ok (ctx.cwd ++ comps.path)
            | .err => .panic Sites.staticProcessUrlUnwrap
            | .panic s => .panic s
        match lmPath with
        | .panic s => .panic s
        | .err => .err
        | .ok p =>
          let lm := if canOpen ctx.tree p then [(⟨Hdr.hLastModifiedUnixEpochNanos, ctx.mtime⟩ : Header)] else []
          .ok ⟨some status, lm, some list, reads⟩

end Rws.Static
