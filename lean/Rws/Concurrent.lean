/-
  Rws.Concurrent — N workers serving connections concurrently (property C08).

  What it mirrors.  `Server::run` (src/server/mod.rs) accepts a connection, builds a
  `ConnectionInfo`, and moves the stream, the info and a `Copy` of the stateless `App` into a
  task; a worker of `ThreadPool` (src/thread_pool/mod.rs) takes the task and runs
  `Server::process`: allocate a buffer (a local), `read` the request into it, compute the
  response (`app.execute`, `Response::generate_response` — locals only), `write_all` it to the
  SAME stream, return.  Everything a request handler can see besides its own locals is
      * the process environment `RWS_CONFIG_*` (written during `Server::setup`, only read later),
      * the files on disk (only read: property C13).

  The model.  `respond : Cfg → Tree → Req → Resp` is an ABSTRACT parameter — any function.
  (For the real server it is the composition proved about elsewhere: C01..C05, C09, C10, C14.)
  The shared state is a configuration and a file tree that NO step writes, plus per-connection
  buffers: `inbox c` (what the client sent on connection `c`), `outbox c` (what was written to
  connection `c`), and per-worker private buffers (`Worker`).  A worker executes a request as a
  sequence of ATOMIC steps — `take` (read the request), `compute`, `write` — and steps of
  different workers interleave arbitrarily (`Step`, `Run`).  `drop` lets a worker abandon a
  connection without answering (handler panic, write failure): isolation is about what IS
  delivered; that every connection is eventually served is C06/C07's business.

  Ghost component.  Every delivered response carries `src`, the connection whose inbox the
  request it was computed from was read from.  It is never inspected by a step.

  Second model (`Shared`).  The same pipeline with ONE scratch buffer shared by all handlers
  (a `static mut` / global cache in `Response::generate_response`, say).  It exists to document
  what the shared-state inventory of the C08 tie guards against: `RwsProofs/C08.lean` exhibits a
  kernel-checked interleaving in which a connection receives the other connection's data.

  Deliberate abstractions (sound for C08 because the tie for this property is NOT a differential
  run of this model, but the shared-state inventory + the runtime probe, see props/c08.py):
    * a request is read, and a response written, in one atomic step each (the real server
      reads once; `write_all` may take several `write` calls, all by the same worker on the same
      stream with no shared data in between);
    * the task queue (mpsc channel behind `Arc<Mutex<Receiver>>`) is abstracted to `taken`:
      each connection is handed to at most one worker (C07 models the queue itself);
    * time stamps (`Date-Unix-Epoch-Nanos`) and `HashMap` iteration order are outside `respond`.
-/
namespace Rws.Concurrent

abbrev ConnId := Nat
abbrev WorkerId := Nat

/-- point update of a total function on ids -/
def upd {α : Type} (f : Nat → α) (i : Nat) (v : α) : Nat → α :=
  fun j => if j = i then v else f j

/-- private state of one worker: its own request buffer and its own response buffer -/
inductive Worker (Req Resp : Type) where
  | idle
  /-- request read from connection `src` into the worker's buffer; the worker owns stream `c` -/
  | holding (c : ConnId) (src : ConnId) (req : Req)
  /-- response generated into the worker's buffer -/
  | computed (c : ConnId) (src : ConnId) (req : Req) (resp : Resp)

/-- something written to a connection; `src` is a ghost (provenance of the request it answers) -/
structure Delivered (Resp : Type) where
  resp : Resp
  src  : ConnId
deriving DecidableEq, Repr

structure State (Cfg Tree Req Resp : Type) where
  cfg    : Cfg
  tree   : Tree
  inbox  : ConnId → Option Req
  taken  : ConnId → Bool
  worker : WorkerId → Worker Req Resp
  outbox : ConnId → List (Delivered Resp)

def init {Cfg Tree Req Resp : Type} (cfg : Cfg) (tree : Tree) : State Cfg Tree Req Resp :=
  { cfg := cfg, tree := tree, inbox := fun _ => none, taken := fun _ => false,
    worker := fun _ => .idle, outbox := fun _ => [] }

/-- one atomic step of the server with `N` workers -/
inductive Step {Cfg Tree Req Resp : Type} (N : Nat) (respond : Cfg → Tree → Req → Resp) :
    State Cfg Tree Req Resp → State Cfg Tree Req Resp → Prop where
  /-- a client opens connection `c` and sends `req` -/
  | arrive (s : State Cfg Tree Req Resp) (c : ConnId) (req : Req) :
      s.inbox c = none →
      Step N respond s { s with inbox := upd s.inbox c (some req) }
  /-- idle worker `w` is handed connection `c` and reads its request into its own buffer -/
  | take (s : State Cfg Tree Req Resp) (w : WorkerId) (c : ConnId) (req : Req) :
      w < N → s.worker w = .idle → s.inbox c = some req → s.taken c = false →
      Step N respond s { s with taken := upd s.taken c true,
                                worker := upd s.worker w (.holding c c req) }
  /-- worker `w` computes the response from ITS request, the configuration and the tree -/
  | compute (s : State Cfg Tree Req Resp) (w : WorkerId) (c src : ConnId) (req : Req) :
      w < N → s.worker w = .holding c src req →
      Step N respond s { s with worker := upd s.worker w (.computed c src req (respond s.cfg s.tree req)) }
  /-- worker `w` writes ITS response buffer to the stream it owns and becomes idle -/
  | write (s : State Cfg Tree Req Resp) (w : WorkerId) (c src : ConnId) (req : Req) (resp : Resp) :
      w < N → s.worker w = .computed c src req resp →
      Step N respond s { s with worker := upd s.worker w .idle,
                                outbox := upd s.outbox c (s.outbox c ++ [⟨resp, src⟩]) }
  /-- worker `w` abandons its connection without writing (panic, write error) -/
  | drop (s : State Cfg Tree Req Resp) (w : WorkerId) :
      w < N →
      Step N respond s { s with worker := upd s.worker w .idle }

/-- any interleaving: a finite sequence of steps -/
inductive Run {Cfg Tree Req Resp : Type} (N : Nat) (respond : Cfg → Tree → Req → Resp) :
    State Cfg Tree Req Resp → State Cfg Tree Req Resp → Prop where
  | refl (s : State Cfg Tree Req Resp) : Run N respond s s
  | step {s t u : State Cfg Tree Req Resp} : Run N respond s t → Step N respond t u → Run N respond s u

/-! ### The counter-model: handlers share one scratch buffer -/
namespace Shared

/-- two connections (0, 1), two workers (0, 1), requests/responses are numbers, `respond = id`.
    `scratch` is the ONE response buffer all handlers generate into. -/
structure SState where
  inbox0  : Nat
  inbox1  : Nat
  /-- which connection worker i holds, with the request it read (none = idle / not yet read) -/
  hold0   : Option Nat
  hold1   : Option Nat
  scratch : Delivered Nat
  out0    : List (Delivered Nat)
  out1    : List (Delivered Nat)
deriving DecidableEq, Repr

inductive SStep : SState → SState → Prop where
  /-- worker 0 reads connection 0's request -/
  | take0 (s : SState) : s.hold0 = none → SStep s { s with hold0 := some s.inbox0 }
  | take1 (s : SState) : s.hold1 = none → SStep s { s with hold1 := some s.inbox1 }
  /-- worker i generates its response INTO THE SHARED BUFFER -/
  | compute0 (s : SState) (r : Nat) : s.hold0 = some r → SStep s { s with scratch := ⟨r, 0⟩ }
  | compute1 (s : SState) (r : Nat) : s.hold1 = some r → SStep s { s with scratch := ⟨r, 1⟩ }
  /-- worker i writes THE SHARED BUFFER to its own connection -/
  | write0 (s : SState) (r : Nat) : s.hold0 = some r → SStep s { s with out0 := s.out0 ++ [s.scratch], hold0 := none }
  | write1 (s : SState) (r : Nat) : s.hold1 = some r → SStep s { s with out1 := s.out1 ++ [s.scratch], hold1 := none }

inductive SRun : SState → SState → Prop where
  | refl (s : SState) : SRun s s
  | step {s t u : SState} : SRun s t → SStep t u → SRun s u

def sinit (a b : Nat) : SState :=
  { inbox0 := a, inbox1 := b, hold0 := none, hold1 := none, scratch := ⟨0, 0⟩, out0 := [], out1 := [] }

end Shared
end Rws.Concurrent
