/-
  Rws.Pool — model of the worker pool, `src/thread_pool/mod.rs` (ThreadPool::new, ThreadPool::execute,
  Worker::new) as a labelled transition system `Pool N`.

  Rust (after fix F12, catch_unwind around the job)        model
  ------------------------------------------------------   ------------------------------------
  ThreadPool::new(N): channel, Arc<Mutex<Receiver>>,       `init N` (N workers, all `waitLock`,
    N named threads each running the worker loop             empty queue, lock free)
  ThreadPool::execute(f): `self.sender.send(job)`          `submit t`   (append to the queue)
  worker loop: `let boxed_lock = receiver.lock();`         `acquire i`  (lock free → held by i)
               `let boxed_job = boxed_lock.unwrap().recv();`
                 — blocks while the channel is empty; the   `recv i`     (enabled only when the queue
                 MutexGuard is a temporary that dies at the               is non-empty: pops the head,
                 end of this statement, BEFORE the job runs               RELEASES the lock, i runs t)
               `catch_unwind(AssertUnwindSafe(job))` → Ok   `finish i`   (i back to `waitLock`, t done)
                                                    → Err   `crash i`    (same, and t recorded in `failed`)

  Deliberate abstractions (each is sound for the trace comparison the check performs):
  * A task is a natural number (the harness numbers submitted closures 0,1,2,…); what a job does
    is not modelled, only that it eventually returns (`finish`) or panics (`crash`).
  * `Mutex::lock` is modelled as an atomic test-and-set among the workers that are at the top of
    the loop; OS fairness among waiters is not modelled (every interleaving is a run).
  * Lock poisoning cannot occur: the guard lives only across `Receiver::recv`, which does not
    panic; the `is_err` branches of the loop (poisoned lock, disconnected channel) are unreachable
    while the `ThreadPool` value is alive and are not modelled (the harness never drops a pool and
    reports a failing recv as event `x`, which no model step matches).
  * Thread creation is not modelled: a worker that has not started yet is `waitLock`.
  * Ghost components `started`, `done`, `failed`, `submitted` record history for the theorems.

  `step?` is the executable one-step function (proved equivalent to the inductive `Step` in
  RwsProofs/Lemmas/Pool.lean); `runTrace` replays an observed event trace with it — this is what
  the driver op `pooltrace` runs on the traces recorded from the real pool.
-/
import Rws.Prim
namespace Rws.Pool

abbrev Task := Nat

/-- where a worker is in its loop -/
inductive WState where
  | waitLock                -- at `receiver.lock()`, not holding the lock
  | holdLock                -- holds the lock, inside `recv()`
  | running (t : Task)      -- executing job t; does NOT hold the lock
deriving DecidableEq, Repr

def WState.task? : WState → Option Task
  | .running t => some t
  | _ => none

def WState.isRunning : WState → Bool
  | .running _ => true
  | _ => false

structure State (N : Nat) where
  queue     : List Task            -- the mpsc channel, head = oldest
  lock      : Option (Fin N)       -- holder of the receiver mutex
  w         : Fin N → WState
  started   : List Task            -- ghost: tasks in the order they were received
  done      : List Task            -- ghost: tasks whose job returned or panicked (caught), in that order
  failed    : List Task            -- ghost: the sub-history of `done` that panicked
  submitted : List Task            -- ghost: every task ever sent, in order

def upd {N : Nat} (w : Fin N → WState) (i : Fin N) (x : WState) : Fin N → WState :=
  fun j => if j = i then x else w j

def init (N : Nat) : State N :=
  { queue := [], lock := none, w := fun _ => .waitLock, started := [], done := [], failed := [], submitted := [] }

inductive Label (N : Nat) where
  | submit (t : Task)
  | acquire (i : Fin N)
  | recv (i : Fin N)
  | finish (i : Fin N)
  | crash (i : Fin N)
deriving DecidableEq, Repr

def Label.isSubmit {N : Nat} : Label N → Bool
  | .submit _ => true
  | _ => false

/-- `finish` or `crash`: the step that needs the running job to end -/
def Label.isEnd {N : Nat} : Label N → Bool
  | .finish _ => true
  | .crash _ => true
  | _ => false

variable {N : Nat}

def State.doSubmit (s : State N) (t : Task) : State N :=
  { s with queue := s.queue ++ [t], submitted := s.submitted ++ [t] }
def State.doAcquire (s : State N) (i : Fin N) : State N :=
  { s with lock := some i, w := upd s.w i .holdLock }
def State.doRecv (s : State N) (i : Fin N) (t : Task) (rest : List Task) : State N :=
  { s with queue := rest, lock := none, w := upd s.w i (.running t), started := s.started ++ [t] }
def State.doFinish (s : State N) (i : Fin N) (t : Task) : State N :=
  { s with w := upd s.w i .waitLock, done := s.done ++ [t] }
def State.doCrash (s : State N) (i : Fin N) (t : Task) : State N :=
  { s with w := upd s.w i .waitLock, done := s.done ++ [t], failed := s.failed ++ [t] }

/-- the step relation of `Pool N` -/
inductive Step : State N → Label N → State N → Prop where
  | submit (s : State N) (t : Task) : Step s (.submit t) (s.doSubmit t)
  | acquire (s : State N) (i : Fin N) :
      s.lock = none → s.w i = .waitLock → Step s (.acquire i) (s.doAcquire i)
  | recv (s : State N) (i : Fin N) (t : Task) (rest : List Task) :
      s.lock = some i → s.w i = .holdLock → s.queue = t :: rest → Step s (.recv i) (s.doRecv i t rest)
  | finish (s : State N) (i : Fin N) (t : Task) :
      s.w i = .running t → Step s (.finish i) (s.doFinish i t)
  | crash (s : State N) (i : Fin N) (t : Task) :
      s.w i = .running t → Step s (.crash i) (s.doCrash i t)

/-- a finite run: labels left to right -/
inductive Run : State N → List (Label N) → State N → Prop where
  | nil (s : State N) : Run s [] s
  | cons {s s' s'' : State N} {l : Label N} {ls : List (Label N)} :
      Step s l s' → Run s' ls s'' → Run s (l :: ls) s''

/-- states of `Pool N` reachable from `init N` under any schedule and any submissions -/
inductive Reachable : State N → Prop where
  | init : Reachable (init N)
  | step {s s' : State N} {l : Label N} : Reachable s → Step s l s' → Reachable s'

/-- executable one-step function -/
def step? (s : State N) : Label N → Option (State N)
  | .submit t => some (s.doSubmit t)
  | .acquire i => if s.lock = none ∧ s.w i = .waitLock then some (s.doAcquire i) else none
  | .recv i =>
    match s.queue with
    | t :: rest => if s.lock = some i ∧ s.w i = .holdLock then some (s.doRecv i t rest) else none
    | [] => none
  | .finish i =>
    match s.w i with
    | .running t => some (s.doFinish i t)
    | _ => none
  | .crash i =>
    match s.w i with
    | .running t => some (s.doCrash i t)
    | _ => none

/-- what the harness records (worker ids and task ids as printed) -/
inductive Event where
  | submit (t : Nat)            -- `s<t>`
  | acquire (i : Nat)           -- `a<i>`
  | recv (i : Nat)              -- `r<i>`
  | begin (i : Nat) (t : Nat)   -- `b<i>.<t>`: the task body observed itself starting on worker i
  | finish (i : Nat)            -- `f<i>`
  | crash (i : Nat)             -- `c<i>`
deriving DecidableEq, Repr

def Event.label? (N : Nat) : Event → Option (Label N)
  | .submit t => some (.submit t)
  | .acquire i => if h : i < N then some (.acquire ⟨i, h⟩) else none
  | .recv i => if h : i < N then some (.recv ⟨i, h⟩) else none
  | .finish i => if h : i < N then some (.finish ⟨i, h⟩) else none
  | .crash i => if h : i < N then some (.crash ⟨i, h⟩) else none
  | .begin _ _ => none

/-- one observed event: a model step, or (for `begin`) a check that the model agrees on WHICH
    task the worker is running; `none` = the event is not possible in the model state -/
def stepEvent (s : State N) (e : Event) : Option (State N) :=
  match e with
  | .begin i t => if h : i < N then (if s.w ⟨i, h⟩ = .running t then some s else none) else none
  | e =>
    match e.label? N with
    | some l => step? s l
    | none => none

/-- replay from `s`; `.error k` = the k-th event (0-based, counted from `pos`) is impossible -/
def replay (s : State N) (pos : Nat) : List Event → Except Nat (State N)
  | [] => .ok s
  | e :: es =>
    match stepEvent s e with
    | some s' => replay s' (pos + 1) es
    | none => .error pos

def runTrace (N : Nat) (es : List Event) : Option (State N) :=
  match replay (init N) 0 es with
  | .ok s => some s
  | .error _ => none

def validTrace (N : Nat) (es : List Event) : Bool := (runTrace N es).isSome

/-- nothing queued, nothing running -/
def State.drained (s : State N) : Bool :=
  s.queue.isEmpty && (List.finRange N).all (fun i => !(s.w i).isRunning)

/-- every submitted task is done exactly once (as multisets) and the pool is drained -/
def State.complete (s : State N) : Bool :=
  s.drained && s.done.isPerm s.submitted

end Rws.Pool
