/-
  rws_model — line-protocol driver over the executable model.
  stdin: one case per line `<op> <field> …` (fields hex, `-` = empty); stdout: one result line.
-/
import RwsDriver.Common
import RwsDriver.Base64
import RwsDriver.Cors
import RwsDriver.RangeM
import RwsDriver.Pool
import RwsDriver.Request
import RwsDriver.Config
import RwsDriver.Mime
import RwsDriver.Json
import RwsDriver.Query
import RwsDriver.Multipart
import RwsDriver.ResponseM
open RwsDriver

def allOps : List (String × Op) := base64Ops ++ corsOps ++ rangeMOps ++ poolOps ++ requestOps ++ configOps ++ mimeOps ++ jsonOps ++ queryOps ++ multipartOps ++ responseOps

def runLine (line : String) : String :=
  match (line.trimAscii.toString.splitOn " ").filter (· ≠ "") with
  | [] => "bad-op"
  | op :: args =>
    match allOps.lookup op with
    | some f => f args
    | none => "bad-op"

partial def loop (h : IO.FS.Stream) (out : IO.FS.Stream) : IO Unit := do
  let line ← h.getLine
  if line.isEmpty then return ()
  out.putStrLn (runLine line)
  loop h out

def main : IO Unit := do
  let out ← IO.getStdout
  loop (← IO.getStdin) out
  out.flush
