/-
  rws_model — line-protocol driver over the executable model.
  stdin: one case per line `<op> <field> …` (fields hex, `-` = empty); stdout: one result line.
-/
import RwsDriver.Common
import RwsDriver.Base64
import RwsDriver.Cors
import RwsDriver.RangeM
import RwsDriver.Pool
import RwsDriver.Request
import RwsDriver.Config
import RwsDriver.Mime
import RwsDriver.Json
import RwsDriver.Query
import RwsDriver.Multipart
import RwsDriver.ResponseM
import RwsDriver.Serve
import RwsDriver.Parsers
open RwsDriver

def allOps : List (String × Op) := base64Ops ++ corsOps ++ rangeMOps ++ poolOps ++ requestOps ++ configOps ++ mimeOps ++ jsonOps ++ queryOps ++ multipartOps ++ responseOps ++ parsersOps

def runLine (st : ServeState) (line : String) : ServeState × String :=
  match (line.trimAscii.toString.splitOn " ").filter (· ≠ "") with
  | [] => (st, "bad-op")
  | op :: args =>
    match serveStep st op args with
    | some r => r
    | none =>
      match allOps.lookup op with
      | some f => (st, f args)
      | none => (st, "bad-op")

partial def loop (h : IO.FS.Stream) (out : IO.FS.Stream) (st : ServeState) : IO Unit := do
  let line ← h.getLine
  if line.isEmpty then return ()
  let (st', res) := runLine st line
  out.putStrLn res
  loop h out st'

def main : IO Unit := do
  let out ← IO.getStdout
  loop (← IO.getStdin) out ServeState.init
  out.flush
