/-
  C20 — library parsers report errors instead of panicking.

  One theorem per parsing entry point: for EVERY input the model function answers `ok _` or `err`,
  never `panic _` (`∀ input site, f input ≠ .panic site`).  Entry points whose totality was proved
  by another slice are restated here as corollaries so that the axiom audit of `check C20` covers
  them.  Where the statement is false on the current tree the theorem is `…_partial` (with the
  hypothesis that excludes exactly the trigger) and a kernel-checked negation witness
  `…_violated` stands next to it; the witness input is replayed on the real code by props/c20.py
  and listed in known_findings.json (open).

  Termination.  Every model function is accepted by Lean's termination checker without `partial`:
  * structural recursion on the input (list of bytes / characters / lines / parts):
    `UrlPath.foldOutcome`/`loop`, `matchLoop`, `extractLoop`, `toPairs`, `buildLoop`,
    `Req.headerLoop`, `Multipart.run`, `Json.splitRun`/`objRun`, `Base64.encode`, `splitAll.go`,
    `Config.fileLinesAux`/`argsOfLines`/`parseArgsWith`, `RangeM.parseLoop`;
  * an explicit measure: `Base64.decodeLoop` (`termination_by rem`), `Prim.replaceAll`;
  * fuel (= number of unread bytes + 1, every iteration consumes at least one byte or returns):
    `Resp.parseLoop`, `Resp.parseMultipartBodyWithBoundary`, `Resp.bodyLoop`, `Legacy.partsLoop`,
    `Legacy.bodyLoop`, `Legacy.legacyLoop`, and the `trim` loops of `Utf8`/`Utf8R`/`Multipart`
    (fuel = length).  Exhausted fuel answers `err` (or the value read so far), never `panic`, so
    the totality theorems do not depend on the fuel being sufficient; that it is sufficient is
    part of what the differential run checks (an exhausted-fuel `err` where the code answers `Ok`
    would be a disagreement), not proved here.
  Content-Range values (`Resp.parseContentRangeValue`/`parseContentRangeRaw`), query strings
  (`Query.parseQuery`), the legacy `Legacy.parseResponseLegacy` / `headerLegacy` and
  `Req.parseHeaderString` return plain values / `Option`: total by their type.

  Recursion in the CODE (stack depth).  Made iterative by `fix:` commits: `Request::cursor_read`
  (F10, per header line), `FormMultipartData::parse_form_part_recursively` (F34, per part), and by
  this slice `Response::parse_raw_response_via_cursor` (F63, per header line: abort at 10 000
  lines on a 2 MiB stack), `Range::parse_multipart_body_with_boundary` (F64, per part and per
  blank line: abort at 3 000 parts), `Range::parse_multipart_body` / `_parse_multipart_body` (F62),
  `Response::_parse_raw_response_via_cursor` (F69).  No remaining parser recurses per input unit:
  the JSON scanners are loops with nesting counters, `JSONProperty`/nested objects are parsed on
  demand one level per call by the caller, `UrlPath` and `ContentDisposition` are `for` loops /
  straight-line code.  props/c20.py feeds 12 000 (quick) / 50 000 (thorough) units or nesting
  levels and 100 KB lines to every entry point on a thread with the default 2 MiB stack.
-/
import Rws.Request
import Rws.ResponseM
import Rws.Multipart
import Rws.RangeM
import Rws.Base64
import Rws.Json
import Rws.Query
import Rws.UrlParse
import Rws.Config
import Rws.ContentDisposition
import Rws.UrlPath
import Rws.Legacy
import RwsProofs.C03
import RwsProofs.C14
import RwsProofs.C15
import RwsProofs.C16
import RwsProofs.C20Json
import RwsProofs.Lemmas.Config
import RwsProofs.Lemmas.C20
import RwsProofs.Lemmas.UrlPath
import RwsProofs.Lemmas.UrlParse
import RwsProofs.Lemmas.C20Config

namespace Rws.C20
open Rws

/-! ## HTTP requests and responses -/

/-- `Request::parse` (C14) -/
theorem C20_request_total (bytes : Bytes) (site : String) : Req.parse bytes ≠ .panic site := by
  rcases C14.C14_parse_total bytes with h | ⟨r, h⟩ <;> simp [h]

/-- `Request::parse_method_and_request_uri_and_http_version_string` -/
theorem C20_request_line_total (line : Bytes) (site : String) : Req.parseRequestLine line ≠ .panic site := by
  unfold Req.parseRequestLine
  dsimp only
  split
  · simp
  · split
    · simp
    · split
      · simp
      · split <;> simp

/-- `Response::parse` (C15) -/
theorem C20_response_total (bytes : Bytes) (site : String) : Resp.parse bytes ≠ .panic site :=
  C15.C15_parse_total bytes site

/-- `Response::_parse_http_version_status_code_reason_phrase_string`, `parse_http_response_header_string` -/
theorem C20_response_lines_total (line : Bytes) (site : String) :
    Resp.parseStatusLine line ≠ .panic site ∧ Resp.parseHeaderString line ≠ .panic site :=
  ⟨RespL.parseStatusLine_np line site, RespL.parseHeaderString_np line site⟩

/-- `Range::parse_multipart_body_with_boundary` (the multipart/byteranges reader of `Response::parse`),
    for every boundary, fuel, cursor position and flag -/
theorem C20_byteranges_total (boundary : Bytes) (total fuel : Nat) (rest : Bytes) (acc : List ContentRange)
    (br : Nat) (opened : Bool) (site : String) :
    Resp.parseMultipartBodyWithBoundary boundary total fuel rest acc br opened ≠ .panic site :=
  RespL.parseMultipart_np boundary total site fuel rest acc br opened

/-- `Range::parse_multipart_body` = `Range::_parse_multipart_body` (legacy readers, after F60–F62) -/
theorem C20_byteranges_legacy_total (bytes : Bytes) (site : String) :
    Legacy.parseMultipartBody bytes ≠ .panic site :=
  C20L.parseMultipartBody_np bytes site

/-! ## header values -/

/-- `Header::parse` = `Header::parse_header` -/
theorem C20_header_total (raw : Bytes) (site : String) : Multipart.parseHeader raw ≠ .panic site :=
  C20L.parseHeader_np raw site

/-- `ContentDisposition::parse`: the only `unwrap` (`parts.get(0)`) is unreachable because `split`
    yields at least one piece -/
theorem C20_content_disposition_total (raw : Bytes) (site : String) :
    ContentDisposition.parse raw ≠ .panic site :=
  C20L.cd_parse_np raw site

/-- `ContentDisposition::as_string` -/
theorem C20_content_disposition_string_total (c : ContentDisposition.CD) (site : String) :
    ContentDisposition.asString c ≠ .panic site :=
  C20L.cd_asString_np c site

/-- `FormMultipartData::extract_boundary` -/
theorem C20_boundary_total (ct : Bytes) (site : String) : Multipart.extractBoundary ct ≠ .panic site := by
  unfold Multipart.extractBoundary; split <;> simp

/-! ## range values -/

/-- `Range::parse_range_in_content_range` (C03), for any declared file length -/
theorem C20_range_total (L : Nat) (spec : Bytes) (site : String) : RangeM.parseRange L spec ≠ .panic site :=
  C03.C03_no_overflow_parser L spec site

/-! ## bodies -/

/-- `FormMultipartData::parse` (C16) -/
theorem C20_multipart_total (data boundary : Bytes) (site : String) :
    Multipart.parse data boundary ≠ .panic site := by
  rcases C16.C16_parse_total data boundary with h | ⟨r, h⟩ <;> simp [h]

/-- `FormUrlEncoded::parse` -/
theorem C20_form_urlencoded_total (data : Bytes) (site : String) :
    Query.FormUrlEncoded.parse data ≠ .panic site := by
  unfold Query.FormUrlEncoded.parse; split <;> simp

/-! ## Base64 -/

/-- `Base64::decode` -/
theorem C20_base64_total (text : List Char) (site : String) : Base64.decode text ≠ .panic site :=
  C20L.decode_np text site

/-- `Base64::encode` -/
theorem C20_base64_encode_total (bs : Bytes) (site : String) : Base64.encode bs ≠ .panic site :=
  C20L.encode_np bs site

/-! ## JSON (proved in RwsProofs/C20Json.lean) -/

theorem C20_json_object_total (text : Json.Text) (site : String) : Json.parseAsProperties text ≠ .panic site :=
  C20Json.C20_json_object_total text site
theorem C20_json_property_total (raw : Json.Text) (site : String) : Json.JSONProperty.parse raw ≠ .panic site :=
  C20Json.C20_json_property_total raw site
theorem C20_json_array_total (text : Json.Text) (site : String) : Json.splitIntoVectorOfStrings text ≠ .panic site :=
  C20Json.C20_json_array_total text site
theorem C20_json_list_int_total (ty : Json.IntTy) (text : Json.Text) (site : String) : Json.parseListInt ty text ≠ .panic site :=
  C20Json.C20_json_list_int_total ty text site
theorem C20_json_list_bool_total (text : Json.Text) (site : String) : Json.parseListBool text ≠ .panic site :=
  C20Json.C20_json_list_bool_total text site
theorem C20_json_list_null_total (text : Json.Text) (site : String) : Json.parseListNull text ≠ .panic site :=
  C20Json.C20_json_list_null_total text site
theorem C20_json_list_float_total (text : Json.Text) (site : String) : Json.parseListFloat text ≠ .panic site :=
  C20Json.C20_json_list_float_total text site
/-- PARTIAL (see RwsProofs/C20Json.lean): the string-list reader does not panic when every item the
    splitter hands over is `Safe`; that the splitter only produces safe items is not proved. -/
theorem C20_json_list_string_total_partial (text : Json.Text)
    (hsafe : ∀ items, Json.splitIntoVectorOfStrings text = .ok items → ∀ t ∈ items, C20Json.Safe t) (site : String) :
    Json.parseListString text ≠ .panic site :=
  C20Json.C20_json_list_string_total_partial text hsafe site

/-! ## URL path patterns -/

/-- `UrlPath::extract_parts_from_pattern`: the subtraction `_buffer.len() - 2` of the `]]` block
    (url/path/mod.rs:70) cannot underflow any more: the block is only entered for an opened token,
    and then the buffer holds at least the two `]` (loop invariant `UrlPathL.Inv`) -/
theorem C20_urlpath_pattern_total (pattern : UrlPath.Text) (site : String) :
    UrlPath.extractParts pattern ≠ .panic site :=
  (UrlPathL.extractParts_wf pattern).1 site

/-- the part lists it returns are well formed: static parts have a non-empty text, tokens a name,
    and the two kinds alternate -/
theorem C20_urlpath_pattern_wf (pattern : UrlPath.Text) (ps : List UrlPath.Part)
    (h : UrlPath.extractParts pattern = .ok ps) : UrlPathL.WF ps = true :=
  (UrlPathL.extractParts_wf pattern).2 ps h

/-- `UrlPath::is_matching` (the `unwrap`s at url/path/mod.rs:134 and :159 are unreachable) -/
theorem C20_urlpath_matching_total (path pattern : UrlPath.Text) (site : String) :
    UrlPath.isMatching path pattern ≠ .panic site := by
  unfold UrlPath.isMatching
  split
  · simp
  · split
    · rename_i ps h
      exact UrlPathL.matchLoop_np site ps path (C20_urlpath_pattern_wf pattern ps h)
    · simp
    · rename_i s h; exact absurd h (C20_urlpath_pattern_total pattern s)

/-- `UrlPath::extract` (the `unwrap`s at url/path/mod.rs:211, :212, :236, :264, :265 are unreachable;
    a path that does not match is `Err` since F26d) -/
theorem C20_urlpath_extract_total (path pattern : UrlPath.Text) (site : String) :
    UrlPath.extract path pattern ≠ .panic site := by
  unfold UrlPath.extract
  split
  · simp
  · rename_i s h; exact absurd h (C20_urlpath_pattern_total pattern s)
  · rename_i ps h
    have hwf := C20_urlpath_pattern_wf pattern ps h
    have hl := UrlPathL.extractLoop_np site ps none path [] hwf (by simp) (by simp)
    split
    · rename_i res hres
      exact UrlPathL.toPairs_np site res (hl.2 res hres)
    · simp
    · rename_i s hs
      exact absurd hs (UrlPathL.extractLoop_np s ps none path [] hwf (by simp) (by simp)).1

/-- `UrlPath::build` (the `unwrap`s at url/path/mod.rs:285 and :287 are unreachable) -/
theorem C20_urlpath_build_total (params : List (UrlPath.Text × UrlPath.Text)) (pattern : UrlPath.Text) (site : String) :
    UrlPath.build params pattern ≠ .panic site := by
  unfold UrlPath.build
  split
  · rename_i ps h
    exact UrlPathL.buildLoop_np params site ps [] (UrlPathL.WF_all ps (C20_urlpath_pattern_wf pattern ps h))
  · simp
  · rename_i s h; exact absurd h (C20_urlpath_pattern_total pattern s)

/-! ## configuration files -/

/-- no word handed to `CommandLineArgument::_parse` holds a NUL byte -/
def NulFree (words : List Bytes) : Prop := ∀ w ∈ words, (0 : UInt8) ∉ w
instance (ws : List Bytes) : Decidable (NulFree ws) := by unfold NulFree; infer_instance

/-- `read_config_file` on arbitrary bytes never panics: a file that is not UTF-8 is an `err`
    (since F70), a file with a setting that holds a NUL byte is an `err` (since F72 — before, the
    value reached `std::env::set_var`, which panics), and arguments without NUL never make
    `CommandLineArgument::_parse` panic. -/
theorem C20_config_total (bytes : Bytes) (e : Config.Env) (site : String) :
    Legacy.readConfigBytes bytes e ≠ .panic site := by
  unfold Legacy.readConfigBytes
  split
  · unfold Config.readConfigFile
    split
    · simp
    · rename_i h2
      have hn : NulFree (Config.configArgs bytes) := by
        intro w hw h0
        apply h2
        simp only [List.any_eq_true]
        exact ⟨w, hw, by simp [h0]⟩
      rw [Config.parseArgsWith_ok Gen.flagTable (Config.configArgs bytes) e hn]
      simp
  · simp

/-- a file without a NUL byte is never rejected for NUL: its synthesised arguments hold none -/
theorem C20_config_nul_free_args (bytes : Bytes) (h : (0 : UInt8) ∉ bytes) : NulFree (Config.configArgs bytes) :=
  CfgL.configArgs_nulFree bytes h

/-- regression F72: `port = "1<NUL>"` is an error, not a panic inside `std::env::set_var` -/
theorem C20_config_nul_regression :
    Legacy.readConfigBytes [112, 111, 114, 116, 32, 61, 32, 34, 49, 0, 34, 10] [] = .err := by
  decide +kernel

/-- a file that is not UTF-8 (`port = 1␊ FF ␊`) is an error, not a panic (regression F70) -/
theorem C20_config_non_utf8 : Legacy.readConfigBytes [112, 111, 114, 116, 32, 61, 32, 49, 10, 255, 10] [] = .err := by
  decide +kernel

/-! ## URLs (dependency crate url-build-parse 11.0.0, reached through `URL::parse`) -/

/-- PARTIAL.  Full statement: `∀ url site, UrlParse.parseUrl url ≠ .panic site` — FALSE: the crate
    unwraps the `Err` of `extract_port` (`C20_url_port_violated`; open finding, the crate is outside
    the repository).  Proved: that is the ONLY panic `URL::parse` can produce — each of the other 15
    `unwrap`s of the crate on this path is unreachable, for every input. -/
theorem C20_url_total_partial (url : Bytes) (site : String) (h : UrlParse.parseUrl url = .panic site) :
    site = "url-build-parse-11.0.0/lib.rs:448" :=
  UrlL.parseUrl_site url site h

/-- hence `Request::get_uri_query` / `get_uri_path` (which parse `http://localhost` + target) panic
    nowhere else either -/
theorem C20_request_uri_total_partial (uri : Bytes) (site : String) :
    (UrlParse.requestUriQuery uri = .panic site → site = "url-build-parse-11.0.0/lib.rs:448") ∧
    (UrlParse.requestUriPath uri = .panic site → site = "url-build-parse-11.0.0/lib.rs:448") := by
  constructor
  · intro h
    unfold UrlParse.requestUriQuery at h
    split at h
    · rename_i s hs; simp only [Outcome.panic.injEq] at h; exact h ▸ UrlL.parseUrl_site _ s hs
    · simp at h
    · simp at h
  · intro h
    unfold UrlParse.requestUriPath at h
    split at h
    · rename_i s hs; simp only [Outcome.panic.injEq] at h; exact h ▸ UrlL.parseUrl_site _ s hs
    · simp at h
    · simp at h

/-- OPEN finding: `parse_authority` unwraps the `Err` of `extract_port` (lib.rs:448): `http://h:x/` panics -/
theorem C20_url_port_violated :
    UrlParse.parseUrl [104, 116, 116, 112, 58, 47, 47, 104, 58, 120, 47] = .panic "url-build-parse-11.0.0/lib.rs:448" := by
  decide +kernel

/-! ## `Range::_convert_bytes_array_to_string` (`Vec<u8> -> String`, no error channel) -/

/-- total (the helper replaces what is not UTF-8 since F73; before, one byte `FF` panicked) -/
theorem C20_convert_legacy_total (bs : Bytes) (site : String) :
    Legacy.convertLegacy bs ≠ .panic site := by
  unfold Legacy.convertLegacy; simp

/-- regression F73: `FF` gives U+FFFD; a truncated 3-byte sequence followed by ASCII gives one U+FFFD and the ASCII byte -/
example : Legacy.convertLegacy [255] = .ok [0xEF, 0xBF, 0xBD] ∧
    Legacy.convertLegacy [0xE2, 0x82, 0x41] = .ok [0xEF, 0xBF, 0xBD, 0x41] ∧
    Legacy.convertLegacy [0xE2, 0x82, 0xAC] = .ok [0xE2, 0x82, 0xAC] := by decide +kernel

/-! ## non-vacuity: the entry points do answer `ok` on valid documents and `err` on malformed ones,
    and the hypotheses of the partial theorems are satisfiable -/

/-- `form-data; name="a"; filename="b.txt"` parses; `form-data` alone and `inline;x` are errors -/
example :
    ContentDisposition.parse "form-data; name=\"a\"; filename=\"b.txt\"".toUTF8.toList
      = .ok ⟨"form-data".toUTF8.toList, some [97], some "b.txt".toUTF8.toList⟩ ∧
    ContentDisposition.parse "form-data".toUTF8.toList = .err ∧
    ContentDisposition.parse "inline;x".toUTF8.toList = .err := by
  decide +kernel

/-- `/some/[[id]]/x[[n]]` has four alternating parts; the old panic inputs are errors now -/
example :
    UrlPath.extractParts "/some/[[id]]/x[[n]]".toList
      = .ok [UrlPath.staticPart "/some/".toList, UrlPath.tokenPart "id".toList, UrlPath.staticPart "/x".toList, UrlPath.tokenPart "n".toList] ∧
    UrlPath.extractParts "a]]]".toList = .err ∧ UrlPath.extractParts "a]]b]]".toList = .err ∧
    UrlPath.extractParts "a[[b".toList = .err := by
  decide +kernel

/-- matching, extracting and building with that pattern; a path that does not match is `err` -/
example :
    UrlPath.isMatching "/some/1/x2".toList "/some/[[id]]/x[[n]]".toList = .ok true ∧
    UrlPath.isMatching "/other".toList "/some/[[id]]".toList = .ok false ∧
    UrlPath.extract "/some/1/x2".toList "/some/[[id]]/x[[n]]".toList = .ok [("id".toList, "1".toList), ("n".toList, "2".toList)] ∧
    UrlPath.extract "/other".toList "/some/[[id]]".toList = .err ∧
    UrlPath.build [("id".toList, "7".toList)] "/some/[[id]]".toList = .ok "/some/7".toList ∧
    UrlPath.build [] "/some/[[id]]".toList = .err := by
  decide +kernel

/-- a two-part multipart/byteranges body is read by the legacy reader; cut inside the second part
    body it is an error (regression F61: endless loop before) -/
example :
    Legacy.parseMultipartBody "--String_separator\r\nContent-Type: text/plain\r\nContent-Range: bytes 0-1/2\r\n\r\nab\r\n--String_separator\r\n".toUTF8.toList = .ok 1 ∧
    Legacy.parseMultipartBody "--String_separator\r\nContent-Type: text/plain\r\nContent-Range: bytes 0-1/2\r\n\r\nab\r\n".toUTF8.toList = .err := by
  decide +kernel

/-- URLs with and without a numeric port parse (the partial theorem is not vacuous: other inputs reach `ok`) -/
example :
    (UrlParse.parseUrl "http://h:80/p?a=b#f".toUTF8.toList).isOk = true ∧
    (UrlParse.parseUrl "http://u:pw@host/".toUTF8.toList).isOk = true ∧
    UrlParse.parseUrl "nocolon".toUTF8.toList = .err := by
  decide +kernel

/-- ordinary inputs: a config file without NUL gives its two arguments -/
example :
    NulFree (Config.configArgs "port = 7878\n[cors]\nallow_all = false\n".toUTF8.toList) ∧
    (Config.configArgs "port = 7878\n[cors]\nallow_all = false\n".toUTF8.toList).length = 2 ∧
    Utf8R.valid "é".toUTF8.toList = true := by
  decide +kernel

end Rws.C20
