/-
  RwsProofs.Coherence — the duplicated std primitives of the model agree with each other.

  Several model files carry their own copy of `String::from_utf8(..).is_ok()` and of `str::trim`
  (each tied to the real Rust function by its own differential stream).  Here the copies are
  proved equal to the reference copy `Rws.Utf8R` on ALL inputs (validators) / on all valid UTF-8
  inputs (trims: Rust only ever calls `trim` on a `&str`).
-/
import RwsProofs.Lemmas.Coherence
namespace Rws.Coherence
open Rws

/-! ## 1. the six validators are one function -/

theorem valid_Utf8_eq : ∀ bs : Bytes, Utf8.valid bs = Utf8R.valid bs :=
  eq_of_unfold Utf8.valid rfl unfold_Utf8

theorem valid_Utf8M_eq : ∀ bs : Bytes, Utf8M.valid bs = Utf8R.valid bs :=
  eq_of_unfold Utf8M.valid (by rw [Utf8M.valid]) unfold_Utf8M

theorem valid_Query_eq : ∀ bs : Bytes, Query.validUtf8 bs = Utf8R.valid bs :=
  eq_of_unfold Query.validUtf8 (by rw [Query.validUtf8]) unfold_Query

theorem valid_Config_eq : ∀ bs : Bytes, Config.validUtf8 bs = Utf8R.valid bs :=
  eq_of_unfold Config.validUtf8 (by rw [Config.validUtf8]) unfold_Config

theorem valid_Unicode_eq : ∀ bs : Bytes, Unicode.validUtf8 bs = Utf8R.valid bs := fun bs => by
  rw [validUtf8_eq_dec]; exact eq_of_unfold dec rfl unfold_dec bs


/-! ## 2. `String::from_utf8_lossy` -/

/-- valid UTF-8 is returned unchanged (`Cow::Borrowed`) -/
theorem lossy_of_valid {bs : Bytes} (h : Utf8R.valid bs = true) : Legacy.lossy bs = bs :=
  Coherence.lossyAux_of_valid _ _ (Nat.le_refl _) h

/-- the output is always valid UTF-8 -/
theorem lossy_valid : ∀ bs : Bytes, Utf8R.valid (Legacy.lossy bs) = true :=
  fun _ => Coherence.lossyAux_valid _ _


/-! ## 3. the six `str::trim`s are one function

  All six are byte-pattern matchers over the UTF-8 encodings of the same 25 `White_Space` scalars,
  run with the same fuel, so they agree on EVERY byte list (`trim_*_eq_all`), not only on valid
  UTF-8; the statements asked for (`trim_*_eq`, under `Utf8R.valid`) are corollaries. -/

/-- the white-space tables: the reference table is the UTF-8 of the 19 non-ASCII `White_Space` scalars
    (the other 6 are `isAsciiWs`); `Utf8` has the reference table, `Query` and `Multipart` list the six
    ASCII scalars in front of it -/
theorem table_is_White_Space :
    Utf8R.wsSeqs = [0x85, 0xA0, 0x1680, 0x2000, 0x2001, 0x2002, 0x2003, 0x2004, 0x2005, 0x2006, 0x2007,
      0x2008, 0x2009, 0x200A, 0x2028, 0x2029, 0x202F, 0x205F, 0x3000].map Unicode.encodeScalar := by decide
theorem table_Utf8 : Utf8.wsTable = Utf8R.wsSeqs := by decide
theorem table_Query : Query.wsSeqs = [[9], [10], [11], [12], [13], [32]] ++ Utf8R.wsSeqs := by decide
theorem table_Multipart : Multipart.wsChars = [[9], [10], [11], [12], [13], [32]] ++ Utf8R.wsSeqs := by decide
theorem table_Query_Multipart : Query.wsSeqs = Multipart.wsChars := by decide

theorem trim_Utf8_eq_all : ∀ bs : Bytes, Utf8.trim bs = Utf8R.trim bs := trim_Utf8
theorem trim_Multipart_eq_all : ∀ bs : Bytes, Multipart.trimU bs = Utf8R.trim bs := trim_Multipart
theorem trim_Query_eq_all : ∀ bs : Bytes, Query.trimU bs = Utf8R.trim bs := trim_Query
theorem trim_RangeM_eq_all : ∀ bs : Bytes, RangeM.trimU bs = Utf8R.trim bs := trim_RangeM
theorem trim_Config_eq_all : ∀ bs : Bytes, Config.trimUnicode bs = Utf8R.trim bs := trim_Config

theorem trim_Utf8_eq : ∀ bs : Bytes, Utf8R.valid bs = true → Utf8.trim bs = Utf8R.trim bs :=
  fun bs _ => trim_Utf8 bs
theorem trim_Multipart_eq : ∀ bs : Bytes, Utf8R.valid bs = true → Multipart.trimU bs = Utf8R.trim bs :=
  fun bs _ => trim_Multipart bs
theorem trim_Query_eq : ∀ bs : Bytes, Utf8R.valid bs = true → Query.trimU bs = Utf8R.trim bs :=
  fun bs _ => trim_Query bs
theorem trim_RangeM_eq : ∀ bs : Bytes, Utf8R.valid bs = true → RangeM.trimU bs = Utf8R.trim bs :=
  fun bs _ => trim_RangeM bs
theorem trim_Config_eq : ∀ bs : Bytes, Utf8R.valid bs = true → Config.trimUnicode bs = Utf8R.trim bs :=
  fun bs _ => trim_Config bs

/-- the auxiliary length functions agree too (front / back white-space scalar) -/
theorem wsLen_all (s : Bytes) :
    Utf8.wsLen s = Utf8R.wsLen s ∧ Config.wsLen s = Utf8R.wsLen s ∧ RangeM.wsPrefixLen s = Utf8R.wsLen s ∧
    Multipart.wsPrefixLen s = Utf8R.wsLen s :=
  ⟨wsLen_Utf8 s, wsLen_Config s, prefixLen_RangeM s, prefixLen_Multipart s⟩

theorem wsLenRev_all (r : Bytes) :
    Utf8.wsLenRev r = Utf8R.wsLenRev r ∧ Config.wsLenRev r = Utf8R.wsLenRev r ∧
    RangeM.wsSuffixLen r = Utf8R.wsLenRev r ∧ Multipart.wsSuffixLen r.reverse = Utf8R.wsLenRev r :=
  ⟨wsLenRev_Utf8 r, wsLenRev_Config r, suffixLen_RangeM r, by rw [suffixLen_Multipart, List.reverse_reverse]⟩

end Rws.Coherence
