/-
  C12 — the precedence theorem of RwsProofs/C12.lean read layer by layer, for every setting of the
  regenerated flag table, every environment, every config file and every NUL-free argv:
  the command line wins whatever the other sources say; without it the config file wins; without
  both the environment; without all three the default; the effective value is always defined;
  words after the last one that addresses a setting, and a repeated command line, change nothing.
-/
import RwsProofs.C12
namespace Rws.C12Layers
open Rws Rws.Config Rws.Gen Rws.C12

private theorem eff (r : FlagRow) (hr : r ∈ Gen.flagTable) (env : Env) (file : Option Bytes)
    (cli : List Bytes) (hc : NulFree cli) :
    effective (startup env file cli) r.var =
      (lastFor r cli).or ((lastFor r (fileWords file)).or ((envValue env r.var).or (defaultOf r.var))) := by
  obtain ⟨e, hs, hg⟩ := C12_precedence r hr env file cli hc
  simp only [hs, effective, hg]

/-- a value on the command line is the effective one — whatever file and environment say -/
theorem C12_cli_wins (r : FlagRow) (hr : r ∈ Gen.flagTable) (env : Env) (file : Option Bytes)
    (cli : List Bytes) (hc : NulFree cli) (v : Bytes) (h : lastFor r cli = some v) :
    effective (startup env file cli) r.var = some v := by
  rw [eff r hr env file cli hc, h]; rfl

/-- no word for the setting on the command line: the config file's value is the effective one —
    whatever the environment says -/
theorem C12_file_wins (r : FlagRow) (hr : r ∈ Gen.flagTable) (env : Env) (file : Option Bytes)
    (cli : List Bytes) (hc : NulFree cli) (v : Bytes)
    (h1 : lastFor r cli = none) (h2 : lastFor r (fileWords file) = some v) :
    effective (startup env file cli) r.var = some v := by
  rw [eff r hr env file cli hc, h1, h2]; rfl

/-- neither command line nor file: the environment's value -/
theorem C12_env_wins (r : FlagRow) (hr : r ∈ Gen.flagTable) (env : Env) (file : Option Bytes)
    (cli : List Bytes) (hc : NulFree cli) (v : Bytes)
    (h1 : lastFor r cli = none) (h2 : lastFor r (fileWords file) = none) (h3 : envValue env r.var = some v) :
    effective (startup env file cli) r.var = some v := by
  rw [eff r hr env file cli hc, h1, h2, h3]; rfl

/-- no source says anything: the default -/
theorem C12_default_last (r : FlagRow) (hr : r ∈ Gen.flagTable) (env : Env) (file : Option Bytes)
    (cli : List Bytes) (hc : NulFree cli)
    (h1 : lastFor r cli = none) (h2 : lastFor r (fileWords file) = none) (h3 : envValue env r.var = none) :
    effective (startup env file cli) r.var = defaultOf r.var := by
  rw [eff r hr env file cli hc, h1, h2, h3]; rfl

/-- every setting has an effective value after start-up, for every input -/
theorem C12_always_defined (r : FlagRow) (hr : r ∈ Gen.flagTable) (env : Env) (file : Option Bytes)
    (cli : List Bytes) (hc : NulFree cli) :
    (effective (startup env file cli) r.var).isSome = true := by
  rw [eff r hr env file cli hc]
  have hd : (defaultOf r.var).isSome = true := (C12_defaults.1 r hr)
  cases lastFor r cli <;> cases lastFor r (fileWords file) <;> cases envValue env r.var <;>
    simp_all [Option.or]

/-- the command line's say is that of its LAST word addressing the setting: words put in front
    of the command line change nothing once a later word addresses the setting -/
theorem C12_last_word_wins (r : FlagRow) (hr : r ∈ Gen.flagTable) (env : Env) (file : Option Bytes)
    (front cli : List Bytes) (hf : NulFree front) (hc : NulFree cli) (v : Bytes) (h : lastFor r cli = some v) :
    effective (startup env file (front ++ cli)) r.var = some v := by
  have hn : NulFree (front ++ cli) := by
    intro w hw
    rcases List.mem_append.mp hw with m | m
    · exact hf w m
    · exact hc w m
  apply C12_cli_wins r hr env file _ hn
  unfold lastFor at h ⊢
  rw [List.filterMap_append, List.getLast?_append, h]; rfl

/-- giving the same command line twice is giving it once -/
theorem C12_cli_idempotent (r : FlagRow) (hr : r ∈ Gen.flagTable) (env : Env) (file : Option Bytes)
    (cli : List Bytes) (hc : NulFree cli) :
    effective (startup env file (cli ++ cli)) r.var = effective (startup env file cli) r.var := by
  have hn : NulFree (cli ++ cli) := by
    intro w hw
    rcases List.mem_append.mp hw with m | m <;> exact hc w m
  rw [eff r hr env file _ hn, eff r hr env file cli hc]
  congr 1
  unfold lastFor
  rw [List.filterMap_append, List.getLast?_append]
  cases (List.filterMap (flagValue r) cli).getLast? <;> rfl

end Rws.C12Layers
