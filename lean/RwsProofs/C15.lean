/-
  C15 — responses written by the library can be read back by it.
  Property theorems only (helper lemmas: RwsProofs/Lemmas/ResponseM.lean, ResponseParse.lean,
  ResponseMultipart.lean).  Model: Rws/ResponseM.lean over the status table, the version list
  and the header / separator constants regenerated from the source (Rws/Gen/StatusTab.lean).
-/
import Rws.ResponseM
import RwsProofs.Lemmas.ResponseParse
import RwsProofs.Lemmas.ResponseMultipart
import RwsProofs.Lemmas.ResponseTotal
namespace Rws.C15
open Rws Rws.Resp Rws.RespL

/-! ## The specification, written independently of the model -/

/-- ASCII text as bytes -/
def ascii (s : String) : Bytes := s.toList.map (fun c => UInt8.ofNat c.toNat)

/-- the headers a serialiser adds after the caller's: one part → its content type, its
    range and the body length; several parts → the multipart/byteranges content type -/
def framing : List ContentRange → List Header
  | [] => []
  | [c] => [⟨ascii "Content-Type", c.contentType⟩,
            ⟨ascii "Content-Range", ascii "bytes " ++ natToDec c.range.start ++ ascii "-" ++ natToDec c.range.stop ++ ascii "/" ++ c.size⟩,
            ⟨ascii "Content-Length", natToDec c.body.length⟩]
  | _ :: _ :: _ => [⟨ascii "Content-Type", ascii "multipart/byteranges; boundary=String_separator"⟩]

/-- what must be read back: the value that was written, plus the framing headers -/
def normalise (r : Response) : Response := { r with headers := r.headers ++ framing r.parts }

/-- text that can stand on one header line: UTF-8 (every Rust `String` is), no CR, no LF -/
def textOk (s : Bytes) : Bool := Utf8R.valid s && !s.contains 13 && !s.contains 10

/-- a caller's header: one-line name and value, no colon in the name, and not one of the
    three names the serialiser itself writes -/
def hdrOk (h : Header) : Bool :=
  textOk h.name && textOk h.value && !h.name.contains 58 &&
  h.name != ascii "Content-Type" && h.name != ascii "Content-Range" && h.name != ascii "Content-Length"

/-- unit `bytes`, size a canonical decimal number `n < 2^63`, `start ≤ end ≤ n`
    (what a Content-Range header can say), body shorter than 2^64 (every Rust `Vec` is) -/
def rangeOk (c : ContentRange) : Bool :=
  c.unit == ascii "bytes" && c.body.length < 18446744073709551616 &&
  (match parseNat? c.size with
   | some n => c.size == natToDec n && c.range.start ≤ c.range.stop && c.range.stop ≤ n && n < 9223372036854775808
   | none => false)

/-- the lines of a byte string as `read_until(b'\n')` cuts them: after every LF -/
def lines : Bytes → List Bytes
  | [] => []
  | c :: cs =>
    if c = 10 then [c] :: lines cs
    else match lines cs with
      | [] => [[c]]
      | l :: ls => (c :: l) :: ls

/-- "the body does not contain the boundary line": no line of `body ++ CR LF` is at the same
    time valid UTF-8 and a text containing `String_separator` (a line that is not UTF-8 is
    never taken for a boundary by the reader) -/
def bodyOk (b : Bytes) : Bool :=
  (lines (b ++ [13, 10])).all (fun l => !(Utf8R.valid l && containsSub l (ascii "String_separator")))

/-- the only part of a single-part response -/
def singleOk (c : ContentRange) : Bool :=
  rangeOk c && textOk c.contentType && !startsWith c.contentType (ascii "multipart/byteranges")

/-- one of several parts: content type non-empty, without surrounding white space and
    without the separator text; body without boundary line -/
def partOk (c : ContentRange) : Bool :=
  rangeOk c && textOk c.contentType && !c.contentType.isEmpty && Utf8R.trim c.contentType == c.contentType &&
  !containsSub c.contentType (ascii "String_separator") && bodyOk c.body

/-- the response values the round trip is claimed for -/
def wfResp (r : Response) : Bool :=
  Gen.respVersionList.contains r.version && Gen.statusTable.contains (r.status, r.reason) &&
  r.headers.all hdrOk &&
  (match r.parts with
   | [] => false
   | [c] => singleOk c
   | ps => ps.all partOk)

/-- the request asks for a body (HEAD and OPTIONS responses are written without one) -/
def wantsBody (q : Request) : Bool := q.method != ascii "HEAD" && q.method != ascii "OPTIONS"

/-! ## the constants of the specification are the ones the code uses now -/

theorem C15_constants :
    Gen.respContentType = ascii "Content-Type" ∧ Gen.respContentRange = ascii "Content-Range" ∧
    Gen.respContentLength = ascii "Content-Length" ∧ Gen.respStringSeparator = ascii "String_separator" ∧
    Gen.respBytesUnit = ascii "bytes" ∧ multipartContentType = ascii "multipart/byteranges; boundary=String_separator" ∧
    Gen.respMultipart ++ [47] ++ Gen.respByteranges = ascii "multipart/byteranges" ∧
    Gen.respNameValueSeparator = ascii ": " ∧
    Gen.respMethodHead = ascii "HEAD" ∧ Gen.respMethodOptions = ascii "OPTIONS" ∧
    Gen.respOctetStream = ascii "application/octet-stream" := by decide +kernel

section helpers

private theorem kCT : ascii "Content-Type" = Gen.respContentType := by decide +kernel
private theorem kCR : ascii "Content-Range" = Gen.respContentRange := by decide +kernel
private theorem kCL : ascii "Content-Length" = Gen.respContentLength := by decide +kernel
private theorem kSep : ascii "String_separator" = Gen.respStringSeparator := by decide +kernel
private theorem kBytes : ascii "bytes" = Gen.respBytesUnit := by decide +kernel
private theorem kBytesSp : ascii "bytes " = [98, 121, 116, 101, 115, 32] := by decide +kernel
private theorem kDash : ascii "-" = [45] := by decide +kernel
private theorem kSlash : ascii "/" = [47] := by decide +kernel
private theorem kMp : ascii "multipart/byteranges; boundary=String_separator" = multipartContentType := by decide +kernel
private theorem kMpPre : ascii "multipart/byteranges" = Gen.respMultipart ++ [47] ++ Gen.respByteranges := by decide +kernel
private theorem kHead : ascii "HEAD" = Gen.respMethodHead := by decide +kernel
private theorem kOptions : ascii "OPTIONS" = Gen.respMethodOptions := by decide +kernel

private theorem framing_eq (ps : List ContentRange) : framing ps = framingHeaders ps := by
  match ps with
  | [] => rfl
  | [c] =>
    simp only [framing, framingHeaders, kCT, kCR, kCL, kBytesSp, kDash, kSlash, contentRangeValue]
    simp [Gen.respBytesUnit]
  | _ :: _ :: _ => simp only [framing, framingHeaders, kCT, kMp]

private theorem textOk_iff (s : Bytes) (h : textOk s = true) :
    Utf8R.valid s = true ∧ (13 : UInt8) ∉ s ∧ (10 : UInt8) ∉ s := by
  simp only [textOk, Bool.and_eq_true, Bool.not_eq_eq_eq_not, Bool.not_true, List.contains_eq_mem,
    decide_eq_false_iff_not] at h
  exact ⟨h.1.1, h.1.2, h.2⟩

set_option maxRecDepth 100000 in
/-- every registered status line, in each of the four versions, is cut off as one line,
    is UTF-8, is not blank and parses to the same triple (kernel evaluation over the whole
    regenerated table) -/
private theorem statusLine_table : ∀ v ∈ Gen.respVersionList, ∀ row ∈ Gen.statusTable,
    (10 : UInt8) ∉ (v ++ [32] ++ intToDec row.1 ++ [32] ++ row.2 ++ [13]) ∧
    Utf8R.valid (v ++ [32] ++ intToDec row.1 ++ [32] ++ row.2 ++ [13, 10]) = true ∧
    Utf8R.allWs (v ++ [32] ++ intToDec row.1 ++ [32] ++ row.2 ++ [13, 10]) = false ∧
    parseStatusLine (v ++ [32] ++ intToDec row.1 ++ [32] ++ row.2 ++ [13, 10]) = .ok (v, row.1, row.2) := by
  decide +kernel

private theorem parseLoop_first (total fuel : Nat) (r : Response) (rest : Bytes) (resp0 : Response)
    (hv : r.version ∈ Gen.respVersionList) (hs : (r.status, r.reason) ∈ Gen.statusTable) :
    parseLoop total (fuel + 1) (statusLine r ++ [13, 10] ++ rest) true resp0 0
      = parseLoop total fuel rest false { resp0 with version := r.version, status := r.status, reason := r.reason }
          ((statusLine r).length + 2) := by
  obtain ⟨h10, hval, hws, hps⟩ := statusLine_table r.version hv (r.status, r.reason) hs
  have e : statusLine r ++ [13, 10] ++ rest = (statusLine r ++ [13]) ++ 10 :: rest := by simp
  have e2 : statusLine r ++ [13] ++ [10] = statusLine r ++ [13, 10] := by simp
  rw [parseLoop, e, readLine_line _ _ (by simpa [statusLine] using h10)]
  simp only [e2]
  have hval' : Utf8R.valid (statusLine r ++ [13, 10]) = true := by simpa [statusLine] using hval
  have hws' : Utf8R.allWs (statusLine r ++ [13, 10]) = false := by simpa [statusLine] using hws
  have hps' : parseStatusLine (statusLine r ++ [13, 10]) = .ok (r.version, r.status, r.reason) := by
    simpa [statusLine] using hps
  simp [hval', hws', hps']

private theorem hdrOk_lineOk (h : Header) (ok : hdrOk h = true) : LineOk h := by
  simp only [hdrOk, Bool.and_eq_true, Bool.not_eq_eq_eq_not, Bool.not_true, List.contains_eq_mem,
    decide_eq_false_iff_not, bne_iff_ne, ne_eq] at ok
  obtain ⟨⟨⟨⟨⟨hn, hv⟩, h58⟩, _⟩, _⟩, hcl⟩ := ok
  have tn := textOk_iff _ hn
  have tv := textOk_iff _ hv
  exact ⟨tn.1, tv.1, tn.2.2, h58, tv.2.1, tv.2.2, fun e => absurd (kCL ▸ e) hcl⟩

private theorem hdrOk_names (h : Header) (ok : hdrOk h = true) :
    h.name ≠ Gen.respContentType ∧ h.name ≠ Gen.respContentRange := by
  simp only [hdrOk, Bool.and_eq_true, bne_iff_ne, ne_eq] at ok
  exact ⟨kCT ▸ ok.1.1.2, kCR ▸ ok.1.2⟩

private theorem headersBytes_length (hs : List Header) : hs.length ≤ (headersBytes hs).length := by
  induction hs with
  | nil => simp [headersBytes]
  | cons h t ih =>
    simp only [headersBytes, List.flatMap_cons, List.length_append, List.length_cons] at ih ⊢
    have : 1 ≤ (headerLine h).length := by simp [headerLine]; omega
    omega

private theorem getHeader_skip (hs fr : List Header) (name : Bytes) (h : ∀ x ∈ hs, x.name ≠ name) :
    getHeader (hs ++ fr) name = getHeader fr name := by
  unfold getHeader
  rw [List.find?_append]
  have : List.find? (fun h => h.name == name) hs = none := by
    rw [List.find?_eq_none]; intro x hx; simpa using h x hx
  simp [this]

/-- the facts `rangeOk` packs -/
private theorem rangeOk_elim (c : ContentRange) (h : rangeOk c = true) :
    c.unit = Gen.respBytesUnit ∧ c.body.length < 18446744073709551616 ∧
    ∃ n, c.size = natToDec n ∧ c.range.start ≤ c.range.stop ∧ c.range.stop ≤ n ∧ n < 9223372036854775808 := by
  simp only [rangeOk, Bool.and_eq_true, beq_iff_eq, decide_eq_true_eq] at h
  obtain ⟨⟨hu, hb⟩, hm⟩ := h
  refine ⟨kBytes ▸ hu, hb, ?_⟩
  cases hp : parseNat? c.size with
  | none => simp [hp] at hm
  | some n =>
    simp only [hp, Bool.and_eq_true, beq_iff_eq, decide_eq_true_eq] at hm
    exact ⟨n, hm.1.1.1, hm.1.1.2, hm.1.2, hm.2⟩

private theorem contentRangeValue_eq (c : ContentRange) (n : Nat) (h : c.size = natToDec n) :
    contentRangeValue c = crText c.range.start c.range.stop n := by
  simp [contentRangeValue, crText, Gen.respBytesUnit, h]

private theorem parseUsize_natToDec (n : Nat) (h : n < 18446744073709551616) : parseUsize? (natToDec n) = some n := by
  unfold parseUsize?; rw [parseNat_natToDec]; simp [h]

/-- the body block of the parser on a single part: content type and range are read from the
    framing headers, the body is everything that is left -/
private theorem finishBody_single (total br : Nat) (resp : Response) (hs : List Header) (c : ContentRange)
    (hcaller : ∀ h ∈ hs, h.name ≠ Gen.respContentType ∧ h.name ≠ Gen.respContentRange)
    (hresp : resp.headers = hs ++ framingHeaders [c]) (hr : rangeOk c = true)
    (hmp : isMultipartCT c.contentType = false) :
    finishBody total c.body resp br = .ok { resp with parts := [c] } := by
  obtain ⟨hu, _, n, hsz, h1, h2, h3⟩ := rangeOk_elim c hr
  unfold finishBody
  rw [hresp, getHeader_skip hs _ _ (fun x hx => (hcaller x hx).1),
    getHeader_skip hs _ _ (fun x hx => (hcaller x hx).2)]
  have g1 : getHeader (framingHeaders [c]) Gen.respContentType = some ⟨Gen.respContentType, c.contentType⟩ := by
    simp [getHeader, framingHeaders]
  have g2 : getHeader (framingHeaders [c]) Gen.respContentRange = some ⟨Gen.respContentRange, contentRangeValue c⟩ := by
    have : (Gen.respContentType == Gen.respContentRange) = false := by decide
    simp [getHeader, framingHeaders, this]
  simp only [g1, g2, hmp, Bool.false_eq_true, ↓reduceIte, contentRangeValue_eq c n hsz,
    parseContentRangeValue_crText _ _ n h3 h1 h2, Int.toNat_natCast, intToDec_nat]
  congr 2
  cases c with
  | mk unit range size body ct =>
    cases range with
    | mk s e => simp_all

end helpers

/-! ## round trip, one part -/

/-- **C15 (a)** — a response with one part, of any registered status, with any list of
    caller headers and any body bytes, written by `Response::generate_response` for a
    request that wants a body, is read back by `Response::parse` as the same value plus
    the three framing headers. -/
theorem C15_roundtrip_single (r : Response) (q : Request) (c : ContentRange)
    (hw : wfResp r = true) (hp : r.parts = [c]) (hq : wantsBody q = true) :
    parse (generateResponse r q) = .ok (normalise r) := by
  simp only [wfResp, hp, Bool.and_eq_true, List.contains_eq_mem, decide_eq_true_eq, List.all_eq_true] at hw
  obtain ⟨⟨⟨hv, hst⟩, hh⟩, hc⟩ := hw
  simp only [singleOk, Bool.and_eq_true, Bool.not_eq_eq_eq_not, Bool.not_true] at hc
  obtain ⟨⟨hr, hct⟩, hnm⟩ := hc
  have tct := textOk_iff _ hct
  obtain ⟨hu, hblen, n, hsz, h1, h2, h3⟩ := rangeOk_elim c hr
  -- what was written
  have hm : (q.method == Gen.respMethodHead || q.method == Gen.respMethodOptions) = false := by
    simp only [wantsBody, Bool.and_eq_true, bne_iff_ne, ne_eq, kHead, kOptions] at hq
    simp [hq.1, hq.2]
  have hgen : generateResponse r q
      = statusLine r ++ [13, 10] ++ (headersBytes (r.headers ++ framingHeaders [c]) ++ ([13, 10] ++ c.body)) := by
    simp [generateResponse, hm, headBytes, hp, generateBody]
  -- the framing headers are header lines the parser reads back
  have hfr : ∀ h ∈ r.headers ++ framingHeaders [c], LineOk h := by
    intro h hx
    rcases List.mem_append.mp hx with h' | h'
    · exact hdrOk_lineOk h (hh h h')
    · simp only [framingHeaders, List.mem_cons, List.not_mem_nil, or_false] at h'
      have fCT : Utf8R.valid Gen.respContentType = true ∧ (10 : UInt8) ∉ Gen.respContentType ∧ (58 : UInt8) ∉ Gen.respContentType ∧
          Gen.respContentType ≠ Gen.respContentLength := by decide
      have fCR : Utf8R.valid Gen.respContentRange = true ∧ (10 : UInt8) ∉ Gen.respContentRange ∧ (58 : UInt8) ∉ Gen.respContentRange ∧
          Gen.respContentRange ≠ Gen.respContentLength := by decide
      have fCL : Utf8R.valid Gen.respContentLength = true ∧ (10 : UInt8) ∉ Gen.respContentLength ∧ (58 : UInt8) ∉ Gen.respContentLength := by decide
      rcases h' with rfl | rfl | rfl
      · exact ⟨fCT.1, tct.1, fCT.2.1, fCT.2.2.1, tct.2.1, tct.2.2, fun e => absurd e fCT.2.2.2⟩
      · have hlb := crText_lineByte c.range.start c.range.stop n
        rw [contentRangeValue_eq c n hsz]
        exact ⟨fCR.1, valid_of_ascii _ hlb, fCR.2.1, fCR.2.2.1, lineByte_not_mem _ hlb 13 (by decide),
          lineByte_not_mem _ hlb 10 (by decide), fun e => absurd e fCR.2.2.2⟩
      · have hlb := natToDec_lineByte c.body.length
        exact ⟨fCL.1, valid_of_ascii _ hlb, fCL.2.1, fCL.2.2, lineByte_not_mem _ hlb 13 (by decide),
          lineByte_not_mem _ hlb 10 (by decide), fun _ => by
            show (parseUsize? (natToDec c.body.length)).isSome = true
            rw [parseUsize_natToDec _ hblen]; rfl⟩
  -- run the parser
  unfold parse
  rw [hgen]
  generalize hT : (statusLine r ++ [13, 10] ++ (headersBytes (r.headers ++ framingHeaders [c]) ++ ([13, 10] ++ c.body))).length = total
  have hlen : total = (statusLine r).length + 2 + (headersBytes (r.headers ++ framingHeaders [c])).length + 2 + c.body.length := by
    rw [← hT]; simp; omega
  have hhl := headersBytes_length (r.headers ++ framingHeaders [c])
  obtain ⟨k, hk⟩ : ∃ k, total = (k + 1) + (r.headers ++ framingHeaders [c]).length := ⟨total - 1 - (r.headers ++ framingHeaders [c]).length, by omega⟩
  rw [parseLoop_first total total r _ _ hv hst]
  conv => lhs; arg 2; rw [hk]
  rw [parseLoop_headers total _ hfr, parseLoop_blank]
  rw [finishBody_single total _ _ r.headers c (fun h hx => hdrOk_names h (hh h hx)) (by simp) hr
    (by simpa [isMultipartCT, kMpPre] using hnm)]
  simp [normalise, hp, framing_eq]

/-! ## round trip, several parts -/

section helpers2

private theorem lines_ne_nil (c : UInt8) (cs : Bytes) : lines (c :: cs) ≠ [] := by
  unfold lines
  split
  · simp
  · split <;> simp

private theorem lines_flatten (s : Bytes) : (lines s).flatten = s := by
  induction s with
  | nil => simp [lines]
  | cons c cs ih =>
    unfold lines
    split
    · rename_i h; simp [ih, h]
    · split
      · rename_i h; rw [h] at ih; simp at ih; simp [← ih]
      · rename_i l ls h; rw [h] at ih; simp at ih; simp [← ih]

private theorem lines_complete (s : Bytes) :
    ∀ l ∈ lines (s ++ [10]), ∃ pre, l = pre ++ [10] ∧ (10 : UInt8) ∉ pre := by
  induction s with
  | nil => intro l hl; simp [lines] at hl; exact ⟨[], by simp [hl]⟩
  | cons c cs ih =>
    intro l hl
    simp only [List.cons_append] at hl
    unfold lines at hl
    split at hl
    · rename_i hc
      simp only [List.mem_cons] at hl
      rcases hl with rfl | hl
      · exact ⟨[], by simp [hc]⟩
      · exact ih l hl
    · rename_i hc
      split at hl
      · rename_i h
        have : cs ++ [10] ≠ [] := by simp
        cases hcs : cs ++ [10] with
        | nil => exact absurd hcs this
        | cons x xs => rw [hcs] at h; exact absurd h (lines_ne_nil x xs)
      · rename_i l0 ls h
        simp only [List.mem_cons] at hl
        rcases hl with rfl | hl
        · obtain ⟨pre, hp, hn⟩ := ih l0 (by rw [h]; simp)
          exact ⟨c :: pre, by simp [hp], by simp [hn, Ne.symm hc]⟩
        · exact ih l (by rw [h]; simp [hl])

private theorem partOk_elim (c : ContentRange) (h : partOk c = true) :
    ∃ ls n, PartOk c ls n := by
  simp only [partOk, Bool.and_eq_true, Bool.not_eq_eq_eq_not, Bool.not_true, beq_iff_eq, kSep] at h
  obtain ⟨⟨⟨⟨⟨hr, hct⟩, hne⟩, htrim⟩, hsep⟩, hbody⟩ := h
  obtain ⟨hu, _, n, hsz, h1, h2, h3⟩ := rangeOk_elim c hr
  have tct := textOk_iff _ hct
  refine ⟨lines (c.body ++ [13, 10]), n, ⟨hu, hsz, h1, h2, h3, tct.1, tct.2.1, tct.2.2, ?_, htrim, hsep, lines_flatten _, ?_, ?_⟩⟩
  · intro e; rw [e] at hne; simp at hne
  · have : c.body ++ [13, 10] = (c.body ++ [13]) ++ [10] := by simp
    rw [this]; exact lines_complete _
  · intro l hl
    simp only [bodyOk, List.all_eq_true, kSep] at hbody
    have := hbody l hl
    intro ⟨a, b⟩
    simp [a, b, sepB] at this

private theorem finishBody_multi (total br : Nat) (resp : Response) (hs : List Header) (cs : List ContentRange)
    (hcaller : ∀ h ∈ hs, h.name ≠ Gen.respContentType)
    (hresp : resp.headers = hs ++ [⟨Gen.respContentType, multipartContentType⟩])
    (hne : cs ≠ []) (hok : ∀ c ∈ cs, ∃ ls n, PartOk c ls n)
    (hbr : br + (dashLine ++ [13, 10] ++ tailStream cs).length ≤ total) :
    finishBody total (dashLine ++ [13, 10] ++ tailStream cs) resp br = .ok { resp with parts := cs } := by
  unfold finishBody
  rw [hresp, getHeader_skip hs _ _ hcaller]
  have g1 : getHeader [⟨Gen.respContentType, multipartContentType⟩] Gen.respContentType
      = some ⟨Gen.respContentType, multipartContentType⟩ := by simp [getHeader]
  have m1 : isMultipartCT multipartContentType = true := by decide
  have m2 : extractBoundary multipartContentType = some sepB := by decide
  simp only [g1, m1, m2, ↓reduceIte]
  rw [pm_body total cs hne br _ hok (Nat.le_refl _) hbr]

end helpers2

/-- **C15 (b)** — a response with two or more parts (any number: induction over the part
    list), each with arbitrary body bytes that do not contain the boundary line, written as
    multipart/byteranges by `Response::generate_response`, is read back by `Response::parse`
    as the same value — same status, reason, caller headers, and for every part the same
    content type, range, size and body bytes — plus the multipart Content-Type header. -/
theorem C15_roundtrip_multi (r : Response) (q : Request) (c c' : ContentRange) (cs : List ContentRange)
    (hw : wfResp r = true) (hp : r.parts = c :: c' :: cs) (hq : wantsBody q = true) :
    parse (generateResponse r q) = .ok (normalise r) := by
  simp only [wfResp, hp, Bool.and_eq_true, List.contains_eq_mem, decide_eq_true_eq] at hw
  obtain ⟨⟨⟨hv, hst⟩, hh⟩, hc⟩ := hw
  rw [List.all_eq_true] at hh hc
  have hparts : ∀ x ∈ c :: c' :: cs, ∃ ls n, PartOk x ls n := fun x hx => partOk_elim x (hc x hx)
  have hm : (q.method == Gen.respMethodHead || q.method == Gen.respMethodOptions) = false := by
    simp only [wantsBody, Bool.and_eq_true, bne_iff_ne, ne_eq, kHead, kOptions] at hq
    simp [hq.1, hq.2]
  have hgen : generateResponse r q
      = statusLine r ++ [13, 10] ++ (headersBytes (r.headers ++ framingHeaders (c :: c' :: cs)) ++
          ([13, 10] ++ (dashLine ++ [13, 10] ++ tailStream (c :: c' :: cs)))) := by
    simp only [generateResponse, hm, headBytes, hp, generateBody_multi]
    simp
  have hfr : ∀ h ∈ r.headers ++ framingHeaders (c :: c' :: cs), LineOk h := by
    intro h hx
    rcases List.mem_append.mp hx with h' | h'
    · exact hdrOk_lineOk h (hh h h')
    · simp only [framingHeaders, List.mem_cons, List.not_mem_nil, or_false] at h'
      subst h'
      have f : Utf8R.valid Gen.respContentType = true ∧ (10 : UInt8) ∉ Gen.respContentType ∧ (58 : UInt8) ∉ Gen.respContentType ∧
          Gen.respContentType ≠ Gen.respContentLength ∧ Utf8R.valid multipartContentType = true ∧
          (13 : UInt8) ∉ multipartContentType ∧ (10 : UInt8) ∉ multipartContentType := by decide
      exact ⟨f.1, f.2.2.2.2.1, f.2.1, f.2.2.1, f.2.2.2.2.2.1, f.2.2.2.2.2.2, fun e => absurd e f.2.2.2.1⟩
  unfold parse
  rw [hgen]
  generalize hT : (statusLine r ++ [13, 10] ++ (headersBytes (r.headers ++ framingHeaders (c :: c' :: cs)) ++
      ([13, 10] ++ (dashLine ++ [13, 10] ++ tailStream (c :: c' :: cs))))).length = total
  have hlen : total = (statusLine r).length + 2 + (headersBytes (r.headers ++ framingHeaders (c :: c' :: cs))).length + 2
      + (dashLine ++ [13, 10] ++ tailStream (c :: c' :: cs)).length := by
    rw [← hT]; simp only [List.length_append, List.length_cons, List.length_nil]; omega
  have hhl := headersBytes_length (r.headers ++ framingHeaders (c :: c' :: cs))
  obtain ⟨k, hk⟩ : ∃ k, total = (k + 1) + (r.headers ++ framingHeaders (c :: c' :: cs)).length :=
    ⟨total - 1 - (r.headers ++ framingHeaders (c :: c' :: cs)).length, by omega⟩
  rw [parseLoop_first total total r _ _ hv hst]
  conv => lhs; arg 2; rw [hk]
  rw [parseLoop_headers total _ hfr, parseLoop_blank]
  rw [finishBody_multi total _ _ r.headers (c :: c' :: cs) (fun h hx => (hdrOk_names h (hh h hx)).1)
    (by simp [framingHeaders]) (by simp) hparts (by omega)]
  simp [normalise, hp, framing_eq]

/-- **C15 (a+b)** — the round trip for every response of the claimed class, one part or many. -/
theorem C15_roundtrip (r : Response) (q : Request) (hw : wfResp r = true) (hq : wantsBody q = true) :
    parse (generateResponse r q) = .ok (normalise r) := by
  match hp : r.parts with
  | [] => simp [wfResp, hp] at hw
  | [c] => exact C15_roundtrip_single r q c hw hp hq
  | c :: c' :: cs => exact C15_roundtrip_multi r q c c' cs hw hp hq

/-! ## the two serialisers (F18, open finding)

The statement wanted is

    theorem C15_serialisers_agree (r : Response) (q : Request) (hq : wantsBody q = true) :
        generate r = (generateResponse r q, r)

It is FALSE on the current tree for every response with exactly one part:
`Response::generate()` pushes the Content-Type header onto `self` instead of the copy it
serialises, so its bytes lack the header and `self` is changed (the one-identifier repair
breaks the repository's test `response::example::build`, which pins the bytes without
Content-Type).  Below: the kernel-checked witness, the part that does hold (several parts),
and what the round trip through `generate()` gives for one part. -/

def exGet : Request := ⟨ascii "GET", ascii "/", ascii "HTTP/1.1", [], []⟩

/-- `206 Partial Content`, one part `bytes 2-5/10` of `text/plain` -/
def exSingle : Response :=
  ⟨ascii "HTTP/1.1", 206, ascii "Partial Content", [⟨ascii "Host", ascii "localhost"⟩],
   [⟨ascii "bytes", ⟨2, 5⟩, ascii "10", [99, 100, 101, 102], ascii "text/plain"⟩]⟩

/-- two parts with binary bodies: NUL, 0xFF, CR LF inside, trailing CR LF, dashes, an empty body -/
def exMulti : Response :=
  ⟨ascii "HTTP/1.1", 206, ascii "Partial Content", [⟨ascii "Host", ascii "localhost"⟩, ⟨ascii "X-Empty", []⟩],
   [⟨ascii "bytes", ⟨0, 7⟩, ascii "100", [0, 255, 13, 10, 45, 45, 13, 10], ascii "application/octet-stream"⟩,
    ⟨ascii "bytes", ⟨8, 8⟩, ascii "100", [], ascii "text/html"⟩,
    ⟨ascii "bytes", ⟨9, 30⟩, ascii "100", ascii "--String_separato" ++ [10, 255] ++ ascii "String_separator", ascii "x"⟩]⟩

theorem C15_serialisers_agree_violated :
    wfResp exSingle = true ∧ wantsBody exGet = true ∧
    (generate exSingle).1 ≠ generateResponse exSingle exGet ∧ (generate exSingle).2 ≠ exSingle ∧
    parse (generate exSingle).1 = .ok { exSingle with
      headers := [⟨ascii "Host", ascii "localhost"⟩, ⟨ascii "Content-Range", ascii "bytes 2-5/10"⟩, ⟨ascii "Content-Length", ascii "4"⟩],
      parts := [⟨ascii "bytes", ⟨2, 5⟩, ascii "10", [99, 100, 101, 102], ascii "application/octet-stream"⟩] } := by
  decide +kernel

/-- with two or more parts the instance serialiser writes what the associated one writes and leaves `self` alone -/
theorem C15_serialisers_agree_partial (r : Response) (q : Request) (c c' : ContentRange) (cs : List ContentRange)
    (hp : r.parts = c :: c' :: cs) (hq : wantsBody q = true) : generate r = (generateResponse r q, r) := by
  have hm : (q.method == Gen.respMethodHead || q.method == Gen.respMethodOptions) = false := by
    simp only [wantsBody, Bool.and_eq_true, bne_iff_ne, ne_eq, kHead, kOptions] at hq
    simp [hq.1, hq.2]
  simp [generate, generateResponse, hp, hm]

section helpers3

private theorem lineOk_cr (c : ContentRange) (hr : rangeOk c = true) : LineOk ⟨Gen.respContentRange, contentRangeValue c⟩ := by
  obtain ⟨_, _, n, hsz, _, _, _⟩ := rangeOk_elim c hr
  have fCR : Utf8R.valid Gen.respContentRange = true ∧ (10 : UInt8) ∉ Gen.respContentRange ∧ (58 : UInt8) ∉ Gen.respContentRange ∧
      Gen.respContentRange ≠ Gen.respContentLength := by decide
  have hlb := crText_lineByte c.range.start c.range.stop n
  rw [contentRangeValue_eq c n hsz]
  exact ⟨fCR.1, valid_of_ascii _ hlb, fCR.2.1, fCR.2.2.1, lineByte_not_mem _ hlb 13 (by decide),
    lineByte_not_mem _ hlb 10 (by decide), fun e => absurd e fCR.2.2.2⟩

private theorem lineOk_cl (c : ContentRange) (hr : rangeOk c = true) : LineOk ⟨Gen.respContentLength, natToDec c.body.length⟩ := by
  obtain ⟨_, hblen, _⟩ := rangeOk_elim c hr
  have fCL : Utf8R.valid Gen.respContentLength = true ∧ (10 : UInt8) ∉ Gen.respContentLength ∧ (58 : UInt8) ∉ Gen.respContentLength := by decide
  have hlb := natToDec_lineByte c.body.length
  exact ⟨fCL.1, valid_of_ascii _ hlb, fCL.2.1, fCL.2.2, lineByte_not_mem _ hlb 13 (by decide),
    lineByte_not_mem _ hlb 10 (by decide), fun _ => by
      show (parseUsize? (natToDec c.body.length)).isSome = true
      rw [parseUsize_natToDec _ hblen]; rfl⟩

private theorem finishBody_single_noCT (total br : Nat) (resp : Response) (hs : List Header) (c : ContentRange)
    (hcaller : ∀ h ∈ hs, h.name ≠ Gen.respContentType ∧ h.name ≠ Gen.respContentRange)
    (hresp : resp.headers = hs ++ [⟨Gen.respContentRange, contentRangeValue c⟩, ⟨Gen.respContentLength, natToDec c.body.length⟩])
    (hr : rangeOk c = true) :
    finishBody total c.body resp br = .ok { resp with parts := [{ c with contentType := Gen.respOctetStream }] } := by
  obtain ⟨hu, _, n, hsz, h1, h2, h3⟩ := rangeOk_elim c hr
  unfold finishBody
  rw [hresp, getHeader_skip hs _ _ (fun x hx => (hcaller x hx).1),
    getHeader_skip hs _ _ (fun x hx => (hcaller x hx).2)]
  have e1 : (Gen.respContentRange == Gen.respContentType) = false := by decide
  have e2 : (Gen.respContentLength == Gen.respContentType) = false := by decide
  have g1 : getHeader [⟨Gen.respContentRange, contentRangeValue c⟩, ⟨Gen.respContentLength, natToDec c.body.length⟩] Gen.respContentType = none := by
    simp [getHeader, e1, e2]
  have g2 : getHeader [⟨Gen.respContentRange, contentRangeValue c⟩, ⟨Gen.respContentLength, natToDec c.body.length⟩] Gen.respContentRange
      = some ⟨Gen.respContentRange, contentRangeValue c⟩ := by simp [getHeader]
  have hcc : (⟨Gen.respBytesUnit, ⟨c.range.start, c.range.stop⟩, natToDec n, c.body, Gen.respOctetStream⟩ : ContentRange)
      = { c with contentType := Gen.respOctetStream } := by
    cases c with
    | mk unit range size body ct =>
      cases range with
      | mk s e =>
        simp only at hu hsz
        simp [hu, hsz]
  simp only [g1, g2]
  simp only [contentRangeValue_eq c n hsz,
    parseContentRangeValue_crText _ _ n h3 h1 h2, Int.toNat_natCast, intToDec_nat, hcc]

end helpers3

/-- **C15 (c), partial** — what holds for the instance serialiser with one part: the bytes of
    `Response::generate()` are read back with status, reason, caller headers, range, size and
    body intact, but WITHOUT the part's content type (it reads back as the default
    `application/octet-stream`) and without a Content-Type header.  The full statement
    (`normalise r`, as for `generate_response`) is false: `C15_serialisers_agree_violated`. -/
theorem C15_roundtrip_generate_partial (r : Response) (c : ContentRange)
    (hw : wfResp r = true) (hp : r.parts = [c]) :
    parse (generate r).1 = .ok { r with
      headers := r.headers ++ [⟨ascii "Content-Range", ascii "bytes " ++ natToDec c.range.start ++ ascii "-" ++ natToDec c.range.stop ++ ascii "/" ++ c.size⟩,
                               ⟨ascii "Content-Length", natToDec c.body.length⟩],
      parts := [{ c with contentType := ascii "application/octet-stream" }] } := by
  simp only [wfResp, hp, Bool.and_eq_true, List.contains_eq_mem, decide_eq_true_eq, List.all_eq_true] at hw
  obtain ⟨⟨⟨hv, hst⟩, hh⟩, hc⟩ := hw
  simp only [singleOk, Bool.and_eq_true] at hc
  obtain ⟨⟨hr, _⟩, _⟩ := hc
  let fr : List Header := [⟨Gen.respContentRange, contentRangeValue c⟩, ⟨Gen.respContentLength, natToDec c.body.length⟩]
  have hgen : (generate r).1 = statusLine r ++ [13, 10] ++ (headersBytes (r.headers ++ fr) ++ ([13, 10] ++ c.body)) := by
    simp [generate, hp, headBytes, generateBody, fr]
  have hfr : ∀ h ∈ r.headers ++ fr, LineOk h := by
    intro h hx
    rcases List.mem_append.mp hx with h' | h'
    · exact hdrOk_lineOk h (hh h h')
    · simp only [fr, List.mem_cons, List.not_mem_nil, or_false] at h'
      rcases h' with rfl | rfl
      · exact lineOk_cr c hr
      · exact lineOk_cl c hr
  unfold parse
  rw [hgen]
  generalize hT : (statusLine r ++ [13, 10] ++ (headersBytes (r.headers ++ fr) ++ ([13, 10] ++ c.body))).length = total
  have hlen : total = (statusLine r).length + 2 + (headersBytes (r.headers ++ fr)).length + 2 + c.body.length := by
    rw [← hT]; simp; omega
  have hhl := headersBytes_length (r.headers ++ fr)
  obtain ⟨k, hk⟩ : ∃ k, total = (k + 1) + (r.headers ++ fr).length := ⟨total - 1 - (r.headers ++ fr).length, by omega⟩
  rw [parseLoop_first total total r _ _ hv hst]
  conv => lhs; arg 2; rw [hk]
  rw [parseLoop_headers total _ hfr, parseLoop_blank]
  rw [finishBody_single_noCT total _ _ r.headers c (fun h hx => hdrOk_names h (hh h hx)) (by simp [fr]) hr]
  have kOct : ascii "application/octet-stream" = Gen.respOctetStream := by decide +kernel
  simp [hp, kCR, kCL, kBytesSp, kDash, kSlash, kOct, fr, contentRangeValue, Gen.respBytesUnit]

/-! ## rejection -/

/-- a field of the status line: no CR, no LF -/
def cleanField (s : Bytes) : Bool := !s.contains 13 && !s.contains 10
/-- version and status code are also free of blanks (they are what the blanks separate) -/
def token (s : Bytes) : Bool := cleanField s && !s.contains 32

section helpers4

private theorem cleanField_elim (s : Bytes) (h : cleanField s = true) : (13 : UInt8) ∉ s ∧ (10 : UInt8) ∉ s := by
  simpa [cleanField] using h

private theorem token_elim (s : Bytes) (h : token s = true) : ((13 : UInt8) ∉ s ∧ (10 : UInt8) ∉ s) ∧ (32 : UInt8) ∉ s := by
  simp only [token, Bool.and_eq_true, Bool.not_eq_eq_eq_not, Bool.not_true, List.contains_eq_mem, decide_eq_false_iff_not] at h
  exact ⟨cleanField_elim s h.1, h.2⟩

set_option maxRecDepth 100000 in
/-- the decimal text of every registered code is a token that reads back as the code, and
    no two rows of the table share a code -/
private theorem codes_table : ∀ row ∈ Gen.statusTable,
    parseI16? (intToDec row.1) = some row.1 ∧ token (intToDec row.1) = true ∧
    ∀ row' ∈ Gen.statusTable, row'.1 = row.1 → row' = row := by
  decide +kernel

/-- a multipart head as the library writes it, followed by a body the multipart reader
    rejects, is rejected by `Response::parse` -/
private theorem parse_multipart_err (r : Response) (q : Request) (c c' : ContentRange) (cs : List ContentRange)
    (hw : wfResp r = true) (hp : r.parts = c :: c' :: cs) (hq : q.method = ascii "HEAD") (body : Bytes)
    (herr : ∀ total br, parseMultipartBodyWithBoundary sepB total (body.length + 1) body [] br false = .err) :
    parse (generateResponse r q ++ body) = .err := by
  simp only [wfResp, hp, Bool.and_eq_true, List.contains_eq_mem, decide_eq_true_eq] at hw
  obtain ⟨⟨⟨hv, hst⟩, hh⟩, _⟩ := hw
  rw [List.all_eq_true] at hh
  have hm : (q.method == Gen.respMethodHead || q.method == Gen.respMethodOptions) = true := by
    simp [hq, kHead]
  have hgen : generateResponse r q ++ body
      = statusLine r ++ [13, 10] ++ (headersBytes (r.headers ++ framingHeaders (c :: c' :: cs)) ++ ([13, 10] ++ body)) := by
    simp [generateResponse, hm, headBytes, hp]
  have hfr : ∀ h ∈ r.headers ++ framingHeaders (c :: c' :: cs), LineOk h := by
    intro h hx
    rcases List.mem_append.mp hx with h' | h'
    · exact hdrOk_lineOk h (hh h h')
    · simp only [framingHeaders, List.mem_cons, List.not_mem_nil, or_false] at h'
      subst h'
      have f : Utf8R.valid Gen.respContentType = true ∧ (10 : UInt8) ∉ Gen.respContentType ∧ (58 : UInt8) ∉ Gen.respContentType ∧
          Gen.respContentType ≠ Gen.respContentLength ∧ Utf8R.valid multipartContentType = true ∧
          (13 : UInt8) ∉ multipartContentType ∧ (10 : UInt8) ∉ multipartContentType := by decide
      exact ⟨f.1, f.2.2.2.2.1, f.2.1, f.2.2.1, f.2.2.2.2.2.1, f.2.2.2.2.2.2, fun e => absurd e f.2.2.2.1⟩
  unfold parse
  rw [hgen]
  generalize hT : (statusLine r ++ [13, 10] ++ (headersBytes (r.headers ++ framingHeaders (c :: c' :: cs)) ++ ([13, 10] ++ body))).length = total
  have hlen : total = (statusLine r).length + 2 + (headersBytes (r.headers ++ framingHeaders (c :: c' :: cs))).length + 2 + body.length := by
    rw [← hT]; simp only [List.length_append, List.length_cons, List.length_nil]; omega
  have hhl := headersBytes_length (r.headers ++ framingHeaders (c :: c' :: cs))
  obtain ⟨k, hk⟩ : ∃ k, total = (k + 1) + (r.headers ++ framingHeaders (c :: c' :: cs)).length :=
    ⟨total - 1 - (r.headers ++ framingHeaders (c :: c' :: cs)).length, by omega⟩
  rw [parseLoop_first total total r _ _ hv hst]
  conv => lhs; arg 2; rw [hk]
  rw [parseLoop_headers total _ hfr, parseLoop_blank]
  unfold finishBody
  simp only [List.nil_append, framingHeaders]
  rw [getHeader_skip r.headers _ _ (fun h hx => (hdrOk_names h (hh h hx)).1)]
  have g1 : getHeader [⟨Gen.respContentType, multipartContentType⟩] Gen.respContentType
      = some ⟨Gen.respContentType, multipartContentType⟩ := by simp [getHeader]
  have m1 : isMultipartCT multipartContentType = true := by decide
  have m2 : extractBoundary multipartContentType = some sepB := by decide
  simp only [g1, m1, m2, ↓reduceIte, herr]

private theorem partHeaderLines_eq (c : ContentRange) :
    ascii "Content-Type:  " ++ c.contentType ++ [13, 10] ++ ascii "Content-Range:  bytes " ++ natToDec c.range.start ++
      ascii "-" ++ natToDec c.range.stop ++ ascii "/" ++ c.size ++ [13, 10]
    = headerLine (ctHeader c) ++ headerLine (crHeader c) := by
  have a1 : ascii "Content-Type:  " = Gen.respContentType ++ [58, 32, 32] := by decide +kernel
  have a2 : ascii "Content-Range:  bytes " = Gen.respContentRange ++ [58, 32, 32] ++ Gen.respBytesUnit ++ [32] := by decide +kernel
  simp [a1, a2, kDash, kSlash, headerLine, ctHeader, crHeader, contentRangeValue, Gen.respNameValueSeparator]

end helpers4

/-- **C15 (d)** — unknown status: response bytes whose status line `version SP code SP reason`
    carries a code that is not in the registered table (whatever else follows) are reported
    as an error. -/
theorem C15_reject_status (v code reason rest : Bytes)
    (hv : token v = true) (hc : token code = true) (hr : cleanField reason = true)
    (hun : ∀ n, parseI16? code = some n → ∀ row ∈ Gen.statusTable, row.1 ≠ n) :
    parse (v ++ [32] ++ code ++ [32] ++ reason ++ [13, 10] ++ rest) = .err := by
  have tv := token_elim v hv
  have tc := token_elim code hc
  exact parse_status_reject v code reason rest tv.2 tc.2 tv.1 tc.1 (cleanField_elim _ hr)
    (fun n hn row hrow e => absurd e (hun n hn row hrow))

/-- **C15 (e)** — mismatched reason phrase: a registered code followed by a phrase that is not
    the registered one, even ignoring case, is reported as an error. -/
theorem C15_reject_reason (v reason rest : Bytes) (row : Int × Bytes) (hrow : row ∈ Gen.statusTable)
    (hv : token v = true) (hr : cleanField reason = true)
    (hne : Utf8R.upperCmp row.2 ≠ Utf8R.upperCmp reason) :
    parse (v ++ [32] ++ intToDec row.1 ++ [32] ++ reason ++ [13, 10] ++ rest) = .err := by
  obtain ⟨hparse, htok, huniq⟩ := codes_table row hrow
  have tv := token_elim v hv
  have tc := token_elim _ htok
  refine parse_status_reject v _ reason rest tv.2 tc.2 tv.1 tc.1 (cleanField_elim _ hr) ?_
  intro n hn row' hrow' e
  rw [hparse] at hn
  injection hn with hn
  have : row' = row := huniq row' hrow' (by rw [e, hn])
  rw [this]; exact hne

/-- **C15 (f)** — missing opening boundary: the head of a multipart response exactly as the
    library writes it, followed by a body whose first line is not blank and does not contain
    the boundary, is reported as an error. -/
theorem C15_reject_multipart_opening (r : Response) (q : Request) (c c' : ContentRange) (cs : List ContentRange)
    (hw : wfResp r = true) (hp : r.parts = c :: c' :: cs) (hq : q.method = ascii "HEAD")
    (line rest : Bytes) (hline : readLine (line ++ rest) = (line, rest))
    (hnb : Utf8R.allWs line = false) (hns : containsSub line (ascii "String_separator") = false) :
    parse (generateResponse r q ++ (line ++ rest)) = .err := by
  apply parse_multipart_err r q c c' cs hw hp hq
  intro total br
  exact pm_reject_opening sepB total _ _ line rest [] br hline hnb (by rw [kSep] at hns; exact hns)

/-- **C15 (g)** — missing blank line after the part headers: opening boundary, the two header
    lines of a well-formed part, and then a line that is not blank: an error. -/
theorem C15_reject_multipart_blank (r : Response) (q : Request) (c c' : ContentRange) (cs : List ContentRange)
    (hw : wfResp r = true) (hp : r.parts = c :: c' :: cs) (hq : q.method = ascii "HEAD")
    (p : ContentRange) (hpok : partOk p = true)
    (x rest : Bytes) (hx : readLine (x ++ rest) = (x, rest)) (hxb : Utf8R.allWs x = false) :
    parse (generateResponse r q ++
      (ascii "--String_separator" ++ [13, 10] ++
       (ascii "Content-Type:  " ++ p.contentType ++ [13, 10] ++ ascii "Content-Range:  bytes " ++ natToDec p.range.start ++
          ascii "-" ++ natToDec p.range.stop ++ ascii "/" ++ p.size ++ [13, 10]) ++ (x ++ rest))) = .err := by
  obtain ⟨ls, n, ok⟩ := partOk_elim p hpok
  have kd : ascii "--String_separator" = dashLine := by decide +kernel
  rw [partHeaderLines_eq, kd]
  apply parse_multipart_err r q c c' cs hw hp hq
  intro total br
  have := pm_reject_blank total
    ((dashLine ++ [13, 10] ++ (headerLine (ctHeader p) ++ headerLine (crHeader p)) ++ (x ++ rest)).length) p ls n ok x rest [] br false hx hxb
  simpa [List.append_assoc] using this

/-! ## totality -/

/-- **C15 (h)** — `Response::parse` never panics, whatever the bytes (true since the repairs of
    F20 `Content-Length: x` and of the `Content-Range` part line without separator). -/
theorem C15_parse_total (bytes : Bytes) (site : String) : parse bytes ≠ .panic site :=
  parse_np bytes site

/-! ## non-vacuity: the hypotheses are met by concrete, non-trivial responses -/

example : wfResp exSingle = true := by decide +kernel
example : wfResp exMulti = true := by decide +kernel
example : wantsBody exGet = true := by decide +kernel
/-- the round trip, evaluated by the kernel on the three-part binary example -/
example : parse (generateResponse exMulti exGet) = .ok (normalise exMulti) := by decide +kernel
/-- a body with the boundary text in a UTF-8 line is outside the class … -/
example : bodyOk (ascii "xxString_separatorxx") = false := by decide +kernel
/-- … the same text in a line that is not UTF-8 is inside, and so are dashes and partial separators -/
example : bodyOk ([255] ++ ascii "String_separator") = true := by decide +kernel
example : bodyOk (ascii "--String_separato" ++ [13, 10] ++ ascii "r--") = true := by decide +kernel

/-- an unknown code, a wrong phrase, a body without opening boundary, a part without blank line -/
example : (∀ n, parseI16? (ascii "299") = some n → ∀ row ∈ Gen.statusTable, row.1 ≠ n) := by decide +kernel
example : ((404 : Int), ascii "Not Found") ∈ Gen.statusTable ∧ Utf8R.upperCmp (ascii "Not Found") ≠ Utf8R.upperCmp (ascii "Not Here") := by
  decide +kernel
example : parse (ascii "HTTP/1.1 299 OK" ++ [13, 10, 13, 10]) = .err := by decide +kernel
example : parse (ascii "HTTP/1.1 404 Not Here" ++ [13, 10, 13, 10]) = .err := by decide +kernel
example : parse (ascii "HTTP/1.1 404 not found" ++ [13, 10, 13, 10]) ≠ .err := by decide +kernel
example : parse (generateResponse exMulti ⟨ascii "HEAD", [], [], [], []⟩ ++ ascii "Content-Type: text/plain" ++ [13, 10]) = .err := by
  decide +kernel
/-- F20, repaired: was `panic response/mod.rs:856` -/
example : parse (ascii "HTTP/1.1 200 OK" ++ [13, 10] ++ ascii "Content-Length: x" ++ [13, 10, 13, 10]) = .err := by decide +kernel


/-! ### F74 — a part without its Content-Type or Content-Range line (repaired: an error; before, the part was dropped silently) -/

/-- inside the part reader: a Content-Type line that is not followed by a Content-Range line is an error, whatever follows -/
theorem C15_reject_part_without_content_range (boundary : Bytes) (total : Nat)
    (k : Bytes → List ContentRange → Nat → Outcome (List ContentRange))
    (pA pB pC : Bytes × Bytes) (ct : Bytes) (acc : List ContentRange) (br : Nat)
    (h1 : stageCT pA = .ok (ct, pB)) (h2 : stageCR pB = .ok (none, pC)) (hct : ct.isEmpty = false) :
    partStep boundary total k pA acc br = .err := by
  unfold partStep; rw [h1]; dsimp only; rw [h2]; simp [hct]

/-- … and a Content-Range line that no Content-Type line precedes is an error -/
theorem C15_reject_part_without_content_type (boundary : Bytes) (total : Nat)
    (k : Bytes → List ContentRange → Nat → Outcome (List ContentRange))
    (pA pB pC : Bytes × Bytes) (ct : Bytes) (st en : Nat) (size : Bytes) (acc : List ContentRange) (br : Nat)
    (h1 : stageCT pA = .ok (ct, pB)) (h2 : stageCR pB = .ok (some (st, en, size), pC)) (hct : ct.isEmpty = true) :
    partStep boundary total k pA acc br = .err := by
  unfold partStep; rw [h1]; dsimp only; rw [h2]; simp [hct]

/-- … and so is a line that belongs to no part: neither blank, nor a delimiter, nor one of the two part-header lines -/
theorem C15_reject_line_outside_parts (boundary : Bytes) (total : Nat)
    (k : Bytes → List ContentRange → Nat → Outcome (List ContentRange))
    (pA pB pC : Bytes × Bytes) (acc : List ContentRange) (br : Nat)
    (h1 : stageCT pA = .ok ([], pB)) (h2 : stageCR pB = .ok (none, pC))
    (hb : Utf8R.allWs pC.1 = false) (hd : containsSub pC.1 boundary = false) :
    partStep boundary total k pA acc br = .err := by
  unfold partStep; rw [h1]; dsimp only; rw [h2]; simp [hb, hd]

/-- the input of the finding: two parts, the first without its Content-Range line — `err` (was: `ok` with one part) -/
example : parse ("HTTP/1.1 206 Partial Content\r\nHost: x\r\nContent-Type: multipart/byteranges; boundary=String_separator\r\n\r\n--String_separator\r\nContent-Type: text/plain\r\n\r\nabc\r\n--String_separator\r\nContent-Type: image/png\r\nContent-Range: bytes 1-2/9\r\n\r\nxyz\r\n--String_separator".toUTF8.toList) = .err := by
  decide +kernel

end Rws.C15
