/-
  C12 — effective settings: command line over config file over environment over defaults.
  Property theorems only (helper lemmas: RwsProofs/Lemmas/Config.lean and the `private`
  lemmas below).  Model: Rws/Config.lean over the flag table / defaults / documented examples
  regenerated from the source tree (Rws/Gen/ConfigTab.lean, Rws/Gen/ConfigDoc.lean).
-/
import Rws.Config
import Rws.Gen.ConfigDoc
import RwsProofs.Lemmas.Config
namespace Rws.C12
open Rws Rws.Config Rws.Gen

/-! ## The specification, written independently of the model -/

/-- the value the word `a` gives to the setting of row `r`: `a` is `-<short>=<value>` or
    `--<long>=<value>` -/
def flagValue (r : FlagRow) (a : Bytes) : Option Bytes :=
  if ([45] ++ r.short ++ [61]).isPrefixOf a then some (a.drop (r.short.length + 2))
  else if ([45, 45] ++ r.long ++ [61]).isPrefixOf a then some (a.drop (r.long.length + 3))
  else none

/-- "last": of the words addressing `r`, the one that comes LAST in the list supplies the value
    (repeated flags / repeated keys: the last occurrence wins, as the code does it) -/
def lastFor (r : FlagRow) (words : List Bytes) : Option Bytes :=
  (words.filterMap (flagValue r)).getLast?

/-- the environment supplies a value when the variable is set to valid Unicode -/
def envValue (env : Env) (k : Bytes) : Option Bytes := (env.lookup k).filter validUtf8

/-- the default of a variable, from the regenerated `set_default_values` table -/
def defaultOf (k : Bytes) : Option Bytes := Gen.defaults.lookup k

/-- the `--key=value` words a config file stands for (none when absent or unreadable: not UTF-8,
    or — since the repair of F72 — a setting that holds a NUL byte) -/
def fileWords : Option Bytes → List Bytes
  | some content =>
    if validUtf8 content && !(configArgs content).any (fun a => a.contains 0) then configArgs content else []
  | none => []

/-- hypothesis of the start-up theorems about argv: no word holds a NUL byte (the operating
    system guarantees it for argv; the words of a config file never do: `fileWords_nulFree`) -/
def NulFree (words : List Bytes) : Prop := ∀ w ∈ words, (0 : UInt8) ∉ w
instance (ws : List Bytes) : Decidable (NulFree ws) := by unfold NulFree; infer_instance

/-! ## helper lemmas -/
section helpers

private theorem tab_distinct : Distinct Gen.flagTable := by decide +kernel
private theorem tab_varsInj : VarsInj Gen.flagTable := by decide +kernel
private theorem tab_noEq : ∀ r ∈ Gen.flagTable, (61 : UInt8) ∉ r.short ∧ (61 : UInt8) ∉ r.long := by
  decide +kernel
private theorem tab_noNul : ∀ r ∈ Gen.flagTable, (0 : UInt8) ∉ r.short ∧ (0 : UInt8) ∉ r.long := by
  decide +kernel
private theorem defaults_nodup : (Gen.defaults.map Prod.fst).Nodup := by decide +kernel
private theorem tab_has_default : ∀ r ∈ Gen.flagTable, (Gen.defaults.lookup r.var).isSome = true := by
  decide +kernel

/-- `x ++ "="` is a prefix of `p ++ "=" ++ v` exactly when `x = p` (neither holds `=`) -/
private theorem prefix_eq_iff {x p : Bytes} (v : Bytes) (hx : (61 : UInt8) ∉ x) (hp : (61 : UInt8) ∉ p) :
    (x ++ [61]).isPrefixOf (p ++ 61 :: v) = true ↔ x = p := by
  induction x generalizing p with
  | nil =>
    cases p with
    | nil => simp
    | cons c t =>
      have : c ≠ 61 := fun e => hp (by simp [e])
      simp [List.isPrefixOf, this]
      exact fun e => this e.symm
  | cons a x ih =>
    have ha : a ≠ 61 := fun e => hx (by simp [e])
    have hx' : (61 : UInt8) ∉ x := fun m => hx (by simp [m])
    cases p with
    | nil => simp [List.isPrefixOf, ha]
    | cons c t =>
      have hp' : (61 : UInt8) ∉ t := fun m => hp (by simp [m])
      simp only [List.cons_append, List.isPrefixOf, Bool.and_eq_true, beq_iff_eq, List.cons.injEq]
      rw [ih hx' hp']

private theorem prefix_no_eq {x a : Bytes} (ha : (61 : UInt8) ∉ a) : (x ++ [61]).isPrefixOf a = false := by
  cases h : (x ++ [61]).isPrefixOf a with
  | false => rfl
  | true =>
    have := List.isPrefixOf_iff_prefix.mp h
    obtain ⟨t, e⟩ := this
    exact absurd (by simp [← e]) ha

/-- the specification's `flagValue` agrees with the parser's `split_once('=')` + row test -/
private theorem flagValue_eq {r : FlagRow} (hs : (61 : UInt8) ∉ r.short) (hl : (61 : UInt8) ∉ r.long) (a : Bytes) :
    flagValue r a =
      match splitOnceByte 61 a with
      | some (p, v) => if rowMatches p r = true then some v else none
      | none => none := by
  unfold flagValue
  cases h : splitOnceByte 61 a with
  | none =>
    have hn := splitOnceByte_eq_none h
    rw [prefix_no_eq (x := [45] ++ r.short) hn, prefix_no_eq (x := [45, 45] ++ r.long) hn]
    simp
  | some pv =>
    obtain ⟨p, v⟩ := pv
    obtain ⟨ea, hp⟩ := splitOnceByte_some h
    subst ea
    have h1 : (61 : UInt8) ∉ (45 :: r.short) := by simp [hs]
    have h2 : (61 : UInt8) ∉ (45 :: 45 :: r.long) := by simp [hl]
    have e1 := prefix_eq_iff v h1 hp
    have e2 := prefix_eq_iff v h2 hp
    simp only [List.cons_append, List.nil_append] at e1 e2 ⊢
    by_cases c1 : (45 :: r.short) = p
    · have : rowMatches p r = true := (rowMatches_iff p r).mpr (Or.inl c1.symm)
      simp only [e1.mpr c1, this, if_true]
      subst c1
      simp
    · have n1 : (45 :: (r.short ++ [61])).isPrefixOf (p ++ 61 :: v) = false := by
        cases hh : (45 :: (r.short ++ [61])).isPrefixOf (p ++ 61 :: v) with
        | false => rfl
        | true => exact absurd (e1.mp hh) c1
      by_cases c2 : (45 :: 45 :: r.long) = p
      · have : rowMatches p r = true := (rowMatches_iff p r).mpr (Or.inr c2.symm)
        simp only [n1, e2.mpr c2, this, if_true]
        subst c2
        simp
      · have n2 : (45 :: 45 :: (r.long ++ [61])).isPrefixOf (p ++ 61 :: v) = false := by
          cases hh : (45 :: 45 :: (r.long ++ [61])).isPrefixOf (p ++ 61 :: v) with
          | false => rfl
          | true => exact absurd (e2.mp hh) c2
        have : ¬ rowMatches p r = true := by
          intro hm
          rcases (rowMatches_iff p r).mp hm with e | e
          · exact c1 e.symm
          · exact c2 e.symm
        simp [n1, n2, this]

private theorem lastFor_cons (r : FlagRow) (a : Bytes) (ws : List Bytes) :
    lastFor r (a :: ws) = (lastFor r ws).or (flagValue r a) := by
  unfold lastFor
  cases h : flagValue r a with
  | none => simp [List.filterMap_cons, h]
  | some v =>
    simp only [List.filterMap_cons, h, List.getLast?_cons]
    cases (List.filterMap (flagValue r) ws).getLast? <;> simp

/-- the fold of `_parse` over a word list: the last word addressing `r` wins, else the old value -/
private theorem get_foldl {r : FlagRow} (hr : r ∈ Gen.flagTable) (ws : List Bytes) (e : Env) :
    (ws.foldl (applyArg Gen.flagTable) e).get r.var = (lastFor r ws).or (e.get r.var) := by
  induction ws generalizing e with
  | nil => simp [lastFor]
  | cons a ws ih =>
    have hne := tab_noEq r hr
    rw [List.foldl_cons, ih, lastFor_cons, get_applyArg tab_distinct tab_varsInj hr, flagValue_eq hne.1 hne.2]
    cases splitOnceByte 61 a with
    | none => simp
    | some pv =>
      obtain ⟨p, v⟩ := pv
      by_cases hm : rowMatches p r = true <;> simp [hm, Option.or_assoc]

/-- the words a config file stands for never hold a NUL byte (a file with one is rejected as a whole) -/
theorem fileWords_nulFree (file : Option Bytes) : NulFree (fileWords file) := by
  unfold fileWords NulFree
  cases file with
  | none => simp
  | some c =>
    dsimp only
    split
    · rename_i h
      simp only [Bool.and_eq_true, Bool.not_eq_true', List.any_eq_false] at h
      intro w hw h0
      have := h.2 w hw
      simp [h0] at this
    · simp

private theorem overrideFromConfig_eq (file : Option Bytes) (e : Env) :
    overrideFromConfig file e = parseArgsWith Gen.flagTable (fileWords file) e := by
  have hnf := fileWords_nulFree file
  rw [parseArgsWith_ok _ _ _ hnf]
  unfold overrideFromConfig fileWords
  cases file with
  | none => simp
  | some c =>
    by_cases h : validUtf8 c = true
    · by_cases h2 : (configArgs c).any (fun a => a.contains 0) = true
      · simp only [h, h2, readConfigFile, if_true, Bool.not_true, Bool.and_false, Bool.false_eq_true, if_false, List.foldl_nil]
      · have h2' : (configArgs c).any (fun a => a.contains 0) = false := by simpa using h2
        have hn : NulFree (configArgs c) := by
          have := hnf; simp only [fileWords, h, h2', Bool.not_false, Bool.and_self, if_true] at this; exact this
        simp only [h, h2', Bool.not_false, Bool.and_self, if_true, readConfigFile, Bool.false_eq_true, if_false]
        rw [parseArgsWith_ok _ _ _ hn]
    · simp [h]

/-- start-up as a pure fold, when no word holds a NUL -/
private theorem startup_ok (env : Env) (file : Option Bytes) (cli : List Bytes)
    (hc : NulFree cli) :
    startup env file cli = .ok (cli.foldl (applyArg Gen.flagTable)
      ((fileWords file).foldl (applyArg Gen.flagTable) (setDefaults env))) := by
  unfold startup bootstrap readSystemEnv parseArgs
  simp only [overrideFromConfig_eq, parseArgsWith_ok _ _ _ (fileWords_nulFree file), parseArgsWith_ok _ _ _ hc]

end helpers

/-! ## C12_precedence -/

/-- Command line over config file over environment over default, for every setting (row of
    the regenerated flag table), every initial environment, every config file (absent,
    unreadable or any content) and every argv: start-up completes and the variable the server
    reads holds
      the value of the LAST command-line word addressing the setting, else
      the value of the LAST config-file assignment addressing it, else
      the environment's value (when valid Unicode), else the default. -/
theorem C12_precedence (r : FlagRow) (hr : r ∈ Gen.flagTable) (env : Env) (file : Option Bytes)
    (cli : List Bytes) (hc : NulFree cli) :
    ∃ e', startup env file cli = .ok e' ∧
      e'.get r.var =
        (lastFor r cli).or ((lastFor r (fileWords file)).or ((envValue env r.var).or (defaultOf r.var))) := by
  refine ⟨_, startup_ok env file cli hc, ?_⟩
  rw [get_foldl hr, get_foldl hr]
  have hd := tab_has_default r hr
  cases hl : Gen.defaults.lookup r.var with
  | none => simp [hl] at hd
  | some d =>
    have := get_setDefaultsWith Gen.defaults defaults_nodup env r.var d hl
    congr 2
    unfold setDefaults
    rw [this]
    unfold defaultOf envValue Env.getOk Env.get
    rw [hl]
    cases env.lookup r.var with
    | none => simp
    | some v => by_cases hv : validUtf8 v = true <;> simp [hv, Option.filter]


/-! ## C12_independent -/

section helpers2

private theorem flagValue_other {r r' : FlagRow} (hr : r ∈ Gen.flagTable) (hr' : r' ∈ Gen.flagTable)
    (hne : r ≠ r') {w : Bytes} (hw : (flagValue r w).isSome = true) : flagValue r' w = none := by
  have h1 := tab_noEq r hr
  have h2 := tab_noEq r' hr'
  rw [flagValue_eq h1.1 h1.2] at hw
  rw [flagValue_eq h2.1 h2.2]
  cases hs : splitOnceByte 61 w with
  | none => rfl
  | some pv =>
    obtain ⟨p, v⟩ := pv
    simp only [hs] at hw ⊢
    by_cases hm : rowMatches p r = true
    · have hm' : ¬ rowMatches p r' = true := by
        intro hm'
        rcases (rowMatches_iff p r).mp hm with e | e
        · exact hne ((tab_distinct r hr r' hr').1 (e ▸ hm')).symm
        · exact hne ((tab_distinct r hr r' hr').2 (e ▸ hm')).symm
      simp [hm']
    · simp [hm] at hw

private theorem lastFor_insert {r' : FlagRow} {w : Bytes} (h : flagValue r' w = none) (a b : List Bytes) :
    lastFor r' (a ++ w :: b) = lastFor r' (a ++ b) := by
  simp [lastFor, List.filterMap_append, List.filterMap_cons, h]

private theorem var_ne {r r' : FlagRow} (hr : r ∈ Gen.flagTable) (hr' : r' ∈ Gen.flagTable) (hne : r ≠ r') :
    r'.var ≠ r.var := fun e => hne (tab_varsInj r hr r' hr' e.symm)

private theorem nulFree_remove {a b : List Bytes} {w : Bytes} (h : NulFree (a ++ w :: b)) : NulFree (a ++ b) := by
  intro x hx
  apply h x
  rcases List.mem_append.mp hx with m | m
  · exact List.mem_append.mpr (Or.inl m)
  · exact List.mem_append.mpr (Or.inr (List.mem_cons_of_mem _ m))

end helpers2

/-- The effective value of a setting depends on nothing but what the three sources say ABOUT
    THAT SETTING: two configurations that agree on the last command-line word, the last file
    assignment and the environment value of `r` give `r` the same effective value — whatever
    they say about the other ten settings. -/
theorem C12_independent (r : FlagRow) (hr : r ∈ Gen.flagTable)
    (env env' : Env) (file file' : Option Bytes) (cli cli' : List Bytes)
    (hc : NulFree cli) (hc' : NulFree cli')
    (h1 : lastFor r cli = lastFor r cli')
    (h2 : lastFor r (fileWords file) = lastFor r (fileWords file'))
    (h3 : envValue env r.var = envValue env' r.var) :
    effective (startup env file cli) r.var = effective (startup env' file' cli') r.var := by
  obtain ⟨e1, hs1, hg1⟩ := C12_precedence r hr env file cli hc
  obtain ⟨e2, hs2, hg2⟩ := C12_precedence r hr env' file' cli' hc'
  simp only [hs1, hs2, effective, hg1, hg2, h1, h2, h3]

/-- Supplying setting `r` — by a command-line word anywhere in argv, by a config-file
    assignment anywhere in the file, or by its environment variable — never changes the
    effective value of another setting `r'`. -/
theorem C12_independent_supply (r r' : FlagRow) (hr : r ∈ Gen.flagTable) (hr' : r' ∈ Gen.flagTable)
    (hne : r ≠ r') (env : Env) (file : Option Bytes) (cli : List Bytes)
    (hc : NulFree cli) :
    -- a command-line word addressing r, inserted anywhere
    (∀ a b w, cli = a ++ w :: b → (flagValue r w).isSome = true →
        effective (startup env file (a ++ w :: b)) r'.var = effective (startup env file (a ++ b)) r'.var) ∧
    -- a file assignment addressing r, inserted anywhere
    (∀ file0 a b w, fileWords file = a ++ w :: b → fileWords file0 = a ++ b → (flagValue r w).isSome = true →
        effective (startup env file cli) r'.var = effective (startup env file0 cli) r'.var) ∧
    -- the environment variable of r
    (∀ v, effective (startup (env.set r.var v) file cli) r'.var = effective (startup env file cli) r'.var) := by
  refine ⟨?_, ?_, ?_⟩
  · intro a b w hcli hw
    have hnone := flagValue_other hr hr' hne hw
    have hc1 : NulFree (a ++ w :: b) := hcli ▸ hc
    exact C12_independent r' hr' env env file file _ _ hc1 (nulFree_remove hc1)
      (lastFor_insert hnone a b) rfl rfl
  · intro file0 a b w hfw hfw0 hw
    have hnone := flagValue_other hr hr' hne hw
    refine C12_independent r' hr' env env file file0 cli cli hc hc rfl ?_ rfl
    rw [hfw, hfw0]; exact lastFor_insert hnone a b
  · intro v
    refine C12_independent r' hr' _ env file file cli cli hc hc rfl rfl ?_
    have : ((r'.var == r.var) = false) := by simpa using var_ne hr hr' hne
    simp [envValue, Env.set, List.lookup, this]

/-! ## C12_toml — the TOML subset: specification of a renderer

A config file is a list of lines; each line is blanks (spaces and TABs), a core, blanks and an
optional `#` comment.  The renderer is free in: indentation and blanks everywhere, blank and comment lines,
`_` or `-` in keys, the way a value is written (bare, 'single', "double" quotes, an array
`[ "a", "b" ]` — any interleaving of the value's bytes with spaces, quotes and brackets),
`\n` or `\r\n` line ends, a last line without line end, and (for `wordsOf`) the order of keys. -/

/-- a run of TOML white space: U+0020 and TAB only (`isBlankByte b := b == 32 || b == 9`) -/
def isBlank (w : Bytes) : Bool := w.all isBlankByte

/-- bytes the parser deletes from a written value: space TAB ' " [ ] -/
def isDecoration (b : UInt8) : Bool := b == 32 || b == 9 || b == 39 || b == 34 || b == 91 || b == 93

/-- a byte that is not white space and does not begin a Unicode `White_Space` character -/
def startSafe (b : UInt8) : Bool :=
  !isAsciiWsByte b && b != 0xC2 && b != 0xE1 && b != 0xE2 && b != 0xE3

/-- a byte that is not white space and does not end a Unicode `White_Space` character -/
def endSafe (b : UInt8) : Bool :=
  !isAsciiWsByte b && !(b == 0x85 || b == 0xA0 || b == 0x9F || isE280Ws b)

structure AssignLine where
  indent : Bytes          -- blanks before the key
  keyText : Bytes         -- the key as written
  gap : Bytes             -- blanks between key and `=`
  valueText : Bytes       -- everything written between `=` and the trailing blanks
  trail : Bytes           -- blanks after the value
  comment : Option Bytes  -- text after `#`

inductive Item where
  | blank (w : Bytes)
  | comment (indent : Bytes) (text : Bytes)
  | table (indent inner1 : Bytes) (name : Bytes) (inner2 trail : Bytes) (comment : Option Bytes)
  | assign (a : AssignLine)

def renderComment : Option Bytes → Bytes
  | none => []
  | some c => 35 :: c

/-- indentation, core, trailing blanks, comment of a line -/
def Item.parts : Item → Bytes × Bytes × Bytes × Option Bytes
  | .blank w => (w, [], [], none)
  | .comment i t => (i, [], [], some t)
  | .table i a name b tr c => (i, 91 :: (a ++ name ++ b ++ [93]), tr, c)
  | .assign a => (a.indent, a.keyText ++ a.gap ++ 61 :: a.valueText, a.trail, a.comment)

def Item.render (i : Item) : Bytes :=
  i.parts.1 ++ i.parts.2.1 ++ i.parts.2.2.1 ++ renderComment i.parts.2.2.2

/-- the file: every listed line ended by `\n` (`false`) or `\r\n` (`true`), then optionally a
    last line without line end -/
def renderFile (items : List (Item × Bool)) (last : Option Item) : Bytes :=
  items.flatMap (fun ib => ib.1.render ++ (if ib.2 then [13, 10] else [10])) ++
    (match last with | none => [] | some i => i.render)

/-- the assignment a line denotes: key with `_` read as `-`, value without its decoration -/
def AssignLine.key (a : AssignLine) : Bytes := a.keyText.map (fun b => if b = 95 then 45 else b)
def AssignLine.value (a : AssignLine) : Bytes := a.valueText.filter (fun b => !isDecoration b)

/-- the words a file stands for: one `--[<table>-]<key>=<value>` per assignment, in file
    order; a table header changes the table for the lines after it -/
def wordsOf : Bytes → List Item → List Bytes
  | _, [] => []
  | tbl, .assign a :: is =>
    (45 :: 45 :: ((if tbl.isEmpty then [] else tbl ++ [45]) ++ a.key ++ 61 :: a.value)) :: wordsOf tbl is
  | _, .table _ _ name _ _ _ :: is => wordsOf name is
  | tbl, .blank _ :: is => wordsOf tbl is
  | tbl, .comment _ _ :: is => wordsOf tbl is

def noBreak (t : Bytes) : Bool := !t.contains 10 && !t.contains 13

/-- THE HYPOTHESIS ON WRITTEN TEXT (decidable).  White space is spaces and TABs; no text holds
    a line break; a key holds no blank, `#`, `=` and does not start with `[`; a table name
    holds no blank `#` `=` `[` `]`; a written value holds no `#`; and on a line that carries a
    comment the first byte of the key and the last byte of the written value are not (part of)
    Unicode white space — the parser `trim()`s such a line (there the key must be non-empty). -/
def Item.ok : Item → Bool
  | .blank w => isBlank w
  | .comment i t => isBlank i && noBreak t
  | .table i a name b tr c =>
    isBlank i && isBlank a && isBlank b && isBlank tr &&
    name.all (fun b => b != 10 && b != 13 && b != 32 && b != 9 && b != 35 && b != 61 && b != 91 && b != 93) &&
    (match c with | none => true | some c => noBreak c)
  | .assign a =>
    isBlank a.indent && isBlank a.gap && isBlank a.trail &&
    a.keyText.all (fun b => b != 10 && b != 13 && b != 32 && b != 9 && b != 35 && b != 61) &&
    a.keyText.head? != some 91 &&
    a.valueText.all (fun b => b != 10 && b != 13 && b != 35) &&
    (match a.comment with
     | none => true
     | some c => noBreak c && a.keyText.head?.any startSafe && ((61 : UInt8) :: a.valueText).getLast?.all endSafe)


section tomlHelpers

/-- the part of `processLine` after the comment and the blanks are gone -/
private def finish (pfx w : Bytes) : Bytes × Option Bytes :=
  let pfx := if w.head? = some 91 then w.filter (fun b => b != 91 && b != 93) else pfx
  match splitOnceByte 61 w with
  | none => (pfx, none)
  | some (k, v) =>
    let value := v.filter (fun b => !isQuoteOrBracket b)
    let key := k.map (fun b => if b = 95 then 45 else b)
    let arg := if pfx.isEmpty then 45 :: 45 :: (key ++ 61 :: value)
               else 45 :: 45 :: (pfx ++ 45 :: (key ++ 61 :: value))
    (pfx, some arg)

private theorem processLine_eq (pfx line : Bytes) :
    processLine pfx line = finish pfx (stripSpaces (stripComment line)) := rfl

private theorem blank_mem {w : Bytes} (h : isBlank w = true) {b : UInt8} (hb : b ∈ w) : b = 32 ∨ b = 9 := by
  have := List.all_eq_true.mp h b hb
  simpa [isBlankByte] using this

private theorem stripSpaces_blank {w : Bytes} (h : isBlank w = true) : stripSpaces w = [] := by
  unfold stripSpaces
  apply List.filter_eq_nil_iff.mpr
  intro b hb
  rcases blank_mem h hb with rfl | rfl <;> simp

private theorem stripSpaces_append (a b : Bytes) : stripSpaces (a ++ b) = stripSpaces a ++ stripSpaces b := by
  simp [stripSpaces]

private theorem stripSpaces_id {a : Bytes} (h : (32 : UInt8) ∉ a) (h9 : (9 : UInt8) ∉ a) : stripSpaces a = a := by
  unfold stripSpaces
  apply List.filter_eq_self.mpr
  intro b hb
  have h1 : b ≠ 32 := fun e => h (e ▸ hb)
  have h2 : b ≠ 9 := fun e => h9 (e ▸ hb)
  simp [h1, h2]

private theorem not_mem_blank {b : UInt8} {w : Bytes} (hw : isBlank w = true) (h : b ≠ 32) (h9 : b ≠ 9) : b ∉ w := by
  intro m
  rcases blank_mem hw m with e | e
  · exact h e
  · exact h9 e

/-- comment and surrounding blanks disappear -/
private theorem strip_line (w1 w2 : Bytes) (core : Bytes) (c : Option Bytes) (h1 : isBlank w1 = true)
    (h2 : isBlank w2 = true) (h35 : (35 : UInt8) ∉ core)
    (hedge : c.isSome = true → core = [] ∨ (wsLen (core ++ w2) = 0 ∧ wsLenRev core.reverse = 0)) :
    stripSpaces (stripComment (w1 ++ core ++ w2 ++ renderComment c)) = stripSpaces core := by
  have hpre : (35 : UInt8) ∉ w1 ++ core ++ w2 := by
    simp [h35, not_mem_blank h1, not_mem_blank h2]
  cases c with
  | none =>
    have : splitOnceByte 35 (w1 ++ core ++ w2) = none := splitOnceByte_none hpre
    simp only [renderComment, List.append_nil, stripComment, this]
    simp [stripSpaces_append, stripSpaces_blank h1, stripSpaces_blank h2]
  | some t =>
    have : splitOnceByte 35 (w1 ++ core ++ w2 ++ 35 :: t) = some (w1 ++ core ++ w2, t) :=
      splitOnceByte_append t hpre
    simp only [renderComment, stripComment, this]
    rw [trimUnicode_spaces w1 w2 core h1 h2 (hedge rfl)]

private theorem wsLen_startSafe {b : UInt8} (h : startSafe b = true) (x : Bytes) : wsLen (b :: x) = 0 := by
  simp [startSafe] at h
  simp [wsLen, h]

private theorem wsLenRev_endSafe {b : UInt8} (h : endSafe b = true) (x : Bytes) : wsLenRev (b :: x) = 0 := by
  simp [endSafe] at h
  simp [wsLenRev, h]

private theorem reverse_of_getLast? {l : Bytes} {b : UInt8} (h : l.getLast? = some b) :
    ∃ t, l.reverse = b :: t := by
  have : l.reverse.head? = some b := by simpa [List.head?_reverse] using h
  cases hr : l.reverse with
  | nil => simp [hr] at this
  | cons c t => simp [hr] at this; exact ⟨t, by rw [this]⟩

/-- the word an assignment line stands for under table `tbl` -/
private def wordOf (tbl : Bytes) (a : AssignLine) : Bytes :=
  45 :: 45 :: ((if tbl.isEmpty then [] else tbl ++ [45]) ++ a.key ++ 61 :: a.value)

private theorem filter_value (v : Bytes) :
    (stripSpaces v).filter (fun b => !isQuoteOrBracket b) = v.filter (fun b => !isDecoration b) := by
  unfold stripSpaces
  rw [List.filter_filter]
  congr 1
  funext b
  simp only [isQuoteOrBracket, isDecoration, bne]
  generalize (b == 32) = p1
  generalize (b == 39) = p2
  generalize (b == 34) = p3
  generalize (b == 93) = p4
  generalize (b == 91) = p5
  generalize (b == 9) = p6
  cases p1 <;> cases p2 <;> cases p3 <;> cases p4 <;> cases p5 <;> cases p6 <;> rfl

private theorem processLine_item (pfx : Bytes) (i : Item) (hok : i.ok = true) :
    processLine pfx i.render =
      match i with
      | .assign a => (pfx, some (wordOf pfx a))
      | .table _ _ name _ _ _ => (name, none)
      | .blank _ => (pfx, none)
      | .comment _ _ => (pfx, none) := by
  rw [processLine_eq]
  cases i with
  | blank w =>
    simp only [Item.ok] at hok
    simp only [Item.render, Item.parts]
    rw [strip_line w [] [] none hok rfl (by simp) (by simp)]
    simp [stripSpaces, finish, splitOnceByte]
  | comment w tx =>
    simp only [Item.ok, Bool.and_eq_true] at hok
    simp only [Item.render, Item.parts]
    rw [strip_line w [] [] (some tx) hok.1 rfl (by simp) (by simp)]
    simp [stripSpaces, finish, splitOnceByte]
  | table w a name b tr c =>
    simp only [Item.ok, Bool.and_eq_true, List.all_eq_true] at hok
    obtain ⟨⟨⟨⟨⟨hw, ha⟩, hb⟩, htr⟩, hname⟩, hcm⟩ := hok
    have hn : ∀ x ∈ name, x ≠ 10 ∧ x ≠ 13 ∧ x ≠ 32 ∧ x ≠ 9 ∧ x ≠ 35 ∧ x ≠ 61 ∧ x ≠ 91 ∧ x ≠ 93 := by
      intro x hx; simpa [and_assoc] using hname x hx
    have n32 : (32 : UInt8) ∉ name := fun m => (hn _ m).2.2.1 rfl
    have n9 : (9 : UInt8) ∉ name := fun m => (hn _ m).2.2.2.1 rfl
    have n35 : (35 : UInt8) ∉ name := fun m => (hn _ m).2.2.2.2.1 rfl
    have n61 : (61 : UInt8) ∉ name := fun m => (hn _ m).2.2.2.2.2.1 rfl
    simp only [Item.render, Item.parts]
    rw [strip_line w tr (91 :: (a ++ name ++ b ++ [93])) c hw htr (by simp [n35, not_mem_blank ha, not_mem_blank hb]) (by
      intro _; right
      refine ⟨by simp [wsLen, isAsciiWsByte], ?_⟩
      simp [wsLenRev, isAsciiWsByte, isE280Ws])]
    have e : stripSpaces (91 :: (a ++ name ++ b ++ [93])) = 91 :: (name ++ [93]) := by
      rw [show (91 : UInt8) :: (a ++ name ++ b ++ [93]) = [91] ++ a ++ name ++ b ++ [93] by simp]
      simp only [stripSpaces_append, stripSpaces_blank ha, stripSpaces_blank hb, stripSpaces_id n32 n9]
      simp [stripSpaces]
    rw [e]
    have hsplit : splitOnceByte 61 (91 :: (name ++ [93])) = none := splitOnceByte_none (by simp [n61])
    have hfil : (91 :: (name ++ [93])).filter (fun b => b != 91 && b != 93) = name := by
      simp only [List.filter_cons, List.filter_append]
      simp
      intro x hx
      have := hn x hx
      exact ⟨this.2.2.2.2.2.2.1, this.2.2.2.2.2.2.2⟩
    simp [finish, hsplit, hfil]
  | assign a =>
    simp only [Item.ok, Bool.and_eq_true, List.all_eq_true] at hok
    obtain ⟨⟨⟨⟨⟨⟨hind, hgap⟩, htr⟩, hk⟩, hhead⟩, hv⟩, hc⟩ := hok
    have hk' : ∀ x ∈ a.keyText, x ≠ 10 ∧ x ≠ 13 ∧ x ≠ 32 ∧ x ≠ 9 ∧ x ≠ 35 ∧ x ≠ 61 := by
      intro x hx; simpa [and_assoc] using hk x hx
    have hv' : ∀ x ∈ a.valueText, x ≠ 10 ∧ x ≠ 13 ∧ x ≠ 35 := by
      intro x hx; simpa [and_assoc] using hv x hx
    have k32 : (32 : UInt8) ∉ a.keyText := fun m => (hk' _ m).2.2.1 rfl
    have k9 : (9 : UInt8) ∉ a.keyText := fun m => (hk' _ m).2.2.2.1 rfl
    have k35 : (35 : UInt8) ∉ a.keyText := fun m => (hk' _ m).2.2.2.2.1 rfl
    have k61 : (61 : UInt8) ∉ a.keyText := fun m => (hk' _ m).2.2.2.2.2 rfl
    have v35 : (35 : UInt8) ∉ a.valueText := fun m => (hv' _ m).2.2 rfl
    simp only [Item.render, Item.parts]
    rw [strip_line a.indent a.trail (a.keyText ++ a.gap ++ 61 :: a.valueText) a.comment hind htr (by simp [k35, v35, not_mem_blank hgap]) (by
      intro hsome
      right
      cases hcm : a.comment with
      | none => simp [hcm] at hsome
      | some cm =>
        simp only [hcm, Bool.and_eq_true] at hc
        obtain ⟨⟨_, hs⟩, he⟩ := hc
        constructor
        · cases hkt : a.keyText with
          | nil => simp [hkt] at hs
          | cons c t =>
            simp [hkt] at hs
            simpa using wsLen_startSafe hs _
        · cases hl : ((61 : UInt8) :: a.valueText).getLast? with
          | none => simp at hl
          | some l =>
            simp [hl] at he
            obtain ⟨t, ht⟩ := reverse_of_getLast? hl
            simp only [List.reverse_append]
            rw [ht]
            simpa using wsLenRev_endSafe he _)]
    have e : stripSpaces (a.keyText ++ a.gap ++ 61 :: a.valueText) = a.keyText ++ 61 :: stripSpaces a.valueText := by
      rw [show a.keyText ++ a.gap ++ 61 :: a.valueText = a.keyText ++ a.gap ++ [61] ++ a.valueText by simp]
      simp only [stripSpaces_append, stripSpaces_blank hgap, stripSpaces_id k32 k9]
      simp [stripSpaces]
    rw [e]
    have hsplit := splitOnceByte_append (b := 61) (stripSpaces a.valueText) k61
    have hh : (a.keyText ++ 61 :: stripSpaces a.valueText).head? ≠ some 91 := by
      cases hkt : a.keyText with
      | nil => simp
      | cons c t => simpa [hkt] using hhead
    simp only [finish, hsplit, hh, if_false, filter_value]
    simp only [wordOf, AssignLine.key, AssignLine.value]
    by_cases hp : pfx.isEmpty = true <;> simp [hp]

private theorem render_noBreak (i : Item) (hok : i.ok = true) :
    (10 : UInt8) ∉ i.render ∧ (13 : UInt8) ∉ i.render := by
  have hsp10 : ∀ w, isBlank w = true → (10 : UInt8) ∉ w := fun w h => not_mem_blank h (by decide) (by decide)
  have hsp13 : ∀ w, isBlank w = true → (13 : UInt8) ∉ w := fun w h => not_mem_blank h (by decide) (by decide)
  have hcm : ∀ c : Option Bytes, (match c with | none => true | some c => noBreak c) = true →
      (10 : UInt8) ∉ renderComment c ∧ (13 : UInt8) ∉ renderComment c := by
    intro c hc
    cases c with
    | none => simp [renderComment]
    | some c => simp [noBreak] at hc; simp [renderComment, hc]
  cases i with
  | blank w =>
    simp only [Item.ok] at hok
    simp [Item.render, Item.parts, renderComment, hsp10 w hok, hsp13 w hok]
  | comment w tx =>
    simp only [Item.ok, Bool.and_eq_true] at hok
    have := hcm (some tx) hok.2
    simp [Item.render, Item.parts, hsp10 w hok.1, hsp13 w hok.1, this]
  | table w a name b tr c =>
    simp only [Item.ok, Bool.and_eq_true, List.all_eq_true] at hok
    obtain ⟨⟨⟨⟨⟨hw, ha⟩, hb⟩, htr⟩, hname⟩, hcc⟩ := hok
    have hn : ∀ x ∈ name, x ≠ 10 ∧ x ≠ 13 := by
      intro x hx
      have := hname x hx
      simp at this
      exact ⟨this.1.1.1.1.1.1.1, this.1.1.1.1.1.1.2⟩
    have n10 : (10 : UInt8) ∉ name := fun m => (hn _ m).1 rfl
    have n13 : (13 : UInt8) ∉ name := fun m => (hn _ m).2 rfl
    have := hcm c hcc
    simp [Item.render, Item.parts, hsp10 _ hw, hsp13 _ hw, hsp10 _ ha, hsp13 _ ha, hsp10 _ hb, hsp13 _ hb,
      hsp10 _ htr, hsp13 _ htr, this, n10, n13]
  | assign a =>
    simp only [Item.ok, Bool.and_eq_true, List.all_eq_true] at hok
    obtain ⟨⟨⟨⟨⟨⟨hind, hgap⟩, htr⟩, hk⟩, _⟩, hv⟩, hc⟩ := hok
    have hk' : ∀ x ∈ a.keyText, x ≠ 10 ∧ x ≠ 13 := by
      intro x hx
      have := hk x hx
      simp at this
      exact ⟨this.1.1.1.1.1, this.1.1.1.1.2⟩
    have hv' : ∀ x ∈ a.valueText, x ≠ 10 ∧ x ≠ 13 := by
      intro x hx
      have := hv x hx
      simp at this
      exact ⟨this.1.1, this.1.2⟩
    have k10 : (10 : UInt8) ∉ a.keyText := fun m => (hk' _ m).1 rfl
    have k13 : (13 : UInt8) ∉ a.keyText := fun m => (hk' _ m).2 rfl
    have v10 : (10 : UInt8) ∉ a.valueText := fun m => (hv' _ m).1 rfl
    have v13 : (13 : UInt8) ∉ a.valueText := fun m => (hv' _ m).2 rfl
    have hc' : (match a.comment with | none => true | some c => noBreak c) = true := by
      cases hcc : a.comment with
      | none => rfl
      | some c => simp [hcc] at hc; exact hc.1.1
    have := hcm a.comment hc'
    simp [Item.render, Item.parts, hsp10 _ hind, hsp13 _ hind, hsp10 _ hgap, hsp13 _ hgap, hsp10 _ htr,
      hsp13 _ htr, this, k10, k13, v10, v13]

private theorem processLine_nil (tbl : Bytes) : processLine tbl [] = (tbl, none) := by
  simp [processLine, stripComment, splitOnceByte, stripSpaces]

private theorem args_step (tbl : Bytes) (i : Item) (hok : i.ok = true) (ls : List Bytes) :
    argsOfLines tbl (i.render :: ls) =
      match i with
      | .assign a => wordOf tbl a :: argsOfLines tbl ls
      | .table _ _ name _ _ _ => argsOfLines name ls
      | .blank _ => argsOfLines tbl ls
      | .comment _ _ => argsOfLines tbl ls := by
  simp only [argsOfLines, processLine_item tbl i hok]
  cases i <;> rfl

private theorem args_render (items : List (Item × Bool)) (last : Option Item)
    (hok : ∀ ib ∈ items, ib.1.ok = true) (hl : ∀ i, last = some i → i.ok = true) (tbl : Bytes) :
    argsOfLines tbl (fileLines (renderFile items last)) = wordsOf tbl (items.map Prod.fst ++ last.toList) := by
  induction items generalizing tbl with
  | nil =>
    cases last with
    | none => simp [renderFile, fileLines, fileLinesAux, argsOfLines, wordsOf]
    | some i =>
      have hi := hl i rfl
      have hb := render_noBreak i hi
      have e : argsOfLines tbl (fileLines i.render) = argsOfLines tbl [i.render] := by
        unfold fileLines
        rw [fileLinesAux_last _ _ hb.1]
        by_cases hemp : i.render = []
        · simp [hemp, argsOfLines, processLine_nil]
        · simp [hemp]
      simp only [renderFile, List.flatMap_nil, List.nil_append, List.map_nil, Option.toList]
      rw [e, args_step tbl i hi]
      cases i <;> simp [wordsOf, argsOfLines, wordOf]
  | cons ib rest ih =>
    obtain ⟨i, crlf⟩ := ib
    have hi : i.ok = true := hok (i, crlf) (by simp)
    have hb := render_noBreak i hi
    have hrest : ∀ ib ∈ rest, ib.1.ok = true := fun x hx => hok x (by simp [hx])
    have e : renderFile ((i, crlf) :: rest) last =
        i.render ++ (if crlf then [13, 10] else [10]) ++ renderFile rest last := by
      simp [renderFile, List.flatMap_cons]
    rw [e, fileLines_line _ _ _ hb.1 hb.2, args_step tbl i hi]
    cases i with
    | assign a => simp only [List.map_cons, List.cons_append, wordsOf, ih hrest]; rfl
    | table n a name b tr c => simp only [List.map_cons, List.cons_append, wordsOf, ih hrest]
    | blank n => simp only [List.map_cons, List.cons_append, wordsOf, ih hrest]
    | comment n tx => simp only [List.map_cons, List.cons_append, wordsOf, ih hrest]

end tomlHelpers

/-- **parse (render assignments) = assignments.**  For every list of lines (blank lines,
    comment lines, table headers, assignments written with any spacing, `_`/`-` in keys, any
    quoting/array decoration of values, optional trailing comments, `\n` or `\r\n` line ends,
    optional unterminated last line) satisfying `Item.ok`, the words `read_config_file` hands
    to the flag parser are exactly the assignments the lines denote, in file order, each
    under the table in force. -/
theorem C12_toml (items : List (Item × Bool)) (last : Option Item)
    (hok : ∀ ib ∈ items, ib.1.ok = true) (hl : ∀ i, last = some i → i.ok = true) :
    configArgs (renderFile items last) = wordsOf [] (items.map Prod.fst ++ last.toList) :=
  args_render items last hok hl []

/-! ## C12_spellings -/

section helpers3

private theorem flagValue_short {r : FlagRow} (hr : r ∈ Gen.flagTable) (v : Bytes) :
    flagValue r (45 :: (r.short ++ 61 :: v)) = some v := by
  have h := tab_noEq r hr
  have hs : splitOnceByte 61 ((45 :: r.short) ++ 61 :: v) = some (45 :: r.short, v) :=
    splitOnceByte_append v (by simp [h.1])
  rw [flagValue_eq h.1 h.2]
  simp only [List.cons_append] at hs
  simp [hs, rowMatches]

private theorem flagValue_long {r : FlagRow} (hr : r ∈ Gen.flagTable) (v : Bytes) :
    flagValue r (45 :: 45 :: (r.long ++ 61 :: v)) = some v := by
  have h := tab_noEq r hr
  have hs : splitOnceByte 61 ((45 :: 45 :: r.long) ++ 61 :: v) = some (45 :: 45 :: r.long, v) :=
    splitOnceByte_append v (by simp [h.2])
  rw [flagValue_eq h.1 h.2]
  simp only [List.cons_append] at hs
  simp [hs, rowMatches]

private theorem one_word {r : FlagRow} (hr : r ∈ Gen.flagTable) (w v : Bytes) (e : Env)
    (hw : flagValue r w = some v) (h0 : (0 : UInt8) ∉ w) :
    effective (parseArgsWith Gen.flagTable [w] e) r.var = some v := by
  rw [parseArgsWith_ok _ _ _ (by intro a ha; simp at ha; exact ha ▸ h0)]
  simp only [effective, get_foldl hr, lastFor, List.filterMap_cons, hw]
  simp

end helpers3

/-- Every spelling the flag table gives a setting reaches it: `-<short>=v` and `--<long>=v`
    on the command line; in the config file the long name as a top-level key and — for any
    table header `[t]` — the key `k` with `t-k` = long name (so `[cors]` + `allow_all` reaches
    `cors-allow-all`), the key written with `_` or `-` and the value with any decoration the
    C12_toml renderer allows; and the variable name in the environment. -/
theorem C12_spellings (r : FlagRow) (hr : r ∈ Gen.flagTable) (v : Bytes) (hv : (0 : UInt8) ∉ v) (e : Env) :
    effective (parseArgs [45 :: (r.short ++ 61 :: v)] e) r.var = some v ∧
    effective (parseArgs [45 :: 45 :: (r.long ++ 61 :: v)] e) r.var = some v ∧
    (∀ a : AssignLine, (Item.assign a).ok = true → a.key = r.long → a.value = v →
      effective (readConfigFile (renderFile [(.assign a, false)] none) e) r.var = some v) ∧
    (∀ (a : AssignLine) (i i1 i2 tr : Bytes) (name : Bytes) (c : Option Bytes),
      (Item.table i i1 name i2 tr c).ok = true → name ≠ [] → (Item.assign a).ok = true →
      name ++ 45 :: a.key = r.long → a.value = v →
      effective (readConfigFile (renderFile [(.table i i1 name i2 tr c, false), (.assign a, false)] none) e) r.var = some v) ∧
    (validUtf8 v = true → effective (startup [(r.var, v)] none []) r.var = some v) := by
  have hn := tab_noNul r hr
  refine ⟨?_, ?_, ?_, ?_, ?_⟩
  · exact one_word hr _ v e (flagValue_short hr v) (by simp [hn.1, hv])
  · exact one_word hr _ v e (flagValue_long hr v) (by simp [hn.2, hv])
  · intro a hok hk hval
    unfold readConfigFile
    rw [C12_toml _ none (by intro ib hib; simp at hib; rw [hib]; exact hok) (by simp)]
    simp only [List.map_cons, List.map_nil, Option.toList, List.append_nil, wordsOf, List.isEmpty_nil,
      if_true, List.nil_append, hk, hval]
    rw [if_neg (by simp [hn.2, hv])]
    exact one_word hr _ v e (flagValue_long hr v) (by simp [hn.2, hv])
  · intro a i i1 i2 tr name c hokt hne hok hk hval
    unfold readConfigFile
    rw [C12_toml _ none (by
      intro ib hib
      simp at hib
      rcases hib with h | h <;> rw [h]
      · exact hokt
      · exact hok) (by simp)]
    have hemp : name.isEmpty = false := by cases name <;> simp_all
    simp only [List.map_cons, List.map_nil, Option.toList, List.append_nil, wordsOf, hemp, hval]
    have : name ++ [45] ++ a.key = r.long := by simpa using hk
    simp only [Bool.false_eq_true, if_false, this]
    rw [if_neg (by simp [hn.2, hv])]
    exact one_word hr _ v e (flagValue_long hr v) (by simp [hn.2, hv])
  · intro hu
    obtain ⟨e', hs, hg⟩ := C12_precedence r hr [(r.var, v)] none [] (by simp [NulFree])
    simp [hs, effective, hg, lastFor, fileWords, envValue, List.lookup, hu, Option.filter]

/-- The documented spellings, re-extracted from the repository's documentation on every run:
    every word of both example command lines of `rws.command_line` addresses a setting, both
    lines configure all settings and — as the file says — the same values; the example
    `rws.config.toml` assigns all settings; every name exported by `rws.variables` is the
    variable of a setting and every setting's variable is listed. -/
theorem C12_spellings_documented :
    (∀ w ∈ Gen.docCommandLine1 ++ Gen.docCommandLine2, ∃ r ∈ Gen.flagTable, (flagValue r w).isSome = true) ∧
    (∀ r ∈ Gen.flagTable, (lastFor r Gen.docCommandLine1).isSome = true ∧
        lastFor r Gen.docCommandLine1 = lastFor r Gen.docCommandLine2) ∧
    (∀ r ∈ Gen.flagTable, (lastFor r (configArgs Gen.docConfigToml)).isSome = true) ∧
    (∀ nv ∈ Gen.docVariables, ∃ r ∈ Gen.flagTable, r.var = nv.1) ∧
    (∀ r ∈ Gen.flagTable, ∃ nv ∈ Gen.docVariables, nv.1 = r.var) := by
  decide +kernel

/-- The defaults: every setting has one; the typed getters' numeric fallbacks are the parsed
    string defaults; and they are the documented ones (CONFIGURE.md: 127.0.0.1, 7878, 200
    threads, [99, 111, 114, 115] allowed). -/
theorem C12_defaults :
    (∀ r ∈ Gen.flagTable, (defaultOf r.var).isSome = true) ∧
    defaultOf Gen.ipVar = some Gen.ipFallback ∧
    (defaultOf Gen.portVar).bind (parseSigned 32) = some Gen.portFallback ∧
    (defaultOf Gen.threadCountVar).bind (parseSigned 32) = some Gen.threadCountFallback ∧
    (defaultOf Gen.allocVar).bind (parseSigned 64) = some Gen.allocFallback ∧
    Gen.ipFallback = [49, 50, 55, 46, 48, 46, 48, 46, 49] ∧ Gen.portFallback = 7878 ∧ Gen.threadCountFallback = 200 ∧
    defaultOf [82, 87, 83, 95, 67, 79, 78, 70, 73, 71, 95, 67, 79, 82, 83, 95, 65, 76, 76, 79, 87, 95, 65, 76, 76] = some [116, 114, 117, 101] := by
  decide +kernel

/-! ## what falls outside the hypotheses: kernel-checked witnesses -/

/-- a `#` inside a quoted value starts a comment: `ip = "1#2"` assigns `1` -/
theorem C12_toml_hash_violated : configArgs [105, 112, 32, 61, 32, 34, 49, 35, 50, 34, 10] = [[45, 45, 105, 112, 61, 49]] ∧ [45, 45, 105, 112, 61, 49] ≠ [45, 45, 105, 112, 61, 49, 35, 50] := by decide +kernel

/-- spaces inside a quoted value are deleted: `ip = "a b"` assigns `ab` -/
theorem C12_toml_space_violated : configArgs [105, 112, 32, 61, 32, 34, 97, 32, 98, 34, 10] = [[45, 45, 105, 112, 61, 97, 98]] ∧ [45, 45, 105, 112, 61, 97, 98] ≠ [45, 45, 105, 112, 61, 97, 32, 98] := by decide +kernel

/-- white space other than space and TAB at the end of an unquoted value survives without a comment
    and is trimmed with one: `port = 1<NBSP>` vs `port = 1<NBSP># c` -/
theorem C12_toml_nbsp_violated :
    effective (readConfigFile [112, 111, 114, 116, 32, 61, 32, 49, 194, 160, 10] []) Gen.portVar = some [49, 0xC2, 0xA0] ∧
    effective (readConfigFile [112, 111, 114, 116, 32, 61, 32, 49, 194, 160, 35, 32, 99, 10] []) Gen.portVar = some [49] := by decide +kernel

/-- regression F72 (a NUL byte in a config value made start-up panic inside `std::env::set_var`):
    the file `ip = "␀"` + `port = 1` is rejected as a whole, start-up completes with the defaults -/
example :
    fileWords (some [105, 112, 32, 61, 32, 34, 0, 34, 10, 112, 111, 114, 116, 32, 61, 32, 49, 10]) = [] ∧
    effective (startup [] (some [105, 112, 32, 61, 32, 34, 0, 34, 10, 112, 111, 114, 116, 32, 61, 32, 49, 10]) []) Gen.portVar = defaultOf Gen.portVar := by
  decide +kernel

/-! ## the hypotheses are satisfiable by non-trivial inputs -/

/-- `[ cors ] # t` / `<TAB>allow_origins<TAB>= [ "https://a.example", 'b' ]  # list` with CRLF
    line ends, a blank line, a comment line, then an unterminated `port=8000`: all lines are
    `ok`, and they denote `--cors-allow-origins=https://a.example,b`, `--cors-port=8000` -/
example :
    let hdr := Item.table [] [32] [99, 111, 114, 115] [32] [32] (some [32, 116])
    let a1 : AssignLine := ⟨[9], [97, 108, 108, 111, 119, 95, 111, 114, 105, 103, 105, 110, 115], [9], [91, 32, 34, 104, 116, 116, 112, 115, 58, 47, 47, 97, 46, 101, 120, 97, 109, 112, 108, 101, 34, 44, 32, 39, 98, 39, 32, 93], [32, 32], some [32, 108, 105, 115, 116]⟩
    let a2 : AssignLine := ⟨[], [112, 111, 114, 116], [], [56, 48, 48, 48], [], none⟩
    hdr.ok = true ∧ (Item.assign a1).ok = true ∧ (Item.assign a2).ok = true ∧
    wordsOf [] [hdr, .assign a1, .blank [32, 9], .comment [32] [32, 108, 105, 115, 116], .assign a2] = [[45, 45, 99, 111, 114, 115, 45, 97, 108, 108, 111, 119, 45, 111, 114, 105, 103, 105, 110, 115, 61, 104, 116, 116, 112, 115, 58, 47, 47, 97, 46, 101, 120, 97, 109, 112, 108, 101, 44, 98], [45, 45, 99, 111, 114, 115, 45, 112, 111, 114, 116, 61, 56, 48, 48, 48]] ∧
    configArgs (renderFile [(hdr, true), (.assign a1, true), (.blank [32, 9], false), (.comment [32] [32, 108, 105, 115, 116], true)] (some (.assign a2)))
      = [[45, 45, 99, 111, 114, 115, 45, 97, 108, 108, 111, 119, 45, 111, 114, 105, 103, 105, 110, 115, 61, 104, 116, 116, 112, 115, 58, 47, 47, 97, 46, 101, 120, 97, 109, 112, 108, 101, 44, 98], [45, 45, 99, 111, 114, 115, 45, 112, 111, 114, 116, 61, 56, 48, 48, 48]] := by decide +kernel

/-- regression for the `fix:` commit "TAB is white space in rws.config.toml": `port<TAB>= 1`
    now reaches the port setting like `port = 1` -/
example :
    effective (readConfigFile [112, 111, 114, 116, 9, 61, 32, 49, 10] []) Gen.portVar = some [49] ∧
    effective (readConfigFile [112, 111, 114, 116, 32, 61, 32, 49, 10] []) Gen.portVar = some [49] := by decide +kernel

/-- NUL-free, non-empty sources on all three levels -/
example : NulFree (fileWords (some Gen.docConfigToml)) ∧ NulFree Gen.docCommandLine1 ∧
    (fileWords (some Gen.docConfigToml)).length = 11 ∧ Gen.docCommandLine1.length = 11 ∧
    Gen.flagTable.length = 11 := by decide +kernel

/-- precedence on the concrete pinned observation: CLI 8000 > file 7001 > env 6000 > default 7878 -/
example :
    effective (startup [(Gen.portVar, [54, 48, 48, 48])] (some [112, 111, 114, 116, 32, 61, 32, 55, 48, 48, 49, 10]) [[114, 119, 115], [45, 45, 112, 111, 114, 116, 61, 56, 48, 48, 48]]) Gen.portVar = some [56, 48, 48, 48] ∧
    effective (startup [(Gen.portVar, [54, 48, 48, 48])] (some [112, 111, 114, 116, 32, 61, 32, 55, 48, 48, 49, 10]) [[114, 119, 115]]) Gen.portVar = some [55, 48, 48, 49] ∧
    effective (startup [(Gen.portVar, [54, 48, 48, 48])] none [[114, 119, 115]]) Gen.portVar = some [54, 48, 48, 48] ∧
    effective (startup [] none [[114, 119, 115]]) Gen.portVar = some [55, 56, 55, 56] := by decide +kernel


/-- `Server::setup` installs the defaults FIRST and folds the three sources over them after that (the calls are read from the
    current source by the translator; the model's `startup` is `bootstrap ∘ setDefaults`, and the harness runs the two calls
    itself — swapped, every default would overwrite what the sources said) -/
theorem C12_setup_order : Gen.setupCalls = ["set_default_values", "bootstrap"] := by decide

end Rws.C12
