/-
  C05 — responses are well-formed, self-consistent HTTP and delivered in full.

  Specification side (this file, independent of the serialiser): the strict grammar
  `IsResponse`, the framing headers a response with given parts must carry (`framing`),
  the server's header-name vocabulary (`vocabulary`).
  Model side: `Resp.generateResponse` (lean/Rws/ResponseM.lean) sent through
  `Transport.writeAll` by `Server.process` (lean/Rws/Server.lean).
-/
import Rws.Server
import RwsProofs.C11
import RwsProofs.Lemmas.Wire
import RwsProofs.Lemmas.WireHead
import RwsProofs.Lemmas.WireServer
namespace Rws.C05
open Rws Rws.Transport

/-! ## Specification -/

/-- ASCII text as bytes (the property's own words, written literally) -/
def ascii (s : String) : Bytes := s.toList.map (fun c => UInt8.ofNat c.toNat)

/-- no carriage return (13) and no line feed (10) -/
def noCRLF (s : Bytes) : Bool := s.all (fun b => b != 13 && b != 10)

/-- RFC 9110 `tchar`: digits, letters and ``! # $ % & ' * + - . ^ _ ` | ~`` — in particular
    no colon, no blank, no control byte -/
def isTchar (b : UInt8) : Bool :=
  (48 ≤ b && b ≤ 57) || (65 ≤ b && b ≤ 90) || (97 ≤ b && b ≤ 122) ||
  [33, 35, 36, 37, 38, 39, 42, 43, 45, 46, 94, 95, 96, 124, 126].contains b

/-- a header field name: a non-empty token -/
def validName (n : Bytes) : Bool := !n.isEmpty && n.all isTchar

/-- decimal digits of a natural number, most significant first -/
def decimal (n : Nat) : Bytes :=
  if n < 10 then [UInt8.ofNat (48 + n)] else decimal (n / 10) ++ [UInt8.ofNat (48 + n % 10)]

/-- `name: value CRLF` -/
def headerLine (h : Bytes × Bytes) : Bytes := h.1 ++ [58, 32] ++ h.2 ++ [13, 10]

/-- THE STRICT GRAMMAR.  `bytes` is exactly: `HTTP/1.1 SP code SP reason CRLF`, with
    `(code, reason)` a row of the status table; one line `name: value CRLF` per header, the name a
    non-empty token, the value free of CR and LF; one blank line; the body. -/
def IsResponse (bytes : Bytes) (status : Int) (headers : List (Bytes × Bytes)) (body : Bytes) : Prop :=
  ∃ reason : Bytes, (status, reason) ∈ Gen.statusTable ∧
    (∀ h ∈ headers, validName h.1 = true ∧ noCRLF h.2 = true) ∧
    bytes = [72, 84, 84, 80, 47, 49, 46, 49, 32] /- "HTTP/1.1 " -/ ++ decimal status.toNat ++ [32] ++
            reason ++ [13, 10] ++ headers.flatMap headerLine ++ [13, 10] ++ body

/-- the framing headers a response with the given parts must end its header block with -/
def framing (parts : List ContentRange) : List (Bytes × Bytes) :=
  match parts with
  | [] => []
  | [c] => [(ascii "Content-Type", c.contentType),
            (ascii "Content-Range",
              ascii "bytes " ++ decimal c.range.start ++ ascii "-" ++ decimal c.range.stop ++ ascii "/" ++ c.size),
            (ascii "Content-Length", decimal c.body.length)]
  | _ :: _ :: _ => [(ascii "Content-Type", ascii "multipart/byteranges; boundary=String_separator")]

def pairs (hs : List Header) : List (Bytes × Bytes) := hs.map (fun h => (h.name, h.value))

/-- the request methods whose responses carry no body -/
def bodiless (q : Request) : Prop := q.method = ascii "HEAD" ∨ q.method = ascii "OPTIONS"

instance (q : Request) : Decidable (bodiless q) := by unfold bodiless; infer_instance

/-- hypotheses on a `Response` value handed to the serialiser (all decidable) -/
def WfHeaders (hs : List Header) : Prop := ∀ h ∈ hs, validName h.name = true ∧ noCRLF h.value = true
def WfParts (ps : List ContentRange) : Prop := ∀ c ∈ ps, noCRLF c.contentType = true ∧ noCRLF c.size = true

/-- how many headers are called `n` -/
def count (n : Bytes) (hs : List (Bytes × Bytes)) : Nat := hs.countP (fun h => h.1 == n)

def framingNames : List Bytes := [ascii "Content-Length", ascii "Content-Type", ascii "Content-Range"]

/-- THE SERVER'S HEADER VOCABULARY: six cross-origin grants, eight fixed headers, the
    modification time, three framing headers -/
def vocabulary : List Bytes :=
  [ascii "Access-Control-Allow-Origin", ascii "Access-Control-Allow-Credentials",
   ascii "Access-Control-Allow-Methods", ascii "Access-Control-Allow-Headers",
   ascii "Access-Control-Expose-Headers", ascii "Access-Control-Max-Age",
   ascii "Accept-CH", ascii "Critical-CH", ascii "Vary", ascii "X-Content-Type-Options",
   ascii "Accept-Ranges", ascii "X-Frame-Options", ascii "Date-Unix-Epoch-Nanos", ascii "Cache-Control",
   ascii "Last-Modified-Unix-Epoch-Nanos",
   ascii "Content-Type", ascii "Content-Range", ascii "Content-Length"]

/-- the configuration values that are copied into response header values (the other three
    `RWS_CONFIG_CORS_*` variables — ALLOW_ALL, ALLOW_ORIGINS, ALLOW_CREDENTIALS — are only
    parsed to a boolean or compared with the request's `Origin`, never written) -/
def echoedSettings : List Bytes :=
  [ascii "RWS_CONFIG_CORS_ALLOW_METHODS", ascii "RWS_CONFIG_CORS_ALLOW_HEADERS",
   ascii "RWS_CONFIG_CORS_EXPOSE_HEADERS", ascii "RWS_CONFIG_CORS_MAX_AGE"]

/-- the operator's configuration contains no line break -/
def EnvClean (env : Cors.Env) : Bool :=
  echoedSettings.all (fun n => match env n with | some v => noCRLF v | none => true)

/-- hypothesis on the context of a run: clean configuration, and the two opaque clock texts
    (`Date-Unix-Epoch-Nanos`, `Last-Modified-Unix-Epoch-Nanos` values; decimal numbers in
    reality) contain no line break.  The tree, the working directory and the error text are
    arbitrary. -/
def CtxClean (ctx : Static.Ctx) : Bool := EnvClean ctx.env && noCRLF ctx.now && noCRLF ctx.mtime

/-- the method `Server::process` generates the response for: the parsed request's, `GET`
    when the read failed or nothing could be parsed -/
def requestMethod (alloc : Nat) (read : Server.ReadScript) : Bytes :=
  match read with
  | .error => ascii "GET"
  | .data d =>
    match Req.parse (Server.fillBuffer alloc d) with
    | .ok req => req.method
    | _ => ascii "GET"

section glue

private theorem noCRLF_eq : noCRLF = WireLemmas.noCRLF := rfl
private theorem validName_eq : validName = WireLemmas.validName := rfl
private theorem decimal_eq : decimal = WireLemmas.decimal := by
  funext n
  induction n using Nat.strongRecOn with
  | _ n ih =>
    rw [decimal, WireLemmas.decimal]
    split
    · rfl
    · next h => rw [ih (n / 10) (by omega)]

private theorem http11_lit : ascii "HTTP/1.1" = [72, 84, 84, 80, 47, 49, 46, 49] := by decide +kernel
private theorem head_lit : ascii "HEAD" = [72, 69, 65, 68] := by decide +kernel
private theorem options_lit : ascii "OPTIONS" = [79, 80, 84, 73, 79, 78, 83] := by decide +kernel

private theorem status_nonneg : ∀ row ∈ Gen.statusTable, 0 ≤ row.1 := by decide +kernel

private theorem wfHeaders_iff (hs : List Header) : WfHeaders hs ↔ WireLemmas.wfHeaders hs = true := by
  simp [WfHeaders, WireLemmas.wfHeaders, WireLemmas.wfHeader, noCRLF_eq, validName_eq]

private theorem wfParts_iff (ps : List ContentRange) : WfParts ps ↔ WireLemmas.wfParts ps = true := by
  simp [WfParts, WireLemmas.wfParts, WireLemmas.wfPart, noCRLF_eq]

private theorem ct_lit : Gen.respContentType = ascii "Content-Type" := by decide +kernel
private theorem cr_lit : Gen.respContentRange = ascii "Content-Range" := by decide +kernel
private theorem cl_lit : Gen.respContentLength = ascii "Content-Length" := by decide +kernel
private theorem mp_lit : Resp.multipartContentType = ascii "multipart/byteranges; boundary=String_separator" := by
  decide +kernel
private theorem bytes_lit : Gen.respBytesUnit ++ [32] = ascii "bytes " := by decide +kernel
private theorem dash_lit : ascii "-" = [45] := by decide +kernel
private theorem slash_lit : ascii "/" = [47] := by decide +kernel

/-- the model's framing headers are the ones the specification asks for -/
private theorem pairs_framing (ps : List ContentRange) : pairs (Resp.framingHeaders ps) = framing ps := by
  match ps with
  | [] => rfl
  | [c] =>
    simp only [Resp.framingHeaders, framing, pairs, List.map_cons, List.map_nil, Resp.contentRangeValue,
      ct_lit, cr_lit, cl_lit, bytes_lit, dash_lit, slash_lit, WireLemmas.natToDec_eq_decimal, decimal_eq]
  | _ :: _ :: _ =>
    simp only [Resp.framingHeaders, framing, pairs, List.map_cons, List.map_nil, ct_lit, mp_lit]

private theorem flatMap_pairs (hs : List Header) :
    hs.flatMap (fun h => h.name ++ [58, 32] ++ h.value ++ [13, 10]) = (pairs hs).flatMap headerLine := by
  induction hs with
  | nil => rfl
  | cons h t ih => simp only [List.flatMap_cons, pairs, List.map_cons, headerLine] at ih ⊢; rw [ih]

private theorem pairs_append (a b : List Header) : pairs (a ++ b) = pairs a ++ pairs b := by
  simp [pairs]

end glue

/-! ## The status table is a sane registry: every code once, three digits, a clean phrase -/

theorem C05_status_table_sane :
    (Gen.statusTable.map (·.1)).Nodup ∧
    ∀ row ∈ Gen.statusTable, 100 ≤ row.1 ∧ row.1 ≤ 599 ∧ row.2 ≠ [] ∧ noCRLF row.2 = true := by
  constructor <;> decide +kernel

/-! ## The grammar is a parser's grammar: a byte string has at most one reading -/

section unambiguous

private theorem headers_unique : ∀ (hs hs' : List (Bytes × Bytes)) (body body' : Bytes),
    (∀ h ∈ hs, validName h.1 = true ∧ noCRLF h.2 = true) →
    (∀ h ∈ hs', validName h.1 = true ∧ noCRLF h.2 = true) →
    hs.flatMap headerLine ++ 13 :: 10 :: body = hs'.flatMap headerLine ++ 13 :: 10 :: body' →
    hs = hs' ∧ body = body' := by
  intro hs
  induction hs with
  | nil =>
    intro hs' body body' _ hv' he
    cases hs' with
    | nil => simpa using he
    | cons h' t' =>
      exfalso
      obtain ⟨hne, _, h13⟩ := WireLemmas.validName_facts h'.1 (hv' h' (by simp)).1
      cases hn : h'.1 with
      | nil => exact hne hn
      | cons x xs =>
        simp only [List.flatMap_nil, List.nil_append, List.flatMap_cons, headerLine, hn, List.cons_append,
          List.cons.injEq] at he
        exact h13 (by rw [hn, ← he.1]; simp)
  | cons h t ih =>
    intro hs' body body' hv hv' he
    obtain ⟨hne, h58, h13⟩ := WireLemmas.validName_facts h.1 (hv h (by simp)).1
    cases hs' with
    | nil =>
      exfalso
      cases hn : h.1 with
      | nil => exact hne hn
      | cons x xs =>
        simp only [List.flatMap_nil, List.nil_append, List.flatMap_cons, headerLine, hn, List.cons_append,
          List.cons.injEq] at he
        exact h13 (by rw [hn, he.1]; simp)
    | cons h' t' =>
      obtain ⟨_, h58', _⟩ := WireLemmas.validName_facts h'.1 (hv' h' (by simp)).1
      have hval := WireLemmas.noCRLF_not_mem h.2 (hv h (by simp)).2
      have hval' := WireLemmas.noCRLF_not_mem h'.2 (hv' h' (by simp)).2
      simp only [List.flatMap_cons, headerLine, List.append_assoc, List.cons_append, List.nil_append] at he
      obtain ⟨e1, e2⟩ := WireLemmas.first_byte_unique 58 _ _ _ _ h58 h58' he
      simp only [List.cons.injEq, true_and] at e2
      obtain ⟨e3, e4⟩ := WireLemmas.first_byte_unique 13 _ _ _ _ hval.1 hval'.1 e2
      simp only [List.cons.injEq, true_and] at e4
      obtain ⟨e5, e6⟩ := ih t' body body' (fun x hx => hv x (by simp [hx])) (fun x hx => hv' x (by simp [hx])) e4
      exact ⟨by rw [e5, Prod.ext e1 e3], e6⟩

private theorem table_facts : ∀ row ∈ Gen.statusTable, 0 ≤ row.1 ∧ noCRLF row.2 = true := by decide +kernel

end unambiguous

/-- a byte string is a response of the strict grammar in at most one way: status, header list
    (names, values, order) and body are determined by the bytes -/
theorem C05_grammar_unambiguous (bytes : Bytes) (st st' : Int) (hs hs' : List (Bytes × Bytes)) (body body' : Bytes)
    (h : IsResponse bytes st hs body) (h' : IsResponse bytes st' hs' body') :
    st = st' ∧ hs = hs' ∧ body = body' := by
  obtain ⟨reason, hr, hv, he⟩ := h
  obtain ⟨reason', hr', hv', he'⟩ := h'
  have hE := he.symm.trans he'
  simp only [List.append_assoc, List.cons_append, List.nil_append, List.cons.injEq, true_and] at hE
  have hd := WireLemmas.noCRLF_not_mem _ (WireLemmas.decimal_noCRLF st.toNat)
  have hd' := WireLemmas.noCRLF_not_mem _ (WireLemmas.decimal_noCRLF st'.toNat)
  have hrc := WireLemmas.noCRLF_not_mem _ (table_facts _ hr).2
  have hrc' := WireLemmas.noCRLF_not_mem _ (table_facts _ hr').2
  rw [decimal_eq] at hE
  have hE2 : (WireLemmas.decimal st.toNat ++ 32 :: reason) ++ 13 :: (10 :: (hs.flatMap headerLine ++ 13 :: 10 :: body))
      = (WireLemmas.decimal st'.toNat ++ 32 :: reason') ++ 13 :: (10 :: (hs'.flatMap headerLine ++ 13 :: 10 :: body')) := by
    simpa [List.append_assoc] using hE
  have hn : (13 : UInt8) ∉ WireLemmas.decimal st.toNat ++ 32 :: reason := by
    simp only [List.mem_append, List.mem_cons, not_or]
    exact ⟨hd.1, by decide, hrc.1⟩
  have hn' : (13 : UInt8) ∉ WireLemmas.decimal st'.toNat ++ 32 :: reason' := by
    simp only [List.mem_append, List.mem_cons, not_or]
    exact ⟨hd'.1, by decide, hrc'.1⟩
  obtain ⟨e1, e2⟩ := WireLemmas.first_byte_unique 13 _ _ _ _ hn hn' hE2
  obtain ⟨e3, _⟩ := WireLemmas.first_byte_unique 32 _ _ _ _ (WireLemmas.decimal_no_blank _)
    (WireLemmas.decimal_no_blank _) e1
  have e4 := WireLemmas.decimal_injective _ _ e3
  have hst : st = st' := by
    have := (table_facts _ hr).1
    have := (table_facts _ hr').1
    omega
  simp only [List.cons.injEq, true_and] at e2
  obtain ⟨e5, e6⟩ := headers_unique hs hs' body body' hv hv' e2
  exact ⟨hst, e5, e6⟩

/-! ## Delivery: `write_all` over a transport that accepts the response in pieces -/

/-- for every byte string and every script in which each `write` call accepts at least one
    byte and none fails, the peer receives exactly the bytes, and `write_all` reports success -/
theorem C05_delivery (raw : Bytes) (script : List WCall) (hp : Progressing script = true) :
    (writeAll raw script).ok = true ∧ (writeAll raw script).received = raw :=
  WireLemmas.writeAll_progressing script raw hp

/-- whatever the transport does (failures, zero-length writes included) the peer never sees
    anything but a prefix of the response, and a reported success means complete delivery -/
theorem C05_delivery_prefix (raw : Bytes) (script : List WCall) :
    (writeAll raw script).received <+: raw ∧
    ((writeAll raw script).ok = true → (writeAll raw script).received = raw) :=
  ⟨WireLemmas.writeAll_prefix script raw, WireLemmas.writeAll_ok_received script raw⟩

/-- the behaviour before the repair F11 (a single `write` call), kept as documentation: a
    transport that accepts one byte delivers one byte and the call still reports success -/
theorem C05_write_once_violates :
    (writeOnce [72, 84, 84, 80] [.acc 1]).ok = true ∧ (writeOnce [72, 84, 84, 80] [.acc 1]).received = [72] ∧
    (writeAll [72, 84, 84, 80] [.acc 1]).received = [72, 84, 84, 80] := by decide

/-! ## Well-formedness of what the serialiser writes, for every well-formed `Response` value -/

/-- For every response value whose version is HTTP/1.1, whose (status, reason) is a row of the
    status table, whose header names are tokens and header values / part content types / part
    sizes are free of CR and LF, and for every request: the bytes of
    `Response::generate_response` are a response of the strict grammar, with exactly the
    caller's headers followed by the required framing headers, and with the body dropped for
    HEAD and OPTIONS. -/
theorem C05_wellformed (r : Response) (q : Request)
    (hv : r.version = ascii "HTTP/1.1") (hst : (r.status, r.reason) ∈ Gen.statusTable)
    (hh : WfHeaders r.headers) (hp : WfParts r.parts) :
    IsResponse (Resp.generateResponse r q) r.status (pairs r.headers ++ framing r.parts)
      (if bodiless q then [] else Resp.generateBody r.parts) := by
  refine ⟨r.reason, hst, ?_, ?_⟩
  · intro h hm
    rcases List.mem_append.mp hm with hm | hm
    · obtain ⟨x, hx, rfl⟩ := List.mem_map.mp hm
      exact hh x hx
    · rw [← pairs_framing] at hm
      obtain ⟨x, hx, rfl⟩ := List.mem_map.mp hm
      have := WireLemmas.framingHeaders_wf r.parts ((wfParts_iff _).mp hp)
      exact (wfHeaders_iff _).mpr this x hx
  · rw [WireLemmas.generateResponse_eq, WireLemmas.intToDec_nonneg _ (status_nonneg _ hst), hv, http11_lit,
      flatMap_pairs, pairs_append, pairs_framing, decimal_eq]
    simp only [bodiless, head_lit, options_lit, List.append_assoc, List.cons_append, List.nil_append]

section glue2

private theorem count_eq_map (n : Bytes) (hs : List (Bytes × Bytes)) : count n hs = (hs.map (·.1)).count n := by
  unfold count
  induction hs with
  | nil => rfl
  | cons h t ih => simp [List.countP_cons, List.count_cons, ih]

private theorem count_append (n : Bytes) (a b : List (Bytes × Bytes)) : count n (a ++ b) = count n a + count n b := by
  simp [count, List.countP_append]

private theorem framing_nodup (ps : List ContentRange) : ((framing ps).map (·.1)).Nodup := by
  match ps with
  | [] => simp [framing]
  | [c] =>
    have : [ascii "Content-Type", ascii "Content-Range", ascii "Content-Length"].Nodup := by decide +kernel
    simpa [framing] using this
  | _ :: _ :: _ => simp [framing]

private theorem count_pairs_zero (n : Bytes) (hs : List Header) (h : ∀ x ∈ hs, x.name ≠ n) : count n (pairs hs) = 0 := by
  unfold count
  rw [List.countP_eq_zero]
  intro x hx
  obtain ⟨y, hy, rfl⟩ := List.mem_map.mp hx
  simpa using h y hy

private theorem cl_ne : ascii "Content-Length" ≠ ascii "Content-Type" ∧ ascii "Content-Length" ≠ ascii "Content-Range" := by
  decide +kernel

end glue2

/-- a single part: exactly one `Content-Length` header, its value is the decimal length of
    the part's body, and that body is what follows the blank line unless the request method
    is HEAD or OPTIONS (for HEAD this is what HTTP prescribes; for OPTIONS see
    `C05_options_content_length_mismatch`) -/
theorem C05_content_length (r : Response) (q : Request) (c : ContentRange) (hparts : r.parts = [c])
    (hno : ∀ h ∈ r.headers, h.name ≠ ascii "Content-Length") :
    count (ascii "Content-Length") (pairs r.headers ++ framing r.parts) = 1 ∧
    (∀ v, (ascii "Content-Length", v) ∈ pairs r.headers ++ framing r.parts → v = decimal c.body.length) ∧
    (¬ bodiless q → (if bodiless q then [] else Resp.generateBody r.parts) = c.body) := by
  refine ⟨?_, ?_, ?_⟩
  · rw [count_append, count_pairs_zero _ _ hno, hparts]
    have h1 : (ascii "Content-Type" == ascii "Content-Length") = false := by decide +kernel
    have h2 : (ascii "Content-Range" == ascii "Content-Length") = false := by decide +kernel
    simp [count, framing, h1, h2]
  · intro v hv
    rcases List.mem_append.mp hv with hv | hv
    · obtain ⟨x, hx, he⟩ := List.mem_map.mp hv
      injection he with he1 he2
      exact absurd he1 (hno x hx)
    · rw [hparts] at hv
      simp only [framing, List.mem_cons, List.not_mem_nil, or_false, Prod.mk.injEq] at hv
      rcases hv with ⟨h, _⟩ | ⟨h, _⟩ | ⟨_, h⟩
      · exact absurd h cl_ne.1
      · exact absurd h cl_ne.2
      · exact h
  · intro hq
    rw [if_neg hq, hparts]; rfl

/-- no part or several parts: no `Content-Length` header at all (the response is framed by
    the end of the connection, which the grammar allows) -/
theorem C05_content_length_absent (r : Response) (hparts : r.parts.length ≠ 1)
    (hno : ∀ h ∈ r.headers, h.name ≠ ascii "Content-Length") :
    count (ascii "Content-Length") (pairs r.headers ++ framing r.parts) = 0 := by
  rw [count_append, count_pairs_zero _ _ hno]
  have h1 : (ascii "Content-Type" == ascii "Content-Length") = false := by decide +kernel
  match hp : r.parts, hparts with
  | [], _ => simp [count, framing]
  | [c], h => simp at h
  | _ :: _ :: _, _ => simp [count, framing, h1]

/-- responses to HEAD and OPTIONS end with the blank line: the body of the strict parse is empty -/
theorem C05_head_options_bodiless (r : Response) (q : Request)
    (hv : r.version = ascii "HTTP/1.1") (hst : (r.status, r.reason) ∈ Gen.statusTable)
    (hh : WfHeaders r.headers) (hp : WfParts r.parts) (hq : bodiless q) :
    IsResponse (Resp.generateResponse r q) r.status (pairs r.headers ++ framing r.parts) [] := by
  have := C05_wellformed r q hv hst hh hp
  rwa [if_pos hq] at this

/-- Content-Length, Content-Type and Content-Range each occur at most once when the caller's
    header list does not contain them -/
theorem C05_framing_once (r : Response) (hno : ∀ h ∈ r.headers, h.name ∉ framingNames) :
    ∀ n ∈ framingNames, count n (pairs r.headers ++ framing r.parts) ≤ 1 := by
  intro n hn
  rw [count_append, count_pairs_zero n _ (fun x hx he => hno x hx (he ▸ hn)), count_eq_map]
  have := List.nodup_iff_count.mp (framing_nodup r.parts) n
  omega

/-- FINDING (documented witness).  A one-part response to OPTIONS announces the part's length
    in `Content-Length` and sends no body: the header does not equal the number of body bytes.
    (HEAD is exempt by HTTP; OPTIONS is not.) -/
theorem C05_options_content_length_mismatch :
    let r : Response := ⟨ascii "HTTP/1.1", 200, ascii "OK", [], [⟨ascii "bytes", ⟨0, 2⟩, ascii "2", ascii "hi", ascii "text/plain"⟩]⟩
    let q : Request := ⟨ascii "OPTIONS", ascii "/", ascii "HTTP/1.1", [], []⟩
    IsResponse (Resp.generateResponse r q) 200 (framing r.parts) [] ∧
    (ascii "Content-Length", ascii "2") ∈ framing r.parts := by
  intro r q
  constructor
  · have h := C05_head_options_bodiless r q rfl (by decide +kernel) (by intro h hm; cases hm)
      (by intro c hc
          simp only [r, List.mem_singleton] at hc
          subst hc; constructor <;> decide +kernel) (Or.inr rfl)
    simpa [pairs, r] using h
  · simp only [r, framing, List.mem_cons, Prod.mk.injEq, true_and]
    right; right; left
    decide +kernel

section serverglue

private theorem echoed_eq : echoedSettings = WireLemmas.echoedVars := by decide +kernel

private theorem envClean_eq (env : Cors.Env) : EnvClean env = WireLemmas.envClean env := by
  unfold EnvClean WireLemmas.envClean
  rw [echoed_eq]
  congr 1

private theorem ctxClean_eq (ctx : Static.Ctx) : CtxClean ctx = WireLemmas.ctxClean ctx := by
  simp only [CtxClean, WireLemmas.ctxClean, envClean_eq, noCRLF_eq]

private theorem get_lit : ascii "GET" = Static.methodGet := by decide +kernel

private theorem requestMethod_eq (alloc : Nat) (read : Server.ReadScript) :
    requestMethod alloc read = WireLemmas.reqMethod alloc read := by
  unfold requestMethod WireLemmas.reqMethod
  rw [get_lit]
  cases read with
  | error => rfl
  | data d => dsimp only; cases Req.parse (Server.fillBuffer alloc d) <;> rfl

private theorem serverNames_facts : ∀ n ∈ WireLemmas.serverNames,
    validName n = true ∧ n ∈ vocabulary ∧ n ∉ framingNames := by decide +kernel

private theorem framingNames_vocab : ∀ n ∈ framingNames, n ∈ vocabulary := by decide +kernel

private theorem framing_names (ps : List ContentRange) : ∀ h ∈ framing ps, h.1 ∈ framingNames := by
  match ps with
  | [] => intro h hm; cases hm
  | [c] =>
    intro h hm
    simp only [framing, List.mem_cons, List.not_mem_nil, or_false] at hm
    rcases hm with rfl | rfl | rfl <;> simp [framingNames]
  | _ :: _ :: _ =>
    intro h hm
    simp only [framing, List.mem_cons, List.not_mem_nil, or_false] at hm
    subst hm; simp [framingNames]

/-- a response value the server builds satisfies the hypotheses of `C05_wellformed` -/
private theorem wfResp_elim (r : Response) (h : WireLemmas.WfResp r) :
    r.version = ascii "HTTP/1.1" ∧ (r.status, r.reason) ∈ Gen.statusTable ∧ WfHeaders r.headers ∧
    WfParts r.parts ∧ (∀ x ∈ r.headers, x.name ∉ framingNames) ∧
    (∀ x ∈ pairs r.headers ++ framing r.parts, x.1 ∈ vocabulary) := by
  refine ⟨by rw [h.version, http11_lit]; rfl, h.status, ?_, (wfParts_iff _).mpr h.parts, ?_, ?_⟩
  · intro x hx
    exact ⟨(serverNames_facts _ (h.names x hx)).1, by rw [noCRLF_eq]; exact h.values x hx⟩
  · intro x hx
    exact (serverNames_facts _ (h.names x hx)).2.2
  · intro x hx
    rcases List.mem_append.mp hx with hx | hx
    · obtain ⟨y, hy, rfl⟩ := List.mem_map.mp hx
      exact (serverNames_facts _ (h.names y hy)).2.1
    · exact framingNames_vocab _ (framing_names _ x hx)

end serverglue

/-! ## No header injection: what the request parser lets through, what lower-casing does -/

/-- every header the request parser returns has a name and a value free of CR and LF,
    whatever bytes the client sent -/
theorem C05_request_headers_clean (bytes : Bytes) (r : Request) (h : Req.parse bytes = .ok r) :
    ∀ x ∈ r.headers, noCRLF x.name = true ∧ noCRLF x.value = true :=
  WireLemmas.parse_clean bytes r h

/-- Rust `str::to_lowercase` (full Unicode, Final_Sigma included) never produces a CR or LF
    from a text that has none -/
theorem C05_lowercase_clean (s : Bytes) (h : noCRLF s = true) : noCRLF (Unicode.toLowercase s) = true :=
  WireLemmas.toLowercase_noCRLF s h

/-- every CORS grant value is free of CR and LF for a clean configuration and ANY parsed
    request: the echoed `Origin`, `Access-Control-Request-Method` and (lower-cased)
    `Access-Control-Request-Headers` cannot split a header line -/
theorem C05_cors_values_clean (env : Cors.Env) (bytes : Bytes) (req : Request) (hs : List Header)
    (he : EnvClean env = true) (hp : Req.parse bytes = .ok req) (h : Cors.getHeaders env req = .ok hs) :
    ∀ x ∈ hs, noCRLF x.value = true :=
  WireLemmas.getHeaders_values env req hs (by rw [← envClean_eq]; exact he) (WireLemmas.parse_clean bytes req hp) h

/-- the hypothesis on the configuration is needed: a line break in
    `RWS_CONFIG_CORS_ALLOW_METHODS` (operator-supplied, not client-supplied) is copied into the
    `Access-Control-Allow-Methods` value of a preflight answer -/
theorem C05_env_crlf_violates :
    let env := Cors.envOf [(ascii "RWS_CONFIG_CORS_ALLOW_ALL", ascii "false"),
      (ascii "RWS_CONFIG_CORS_ALLOW_ORIGINS", ascii "http://a"),
      (ascii "RWS_CONFIG_CORS_ALLOW_METHODS", ascii "GET\r\nX-Evil: 1")]
    let req : Request := ⟨ascii "OPTIONS", ascii "/", ascii "HTTP/1.1", [⟨ascii "Origin", ascii "http://a"⟩], []⟩
    EnvClean env = false ∧
    Cors.getHeaders env req = .ok [⟨ascii "Access-Control-Allow-Origin", ascii "http://a"⟩,
      ⟨ascii "Access-Control-Allow-Methods", ascii "GET\r\nX-Evil: 1"⟩] := by
  decide +kernel

/-- the header list every response starts from, and the one extra header a controller may
    push, never contain a framing header name: for every environment, clock and request -/
theorem C05_header_list_no_framing (env : Cors.Env) (now mtime : Bytes) (req : Request) (hs : List Header)
    (h : HeaderList.getHeaderList env now req = .ok hs) :
    ∀ x ∈ hs ++ [⟨ascii "Last-Modified-Unix-Epoch-Nanos", mtime⟩], x.name ∉ framingNames ∧ x.name ∈ vocabulary := by
  unfold HeaderList.getHeaderList at h
  cases hc : Cors.getHeaders env req with
  | err => rw [hc] at h; cases h
  | panic s => rw [hc] at h; cases h
  | ok cors =>
    rw [hc] at h
    injection h with h; subst h
    have hg : ∀ n ∈ C11.grantNames, n ∉ framingNames ∧ n ∈ vocabulary := by decide +kernel
    have hf : ∀ n ∈ (HeaderList.fixedHeaders []).map (·.name) ++ [ascii "Last-Modified-Unix-Epoch-Nanos"],
        n ∉ framingNames ∧ n ∈ vocabulary := by decide +kernel
    intro x hx
    simp only [List.append_assoc, List.mem_append] at hx
    rcases hx with hx | hx | hx
    · exact hg _ (C11.C11_names env req cors hc x hx)
    · refine hf _ (List.mem_append_left _ ?_)
      simp only [HeaderList.fixedHeaders, List.mem_cons, List.not_mem_nil, or_false] at hx
      rcases hx with rfl | rfl | rfl | rfl | rfl | rfl | rfl | rfl <;> simp [HeaderList.fixedHeaders]
    · simp only [List.mem_singleton] at hx
      subst hx
      exact hf _ (List.mem_append_right _ (by simp))

/-! ## The server-level lift -/

/-- **Delivery, server level.**  For every context, application, buffer size, read outcome
    and every transport script in which each `write` call accepts at least one byte and none
    fails, with a working `flush`: the peer receives exactly the one response — the bytes the
    first `write` call was handed, which are the bytes an all-accepting transport receives —
    and the stream is flushed once. -/
theorem C05_server_delivery (ctx : Static.Ctx) (app : Server.App) (alloc : Nat) (read : Server.ReadScript)
    (script : List WCall) (o : Server.Outcome2) (hp : Progressing script = true)
    (h : Server.process ctx app alloc read script true = .ok o) :
    ∃ o0, Server.process ctx app alloc read [] true = .ok o0 ∧
      o.wire.received = o0.wire.received ∧ o.wire.flushes = 1 ∧
      (∀ w rest, o.wire.writes = w :: rest → w = o.wire.received) := by
  obtain ⟨r, q, _, _, hall⟩ := WireLemmas.process_sends ctx app alloc read script true o h
  obtain ⟨o1, h1, hw1⟩ := hall script true
  obtain ⟨o0, h0, hw0⟩ := hall [] true
  rw [h] at h1
  injection h1 with h1; subst h1
  obtain ⟨hok, hrecv⟩ := C05_delivery (Resp.generateResponse r q) script hp
  refine ⟨o0, h0, ?_, ?_, ?_⟩
  · rw [hw1, hw0]; simp [Server.send, hrecv, writeAll]
  · rw [hw1]; simp [Server.send, hok]
  · intro w rest hw
    rw [hw1] at hw ⊢
    have := WireLemmas.send_writes _ w script true rest hw
    rw [this]; simp [Server.send, hrecv]

/-- whatever the transport does (short writes, zero-length writes, failures at any call,
    failing flush), the peer never holds anything but a prefix of the one response -/
theorem C05_server_prefix (ctx : Static.Ctx) (app : Server.App) (alloc : Nat) (read : Server.ReadScript)
    (script : List WCall) (flushOk : Bool) (o : Server.Outcome2)
    (h : Server.process ctx app alloc read script flushOk = .ok o) :
    ∃ o0, Server.process ctx app alloc read [] true = .ok o0 ∧ o.wire.received <+: o0.wire.received := by
  obtain ⟨r, q, _, _, hall⟩ := WireLemmas.process_sends ctx app alloc read script flushOk o h
  obtain ⟨o1, h1, hw1⟩ := hall script flushOk
  obtain ⟨o0, h0, hw0⟩ := hall [] true
  rw [h] at h1
  injection h1 with h1; subst h1
  refine ⟨o0, h0, ?_⟩
  rw [hw1, hw0]
  simpa [Server.send, writeAll] using (C05_delivery_prefix (Resp.generateResponse r q) script).1

/-- **C05, server level.**  For every context with a clean configuration and clean clock
    texts (tree, working directory and error text arbitrary), every application (the real
    controller chain, a failing handler, the empty handler), every buffer size, every read
    outcome — i.e. EVERY client byte string —, every transport script and flush result: the
    buffer `Server::process` hands to its first `write` call is a response of the strict grammar;
    its header names all belong to the server's vocabulary; Content-Length, Content-Type and
    Content-Range occur at most once; the body is empty when the method is HEAD or OPTIONS; and
    for every other method a Content-Length header, when present, is the decimal number of body
    bytes. -/
theorem C05_server_wellformed (ctx : Static.Ctx) (app : Server.App) (alloc : Nat) (read : Server.ReadScript)
    (script : List WCall) (flushOk : Bool) (o : Server.Outcome2) (raw : Bytes) (rest : List Bytes)
    (hc : CtxClean ctx = true)
    (h : Server.process ctx app alloc read script flushOk = .ok o) (hw : o.wire.writes = raw :: rest) :
    ∃ st hs body, IsResponse raw st hs body ∧
      (∀ x ∈ hs, x.1 ∈ vocabulary) ∧
      (∀ n ∈ framingNames, count n hs ≤ 1) ∧
      (requestMethod alloc read = ascii "HEAD" ∨ requestMethod alloc read = ascii "OPTIONS" → body = []) ∧
      (¬ (requestMethod alloc read = ascii "HEAD" ∨ requestMethod alloc read = ascii "OPTIONS") →
        ∀ v, (ascii "Content-Length", v) ∈ hs → v = decimal body.length) := by
  obtain ⟨r, q, hq, hwf, hall⟩ := WireLemmas.process_sends ctx app alloc read script flushOk o h
  obtain ⟨o1, h1, hw1⟩ := hall script flushOk
  rw [h] at h1
  injection h1 with h1; subst h1
  rw [hw1] at hw
  have hraw := WireLemmas.send_writes _ raw script flushOk rest hw
  obtain ⟨hv, hst, hh, hp, hno, hvoc⟩ := wfResp_elim r (hwf (by rw [← ctxClean_eq]; exact hc))
  have hbl : bodiless q ↔ (requestMethod alloc read = ascii "HEAD" ∨ requestMethod alloc read = ascii "OPTIONS") := by
    rw [requestMethod_eq, ← hq]; rfl
  refine ⟨r.status, pairs r.headers ++ framing r.parts, _, hraw ▸ C05_wellformed r q hv hst hh hp, hvoc,
    C05_framing_once r hno, ?_, ?_⟩
  · intro hm
    rw [if_pos (hbl.mpr hm)]
  · intro hm v hmem
    have hnb : ¬ bodiless q := fun hb => hm (hbl.mp hb)
    rw [if_neg hnb]
    -- a Content-Length header can only be the framing header of a single part
    have hnocl : ∀ x ∈ r.headers, x.name ≠ ascii "Content-Length" := by
      intro x hx he
      exact hno x hx (by rw [he]; simp [framingNames])
    match hparts : r.parts with
    | [c] =>
      obtain ⟨_, hval, hbody⟩ := C05_content_length r q c hparts hnocl
      rw [hparts] at hmem
      have := hval v (by rw [hparts]; exact hmem)
      have hb := hbody hnb
      rw [if_neg hnb, hparts] at hb
      rw [this, hb]
    | [] =>
      exfalso
      have := C05_content_length_absent r (by rw [hparts]; simp) hnocl
      rw [count, List.countP_eq_zero] at this
      exact this _ hmem (by simp)
    | _ :: _ :: _ =>
      exfalso
      have := C05_content_length_absent r (by rw [hparts]; simp) hnocl
      rw [count, List.countP_eq_zero] at this
      exact this _ hmem (by simp)

/-- **No injection.**  Under the hypotheses of `C05_server_wellformed`, EVERY strict reading of
    the emitted bytes has header names from the server's fixed vocabulary only and values
    without line breaks: whatever the client put into `Origin`, `Access-Control-Request-*`,
    `Range`, `Content-Type` …, it can neither add nor split a header line. -/
theorem C05_no_injection (ctx : Static.Ctx) (app : Server.App) (alloc : Nat) (read : Server.ReadScript)
    (script : List WCall) (flushOk : Bool) (o : Server.Outcome2) (raw : Bytes) (rest : List Bytes)
    (hc : CtxClean ctx = true)
    (h : Server.process ctx app alloc read script flushOk = .ok o) (hw : o.wire.writes = raw :: rest)
    (st : Int) (hs : List (Bytes × Bytes)) (body : Bytes) (hparse : IsResponse raw st hs body) :
    ∀ x ∈ hs, x.1 ∈ vocabulary ∧ noCRLF x.2 = true := by
  obtain ⟨st', hs', body', hresp, hvoc, _⟩ := C05_server_wellformed ctx app alloc read script flushOk o raw rest hc h hw
  obtain ⟨_, e, _⟩ := C05_grammar_unambiguous raw st st' hs hs' body body' hparse hresp
  subst e
  obtain ⟨_, _, hv, _⟩ := hparse
  intro x hx
  exact ⟨hvoc x hx, (hv x hx).2⟩

/-! ## Non-vacuity: every hypothesis is satisfied by concrete, non-trivial inputs -/

section examples

/-- a working directory `/srv` holding `a.txt`, no CORS configuration, decimal clock texts,
    an error text that itself contains a line break -/
def exCtx : Static.Ctx :=
  { tree := ⟨[([ascii "srv", ascii "a.txt"], .file (ascii "hello"))]⟩,
    cwd := ascii "/srv",
    env := Cors.envOf [],
    now := ascii "1790516191431997108",
    mtime := ascii "1790516191000000000",
    errText := ascii "bad\r\nrequest" }

/-- a restrictive configuration with every echoed variable set -/
def exCtxConfigured : Static.Ctx :=
  { exCtx with env := Cors.envOf [
      (ascii "RWS_CONFIG_CORS_ALLOW_ALL", ascii "false"),
      (ascii "RWS_CONFIG_CORS_ALLOW_ORIGINS", ascii "http://a"),
      (ascii "RWS_CONFIG_CORS_ALLOW_METHODS", ascii "GET,POST"),
      (ascii "RWS_CONFIG_CORS_ALLOW_HEADERS", ascii "X-Custom-" ++ [195, 137]),   -- "X-Custom-É" in UTF-8
      (ascii "RWS_CONFIG_CORS_EXPOSE_HEADERS", ascii "X-Other"),
      (ascii "RWS_CONFIG_CORS_MAX_AGE", ascii "600")] }

/-- a request whose `Origin` value carries a bare CR followed by a would-be header -/
def exHostile : Bytes := ascii "GET /a.txt HTTP/1.1\r\nOrigin: http://a\rX-Evil: 1\r\n\r\n"

/-- a preflight with a line feed inside `Access-Control-Request-Headers` -/
def exPreflight : Bytes :=
  ascii "OPTIONS /a.txt HTTP/1.1\r\nOrigin: http://a\r\nAccess-Control-Request-Headers: X-A\nX-Evil: 1\r\n\r\n"

-- `Progressing`: a script that accepts 1, then 7, then 2 bytes per call (then everything)
example : Progressing [.acc 1, .acc 7, .acc 2] = true ∧
    (writeAll (ascii "HTTP/1.1 200 OK") [.acc 1, .acc 7, .acc 2]).calls = 4 := by decide +kernel

-- the hypotheses of `C05_wellformed`: a 206 answer with two caller headers and one part
example : let r : Response := ⟨ascii "HTTP/1.1", 206, ascii "Partial Content",
      [⟨ascii "Vary", ascii "Origin"⟩, ⟨ascii "Accept-Ranges", ascii "bytes"⟩],
      [⟨ascii "bytes", ⟨2, 3⟩, ascii "5", ascii "ll", ascii "text/plain"⟩]⟩
    r.version = ascii "HTTP/1.1" ∧ (r.status, r.reason) ∈ Gen.statusTable ∧
    (∀ h ∈ r.headers, validName h.name = true ∧ noCRLF h.value = true ∧ h.name ∉ framingNames) ∧
    (∀ c ∈ r.parts, noCRLF c.contentType = true ∧ noCRLF c.size = true) := by decide +kernel

-- `bodiless` / not `bodiless`
example : bodiless ⟨ascii "HEAD", ascii "/", ascii "HTTP/1.1", [], []⟩ ∧
    ¬ bodiless ⟨ascii "GET", ascii "/", ascii "HTTP/1.1", [], []⟩ := by decide +kernel

-- `CtxClean` holds for both contexts (the error text may contain line breaks: it is body only)
example : CtxClean exCtx = true ∧ CtxClean exCtxConfigured = true ∧ noCRLF exCtx.errText = false := by
  decide +kernel

-- the hypotheses of `C05_server_wellformed` / `C05_no_injection` / `C05_server_delivery` on the
-- hostile request over a transport that accepts 1 byte, then 7, then the rest: the run
-- succeeds, three `write` calls are made, the peer has all 1146 bytes, and the echoed Origin
-- is one line
example : (match Server.process exCtx .real 100 (.data exHostile) [.acc 1, .acc 7] true with
    | .ok o => o.wire.writes.length == 3 && o.wire.received.length == 1146 && o.wire.flushes == 1 &&
        o.wire.writes.head? == some o.wire.received &&
        containsSub o.wire.received
          (ascii "\r\nAccess-Control-Allow-Origin: http://aX-Evil: 1\r\nAccess-Control-Allow-Credentials")
    | _ => false) = true := by decide +kernel

-- the preflight against the restrictive configuration (non-ASCII configured header name,
-- lower-cased by the full Unicode rule), and the 400 answers to garbage and to a failed read
example : (match Server.process exCtxConfigured .real 200 (.data exPreflight) [] true with
    | .ok o => o.wire.writes.length == 1 &&
        containsSub o.wire.received
          (ascii "\r\nAccess-Control-Allow-Headers: x-custom-" ++ [195, 169] ++ ascii "\r\n")   -- "é"
    | _ => false) = true := by decide +kernel

example : (match Server.process exCtx .real 64 (.data (ascii "\r\n\x00garbage")) [.acc 3] true,
      Server.process exCtx .fails 64 .error [] false with
    | .ok o, .ok o' => o.wire.writes.length == 2 && o'.wire.writes.length == 1 &&
        (ascii "HTTP/1.1 400 Bad Request\r\n").isPrefixOf o.wire.received
    | _, _ => false) = true := by decide +kernel

end examples

/-- FINDING, server level: `OPTIONS /` is answered `200 OK` with `Content-Length: 2668` (the
    length of the embedded index page) and no body bytes at all. -/
theorem C05_options_content_length_mismatch_server :
    (match Server.process exCtx .real 100 (.data (ascii "OPTIONS / HTTP/1.1\r\n\r\n")) [] true with
     | .ok o =>
       o.wire.writes == [o.wire.received] && (ascii "HTTP/1.1 200 OK\r\n").isPrefixOf o.wire.received &&
       (ascii "\r\nContent-Length: 2668\r\n\r\n").isSuffixOf o.wire.received
     | _ => false) = true := by decide +kernel

end Rws.C05
