/-
  C18 — Base64 conforms to RFC 4648 and round-trips.
  Property theorems only (helper lemmas: RwsProofs/Lemmas/U8.lean and the `private`
  section below).  Model: Rws/Base64.lean over the alphabet regenerated from the source.
-/
import Rws.Base64
import RwsProofs.Lemmas.U8
namespace Rws.C18
open Rws Rws.Base64

/-! ## The specification, written independently of the code: RFC 4648 section 4 -/

/-- RFC 4648 Table 1, written out literally (NOT taken from the source) -/
def specAlphabet : List Char :=
  "ABCDEFGHIJKLMNOPQRSTUVWXYZabcdefghijklmnopqrstuvwxyz0123456789+/".toList

/-- the character for the 6-bit group `n mod 64` -/
def sx (n : Nat) : Char := specAlphabet.getD (n % 64) 'A'

/-- 24-bit groups, big-endian, split into four 6-bit groups; `=` padding for short tails -/
def rfc4648 : Bytes → List Char
  | [] => []
  | [a] =>
    let n := a.toNat * 65536
    [sx (n / 262144), sx (n / 4096), '=', '=']
  | [a, b] =>
    let n := a.toNat * 65536 + b.toNat * 256
    [sx (n / 262144), sx (n / 4096), sx (n / 64), '=']
  | a :: b :: c :: rest =>
    let n := a.toNat * 65536 + b.toNat * 256 + c.toNat
    [sx (n / 262144), sx (n / 4096), sx (n / 64), sx n] ++ rfc4648 rest

/-! ## helper lemmas -/
section helpers

private theorem numToChar_eq : ∀ s : UInt8, s.toNat < 64 → numToChar s = .ok (sx s.toNat) :=
  U8.forall_lt 64 _ (by decide +kernel)

private theorem charToNum_sx : ∀ i : Fin 64, charToNum (sx i.val) = .ok (UInt8.ofNat i.val) := by
  decide +kernel

private theorem charToNum_sx' (n : Nat) : charToNum (sx n) = .ok (UInt8.ofNat (n % 64)) := by
  have := charToNum_sx ⟨n % 64, Nat.mod_lt _ (by decide)⟩
  simpa [sx] using this

private theorem sx_ne_eq : ∀ i : Fin 64, (sx i.val == '=') = false := by decide +kernel
private theorem sx_ne_eq' (n : Nat) : (sx n == '=') = false := by
  have := sx_ne_eq ⟨n % 64, Nat.mod_lt _ (by decide)⟩
  simpa [sx] using this

private theorem sx_ascii : ∀ i : Fin 64,
    (charAsU8 (sx i.val) ≥ 128) = false ∧ u8AsChar (charAsU8 (sx i.val)) = sx i.val ∧
    (sx i.val).utf8Size = 1 := by decide +kernel
private theorem sx_ascii' (n : Nat) :
    (decide (charAsU8 (sx n) ≥ 128)) = false ∧ u8AsChar (charAsU8 (sx n)) = sx n ∧ (sx n).utf8Size = 1 := by
  have := sx_ascii ⟨n % 64, Nat.mod_lt _ (by decide)⟩
  simpa [sx] using this

private theorem eq_ascii : (decide (charAsU8 '=' ≥ 128)) = false ∧ u8AsChar (charAsU8 '=') = '=' ∧
    ('=' : Char).utf8Size = 1 := by decide +kernel

private theorem charToNum_eq : charToNum '=' = .err := by decide +kernel

private theorem u8_eq_of_toNat {x y : UInt8} (h : x.toNat = y.toNat) : x = y := UInt8.toNat_inj.mp h

private theorem ofNat_toNat_lt (n : Nat) (h : n < 256) : (UInt8.ofNat n).toNat = n := by
  simp [UInt8.toNat_ofNat', Nat.mod_eq_of_lt h]

end helpers

/-! ## encoder = specification -/

private theorem encodeSeq1 (a : UInt8) : encodeSeq [a] = .ok (rfc4648 [a]) := by
  have ha := UInt8.toNat_lt a
  have h0 : (a >>> 2).toNat < 64 := by rw [U8.shr2]; omega
  have h3 : (a &&& 3).toNat < 4 := by rw [U8.and3]; omega
  have h1 : ((a &&& 3) <<< 4).toNat < 64 := by rw [U8.shl4_lt4 _ h3]; omega
  simp only [encodeSeq, numToChar_eq _ h0, numToChar_eq _ h1, rfc4648, U8.shr2, U8.shl4_lt4 _ h3, U8.and3]
  have e0 : sx (a.toNat / 4) = sx (a.toNat * 65536 / 262144) := by congr 1; omega
  have e1 : sx (a.toNat % 4 * 16) = sx (a.toNat * 65536 / 4096) := by
    unfold sx; congr 1; omega
  rw [e0, e1]

private theorem encodeSeq2 (a b : UInt8) : encodeSeq [a, b] = .ok (rfc4648 [a, b]) := by
  have ha := UInt8.toNat_lt a
  have hb := UInt8.toNat_lt b
  have h0 : (a >>> 2).toNat < 64 := by rw [U8.shr2]; omega
  have h3 : (a &&& 3).toNat < 4 := by rw [U8.and3]; omega
  have h4 : (b >>> 4).toNat < 16 := by rw [U8.shr4]; omega
  have h15 : (b &&& 15).toNat < 16 := by rw [U8.and15]; omega
  have h1 : (((a &&& 3) <<< 4) ||| (b >>> 4)).toNat < 64 := by rw [U8.shl4_or _ _ h3 h4]; omega
  have h2 : ((b &&& 15) <<< 2).toNat < 64 := by rw [U8.shl2_lt16 _ h15]; omega
  simp only [encodeSeq, numToChar_eq _ h0, numToChar_eq _ h1, numToChar_eq _ h2, rfc4648,
    U8.shr2, U8.shl4_or _ _ h3 h4, U8.shl2_lt16 _ h15, U8.and3, U8.and15, U8.shr4]
  have e0 : sx (a.toNat / 4) = sx ((a.toNat * 65536 + b.toNat * 256) / 262144) := by congr 1; omega
  have e1 : sx (a.toNat % 4 * 16 + b.toNat / 16) = sx ((a.toNat * 65536 + b.toNat * 256) / 4096) := by
    unfold sx; congr 1; omega
  have e2 : sx (b.toNat % 16 * 4) = sx ((a.toNat * 65536 + b.toNat * 256) / 64) := by
    unfold sx; congr 1; omega
  rw [e0, e1, e2]

private theorem encodeSeq3 (a b c : UInt8) :
    encodeSeq [a, b, c] = .ok (rfc4648 [a, b, c]) := by
  have ha := UInt8.toNat_lt a
  have hb := UInt8.toNat_lt b
  have hc := UInt8.toNat_lt c
  have h0 : (a >>> 2).toNat < 64 := by rw [U8.shr2]; omega
  have h3 : (a &&& 3).toNat < 4 := by rw [U8.and3]; omega
  have h4 : (b >>> 4).toNat < 16 := by rw [U8.shr4]; omega
  have h15 : (b &&& 15).toNat < 16 := by rw [U8.and15]; omega
  have h6 : ((c &&& 192) >>> 6).toNat < 4 := by rw [U8.and192shr6]; omega
  have h1 : (((a &&& 3) <<< 4) ||| (b >>> 4)).toNat < 64 := by rw [U8.shl4_or _ _ h3 h4]; omega
  have h2 : (((b &&& 15) <<< 2) ||| ((c &&& 192) >>> 6)).toNat < 64 := by
    rw [U8.shl2_or _ _ h15 h6]; omega
  have h63 : (c &&& 63).toNat < 64 := by rw [U8.and63]; omega
  simp only [encodeSeq, numToChar_eq _ h0, numToChar_eq _ h1, numToChar_eq _ h2, numToChar_eq _ h63,
    rfc4648, U8.shr2, U8.shl4_or _ _ h3 h4, U8.shl2_or _ _ h15 h6, U8.and3, U8.and15, U8.shr4,
    U8.and192shr6, U8.and63, List.append_nil]
  have e0 : sx (a.toNat / 4) = sx ((a.toNat * 65536 + b.toNat * 256 + c.toNat) / 262144) := by
    congr 1; omega
  have e1 : sx (a.toNat % 4 * 16 + b.toNat / 16)
      = sx ((a.toNat * 65536 + b.toNat * 256 + c.toNat) / 4096) := by unfold sx; congr 1; omega
  have e2 : sx (b.toNat % 16 * 4 + c.toNat / 64)
      = sx ((a.toNat * 65536 + b.toNat * 256 + c.toNat) / 64) := by unfold sx; congr 1; omega
  have e3 : sx (c.toNat % 64) = sx (a.toNat * 65536 + b.toNat * 256 + c.toNat) := by
    unfold sx; congr 1; omega
  rw [e0, e1, e2, e3]

/-- **C18 (a)** — for every byte string the encoder produces exactly the RFC 4648 text. -/
theorem C18_rfc (bs : Bytes) : encode bs = .ok (rfc4648 bs) := by
  fun_induction encode bs with
  | case1 => rfl
  | case2 a => exact encodeSeq1 a
  | case3 a b => exact encodeSeq2 a b
  | case4 a b c rest s hs r hr ih =>
    rw [encodeSeq3] at hs; cases hs
    rw [ih] at hr; cases hr
    simp [rfc4648]
  | case5 a b c rest s hs hne ih =>
    rw [ih] at hne; exact absurd rfl (hne _)
  | case6 a b c rest hne =>
    rw [encodeSeq3] at hne; exact absurd rfl (hne _)

/-! ## decoder inverts the specification text -/

private theorem decodeChunk4 (p q r t : Nat) :
    decodeChunk [sx p, sx q, sx r, sx t] =
      .ok [((UInt8.ofNat (p % 64)) <<< 2) ||| ((UInt8.ofNat (q % 64)) >>> 4),
           ((60 &&& UInt8.ofNat (r % 64)) >>> 2) ||| ((UInt8.ofNat (q % 64) &&& 15) <<< 4),
           ((UInt8.ofNat (r % 64) &&& 3) <<< 6) ||| (UInt8.ofNat (t % 64) &&& 63)] := by
  simp [decodeChunk, decodeSeq, sx_ascii', sx_ne_eq', charToNum_sx', List.count_cons]

private theorem decodeChunk3 (p q r : Nat) :
    decodeChunk [sx p, sx q, sx r, '='] =
      .ok [((UInt8.ofNat (p % 64)) <<< 2) ||| ((UInt8.ofNat (q % 64)) >>> 4),
           ((60 &&& UInt8.ofNat (r % 64)) >>> 2) ||| ((UInt8.ofNat (q % 64) &&& 15) <<< 4)] := by
  simp [decodeChunk, decodeSeq, sx_ascii', eq_ascii, sx_ne_eq', charToNum_sx', List.count_cons]

private theorem decodeChunk2 (p q : Nat) :
    decodeChunk [sx p, sx q, '=', '='] =
      .ok [((UInt8.ofNat (p % 64)) <<< 2) ||| ((UInt8.ofNat (q % 64)) >>> 4)] := by
  simp [decodeChunk, decodeSeq, sx_ascii', eq_ascii, sx_ne_eq', charToNum_sx', List.count_cons]

private theorem m64 (n : Nat) : (UInt8.ofNat (n % 64)).toNat = n % 64 :=
  ofNat_toNat_lt _ (by omega)

private theorem quartet (a b c : UInt8) :
    let n := a.toNat * 65536 + b.toNat * 256 + c.toNat
    (((UInt8.ofNat (n / 262144 % 64)) <<< 2) ||| ((UInt8.ofNat (n / 4096 % 64)) >>> 4) = a) ∧
    (((60 &&& UInt8.ofNat (n / 64 % 64)) >>> 2) ||| ((UInt8.ofNat (n / 4096 % 64) &&& 15) <<< 4) = b) ∧
    (((UInt8.ofNat (n / 64 % 64) &&& 3) <<< 6) ||| (UInt8.ofNat (n % 64) &&& 63) = c) := by
  intro n
  have ha := UInt8.toNat_lt a
  have hb := UInt8.toNat_lt b
  have hc := UInt8.toNat_lt c
  refine ⟨u8_eq_of_toNat ?_, u8_eq_of_toNat ?_, u8_eq_of_toNat ?_⟩
  · rw [U8.dec0 _ _ (by rw [m64]; omega) (by rw [m64]; omega), m64, m64]; omega
  · rw [U8.dec1 _ _ (by rw [m64]; omega) (by rw [m64]; omega), m64, m64]; omega
  · rw [U8.dec2 _ _ (by rw [m64]; omega) (by rw [m64]; omega), m64, m64]; omega

private theorem utf8Len_rfc (bs : Bytes) : utf8Len (rfc4648 bs) = (rfc4648 bs).length := by
  fun_induction rfc4648 bs <;> simp_all [utf8Len, sx_ascii', eq_ascii] <;> omega

private theorem decodeLoop_cons4 (x0 x1 x2 x3 : Char) (r : List Char) (m : Nat) :
    decodeLoop (x0 :: x1 :: x2 :: x3 :: r) (4 + m) =
      match decodeChunk [x0, x1, x2, x3] with
      | .ok bs => (match decodeLoop r m with
          | .ok r' => .ok (bs ++ r')
          | e => e)
      | e => e := by
  rw [decodeLoop]
  have : min 4 (4 + m) = 4 := by omega
  have h2 : ¬ (r.length + 1 + 1 + 1 + 1 < 4) := by omega
  simp [this, h2]
  cases decodeChunk [x0, x1, x2, x3] with
  | ok bs => cases decodeLoop r m <;> rfl
  | err => rfl
  | panic s => rfl

private theorem decodeLoop_rfc (bs : Bytes) :
    decodeLoop (rfc4648 bs) (rfc4648 bs).length = .ok bs := by
  fun_induction rfc4648 bs with
  | case1 => rw [decodeLoop]; simp
  | case2 a =>
    have h := quartet a 0 0
    simp only [List.length_cons, List.length_nil]
    rw [show (0 + 1 + 1 + 1 + 1 : Nat) = 4 + 0 from rfl, decodeLoop_cons4, decodeChunk2]
    simp only [UInt8.toNat_zero, Nat.zero_mul, Nat.add_zero] at h
    rw [decodeLoop]; simp
    exact h.1
  | case3 a b =>
    have h := quartet a b 0
    simp only [List.length_cons, List.length_nil]
    rw [show (0 + 1 + 1 + 1 + 1 : Nat) = 4 + 0 from rfl, decodeLoop_cons4, decodeChunk3]
    simp only [UInt8.toNat_zero, Nat.add_zero] at h
    rw [decodeLoop]; simp
    exact ⟨h.1, h.2.1⟩
  | case4 a b c rest n ih =>
    have h := quartet a b c
    simp only [List.cons_append, List.nil_append, List.length_cons]
    rw [show ((rfc4648 rest).length + 1 + 1 + 1 + 1 : Nat) = 4 + (rfc4648 rest).length by omega,
      decodeLoop_cons4, decodeChunk4, ih]
    simp
    exact ⟨h.1, h.2.1, h.2.2⟩

/-- **C18 (b)** — decoding the text the encoder produced returns the original bytes,
    for every byte string. -/
theorem C18_roundtrip (bs : Bytes) : (encode bs).bind decode = .ok bs := by
  rw [C18_rfc, Outcome.bind_ok, decode]
  split
  · rename_i h
    have : bs = [] := by
      cases bs with
      | nil => rfl
      | cons a t =>
        exfalso
        match t with
        | [] => simp [rfc4648] at h
        | [_] => simp [rfc4648] at h
        | _ :: _ :: _ => simp [rfc4648] at h
    subst this; rfl
  · rw [utf8Len_rfc, decodeLoop_rfc]

/-! ## decoder rejects text with a character outside the alphabet -/

/-- the alphabet the code uses (regenerated from the source) is RFC 4648's Table 1 -/
theorem C18_alphabet : Gen.base64Alphabet = specAlphabet := by decide +kernel

private theorem charToNum_err (x : Char) (h : x ∉ Gen.base64Alphabet) : charToNum x = .err := by
  unfold charToNum
  have : (Gen.base64Alphabet.zipIdx.reverse.find? (fun p => p.1 = x)) = none := by
    rw [List.find?_eq_none]
    intro p hp
    have hp' : p ∈ Gen.base64Alphabet.zipIdx := List.mem_reverse.mp hp
    have : p.1 ∈ Gen.base64Alphabet := by
      have := List.mem_zipIdx hp'
      simp at this
      exact this.2 ▸ List.getElem_mem _
    intro he
    simp at he
    exact h (he ▸ this)
  rw [this]

/-- a character the decoder must reject: outside the alphabet and not the padding sign -/
def Bad (c : Char) : Prop := c ∉ specAlphabet ∧ c ≠ '='

private theorem charToNum_bad {c : Char} (h : Bad c) : charToNum c = .err :=
  charToNum_err c (C18_alphabet ▸ h.1)

private theorem charToNum_eq' : charToNum '=' = .err := charToNum_eq

/-- `decode_sequence` never accepts a chunk of at most four characters that contains a bad
    character (with three or more `=` it now reports an error: F23). -/
private theorem decodeSeq_bad (cs : List Char) (hl : cs.length ≤ 4) (c : Char) (hc : c ∈ cs)
    (hb : Bad c) : decodeSeq cs = .err := by
  have hbe : charToNum c = .err := charToNum_bad hb
  have hne : c ≠ '=' := hb.2
  match cs, hl with
  | [], _ => simp at hc
  | [x0], _ =>
    simp at hc; subst hc
    simp [decodeSeq, List.count_cons, hne]
  | [x0, x1], _ =>
    by_cases e0 : x0 = '=' <;> by_cases e1 : x1 = '=' <;>
      simp [decodeSeq, List.count_cons, e0, e1, charToNum_eq']
  | [x0, x1, x2], _ =>
    by_cases e0 : x0 = '=' <;> by_cases e1 : x1 = '=' <;> by_cases e2 : x2 = '=' <;>
      simp [decodeSeq, List.count_cons, e0, e1, e2, charToNum_eq']
    all_goals (
      simp at hc
      rcases hc with h | h | h <;> subst h <;> simp_all)
  | [x0, x1, x2, x3], _ =>
    by_cases e0 : x0 = '=' <;> by_cases e1 : x1 = '=' <;> by_cases e2 : x2 = '=' <;>
      by_cases e3 : x3 = '=' <;>
      simp [decodeSeq, List.count_cons, e0, e1, e2, e3, charToNum_eq']
    all_goals (
      simp at hc
      rcases hc with h | h | h | h <;> subst h <;> simp_all)
  | _ :: _ :: _ :: _ :: _ :: _, h => simp at h

private theorem decodeSeq_ne_panic (cs : List Char) (s : String) : decodeSeq cs ≠ .panic s := by
  unfold decodeSeq
  by_cases h2 : List.count '=' cs = 2
  · simp only [h2, ↓reduceIte]; repeat' split
    all_goals simp
  · by_cases h1 : List.count '=' cs = 1
    · simp only [h2, h1, ↓reduceIte]; repeat' split
      all_goals simp
    · by_cases h0 : List.count '=' cs = 0
      · simp only [h2, h1, h0, ↓reduceIte]; repeat' split
        all_goals simp
      · simp [h2, h1, h0]

private theorem decodeChunk_ne_panic (cs : List Char) (s : String) : decodeChunk cs ≠ .panic s := by
  unfold decodeChunk
  split
  · simp
  · exact decodeSeq_ne_panic _ s

/-- once the remaining byte budget exceeds the remaining characters (some earlier or later
    character is multi-byte) the loop can only end in `Err`: it runs out of characters. -/
private theorem decodeLoop_short (rem : Nat) : ∀ cs : List Char, cs.length < rem →
    decodeLoop cs rem = .err := by
  induction rem using Nat.strongRecOn with
  | _ rem ih =>
    intro cs hlt
    rw [decodeLoop]
    have h0 : rem ≠ 0 := by omega
    simp only [h0, dite_false]
    split
    · rfl
    · rename_i hk
      have hk4 : min 4 rem ≤ cs.length := by omega
      have hrec := ih (rem - min 4 rem) (by omega) (cs.drop (min 4 rem))
        (by simp only [List.length_drop]; omega)
      rw [hrec]
      cases hc : decodeChunk (List.take (min 4 rem) cs) with
      | ok bs => rfl
      | err => rfl
      | panic s => exact absurd hc (decodeChunk_ne_panic _ s)

private theorem utf8Len_ge (cs : List Char) : cs.length ≤ utf8Len cs := by
  induction cs with
  | nil => simp [utf8Len]
  | cons c t ih => have := Char.utf8Size_pos c; simp [utf8Len]; omega

private theorem utf8Len_gt (cs : List Char) (c : Char) (hc : c ∈ cs) (h : 1 < c.utf8Size) :
    cs.length < utf8Len cs := by
  induction cs with
  | nil => simp at hc
  | cons d t ih =>
    simp only [List.mem_cons] at hc
    rcases hc with rfl | hc
    · have := utf8Len_ge t; simp [utf8Len]; omega
    · have := ih hc; have := Char.utf8Size_pos d; simp [utf8Len]; omega

private theorem ascii_id (c : Char) (h : c.utf8Size = 1) :
    (decide (charAsU8 c ≥ 128)) = false ∧ u8AsChar (charAsU8 c) = c := by
  have hv : c.val ≤ 127 := Char.utf8Size_eq_one_iff.mp h
  have hn : c.toNat ≤ 127 := by
    have : c.val.toNat ≤ (127 : UInt32).toNat := UInt32.le_iff_toNat_le.mp hv
    exact this
  have h1 : (UInt8.ofNat c.toNat).toNat = c.toNat := ofNat_toNat_lt _ (by omega)
  constructor
  · simp only [charAsU8, ge_iff_le, decide_eq_false_iff_not, UInt8.not_le]
    rw [UInt8.lt_iff_toNat_lt, h1]
    show c.toNat < 128
    omega
  · simp only [u8AsChar, charAsU8, h1]
    exact Char.ofNat_toNat c

/-- all-ASCII text: a bad character anywhere makes the loop end in `Err` -/
private theorem decodeLoop_bad (rem : Nat) : ∀ cs : List Char, cs.length ≤ rem →
    (∀ x ∈ cs, x.utf8Size = 1) → (∃ c ∈ cs, Bad c) → decodeLoop cs rem = .err := by
  induction rem using Nat.strongRecOn with
  | _ rem ih =>
    intro cs hle hascii hbad
    obtain ⟨c, hc, hb⟩ := hbad
    rw [decodeLoop]
    have h0 : rem ≠ 0 := by
      intro h; subst h
      have : cs = [] := List.length_eq_zero_iff.mp (by omega)
      subst this; simp at hc
    simp only [h0, dite_false]
    split
    · rfl
    · rename_i hk
      have hsplit : c ∈ cs.take (min 4 rem) ∨ c ∈ cs.drop (min 4 rem) := by
        have := List.take_append_drop (min 4 rem) cs
        rw [← this] at hc
        exact List.mem_append.mp hc
      rcases hsplit with hin | hin
      · -- the bad character is in this chunk
        have hchunk : decodeChunk (List.take (min 4 rem) cs) = .err := by
          unfold decodeChunk
          have hall : ∀ x ∈ List.take (min 4 rem) cs, x.utf8Size = 1 :=
            fun x hx => hascii x (List.mem_of_mem_take hx)
          have hany : (List.take (min 4 rem) cs).any (fun c => decide (charAsU8 c ≥ 128)) = false := by
            rw [List.any_eq_false]
            intro x hx
            simpa using (ascii_id x (hall x hx)).1
          rw [hany]
          have hmap : (List.take (min 4 rem) cs).map (fun c => u8AsChar (charAsU8 c))
              = List.take (min 4 rem) cs := by
            conv => rhs; rw [← List.map_id (List.take (min 4 rem) cs)]
            apply List.map_congr_left
            intro x hx
            exact (ascii_id x (hall x hx)).2
          simp only [Bool.false_eq_true, ↓reduceIte, hmap]
          exact decodeSeq_bad _ (by simp only [List.length_take]; omega) c hin hb
        rw [hchunk]
      · have hrec := ih (rem - min 4 rem) (by omega) (cs.drop (min 4 rem))
          (by simp only [List.length_drop]; omega)
          (fun x hx => hascii x (List.mem_of_mem_drop hx)) ⟨c, hin, hb⟩
        rw [hrec]
        cases hc' : decodeChunk (List.take (min 4 rem) cs) with
        | ok bs => rfl
        | err => rfl
        | panic s => exact absurd hc' (decodeChunk_ne_panic _ s)

/-- **C18 (c)** — decoding any text that contains a character outside the Base64 alphabet
    (other than the padding sign) reports an error; for every text, of any length,
    wherever the character stands, ASCII or not. -/
theorem C18_reject (text : List Char) (h : ∃ c ∈ text, c ∉ specAlphabet ∧ c ≠ '=') :
    decode text = .err := by
  obtain ⟨c, hc, hb⟩ := h
  unfold decode
  have hne : text.length ≠ 0 := by
    intro h0
    have : text = [] := List.length_eq_zero_iff.mp h0
    subst this; simp at hc
  simp only [hne, ↓reduceIte]
  by_cases hall : ∀ x ∈ text, x.utf8Size = 1
  · exact decodeLoop_bad _ text (utf8Len_ge text) hall ⟨c, hc, hb⟩
  · have : ∃ x ∈ text, 1 < x.utf8Size := by
      apply Classical.byContradiction
      intro hno
      apply hall
      intro x hx
      have h1 := Char.utf8Size_pos x
      have : ¬ 1 < x.utf8Size := fun h => hno ⟨x, hx, h⟩
      omega
    obtain ⟨x, hx, hgt⟩ := this
    exact decodeLoop_short _ text (utf8Len_gt text x hx hgt)

/-- **C18 (c′)** — padding in excess is an error too: no text with a quartet of three or
    four `=` decodes (this is the repaired F23: `decode("A===")` used to be `Ok([])`). -/
theorem C18_reject_overpadded (x : Char) : decode [x, '=', '=', '='] = .err := by
  by_cases hx : x.utf8Size = 1
  · have h3 : utf8Len [x, '=', '=', '='] = 4 + 0 := by simp [utf8Len, hx, eq_ascii]
    unfold decode
    simp only [List.length_cons, List.length_nil, Nat.reduceAdd, ↓reduceIte]
    rw [if_neg (by decide)]
    rw [h3, decodeLoop_cons4]
    have : decodeChunk [x, '=', '=', '='] = .err := by
      have hx' := ascii_id x hx
      by_cases e : x = '='
      · subst e; simp [decodeChunk, decodeSeq, eq_ascii, List.count_cons]
      · simp [decodeChunk, decodeSeq, eq_ascii, hx'.1, hx'.2, List.count_cons, e]
    rw [this]
  · unfold decode
    simp only [List.length_cons, List.length_nil, Nat.reduceAdd, ↓reduceIte]
    rw [if_neg (by decide)]
    apply decodeLoop_short
    have h1 := Char.utf8Size_pos x
    simp [utf8Len, eq_ascii]; omega

/-! ## non-vacuity: the hypotheses above are met by concrete, non-trivial inputs -/

example : encode [77, 97, 110] = .ok "TWFu".toList := by decide +kernel
example : encode [77, 97] = .ok "TWE=".toList := by decide +kernel
example : ∃ c ∈ "TW!u".toList, c ∉ specAlphabet ∧ c ≠ '=' := ⟨'!', by decide, by decide, by decide⟩
example : rfc4648 [0xfb, 0xff] = "+/8=".toList := by decide +kernel

end Rws.C18
