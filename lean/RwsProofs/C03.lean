/-
  C03 — byte-range requests return exactly the requested bytes.
  Property theorems only; helper lemmas are in RwsProofs/Lemmas/{RangeM,Dec,Split}.lean and the
  `private` section below.  Model: Rws/RangeM.lean (the code after the repairs F2a and F2b).

  Everything is stated about `RangeM.process`, the function the driver op `rangeget` executes:
  the status selection of `StaticResourceController::process`/`process_request` over
  `Range::get_content_range_list` over a file holding `f`; `ct` is the (opaque) MIME type,
  `m` the request method, `r0` the response the controller was handed.
-/
import Rws.RangeM
import RwsProofs.Lemmas.RangeM
namespace Rws.C03
open Rws Rws.RangeM

/-! ## The specification, written independently of the code -/

/-- a file that can exist: shorter than `u64::MAX` bytes (file offsets are 63-bit) -/
def FileOk (f : Bytes) : Prop := f.length < 18446744073709551615
instance (f : Bytes) : Decidable (FileOk f) := by unfold FileOk; exact inferInstance

/-- `f[a..b]`, both ends inclusive -/
def slice (f : Bytes) (a b : Nat) : Bytes := (f.drop a).take (b + 1 - a)

/-- a byte-range-spec of RFC 7233: `a-b`, `a-`, `-n` -/
inductive Spec where
  | closed (a b : Nat)
  | opn (a : Nat)
  | suffix (n : Nat)
deriving Repr, DecidableEq

/-- the spec as a client writes it, numbers in decimal (`45` is `-`) -/
def Spec.render : Spec → Bytes
  | .closed a b => natToDec a ++ 45 :: natToDec b
  | .opn a      => natToDec a ++ [45]
  | .suffix n   => 45 :: natToDec n

/-- the spec lies inside a file of `L` bytes -/
def Spec.inside (L : Nat) : Spec → Prop
  | .closed a b => a ≤ b ∧ b < L
  | .opn a      => a < L
  | .suffix n   => 0 < n ∧ n ≤ L
instance (L : Nat) (s : Spec) : Decidable (s.inside L) := by
  cases s <;> unfold Spec.inside <;> exact inferInstance

/-- first and last byte position the spec names in a file of `L` bytes -/
def Spec.first (L : Nat) : Spec → Nat
  | .closed a _ => a
  | .opn a      => a
  | .suffix n   => L - n
def Spec.last (L : Nat) : Spec → Nat
  | .closed _ b => b
  | .opn _      => L - 1
  | .suffix _   => L - 1

/-- texts joined by `,` -/
def joinComma : List Bytes → Bytes
  | []          => []
  | [x]         => x
  | x :: y :: r => x ++ 44 :: joinComma (y :: r)

/-- `bytes=spec,spec,…` -/
def rangeHeader (specs : List Spec) : Bytes :=
  [98, 121, 116, 101, 115, 61] ++ joinComma (specs.map Spec.render)

/-- the part the property asks for: unit `bytes`, Content-Range `a-b/L`, exactly `f[a..b]` -/
def wanted (f ct : Bytes) (a b : Nat) : ContentRange :=
  ⟨[98, 121, 116, 101, 115], ⟨a, b⟩, natToDec f.length, slice f a b, ct⟩

/-- the whole file in the library's whole-body convention: `bytes 0-L/L` -/
def wholeFile (f ct : Bytes) : ContentRange :=
  ⟨[98, 121, 116, 101, 115], ⟨0, f.length⟩, natToDec f.length, f, ct⟩

/-- a correctly labelled slice of `f` -/
def WellLabelled (f ct : Bytes) (p : ContentRange) : Prop :=
  ∃ a b, a ≤ b ∧ b < f.length ∧ p = wanted f ct a b

/-- `"OPTIONS"` -/
def OPTIONS : Bytes := [79, 80, 84, 73, 79, 78, 83]
/-- `"GET"` -/
def GET : Bytes := [71, 69, 84]

/-! ## helper lemmas -/
section helpers

private theorem not_mem_joinComma (c : UInt8) (hc : c ≠ 44) : ∀ (xs : List Bytes),
    (∀ x ∈ xs, c ∉ x) → c ∉ joinComma xs
  | [], _ => by simp [joinComma]
  | [x], h => by simpa [joinComma] using h x (by simp)
  | x :: y :: r, h => by
    have ih := not_mem_joinComma c hc (y :: r) (fun z hz => h z (by simp [List.mem_cons.mp hz]))
    have hx := h x (by simp)
    simp only [joinComma, List.mem_append, List.mem_cons, not_or]
    exact ⟨hx, hc, ih⟩

private theorem splitB_joinComma : ∀ (xs : List Bytes), xs ≠ [] → (∀ x ∈ xs, (44 : UInt8) ∉ x) →
    Split.splitB 44 (joinComma xs) = xs
  | [], h, _ => absurd rfl h
  | [x], _, h => by simpa [joinComma] using Split.splitB_not_mem 44 x (h x (by simp))
  | x :: y :: r, _, h => by
    have ih := splitB_joinComma (y :: r) (by simp) (fun z hz => h z (by simp [List.mem_cons.mp hz]))
    simp only [joinComma]
    rw [Split.splitB_append _ _ _ (h x (by simp)), ih]

private theorem render_clean (c : UInt8) (hc : c.toNat < 45 ∨ 57 < c.toNat) (s : Spec) : c ∉ s.render := by
  have hd : ∀ n, c ∉ natToDec n := fun n => Dec.not_mem_natToDec n c (by omega)
  have h45 : c ≠ 45 := by intro h; subst h; simp at hc
  cases s <;> simp [Spec.render, hd, h45]

/-- the range the parser assigns to a spec (its convention for `a-` and `-n` is `end = L`) -/
private def preRange (L : Nat) : Spec → Rws.Range
  | .closed a b => ⟨a, b⟩
  | .opn a      => ⟨a, L⟩
  | .suffix n   => ⟨L - n, L⟩

private theorem parseRange_render (L : Nat) (hL : L ≤ 18446744073709551615) (s : Spec) (h : s.inside L) :
    parseRange L s.render = .ok (preRange L s) := by
  cases s with
  | closed a b => exact parseRange_closed L a b h.1 (Nat.le_of_lt h.2) hL
  | opn a => exact parseRange_open L a (Nat.le_of_lt h) hL
  | suffix n => exact parseRange_suffix L n h.2 hL

private theorem clamp_mkPart (f ct : Bytes) (s : Spec) (h : s.inside f.length) :
    clampTo f.length (mkPart f ct f.length (preRange f.length s))
      = wanted f ct (s.first f.length) (s.last f.length) := by
  cases s with
  | closed a b =>
    obtain ⟨h1, h2⟩ := h
    have : ¬ b ≥ f.length := by omega
    have e : b - a + 1 = b + 1 - a := by omega
    simp [clampTo, mkPart, preRange, wanted, slice, Spec.first, Spec.last, this, e]
  | opn a =>
    have h' : a < f.length := h
    simp only [clampTo, mkPart, preRange, wanted, slice, Spec.first, Spec.last, ge_iff_le,
      Nat.le_refl, ↓reduceIte]
    rw [List.take_of_length_le (by simp only [List.length_drop]; omega), List.take_of_length_le (by simp only [List.length_drop]; omega)]
  | suffix n =>
    obtain ⟨h1, h2⟩ := h
    simp only [clampTo, mkPart, preRange, wanted, slice, Spec.first, Spec.last, ge_iff_le,
      Nat.le_refl, ↓reduceIte]
    rw [List.take_of_length_le (by simp only [List.length_drop]; omega), List.take_of_length_le (by simp only [List.length_drop]; omega)]

private theorem first_lt (L : Nat) (s : Spec) (h : s.inside L) : (preRange L s).start < L := by
  cases s with
  | closed a b => exact Nat.lt_of_le_of_lt h.1 h.2
  | opn a => exact h
  | suffix n => simp only [preRange]; have := h.1; have := h.2; omega

/-- what any successful list of parts looks like: built from accepted ranges -/
private theorem list_shape (f ct h : Bytes) (l : List ContentRange)
    (hl : getContentRangeList f ct h = .ok l) :
    l ≠ [] ∧ ∀ p ∈ l, ∃ r : Rws.Range, p = mkPart f ct f.length r ∧ r.start ≤ r.stop ∧ r.stop ≤ f.length :=
  parseContentRange_ok f ct f.length h l hl

private theorem clamp_wellLabelled (f ct : Bytes) (r : Rws.Range) (h1 : r.start ≤ r.stop)
    (h2 : r.stop ≤ f.length) (h3 : r.start < f.length) :
    WellLabelled f ct (clampTo f.length (mkPart f ct f.length r)) := by
  obtain ⟨s, e⟩ := r
  simp only at h1 h2 h3
  by_cases hge : e ≥ f.length
  · refine ⟨s, f.length - 1, by omega, by omega, ?_⟩
    have : e = f.length := by omega
    subst this
    simp only [clampTo, mkPart, ge_iff_le, Nat.le_refl, ↓reduceIte, wanted, slice]
    rw [List.take_of_length_le (by simp only [List.length_drop]; omega),
      List.take_of_length_le (by simp only [List.length_drop]; omega)]
  · refine ⟨s, e, h1, by omega, ?_⟩
    have e' : e - s + 1 = e + 1 - s := by omega
    simp [clampTo, mkPart, hge, wanted, slice, e']

/-- every answer to a request WITH a Range header -/
private theorem some_shape (f ct m h : Bytes) (r0 : Reply) (hf : FileOk f) :
    process f ct (some h) m r0 = .ok ⟨416, []⟩ ∨
    ∃ parts, parts ≠ [] ∧ (∀ p ∈ parts, WellLabelled f ct p) ∧
      process f ct (some h) m r0 = .ok ⟨if m = OPTIONS then 204 else 206, parts⟩ := by
  have hL : f.length ≤ 18446744073709551615 := Nat.le_of_lt hf
  rw [process_some]
  cases hl : getContentRangeList f ct h with
  | err => left; rfl
  | panic s => exact absurd hl (parseContentRange_no_panic f ct f.length hf h s)
  | ok l =>
    obtain ⟨hne, hshape⟩ := list_shape f ct h l hl
    have hsizes : ∀ p ∈ l, p.size = natToDec f.length := by
      intro p hp
      obtain ⟨r, rfl, _⟩ := hshape p hp
      rfl
    simp only
    cases hfit : fitToFile l with
    | err => left; rfl
    | panic s => exact absurd hfit (fitToFile_no_panic l s)
    | ok l' =>
      obtain ⟨hstarts, rfl⟩ := fitToFile_ok f.length hL l hsizes l' hfit
      right
      refine ⟨l.map (clampTo f.length), by simpa using hne, ?_, ?_⟩
      · intro p hp
        obtain ⟨c, hc, rfl⟩ := List.mem_map.mp hp
        obtain ⟨r, rfl, h1, h2⟩ := hshape c hc
        exact clamp_wellLabelled f ct r h1 h2 (hstarts _ hc)
      · have : ¬ (l.map (clampTo f.length)).length = 0 := by simpa using hne
        simp only [ne_eq, this, not_false_eq_true, ↓reduceIte, OPTIONS]
        by_cases hm : m = [79, 80, 84, 73, 79, 78, 83] <;> simp [hm]

/-- the answer to a request WITHOUT a Range header -/
private theorem none_shape (f ct m : Bytes) (r0 : Reply) (hf : FileOk f) :
    process f ct none m r0 = .ok ⟨if m = OPTIONS then 204 else 200, [wholeFile f ct]⟩ := by
  have hL : f.length ≤ 18446744073709551615 := Nat.le_of_lt hf
  have hlist : getContentRangeList f ct [98, 121, 116, 101, 115, 61, 48, 45] = .ok [wholeFile f ct] := by
    have e : ([98, 121, 116, 101, 115, 61, 48, 45] : Bytes) = [98, 121, 116, 101, 115, 61] ++ [48, 45] := rfl
    have hsp : splitAll [44] [48, 45] = [[48, 45]] := by decide
    have h0 : ([48, 45] : Bytes) = natToDec 0 ++ [45] := by decide
    have hpr := parseRange_open f.length 0 (Nat.zero_le _) hL
    have hloop := specsLoop_map f ct f.length hf [([48, 45], ⟨0, f.length⟩)] (by
      intro pr hpr'
      simp only [List.mem_singleton] at hpr'
      subst hpr'
      simpa [h0] using hpr)
    unfold getContentRangeList
    rw [e, parseContentRange_bytes _ _ _ _ (by decide), hsp]
    simp only [List.map_cons, List.map_nil] at hloop
    rw [hloop]
    simp only [mkPart, wholeFile, List.drop_zero, Nat.sub_zero]
    rw [List.take_of_length_le (by omega)]
  rw [process_none, hlist]
  by_cases hm : m = [79, 80, 84, 73, 79, 78, 83] <;> simp [hm, OPTIONS]

end helpers

/-! ## The property -/

/-- **Ranges inside the file.**  For every file, every non-empty list of byte-range-specs that
    lie inside it (closed `a-b`, open `a-`, suffix `-n`, in any mixture), the answer is 206 and
    carries, per requested range and in request order, exactly the bytes at those offsets,
    labelled with those offsets and the true file size.  (`k ≥ 2` specs are the multipart case;
    `k = 1` the single-range case: `C03_closed`, `C03_open`, `C03_suffix` below.) -/
theorem C03_multi (f ct m : Bytes) (r0 : Reply) (specs : List Spec)
    (hf : FileOk f) (hne : specs ≠ []) (hin : ∀ s ∈ specs, s.inside f.length) (hm : m ≠ OPTIONS) :
    process f ct (some (rangeHeader specs)) m r0 =
      .ok ⟨206, specs.map (fun s => wanted f ct (s.first f.length) (s.last f.length))⟩ := by
  have hL : f.length ≤ 18446744073709551615 := Nat.le_of_lt hf
  have h61 : (61 : UInt8) ∉ joinComma (specs.map Spec.render) :=
    not_mem_joinComma 61 (by decide) _ (by
      intro x hx
      obtain ⟨s, _, rfl⟩ := List.mem_map.mp hx
      exact render_clean 61 (by decide) s)
  have hsplit : splitAll [44] (joinComma (specs.map Spec.render)) = specs.map Spec.render := by
    rw [Split.splitAll_single]
    exact splitB_joinComma _ (by simpa using hne) (by
      intro x hx
      obtain ⟨s, _, rfl⟩ := List.mem_map.mp hx
      exact render_clean 44 (by decide) s)
  have hloop : specsLoop f ct f.length (specs.map Spec.render) =
      .ok (specs.map (fun s => mkPart f ct f.length (preRange f.length s))) := by
    have := specsLoop_map f ct f.length hf (specs.map (fun s => (s.render, preRange f.length s))) (by
      intro pr hpr
      obtain ⟨s, hs, rfl⟩ := List.mem_map.mp hpr
      exact parseRange_render _ hL s (hin s hs))
    simpa [List.map_map, Function.comp_def] using this
  have hlist : getContentRangeList f ct (rangeHeader specs) =
      .ok (specs.map (fun s => mkPart f ct f.length (preRange f.length s))) := by
    unfold getContentRangeList rangeHeader
    rw [parseContentRange_bytes _ _ _ _ h61, hsplit, hloop]
  have hfit : fitToFile (specs.map (fun s => mkPart f ct f.length (preRange f.length s))) =
      .ok (specs.map (fun s => wanted f ct (s.first f.length) (s.last f.length))) := by
    rw [fitToFile_inside f.length hL _ (by
          intro p hp
          obtain ⟨s, _, rfl⟩ := List.mem_map.mp hp
          rfl) (by
          intro p hp
          obtain ⟨s, hs, rfl⟩ := List.mem_map.mp hp
          exact first_lt _ s (hin s hs))]
    congr 1
    rw [List.map_map]
    apply List.map_congr_left
    intro s hs
    exact clamp_mkPart f ct s (hin s hs)
  have hm' : ¬ m = [79, 80, 84, 73, 79, 78, 83] := hm
  rw [process_some, hlist]
  simp only [hfit]
  simp [hm', hne]

/-- **Closed range.** `a ≤ b < L`: `bytes=a-b` ↦ 206, one part, Content-Range `a-b/L`, body `f[a..b]`. -/
theorem C03_closed (f ct m : Bytes) (r0 : Reply) (a b : Nat)
    (hf : FileOk f) (hab : a ≤ b) (hb : b < f.length) (hm : m ≠ OPTIONS) :
    process f ct (some ([98, 121, 116, 101, 115, 61] ++ natToDec a ++ 45 :: natToDec b)) m r0 =
      .ok ⟨206, [wanted f ct a b]⟩ := by
  have := C03_multi f ct m r0 [.closed a b] hf (by simp) (by simpa [Spec.inside] using ⟨hab, hb⟩) hm
  simpa [rangeHeader, joinComma, Spec.render, Spec.first, Spec.last] using this

/-- the bytes sent for a closed range inside the file: `b - a + 1` of them (Content-Length) -/
theorem C03_closed_length (f : Bytes) (a b : Nat) (hab : a ≤ b) (hb : b < f.length) :
    (slice f a b).length = b - a + 1 := by
  simp [slice]; omega

/-- **Open range.** `a < L`: `bytes=a-` ↦ 206, Content-Range `a-(L-1)/L`, body `f[a..L-1]`. -/
theorem C03_open (f ct m : Bytes) (r0 : Reply) (a : Nat)
    (hf : FileOk f) (ha : a < f.length) (hm : m ≠ OPTIONS) :
    process f ct (some ([98, 121, 116, 101, 115, 61] ++ natToDec a ++ [45])) m r0 =
      .ok ⟨206, [wanted f ct a (f.length - 1)]⟩ := by
  have := C03_multi f ct m r0 [.opn a] hf (by simp) (by simpa [Spec.inside] using ha) hm
  simpa [rangeHeader, joinComma, Spec.render, Spec.first, Spec.last] using this

/-- **Suffix range.** `0 < n ≤ L`: `bytes=-n` ↦ 206, Content-Range `(L-n)-(L-1)/L`, the last `n` bytes. -/
theorem C03_suffix (f ct m : Bytes) (r0 : Reply) (n : Nat)
    (hf : FileOk f) (hn : 0 < n) (hnL : n ≤ f.length) (hm : m ≠ OPTIONS) :
    process f ct (some ([98, 121, 116, 101, 115, 61] ++ 45 :: natToDec n)) m r0 =
      .ok ⟨206, [wanted f ct (f.length - n) (f.length - 1)]⟩ := by
  have := C03_multi f ct m r0 [.suffix n] hf (by simp) (by simpa [Spec.inside] using ⟨hn, hnL⟩) hm
  simpa [rangeHeader, joinComma, Spec.render, Spec.first, Spec.last] using this

/-- **Malformed or outside.**  For EVERY value of the Range header (malformed, outside the file,
    or fine) the answer is either 416 or a 206 whose parts are all correctly labelled slices of
    the file: `a ≤ b < L`, Content-Range `a-b/L`, body exactly `f[a..b]`. -/
theorem C03_outside (f ct m h : Bytes) (r0 : Reply) (hf : FileOk f) (hm : m ≠ OPTIONS) :
    process f ct (some h) m r0 = .ok ⟨416, []⟩ ∨
    ∃ parts, parts ≠ [] ∧ (∀ p ∈ parts, WellLabelled f ct p) ∧
      process f ct (some h) m r0 = .ok ⟨206, parts⟩ := by
  rcases some_shape f ct m h r0 hf with h1 | ⟨parts, hne, hwl, hp⟩
  · exact Or.inl h1
  · have hm' : ¬ m = OPTIONS := hm
    simp only [hm', ↓reduceIte] at hp
    exact Or.inr ⟨parts, hne, hwl, hp⟩

/-- **Never bytes from other offsets.**  Whatever the Range header (or none), the method and the
    file: every part `(s, e, body)` of every answer has `body = f[s .. min e (L-1)]`. -/
theorem C03_slice_always (f ct m : Bytes) (rh : Option Bytes) (r0 r : Reply)
    (hf : FileOk f) (h : process f ct rh m r0 = .ok r) :
    ∀ p ∈ r.parts, p.body =
      (f.drop p.range.start).take (min p.range.stop (f.length - 1) - p.range.start + 1) := by
  cases rh with
  | none =>
    rw [none_shape f ct m r0 hf] at h
    injection h with h; subst h
    intro p hp
    simp only [List.mem_singleton] at hp
    subst hp
    simp only [wholeFile, List.drop_zero, Nat.sub_zero]
    rw [List.take_of_length_le (by omega)]
  | some hv =>
    rcases some_shape f ct m hv r0 hf with h1 | ⟨parts, _, hwl, hp⟩
    · rw [h1] at h
      injection h with h; subst h; simp
    · rw [hp] at h
      injection h with h; subst h
      intro p hp
      obtain ⟨a, b, hab, hb, rfl⟩ := hwl p hp
      have e1 : min b (f.length - 1) = b := Nat.min_eq_left (by omega)
      have e2 : b - a + 1 = b + 1 - a := by omega
      simp only [wanted, slice, e1, e2]

/-- **No overflow.**  No Range header value, method or file contents makes the range path
    panic (after repair F2a the suffix arithmetic is checked; `end - start + 1` inside
    `read_file_partially` stays below `u64::MAX` because `end ≤ L`). -/
theorem C03_no_overflow (f ct m : Bytes) (rh : Option Bytes) (r0 : Reply) (hf : FileOk f) :
    ∃ r, process f ct rh m r0 = .ok r := by
  cases rh with
  | none => exact ⟨_, none_shape f ct m r0 hf⟩
  | some hv =>
    rcases some_shape f ct m hv r0 hf with h1 | ⟨parts, _, _, hp⟩
    · exact ⟨_, h1⟩
    · exact ⟨_, hp⟩

/-- the parser alone never panics, for any declared length (also above any real file) -/
theorem C03_no_overflow_parser (L : Nat) (spec : Bytes) (s : String) : parseRange L spec ≠ .panic s :=
  parseRange_no_panic L spec s

/-- **Status selection.**  An answer that is not the 416 error has status 204 for OPTIONS,
    else 206 when the request carries a Range header, else 200. -/
theorem C03_status (f ct m : Bytes) (rh : Option Bytes) (r0 r : Reply)
    (hf : FileOk f) (h : process f ct rh m r0 = .ok r) :
    r.status = 416 ∨ r.status = (if m = OPTIONS then 204 else if rh.isSome then 206 else 200) := by
  cases rh with
  | none =>
    rw [none_shape f ct m r0 hf] at h
    injection h with h; subst h
    right; simp
  | some hv =>
    rcases some_shape f ct m hv r0 hf with h1 | ⟨parts, _, _, hp⟩
    · rw [h1] at h; injection h with h; subst h; left; rfl
    · rw [hp] at h; injection h with h; subst h; right; simp

/-- without a Range header the answer is the whole file: 200 (204 for OPTIONS), one part
    holding `f`, labelled in the library's whole-body convention `0-L/L` -/
theorem C03_status_whole (f ct m : Bytes) (r0 : Reply) (hf : FileOk f) :
    process f ct none m r0 = .ok ⟨if m = OPTIONS then 204 else 200, [wholeFile f ct]⟩ :=
  none_shape f ct m r0 hf

/-- a Range header whose ranges lie inside the file and a GET: 206 -/
theorem C03_status_206 (f ct : Bytes) (r0 : Reply) (specs : List Spec)
    (hf : FileOk f) (hne : specs ≠ []) (hin : ∀ s ∈ specs, s.inside f.length) :
    ∃ parts, process f ct (some (rangeHeader specs)) GET r0 = .ok ⟨206, parts⟩ :=
  ⟨_, C03_multi f ct GET r0 specs hf hne hin (by decide)⟩

/-! ## the hypotheses are satisfiable, on concrete non-trivial inputs (kernel-evaluated) -/

/-- "0123456789" -/
def ten : Bytes := [48, 49, 50, 51, 52, 53, 54, 55, 56, 57]

example : FileOk ten ∧ (∀ s ∈ [Spec.closed 2 5, .opn 7, .suffix 3], s.inside ten.length) := by decide
-- bytes=2-5,7-,-3
example : rangeHeader [.closed 2 5, .opn 7, .suffix 3] =
    [98, 121, 116, 101, 115, 61, 50, 45, 53, 44, 55, 45, 44, 45, 51] := by decide
example : process ten [] (some (rangeHeader [.closed 2 5, .opn 7, .suffix 3])) GET ⟨501, []⟩ =
    .ok ⟨206, [⟨[98, 121, 116, 101, 115], ⟨2, 5⟩, [49, 48], [50, 51, 52, 53], []⟩,
               ⟨[98, 121, 116, 101, 115], ⟨7, 9⟩, [49, 48], [55, 56, 57], []⟩,
               ⟨[98, 121, 116, 101, 115], ⟨7, 9⟩, [49, 48], [55, 56, 57], []⟩]⟩ := by decide
-- the inputs of the repaired defects: bytes=-30 (F2a) is 416; bytes=2- is labelled 2-9 (F2b);
-- bytes=10- is 416; bytes=0-10 is clamped to 0-9
example : process ten [] (some [98, 121, 116, 101, 115, 61, 45, 51, 48]) GET ⟨501, []⟩ = .ok ⟨416, []⟩ := by decide
example : process ten [] (some [98, 121, 116, 101, 115, 61, 50, 45]) GET ⟨501, []⟩ =
    .ok ⟨206, [⟨[98, 121, 116, 101, 115], ⟨2, 9⟩, [49, 48], [50, 51, 52, 53, 54, 55, 56, 57], []⟩]⟩ := by decide
example : process ten [] (some [98, 121, 116, 101, 115, 61, 49, 48, 45]) GET ⟨501, []⟩ = .ok ⟨416, []⟩ := by decide
example : process ten [] (some [98, 121, 116, 101, 115, 61, 48, 45, 49, 48]) GET ⟨501, []⟩ =
    .ok ⟨206, [⟨[98, 121, 116, 101, 115], ⟨0, 9⟩, [49, 48], ten, []⟩]⟩ := by decide
-- both disjuncts of C03_outside occur; OPTIONS is 204; no header is 200 with the label 0-10/10
example : process ten [] (some [120]) GET ⟨501, []⟩ = .ok ⟨416, []⟩ := by decide
example : process ten [] (some [98, 121, 116, 101, 115, 61, 50, 45, 53]) OPTIONS ⟨501, []⟩ =
    .ok ⟨204, [⟨[98, 121, 116, 101, 115], ⟨2, 5⟩, [49, 48], [50, 51, 52, 53], []⟩]⟩ := by decide
example : process ten [] none GET ⟨501, []⟩ =
    .ok ⟨200, [⟨[98, 121, 116, 101, 115], ⟨0, 10⟩, [49, 48], ten, []⟩]⟩ := by decide
-- what `parse::<u64>()` and `trim()` let through: `+5` and ` 5 ` read as 5, `1e3` does not;
-- u64::MAX + 1 is an error, not a wrap-around
example : parseRange 10 [43, 53, 45] = .ok ⟨5, 10⟩ ∧ parseRange 10 [32, 53, 32, 45] = .ok ⟨5, 10⟩ ∧
    parseRange 10 [49, 101, 51, 45] = .err ∧
    parseRange 10 (natToDec 18446744073709551616 ++ [45]) = .err := by decide

end Rws.C03
