/-
  C02 (lookup part) — "Static resources: the right file, its exact bytes".

  A GET for a path under the served directory returns 200 with a body byte-identical to the file
  the documented lookup selects — the file itself, else `index.html` inside the named directory,
  else the file with `.html` appended —, a Content-Length equal to its size and the media type
  `Mime.detect` gives its path (the media-type table itself is `RwsProofs/C02Mime.lean`); query
  strings and fragments do not affect the lookup; when the lookup selects nothing the answer is 404
  with the not-found page and no other file is read.

  Everything is stated about the PRODUCTION chain `Controllers.execute ctx req false` (model of
  `App::execute`, src/app/mod.rs) over the file-system model `Rws.Fs`, and lifted to
  `Server.process` and to the serialised bytes (`Resp.generateResponse`).
  Helper lemmas: RwsProofs/Lemmas/{StaticUrl,StaticFs,Static}.lean and the `private` section below.

  The specification (`Spec.*`) is written on the tree and on the target string only:
    segments p / trailingSlash p   the components of the target, and whether it ends in '/'
    fileAt / dirAt                  an entry whose proper ancestors (from the served directory
                                    down) are all directories
    selected                        the documented lookup, in the documented order; a target with
                                    a trailing slash names a directory: only the index rule applies
  Theorems (all for EVERY tree, configuration, request; hypotheses are decidable):
    C02_hit              selected = some (sel, bytes) → 200, one part = whole `bytes` typed
                         `Mime.detect (cwd ++ path of sel)`, reads = [root ++ sel]
    C02_hit_response     the serialised response: framing headers and body = bytes
    C02_hit_server       the same through `Server.process` (real app)
    C02_hit_mime         the type is the table lookup of the selected NAME's extension
    C02_binary           arbitrary bytes (0, 13, 10, 255 spelled out)
    C02_miss(_server)    selected = none → 404 + not-found page (no further hypothesis);
                         C02_miss_reads: reads ⊆ [root/404.html]
    C02_query_fragment   `?…` / `#…` appended: the whole answer is unchanged (no tree hypothesis)
  Findings (kernel-checked witnesses `C02_…_violated` below, each excluded by one explicit
  decidable hypothesis of `C02_hit` / `Standing` / `Spec.querySuffix`; open known findings):
    * F44 a directory without index.html next to `<dir>.html`: 404 instead of `<dir>.html`;
    * F45 `/x.html` missing but `x.html.html` present: 404 instead of `x.html.html`;
    * F47 a fragment that contains `?` (`/a.txt#x?y`) becomes part of the path: 404 instead of the file;
    * F43 a working directory whose own path contains a byte FilterString refuses (space, quotes,
      `&`, `|`, `;`): every file is answered 416.
  Repaired (F46, regression `example`s below): a DIRECTORY named `index.html` inside the named
  directory (was 501) and a DIRECTORY named `<p>.html` (was 500) now fall through to 404.
  Settled, not findings: a trailing slash on a file is a miss (the OS says ENOTDIR); dot-files and
  upper-case extensions are ordinary names (media type: C02Mime); `: @ [ ]` in the path do not
  disturb url-build-parse on `http://localhost<target>` and are allowed by `wfPath`.
-/
import Rws.Server
import RwsProofs.Lemmas.Static
import RwsProofs.C11
import RwsProofs.C02Mime
namespace Rws.C02
open Rws Rws.Fs Rws.Static Rws.Controllers Rws.StaticLemmas Rws.UrlParse

/-! ## The specification, written independently of the model -/

namespace Spec

/-- the pieces of the target between slashes, after the leading one: `/a/b/` ↦ `a`, `b`, `` -/
def pieces (p : Bytes) : List Bytes := Split.splitB 47 (p.drop 1)

/-- the target ends in `/` (the piece after the last slash is empty) -/
def trailingSlash (p : Bytes) : Bool := (pieces p).getLast? == some []

/-- the path components of the target: `/a/b` and `/a/b/` ↦ `a`, `b` -/
def segments (p : Bytes) : List Bytes := if trailingSlash p then (pieces p).dropLast else pieces p

/-- bytes the theorems cover: no ASCII control character or space, none of `" & ' | ;` (refused by
    file-ext's FilterString), none of `? # %` (URL syntax) and no `\` -/
def okByte (b : UInt8) : Bool :=
  32 < b && b != 127 && !([34, 38, 39, 124, 59, 63, 35, 37, 92] : List UInt8).contains b

/-- a component that names an entry: not empty, not `.`, not `..` -/
def okSegment (s : Bytes) : Bool := s != [] && s != [46] && s != [46, 46]

/-- targets of the built-in GET routes: /style.css /script.js /favicon.svg /form-get-method -/
def builtinRoutes : List Bytes :=
  [[47, 115, 116, 121, 108, 101, 46, 99, 115, 115], [47, 115, 99, 114, 105, 112, 116, 46, 106, 115],
   [47, 102, 97, 118, 105, 99, 111, 110, 46, 115, 118, 103],
   [47, 102, 111, 114, 109, 45, 103, 101, 116, 45, 109, 101, 116, 104, 111, 100]]

/-- a well-formed target: origin form, covered bytes only, at least one component (not `/`), no
    empty, `.` or `..` component (one trailing slash allowed), not a built-in route -/
def wfPath (p : Bytes) : Bool :=
  p.head? == some 47 && p.all okByte && segments p != [] && (segments p).all okSegment &&
  !builtinRoutes.contains p

/-- every location from `cur` down to the parent of `cur ++ segs` is a directory -/
def allDirs (t : Tree) : Loc → List Comp → Bool
  | _, [] => true
  | cur, s :: rest => t.get cur == some .dir && allDirs t (cur ++ [s]) rest

/-- the content of the regular file `root/segs`, reached through directories only -/
def fileAt (t : Tree) (root : Loc) (segs : List Comp) : Option Bytes :=
  if allDirs t root segs then
    match t.get (root ++ segs) with
    | some (.file b) => some b
    | _ => none
  else none

/-- `root/segs` is a directory reached through directories only -/
def dirAt (t : Tree) (root : Loc) (segs : List Comp) : Bool :=
  allDirs t root segs && t.get (root ++ segs) == some .dir

/-- "index.html" -/
def indexName : Bytes := [105, 110, 100, 101, 120, 46, 104, 116, 109, 108]
/-- ".html" -/
def htmlSuffix : Bytes := [46, 104, 116, 109, 108]

/-- the components with `.html` appended to the last one -/
def withHtml (segs : List Comp) : List Comp :=
  match segs.getLast? with
  | some l => segs.dropLast ++ [l ++ htmlSuffix]
  | none => []

/-- the last component already ends in `.html` -/
def endsHtml (segs : List Comp) : Bool :=
  match segs.getLast? with
  | some l => htmlSuffix.isSuffixOf l
  | none => false

/-- the file at `segs`, together with the components that name it -/
def pick (t : Tree) (root : Loc) (segs : List Comp) : Option (List Comp × Bytes) :=
  match fileAt t root segs with
  | some b => some (segs, b)
  | none => none

/-- the index page of the directory `segs` -/
def viaIndex (t : Tree) (root : Loc) (segs : List Comp) : Option (List Comp × Bytes) :=
  if dirAt t root segs then pick t root (segs ++ [indexName]) else none

/-- **the documented lookup**: the file itself, else `index.html` inside the named directory,
    else the file with `.html` appended.  A target with a trailing slash names a directory. -/
def selected (t : Tree) (root : Loc) (segs : List Comp) (slash : Bool) : Option (List Comp × Bytes) :=
  if slash then viaIndex t root segs
  else
    match pick t root segs with
    | some r => some r
    | none =>
      match viaIndex t root segs with
      | some r => some r
      | none => pick t root (withHtml segs)

/-- the `.html` rule selects a file although the target names a directory (without index page) or
    already ends in `.html`: the two cases in which the code does not try the `.html` rule -/
def htmlRuleBlocked (t : Tree) (root : Loc) (segs : List Comp) (slash : Bool) : Bool :=
  !slash && (pick t root segs).isNone && (viaIndex t root segs).isNone &&
  (pick t root (withHtml segs)).isSome && (dirAt t root segs || endsHtml segs)

/-- `/s1/s2/…/sn` -/
def pathOf (segs : List Comp) : Bytes := segs.flatMap (fun s => 47 :: s)

/-- the not-found page: the tree's own `404.html` when it is a regular file, else the embedded one.
    (body, media type, locations read) -/
def notFoundPage (t : Tree) (root : Loc) : Bytes × Bytes × List Loc :=
  match fileAt t root [Gen.Assets.notfoundPath] with
  | some b => (b, Mime.detect Gen.Assets.notfoundPath, [root ++ [Gen.Assets.notfoundPath]])
  | none => (Gen.Assets.notfoundBytes, Gen.Assets.notfoundMime, [])

/-- what may follow the path in a target: `?` and anything, or `#` and a fragment without `?` -/
def querySuffix : Bytes → Bool
  | 63 :: _ => true
  | 35 :: f => !f.contains 63
  | _ => false

end Spec

/-- "GET" -/
def GET : Bytes := [71, 69, 84]

/-- the standing assumptions of the lookup theorems: the working directory path leads to the
    directory `root` of the tree, nothing at or below `root` is a symbolic link, the working
    directory path itself contains no byte FilterString refuses; the request is a GET without a
    Range header for a well-formed target -/
structure Standing (ctx : Ctx) (root : Loc) (req : Request) : Prop where
  cwd : Fs.locate ctx.tree ctx.cwd = some root
  rootDir : ctx.tree.get root = some .dir
  noLinks : Fs.noLinkUnder ctx.tree root = true
  cwdBytes : ctx.cwd.all (fun b => !([32, 34, 38, 39, 124, 59] : List UInt8).contains b) = true
  isGet : req.method = GET
  wf : Spec.wfPath req.uri = true
  noRange : Static.getHeader req Gen.Hdr.hRange = none

/-- one part holding a whole body: unit `bytes`, range `0-L` of `L` (the library's whole-body
    convention), the bytes, the media type -/
def wholePart (body mime : Bytes) : ContentRange :=
  ⟨[98, 121, 116, 101, 115], ⟨0, body.length⟩, natToDec body.length, body, mime⟩

/-- the `Last-Modified-Unix-Epoch-Nanos` header (value: the opaque time stamp) -/
def lastModifiedHeader (ctx : Ctx) : Header :=
  ⟨[76, 97, 115, 116, 45, 77, 111, 100, 105, 102, 105, 101, 100, 45, 85, 110, 105, 120, 45, 69, 112, 111, 99, 104, 45, 78, 97, 110, 111, 115], ctx.mtime⟩

/-! ## helper lemmas: the specification against the technical notions of the Lemmas files -/

section helpers

private theorem allDirs_cons (t : Tree) (cur : Loc) (s : Comp) (rest : List Comp)
    (h : t.get cur = some .dir) : Spec.allDirs t cur (s :: rest) = Spec.allDirs t (cur ++ [s]) rest := by
  simp [Spec.allDirs, h]

private theorem fileAt_cons (t : Tree) (cur : Loc) (s : Comp) (rest : List Comp)
    (h : t.get cur = some .dir) : Spec.fileAt t cur (s :: rest) = Spec.fileAt t (cur ++ [s]) rest := by
  simp [Spec.fileAt, allDirs_cons t cur s rest h]

private theorem dirAt_cons (t : Tree) (cur : Loc) (s : Comp) (rest : List Comp)
    (h : t.get cur = some .dir) : Spec.dirAt t cur (s :: rest) = Spec.dirAt t (cur ++ [s]) rest := by
  simp [Spec.dirAt, allDirs_cons t cur s rest h]

private theorem allDirs_not_dir (t : Tree) (cur : Loc) (s : Comp) (rest : List Comp)
    (h : t.get cur ≠ some .dir) : Spec.allDirs t cur (s :: rest) = false := by
  simp [Spec.allDirs, h]

/-- `look` (fuel-free resolution, Lemmas/StaticFs.lean) says what the specification says -/
private theorem look_spec (t : Tree) : ∀ (segs : List Comp) (cur : Loc), t.get cur = some .dir →
    look t cur segs =
      match Spec.fileAt t cur segs with
      | some b => .file b
      | none => if Spec.dirAt t cur segs then .dir else .missing := by
  intro segs
  induction segs with
  | nil => intro cur h; simp [look, Spec.fileAt, Spec.dirAt, Spec.allDirs, h]
  | cons s rest ih =>
    intro cur h
    rw [fileAt_cons t cur s rest h, dirAt_cons t cur s rest h]
    cases hg : t.get (cur ++ [s]) with
    | none =>
      cases rest with
      | nil => simp [look, hg, Spec.fileAt, Spec.dirAt, Spec.allDirs]
      | cons r rs =>
        have := allDirs_not_dir t (cur ++ [s]) r rs (by simp [hg])
        simp [look, hg, Spec.fileAt, Spec.dirAt, this]
    | some e =>
      cases e with
      | dir => simp only [look, hg]; exact ih (cur ++ [s]) hg
      | file b =>
        cases rest with
        | nil => simp [look, hg, Spec.fileAt, Spec.dirAt, Spec.allDirs]
        | cons r rs =>
          have := allDirs_not_dir t (cur ++ [s]) r rs (by simp [hg])
          simp [look, hg, Spec.fileAt, Spec.dirAt, this]
      | link tg =>
        cases rest with
        | nil => simp [look, hg, Spec.fileAt, Spec.dirAt, Spec.allDirs]
        | cons r rs =>
          have := allDirs_not_dir t (cur ++ [s]) r rs (by simp [hg])
          simp [look, hg, Spec.fileAt, Spec.dirAt, this]

private theorem withHtml_eq (segs : List Comp) : Spec.withHtml segs = addHtml segs := rfl

private theorem endsHtml_eq (segs : List Comp) : Spec.endsHtml segs = lastEndsHtml segs := rfl

private theorem pathOf_eq (segs : List Comp) : Spec.pathOf segs = target segs false := by
  simp [Spec.pathOf, target]

/-! ### the target string and its components -/

private theorem flatMap_splitB (q : Bytes) : (Split.splitB 47 q).flatMap (fun s => 47 :: s) = 47 :: q := by
  induction q with
  | nil => simp [Split.splitB]
  | cons x xs ih =>
    by_cases hx : x = 47
    · simp [Split.splitB, hx, ih]
    · simp only [Split.splitB, hx, ↓reduceIte]
      cases hs : Split.splitB 47 xs with
      | nil => exact absurd hs (Split.splitB_ne_nil 47 xs)
      | cons h t =>
        rw [hs] at ih
        simp only [List.flatMap_cons, List.cons_append, List.cons.injEq, true_and] at ih ⊢
        rw [ih]

private theorem splitB_piece (d : UInt8) : ∀ (q : Bytes), ∀ s ∈ Split.splitB d q, d ∉ s ∧ ∀ b ∈ s, b ∈ q := by
  intro q
  induction q with
  | nil => intro s hs; simp [Split.splitB] at hs; subst hs; simp
  | cons x xs ih =>
    intro s hs
    by_cases hx : x = d
    · simp only [Split.splitB, hx, ↓reduceIte, List.mem_cons] at hs
      rcases hs with e | e
      · subst e; simp
      · obtain ⟨h1, h2⟩ := ih s e
        exact ⟨h1, fun b hb => List.mem_cons_of_mem _ (h2 b hb)⟩
    · simp only [Split.splitB, hx, ↓reduceIte] at hs
      cases hsp : Split.splitB d xs with
      | nil => exact absurd hsp (Split.splitB_ne_nil d xs)
      | cons h t =>
        rw [hsp] at hs ih
        simp only [List.mem_cons] at hs
        rcases hs with e | e
        · subst e
          obtain ⟨h1, h2⟩ := ih h (by simp)
          refine ⟨?_, ?_⟩
          · intro hm
            rcases List.mem_cons.mp hm with e' | e'
            · exact hx e'.symm
            · exact h1 e'
          · intro b hb
            rcases List.mem_cons.mp hb with e' | e'
            · simp [e']
            · exact List.mem_cons_of_mem _ (h2 b e')
        · obtain ⟨h1, h2⟩ := ih s (by simp [e])
          exact ⟨h1, fun b hb => List.mem_cons_of_mem _ (h2 b hb)⟩

/-- a well-formed target is `"/s1/…/sn[/]"` for its components, and these are good -/
private theorem wf_target (p : Bytes) (h : Spec.wfPath p = true) :
    p = target (Spec.segments p) (Spec.trailingSlash p) ∧ GoodSegs (Spec.segments p) ∧
    p ∉ Spec.builtinRoutes := by
  simp only [Spec.wfPath, Bool.and_eq_true, beq_iff_eq, bne_iff_ne, ne_eq, Bool.not_eq_true',
    List.all_eq_true] at h
  obtain ⟨⟨⟨⟨hhead, hbytes⟩, hne⟩, hsegs⟩, hroute⟩ := h
  obtain ⟨q, rfl⟩ : ∃ q, p = 47 :: q := by
    cases p with
    | nil => simp at hhead
    | cons x q => simp at hhead; exact ⟨q, by rw [hhead]⟩
  have hjoin := flatMap_splitB q
  have hsub : ∀ s ∈ Spec.segments (47 :: q), s ∈ Split.splitB 47 q := by
    intro s hs
    unfold Spec.segments at hs
    split at hs
    · exact List.dropLast_subset _ hs
    · exact hs
  refine ⟨?_, ⟨hne, ?_⟩, by simpa using hroute⟩
  · unfold Spec.segments target
    by_cases hts : Spec.trailingSlash (47 :: q) = true
    · simp only [hts, if_true]
      have hl : (Split.splitB 47 q).getLast? = some [] := by
        simpa [Spec.trailingSlash, Spec.pieces] using hts
      have hnn := Split.splitB_ne_nil 47 q
      have hd : (Split.splitB 47 q).dropLast ++ [[]] = Split.splitB 47 q := by
        have := List.dropLast_concat_getLast hnn
        have hg : (Split.splitB 47 q).getLast hnn = [] := by
          have := List.getLast?_eq_some_getLast hnn
          rw [hl] at this; exact (Option.some.inj this).symm
        rw [hg] at this; exact this
      have : Spec.pieces (47 :: q) = Split.splitB 47 q := rfl
      rw [this, ← hjoin]
      conv => lhs; rw [← hd]
      simp
    · have hts' : Spec.trailingSlash (47 :: q) = false := by simpa using hts
      simp only [hts', Bool.false_eq_true, if_false, List.append_nil]
      exact hjoin.symm
  · intro s hs
    have hok := hsegs s hs
    simp only [Spec.okSegment, Bool.and_eq_true, bne_iff_ne, ne_eq] at hok
    obtain ⟨h47, hmem⟩ := splitB_piece 47 q s (hsub s hs)
    have hb : ∀ b ∈ s, Spec.okByte b = true := fun b hb => hbytes b (List.mem_cons_of_mem _ (hmem b hb))
    have hnot : ∀ c : UInt8, Spec.okByte c = false → c ∉ s := by
      intro c hc hm
      have := hb c hm
      rw [hc] at this; cases this
    refine ⟨⟨hok.1.1, hok.1.2, hok.2, h47⟩, hnot 63 (by decide), hnot 35 (by decide), hnot 92 (by decide), ?_⟩
    intro b hbm
    have hk := hb b hbm
    cases ha : allowedByte b with
    | true => rfl
    | false =>
      simp only [allowedByte, Bool.not_eq_false', Bool.or_eq_true, decide_eq_true_eq] at ha
      rcases ha with ((((rfl | rfl) | rfl) | rfl) | rfl) | rfl <;> exact absurd hk (by decide)


private theorem fileAt_some_not_dir (t : Tree) (cur : Loc) (segs : List Comp) (b : Bytes)
    (h : Spec.fileAt t cur segs = some b) : Spec.dirAt t cur segs = false := by
  unfold Spec.fileAt at h
  unfold Spec.dirAt
  split at h
  · split at h
    · rename_i hg; simp [hg]
    · cases h
  · cases h

private theorem fileAt_look (t : Tree) (root : Loc) (hd : t.get root = some .dir) (segs : List Comp) :
    Spec.fileAt t root segs = (match look t root segs with | .file b => some b | _ => none) := by
  rw [look_spec t segs root hd]
  cases hf : Spec.fileAt t root segs with
  | some b => rfl
  | none => cases Spec.dirAt t root segs <;> rfl

private theorem dirAt_look (t : Tree) (root : Loc) (hd : t.get root = some .dir) (segs : List Comp) :
    Spec.dirAt t root segs = (match look t root segs with | .dir => true | _ => false) := by
  rw [look_spec t segs root hd]
  cases hf : Spec.fileAt t root segs with
  | some b => simp [fileAt_some_not_dir t root segs b hf]
  | none => cases Spec.dirAt t root segs <;> rfl

private theorem indexName_eq : Spec.indexName = indexHtml := rfl

/-- the standing assumptions give the hypotheses of the controller lemmas -/
private theorem standing_setup {ctx : Ctx} {root : Loc} {req : Request} (h : Standing ctx root req) :
    Setup ctx root req (Spec.segments req.uri) (Spec.trailingSlash req.uri) ∧ NoEarlier req := by
  obtain ⟨huri, hgood, hroute⟩ := wf_target req.uri h.wf
  have hurl : parseUrl (urlOf req.uri) =
      .ok (plainComps (target (Spec.segments req.uri) (Spec.trailingSlash req.uri))) := by
    have := parseUrl_target (Spec.segments req.uri) hgood (Spec.trailingSlash req.uri)
    rw [← huri] at this
    rw [this, ← huri]
  have hnotRoot : req.uri ≠ [47] := by
    intro e
    have := h.wf
    rw [e] at this
    exact absurd this (by decide)
  have hne : ∀ r ∈ Spec.builtinRoutes, req.uri ≠ r := fun r hr e => hroute (e ▸ hr)
  refine ⟨⟨⟨h.cwd, h.rootDir, h.noLinks⟩, ?_, hgood, h.isGet, ⟨_, hurl, rfl⟩, hnotRoot⟩,
    ⟨h.isGet, ⟨_, hurl, ?_⟩, hnotRoot, hne _ (by decide), hne _ (by decide), hne _ (by decide)⟩⟩
  · intro b hb
    have := List.all_eq_true.mp h.cwdBytes b hb
    cases ha : allowedByte b with
    | true => rfl
    | false =>
      simp only [allowedByte, Bool.not_eq_false', Bool.or_eq_true, decide_eq_true_eq] at ha
      rcases ha with ((((rfl | rfl) | rfl) | rfl) | rfl) | rfl <;> exact absurd this (by decide)
  · show target _ _ ≠ formGetPath
    rw [← huri]
    exact hne _ (by decide)

private theorem headerList_total (ctx : Ctx) (req : Request) :
    ∃ hs, HeaderList.getHeaderList ctx.env ctx.now req = .ok hs := by
  obtain ⟨cs, hcs⟩ := Rws.C11.C11_total ctx.env req
  exact ⟨cs ++ HeaderList.fixedHeaders ctx.now, by simp [HeaderList.getHeaderList, hcs]⟩


/-- what `applyReply` makes of a 200 reply with one part -/
private theorem apply200 (hs lm : List Header) (part : ContentRange) (reads : List Loc) :
    applyReply (r0 hs) ⟨some 200, lm, some [part], reads⟩ =
      ⟨⟨[72, 84, 84, 80, 47, 49, 46, 49], 200, [79, 75], hs ++ lm, [part]⟩, reads⟩ := by
  have : reasonOf 200 = [79, 75] := by decide
  simp [applyReply, r0, this, http11]

/-- the 404 answer of the chain, in the specification's terms -/
private theorem apply404 (ctx : Ctx) (root : Loc) (hS : Served ctx.tree ctx.cwd root) (hs : List Header) :
    applyReply (r0 hs) (assetProcess ctx 404 Gen.Assets.notfoundPath Gen.Assets.notfoundBytes
        Gen.Assets.notfoundMime) =
      ⟨⟨[72, 84, 84, 80, 47, 49, 46, 49], 404, [78, 111, 116, 32, 70, 111, 117, 110, 100], hs,
         [wholePart (Spec.notFoundPage ctx.tree root).1 (Spec.notFoundPage ctx.tree root).2.1]⟩,
       (Spec.notFoundPage ctx.tree root).2.2⟩ := by
  have hr : reasonOf 404 = [78, 111, 116, 32, 70, 111, 117, 110, 100] := by decide
  rw [notfound_eval ctx root hS]
  unfold Spec.notFoundPage
  rw [fileAt_look _ _ hS.2.1]
  cases look ctx.tree root [Gen.Assets.notfoundPath] <;>
    simp [applyReply, r0, hr, http11, reply, wholePart, RangeM.getContentRange]

end helpers

/-! ## The property -/

/-- **Hit.**  For every tree, every served directory reached by the working-directory path and
    free of symbolic links, and every well-formed GET target (no Range header): when the documented
    lookup selects the file `sel` holding `bytes` — any bytes, any length a file can have — the
    production chain answers `200 OK` with exactly one part: the whole of `bytes`, labelled
    `0-L/L`, typed `Mime.detect` of the selected file's path; the only location read is that file.
    The headers are the common header list plus at most the Last-Modified stamp.
    Not covered (see `C02_dir_sibling_html_violated`, `C02_html_html_violated`): the `.html` rule
    selecting a file while the target names a directory or already ends in `.html`. -/
theorem C02_hit (ctx : Ctx) (root : Loc) (req : Request) (h : Standing ctx root req)
    (sel : List Comp) (bytes : Bytes)
    (hsel : Spec.selected ctx.tree root (Spec.segments req.uri) (Spec.trailingSlash req.uri) = some (sel, bytes))
    (hlen : bytes.length < 18446744073709551615)
    (hreg : Spec.htmlRuleBlocked ctx.tree root (Spec.segments req.uri) (Spec.trailingSlash req.uri) = false) :
    ∃ hs lm, HeaderList.getHeaderList ctx.env ctx.now req = .ok hs ∧
      (lm = [] ∨ lm = [lastModifiedHeader ctx]) ∧
      Controllers.execute ctx req false =
        .ok ⟨⟨[72, 84, 84, 80, 47, 49, 46, 49], 200, [79, 75], hs ++ lm,
              [wholePart bytes (Mime.detect (ctx.cwd ++ Spec.pathOf sel))]⟩, [root ++ sel]⟩ := by
  obtain ⟨hS, hN⟩ := standing_setup h
  obtain ⟨hs, hhs⟩ := headerList_total ctx req
  obtain ⟨htrue, _⟩ := execute_to_static ctx req hN hs hhs
  have hd := h.rootDir
  refine ⟨hs, ?_⟩
  generalize Spec.segments req.uri = segs at *
  generalize Spec.trailingSlash req.uri = slash at *
  simp only [Spec.selected, Spec.htmlRuleBlocked, Spec.pick, Spec.viaIndex, fileAt_look _ _ hd,
    dirAt_look _ _ hd, withHtml_eq, endsHtml_eq, indexName_eq] at hsel hreg
  simp only [pathOf_eq]
  cases hK : look ctx.tree root segs with
  | file b =>
    cases slash with
    | true => simp [hK] at hsel
    | false =>
      simp only [hK, Bool.false_eq_true, if_false, Option.some.injEq, Prod.mk.injEq] at hsel
      obtain ⟨rfl, rfl⟩ := hsel
      refine ⟨[lastModifiedHeader ctx], hhs, Or.inr rfl, ?_⟩
      rw [htrue _ (isMatching_file hS b hK) (process_file hS h.noRange b hlen hK)]
      exact congrArg Outcome.ok (apply200 _ _ _ _)
  | dir =>
    cases hI : look ctx.tree root (segs ++ [indexHtml]) with
    | file bi =>
      have hsel' : sel = segs ++ [indexHtml] ∧ bytes = bi := by
        cases slash <;> simp [hK, hI] at hsel <;> exact ⟨hsel.1.symm, hsel.2.symm⟩
      obtain ⟨rfl, rfl⟩ := hsel'
      refine ⟨[lastModifiedHeader ctx], hhs, Or.inr rfl, ?_⟩
      rw [htrue _ (by rw [isMatching_dir hS hK, hI]; rfl) (process_index hS h.noRange bytes hlen hK hI)]
      exact congrArg Outcome.ok (apply200 _ _ _ _)
    | dir =>
      cases slash
      · cases hH : look ctx.tree root (addHtml segs) <;> simp [hK, hI, hH] at hsel hreg
      · simp [hK, hI] at hsel
    | missing =>
      cases slash
      · cases hH : look ctx.tree root (addHtml segs) <;> simp [hK, hI, hH] at hsel hreg
      · simp [hK, hI] at hsel
  | missing =>
    cases slash with
    | true => simp [hK] at hsel
    | false =>
      cases hH : look ctx.tree root (addHtml segs) with
      | file bh =>
        simp only [hK, hH, Bool.false_eq_true, if_false, Option.some.injEq, Prod.mk.injEq] at hsel
        obtain ⟨rfl, rfl⟩ := hsel
        have hne : lastEndsHtml segs = false := by simpa [hK, hH] using hreg
        refine ⟨[], hhs, Or.inl rfl, ?_⟩
        rw [htrue _ (by rw [isMatching_missing hS hK, hH, hne]; rfl) (process_html hS h.noRange bh hlen hK hH)]
        exact congrArg Outcome.ok (apply200 _ _ _ _)
      | dir => simp [hK, hH] at hsel
      | missing => simp [hK, hH] at hsel

/-- **Miss.**  When the documented lookup selects nothing (missing path, directory without index
    page, trailing slash on a file, …) the production chain answers `404 Not Found` with the
    not-found page — the tree's own `404.html` at the top of the served directory when that is a
    regular file, else the embedded page — and reads no other file.  Never a directory listing,
    never another file's content.  (Includes, since repair F46, a directory named `index.html`
    inside the named directory and a directory named `<p>.html`.) -/
theorem C02_miss (ctx : Ctx) (root : Loc) (req : Request) (h : Standing ctx root req)
    (hsel : Spec.selected ctx.tree root (Spec.segments req.uri) (Spec.trailingSlash req.uri) = none) :
    ∃ hs, HeaderList.getHeaderList ctx.env ctx.now req = .ok hs ∧
      Controllers.execute ctx req false =
        .ok ⟨⟨[72, 84, 84, 80, 47, 49, 46, 49], 404, [78, 111, 116, 32, 70, 111, 117, 110, 100], hs,
              [wholePart (Spec.notFoundPage ctx.tree root).1 (Spec.notFoundPage ctx.tree root).2.1]⟩,
             (Spec.notFoundPage ctx.tree root).2.2⟩ := by
  obtain ⟨hS, hN⟩ := standing_setup h
  obtain ⟨hs, hhs⟩ := headerList_total ctx req
  obtain ⟨_, hfalse⟩ := execute_to_static ctx req hN hs hhs
  have hd := h.rootDir
  refine ⟨hs, hhs, ?_⟩
  have key : isMatching ctx req = .ok false := by
    generalize Spec.segments req.uri = segs at *
    generalize Spec.trailingSlash req.uri = slash at *
    simp only [Spec.selected, Spec.pick, Spec.viaIndex, fileAt_look _ _ hd,
      dirAt_look _ _ hd, withHtml_eq, endsHtml_eq, indexName_eq] at hsel
    cases hK : look ctx.tree root segs with
    | file b =>
      cases slash with
      | true => exact isMatching_file_slash hS b hK
      | false => simp [hK] at hsel
    | dir =>
      rw [isMatching_dir hS hK]
      cases hI : look ctx.tree root (segs ++ [indexHtml]) with
      | file bi => cases slash <;> simp [hK, hI] at hsel
      | dir => rfl
      | missing => rfl
    | missing =>
      cases slash with
      | true => exact isMatching_missing_slash hS hK
      | false =>
        rw [isMatching_missing hS hK]
        cases hE : lastEndsHtml segs with
        | true => rfl
        | false =>
          cases hH : look ctx.tree root (addHtml segs) with
          | file bh => simp [hK, hH] at hsel
          | dir => rfl
          | missing => rfl
  rw [hfalse key, apply404 ctx root hS.served hs]

/-- … in particular the only location a miss can read is `<served directory>/404.html` -/
theorem C02_miss_reads (t : Tree) (root : Loc) :
    ∀ l ∈ (Spec.notFoundPage t root).2.2, l = root ++ [[52, 48, 52, 46, 104, 116, 109, 108]] := by
  unfold Spec.notFoundPage
  cases Spec.fileAt t root [Gen.Assets.notfoundPath] <;> simp [Gen.Assets.notfoundPath]

/-- **Query strings and fragments do not affect the lookup.**  For EVERY tree and configuration:
    appending `?` and anything, or `#` and a fragment without `?`, to a well-formed GET target
    leaves the whole answer of the production chain (status, headers, parts, locations read)
    unchanged.  (`/style.css?v=1` and the other built-in routes are outside `wfPath`; a fragment
    containing `?` is not covered: `C02_fragment_qmark_violated`.) -/
theorem C02_query_fragment (ctx : Ctx) (req : Request) (sfx : Bytes) (hget : req.method = GET)
    (hwf : Spec.wfPath req.uri = true) (hsfx : Spec.querySuffix sfx = true) :
    Controllers.execute ctx { req with uri := req.uri ++ sfx } false = Controllers.execute ctx req false := by
  obtain ⟨huri, hgood, hroute⟩ := wf_target req.uri hwf
  obtain ⟨r, hr, h63, h35⟩ := target_tail _ hgood (Spec.trailingSlash req.uri)
  rw [← huri] at hr
  have hurl : parseUrl (urlOf req.uri) = .ok (plainComps req.uri) := by
    rw [hr]; exact parseUrl_plain r h63 h35
  have hne : ∀ k ∈ Spec.builtinRoutes, req.uri ≠ k := fun k hk e => hroute (e ▸ hk)
  have hnotRoot : req.uri ≠ [47] := by
    intro e
    rw [e] at hwf
    exact absurd hwf (by decide)
  have hN : NoEarlier req :=
    ⟨hget, ⟨_, hurl, hne _ (by decide)⟩, hnotRoot, hne _ (by decide), hne _ (by decide), hne _ (by decide)⟩
  have hshape : (∃ x, sfx = 63 :: x) ∨ (∃ f, sfx = 35 :: f ∧ (63 : UInt8) ∉ f) := by
    unfold Spec.querySuffix at hsfx
    split at hsfx
    · exact Or.inl ⟨_, rfl⟩
    · exact Or.inr ⟨_, rfl, by simpa using hsfx⟩
    · cases hsfx
  -- the parsed path of the longer target
  obtain ⟨c', hc', hp'⟩ : ∃ c', parseUrl (urlOf (req.uri ++ sfx)) = .ok c' ∧ c'.path = req.uri := by
    unfold urlOf
    rw [hr]
    rcases hshape with ⟨x, rfl⟩ | ⟨f, rfl, hf⟩
    · exact parseUrl_query r x h63
    · exact parseUrl_fragment r f h63 h35 hf
  -- the longer target is none of the literal routes: it contains `?` or `#`
  have hmark : (63 : UInt8) ∈ req.uri ++ sfx ∨ (35 : UInt8) ∈ req.uri ++ sfx := by
    rcases hshape with ⟨x, rfl⟩ | ⟨f, rfl, _⟩
    · exact Or.inl (by simp)
    · exact Or.inr (by simp)
  have hlit : ∀ k : Bytes, (63 : UInt8) ∉ k → (35 : UInt8) ∉ k → req.uri ++ sfx ≠ k := by
    intro k h1 h2 e
    rcases hmark with m | m
    · exact h1 (e ▸ m)
    · exact h2 (e ▸ m)
  have hN' : NoEarlier { req with uri := req.uri ++ sfx } :=
    ⟨hget, ⟨c', hc', by rw [hp']; exact hne _ (by decide)⟩, hlit _ (by decide) (by decide),
      hlit _ (by decide) (by decide), hlit _ (by decide) (by decide), hlit _ (by decide) (by decide)⟩
  exact execute_congr ctx req (req.uri ++ sfx) hN hN' _ c' hurl hc' (by rw [hp']; rfl)

/-- ASCII text as bytes (for stating examples) -/
def asc (s : String) : Bytes := s.toList.map (fun c => UInt8.ofNat c.toNat)

/-- **The bytes on the wire.**  A GET answered with one whole-body part is serialised as: status
    line, the response's headers, then `Content-Type: <media type>`, `Content-Range: bytes 0-L/L`,
    `Content-Length: L`, a blank line, and a body that is exactly the file's bytes. -/
theorem C02_hit_response (r : Response) (q : Request) (bytes mime : Bytes) (hq : q.method = GET)
    (hp : r.parts = [wholePart bytes mime]) :
    Resp.framingHeaders r.parts =
      [⟨asc "Content-Type", mime⟩,
       ⟨asc "Content-Range", asc "bytes 0-" ++ natToDec bytes.length ++ asc "/" ++ natToDec bytes.length⟩,
       ⟨asc "Content-Length", natToDec bytes.length⟩] ∧
    Resp.generateBody r.parts = bytes ∧
    Resp.generateResponse r q = Resp.headBytes r (r.headers ++ Resp.framingHeaders r.parts) ++ bytes := by
  have e1 : Gen.respContentType = asc "Content-Type" := by decide +kernel
  have e2 : Gen.respContentRange = asc "Content-Range" := by decide +kernel
  have e3 : Gen.respContentLength = asc "Content-Length" := by decide +kernel
  have e4 : Gen.respBytesUnit ++ [32] ++ natToDec 0 ++ [45] = asc "bytes 0-" := by decide +kernel
  have e5 : ([47] : Bytes) = asc "/" := by decide +kernel
  have m1 : (GET == Gen.respMethodHead) = false := by decide
  have m2 : (GET == Gen.respMethodOptions) = false := by decide
  refine ⟨?_, ?_, ?_⟩
  · rw [hp]
    simp only [Resp.framingHeaders, Resp.contentRangeValue, wholePart, e1, e2, e3, ← e5]
    rw [← e4]
  · rw [hp]; rfl
  · unfold Resp.generateResponse
    simp only [hq, m1, m2, Bool.or_self, Bool.false_eq_true, if_false]
    rw [hp]; rfl

/-- **Through `Server::process`.**  Under the hypotheses of `C02_hit`, when the connection delivers
    bytes that parse to the request, the shipped entry point writes the status line and headers
    followed by exactly `bytes`, and reads exactly the selected file. -/
theorem C02_hit_server (ctx : Ctx) (root : Loc) (req : Request) (h : Standing ctx root req)
    (sel : List Comp) (bytes : Bytes)
    (hsel : Spec.selected ctx.tree root (Spec.segments req.uri) (Spec.trailingSlash req.uri) = some (sel, bytes))
    (hlen : bytes.length < 18446744073709551615)
    (hreg : Spec.htmlRuleBlocked ctx.tree root (Spec.segments req.uri) (Spec.trailingSlash req.uri) = false)
    (alloc : Nat) (d : Bytes) (script : List Transport.WCall) (flushOk : Bool)
    (hparse : Req.parse (Server.fillBuffer alloc d) = .ok req) :
    ∃ a, Controllers.execute ctx req false = .ok a ∧ a.response.status = 200 ∧
      a.response.parts = [wholePart bytes (Mime.detect (ctx.cwd ++ Spec.pathOf sel))] ∧
      Server.process ctx .real alloc (.data d) script flushOk =
        (let raw := Resp.headBytes a.response (a.response.headers ++ Resp.framingHeaders a.response.parts) ++ bytes
         let s := Server.send raw script flushOk
         .ok ⟨if s.wrote && s.flushed then .ok else .err, s.wire, [root ++ sel]⟩) := by
  obtain ⟨hs, lm, _, _, he⟩ := C02_hit ctx root req h sel bytes hsel hlen hreg
  refine ⟨_, he, rfl, rfl, ?_⟩
  have horigin : Server.isOriginForm req = true := by
    have := h.wf
    simp only [Spec.wfPath, Bool.and_eq_true, beq_iff_eq] at this
    simp [Server.isOriginForm, this.1.1.1.1]
  obtain ⟨_, _, hraw⟩ := C02_hit_response
    ⟨[72, 84, 84, 80, 47, 49, 46, 49], 200, [79, 75], hs ++ lm,
      [wholePart bytes (Mime.detect (ctx.cwd ++ Spec.pathOf sel))]⟩ req bytes _ h.isGet rfl
  unfold Server.process
  simp only [hparse, horigin, Server.appExecute, he, Bool.not_true, Bool.false_eq_true, if_false, hraw]

/-- **Through `Server::process`, miss.**  Under the hypotheses of `C02_miss` the shipped entry point
    reads nothing but (possibly) the tree's own `404.html`. -/
theorem C02_miss_server (ctx : Ctx) (root : Loc) (req : Request) (h : Standing ctx root req)
    (hsel : Spec.selected ctx.tree root (Spec.segments req.uri) (Spec.trailingSlash req.uri) = none)
    (alloc : Nat) (d : Bytes) (script : List Transport.WCall) (flushOk : Bool)
    (hparse : Req.parse (Server.fillBuffer alloc d) = .ok req) :
    ∃ o, Server.process ctx .real alloc (.data d) script flushOk = .ok o ∧
      o.reads = (Spec.notFoundPage ctx.tree root).2.2 := by
  obtain ⟨hs, _, he⟩ := C02_miss ctx root req h hsel
  have horigin : Server.isOriginForm req = true := by
    have := h.wf
    simp only [Spec.wfPath, Bool.and_eq_true, beq_iff_eq] at this
    simp [Server.isOriginForm, this.1.1.1.1]
  unfold Server.process
  simp only [hparse, horigin, Server.appExecute, he, Bool.not_true, Bool.false_eq_true, if_false]
  exact ⟨_, rfl, rfl⟩

/-- **The media type is that of the selected file's name.**  For a selected file whose name has an
    extension (a dot that is not its first byte), the type `C02_hit` reports is the table lookup of
    that extension (`C02Mime.lookupExt`): neither the working directory nor the directories on the
    way matter.  (Dot-files and extension-less names: `C02Mime.C02_mime_dotfile_lookup`,
    `C02_mime_default`.) -/
theorem C02_hit_mime (cwd : Bytes) (init : List Comp) (name : Comp) (h47 : (47 : UInt8) ∉ name)
    (hd : C02Mime.dotted name = true) :
    Mime.detect (cwd ++ Spec.pathOf (init ++ [name])) =
      C02Mime.lookupExt Gen.mimeRules Gen.mimeDefault (C02Mime.lastExt name) := by
  have hne : ∀ x ∈ name.reverse, (x != 47) = true := by
    intro x hx
    have : x ≠ 47 := fun e => h47 (e ▸ List.mem_reverse.mp hx)
    simpa using this
  have tw : ∀ (a b : Bytes), (∀ x ∈ a, (x != 47) = true) → (a ++ 47 :: b).takeWhile (· != 47) = a := by
    intro a b ha
    induction a with
    | nil => simp
    | cons x xs ih =>
      have hx := ha x (by simp)
      simp only [List.cons_append, List.takeWhile_cons, hx, if_true]
      rw [ih (fun y hy => ha y (by simp [hy]))]
  have tw0 : ∀ (a : Bytes), (∀ x ∈ a, (x != 47) = true) → a.takeWhile (· != 47) = a := by
    intro a ha
    induction a with
    | nil => rfl
    | cons x xs ih =>
      simp only [List.takeWhile_cons, ha x (by simp), if_true]
      rw [ih (fun y hy => ha y (by simp [hy]))]
  have l1 : C02Mime.lastComp (cwd ++ Spec.pathOf (init ++ [name])) = name := by
    unfold C02Mime.lastComp
    have : cwd ++ Spec.pathOf (init ++ [name]) = (cwd ++ Spec.pathOf init) ++ 47 :: name := by
      simp [Spec.pathOf]
    rw [this, List.reverse_append, List.reverse_cons, List.append_assoc]
    rw [show [(47 : UInt8)] ++ (cwd ++ Spec.pathOf init).reverse = 47 :: (cwd ++ Spec.pathOf init).reverse from rfl]
    rw [tw _ _ hne, List.reverse_reverse]
  have l2 : C02Mime.lastComp name = name := by
    unfold C02Mime.lastComp
    rw [tw0 _ hne, List.reverse_reverse]
  have hd' : C02Mime.dotted (cwd ++ Spec.pathOf (init ++ [name])) = true := by
    unfold C02Mime.dotted at hd ⊢
    rw [l1]; rw [l2] at hd; exact hd
  rw [C02Mime.C02_mime_lookup _ hd']
  unfold C02Mime.lastExt
  rw [l1, l2]

/-! ## Non-vacuity, binary fidelity, negation witnesses (all kernel-evaluated on one small tree) -/


/-- the served directory `/srv` of the examples -/
def demoTree : Tree := ⟨[
  ([asc "srv", asc "a.bin"], .file [0, 13, 10, 255]),
  ([asc "srv", asc "empty.txt"], .file []),
  ([asc "srv", asc "sub", asc "index.html"], .file (asc "<h1>sub</h1>")),
  ([asc "srv", asc "page.html"], .file (asc "<p>page</p>")),
  ([asc "srv", asc "docs", asc "readme.txt"], .file (asc "read me")),
  ([asc "srv", asc "docs.html"], .file (asc "<p>docs</p>")),
  ([asc "srv", asc "old.html.html"], .file (asc "<p>old</p>")),
  ([asc "srv", asc "odd", asc "index.html", asc "x"], .file (asc "x")),
  ([asc "srv", asc "ghost.html", asc "y"], .file (asc "y")),
  ([asc "srv", asc "hollow"], .dir),
  ([asc "etc", asc "passwd"], .file (asc "root"))]⟩

def demoCtx : Ctx := ⟨demoTree, asc "/srv", fun _ => none, asc "1", asc "2", asc "error"⟩

def demoGet (target : String) : Request := ⟨GET, asc target, asc "HTTP/1.1", [], []⟩

/-- what the theorems speak about, for the witnesses: status, parts, locations read -/
def observed (o : Outcome Answer) : Option (Int × List ContentRange × List Loc) :=
  match o with
  | .ok a => some (a.response.status, a.response.parts, a.reads)
  | _ => none

-- the hypotheses are satisfiable: a file, a directory index (with and without the slash), the
-- `.html` rule, an empty file, a nested file, a miss
example : Standing demoCtx [asc "srv"] (demoGet "/a.bin") :=
  ⟨by decide +kernel, by decide +kernel, by decide +kernel, by decide +kernel, rfl, by decide +kernel, rfl⟩

private theorem demoStanding (target : String) (hwf : Spec.wfPath (asc target) = true) :
    Standing demoCtx [asc "srv"] (demoGet target) :=
  ⟨by decide +kernel, by decide +kernel, by decide +kernel, by decide +kernel, rfl, hwf, rfl⟩

example : Spec.selected demoTree [asc "srv"] (Spec.segments (asc "/a.bin")) (Spec.trailingSlash (asc "/a.bin"))
    = some ([asc "a.bin"], [0, 13, 10, 255]) := by decide +kernel
example : Spec.selected demoTree [asc "srv"] [asc "sub"] false = some ([asc "sub", asc "index.html"], asc "<h1>sub</h1>") := by
  decide +kernel
example : Spec.selected demoTree [asc "srv"] (Spec.segments (asc "/sub/")) (Spec.trailingSlash (asc "/sub/"))
    = some ([asc "sub", asc "index.html"], asc "<h1>sub</h1>") := by decide +kernel
example : Spec.selected demoTree [asc "srv"] [asc "page"] false = some ([asc "page.html"], asc "<p>page</p>") := by
  decide +kernel
example : Spec.selected demoTree [asc "srv"] [asc "empty.txt"] false = some ([asc "empty.txt"], []) := by decide +kernel
example : Spec.selected demoTree [asc "srv"] [asc "docs", asc "readme.txt"] false
    = some ([asc "docs", asc "readme.txt"], asc "read me") := by decide +kernel
example : Spec.selected demoTree [asc "srv"] [asc "hollow"] false = none := by decide +kernel
example : Spec.selected demoTree [asc "srv"] [asc "a.bin"] true = none := by decide +kernel
example : Spec.selected demoTree [asc "srv"] [asc "nothing"] false = none := by decide +kernel
example : Spec.htmlRuleBlocked demoTree [asc "srv"] [asc "page"] false = false := by decide +kernel
example : Spec.wfPath (asc "/docs/readme.txt") = true ∧ Spec.wfPath (asc "/sub/") = true ∧
    Spec.wfPath [47, 99, 97, 102, 195, 169, 46, 116, 120, 116] = true := by decide +kernel
example : Spec.wfPath (asc "/") = false ∧ Spec.wfPath (asc "/a/../b") = false ∧ Spec.wfPath (asc "/a//b") = false ∧
    Spec.wfPath (asc "/a b") = false ∧ Spec.wfPath (asc "/a?x") = false ∧ Spec.wfPath (asc "/style.css") = false ∧
    Spec.wfPath (asc "a") = false ∧ Spec.wfPath (asc "/./a") = false := by decide +kernel
example : Spec.querySuffix (asc "?a=b#frag?") = true ∧ Spec.querySuffix (asc "#frag") = true ∧
    Spec.querySuffix (asc "#a?b") = false := by decide +kernel

/-- **Binary fidelity.**  `C02_hit` is stated for an arbitrary `bytes : List UInt8` — all 256 byte
    values, any length below 2^64 - 1 — so the body is byte-identical to the file whatever it
    holds.  Here: the file `/srv/a.bin` holding NUL, CR, LF, 0xFF is returned as exactly these four
    bytes, typed by its extension, and nothing else is read. -/
theorem C02_binary :
    ∃ hs lm, Controllers.execute demoCtx (demoGet "/a.bin") false =
      .ok ⟨⟨asc "HTTP/1.1", 200, asc "OK", hs ++ lm,
            [wholePart [0, 13, 10, 255] (Mime.detect (asc "/srv/a.bin"))]⟩, [[asc "srv", asc "a.bin"]]⟩ := by
  obtain ⟨hs, lm, _, _, he⟩ := C02_hit demoCtx [asc "srv"] (demoGet "/a.bin") (demoStanding _ (by decide +kernel))
    [asc "a.bin"] [0, 13, 10, 255] (by decide +kernel) (by decide) (by decide +kernel)
  exact ⟨hs, lm, he⟩

-- `C02_miss` applies: a missing path in the demo tree gets the embedded page and reads nothing
example : ∃ hs, Controllers.execute demoCtx (demoGet "/nothing") false =
    .ok ⟨⟨asc "HTTP/1.1", 404, asc "Not Found", hs, [wholePart Gen.Assets.notfoundBytes Gen.Assets.notfoundMime]⟩, []⟩ := by
  obtain ⟨hs, _, he⟩ := C02_miss demoCtx [asc "srv"] (demoGet "/nothing") (demoStanding _ (by decide +kernel))
    (by decide +kernel)
  exact ⟨hs, he⟩

-- `C02_query_fragment` applies: `/page?x=1#top` is answered exactly as `/page`
example : Controllers.execute demoCtx (demoGet "/page?x=1#top") false = Controllers.execute demoCtx (demoGet "/page") false :=
  C02_query_fragment demoCtx (demoGet "/page") (asc "?x=1#top") rfl (by decide +kernel) (by decide +kernel)

/-- the status of an answer -/
def statusOf (o : Outcome Answer) : Option Int := (observed o).map (·.1)

/-- FINDING (documented order not followed): `/docs` is a directory without `index.html` and
    `docs.html` exists; the documented lookup selects `docs.html`, the chain answers 404 (the matcher
    gives up on a directory without index before it tries `.html`).  Hence `htmlRuleBlocked = false`
    in `C02_hit`. -/
theorem C02_dir_sibling_html_violated :
    Standing demoCtx [asc "srv"] (demoGet "/docs") ∧
    Spec.selected demoTree [asc "srv"] (Spec.segments (asc "/docs")) (Spec.trailingSlash (asc "/docs"))
      = some ([asc "docs.html"], asc "<p>docs</p>") ∧
    Spec.htmlRuleBlocked demoTree [asc "srv"] [asc "docs"] false = true ∧
    statusOf (Controllers.execute demoCtx (demoGet "/docs") false) = some 404 :=
  ⟨demoStanding _ (by decide +kernel), by decide +kernel, by decide +kernel, by decide +kernel⟩

/-- FINDING: `/old.html` does not exist, `old.html.html` does; the documented lookup selects it,
    the chain answers 404 (a path that already ends in `.html` is not tried with `.html` appended). -/
theorem C02_html_html_violated :
    Standing demoCtx [asc "srv"] (demoGet "/old.html") ∧
    Spec.selected demoTree [asc "srv"] (Spec.segments (asc "/old.html")) (Spec.trailingSlash (asc "/old.html"))
      = some ([asc "old.html.html"], asc "<p>old</p>") ∧
    Spec.htmlRuleBlocked demoTree [asc "srv"] [asc "old.html"] false = true ∧
    statusOf (Controllers.execute demoCtx (demoGet "/old.html") false) = some 404 :=
  ⟨demoStanding _ (by decide +kernel), by decide +kernel, by decide +kernel, by decide +kernel⟩

-- regression (repair F46; formerly the witnesses C02_index_dir_violated / C02_html_dir_violated):
-- `/odd` is a directory whose `index.html` is itself a DIRECTORY (was 501 with no part), `/ghost`
-- is missing and `ghost.html` is a DIRECTORY (was 500): the lookup selects nothing and the answer
-- is now the 404 page, nothing read — instances of `C02_miss`
example :
    Standing demoCtx [asc "srv"] (demoGet "/odd") ∧
    Spec.selected demoTree [asc "srv"] (Spec.segments (asc "/odd")) (Spec.trailingSlash (asc "/odd")) = none ∧
    observed (Controllers.execute demoCtx (demoGet "/odd") false) =
      some (404, [wholePart Gen.Assets.notfoundBytes Gen.Assets.notfoundMime], []) :=
  ⟨demoStanding _ (by decide +kernel), by decide +kernel, by decide +kernel⟩
example :
    Standing demoCtx [asc "srv"] (demoGet "/ghost") ∧
    Spec.selected demoTree [asc "srv"] (Spec.segments (asc "/ghost")) (Spec.trailingSlash (asc "/ghost")) = none ∧
    observed (Controllers.execute demoCtx (demoGet "/ghost") false) =
      some (404, [wholePart Gen.Assets.notfoundBytes Gen.Assets.notfoundMime], []) :=
  ⟨demoStanding _ (by decide +kernel), by decide +kernel, by decide +kernel⟩
example : observed (Controllers.execute demoCtx (demoGet "/odd/") false) =
    some (404, [wholePart Gen.Assets.notfoundBytes Gen.Assets.notfoundMime], []) := by decide +kernel

/-- FINDING: a fragment containing `?` is not cut off: for `/a.bin#x?y` url-build-parse splits at
    the `?` first, the path becomes `/a.bin#x` and the file is not found, although `/a.bin` and
    `/a.bin#x` are served.  Hence "fragment without `?`" in `Spec.querySuffix`. -/
theorem C02_fragment_qmark_violated :
    statusOf (Controllers.execute demoCtx (demoGet "/a.bin") false) = some 200 ∧
    statusOf (Controllers.execute demoCtx (demoGet "/a.bin#x") false) = some 200 ∧
    statusOf (Controllers.execute demoCtx (demoGet "/a.bin#x?y") false) = some 404 :=
  ⟨by decide +kernel, by decide +kernel, by decide +kernel⟩

-- settled deviations that are NOT findings: a trailing slash on a file names a directory (the
-- lookup selects nothing, the OS says ENOTDIR, the answer is 404); dot-files and names with an
-- upper-case extension are ordinary components (their media type: C02_mime_dotfile, C02_mime_case)
example : Spec.selected demoTree [asc "srv"] (Spec.segments (asc "/a.bin/")) (Spec.trailingSlash (asc "/a.bin/")) = none ∧
    statusOf (Controllers.execute demoCtx (demoGet "/a.bin/") false) = some 404 := by
  constructor <;> decide +kernel
example : Spec.wfPath (asc "/.hidden") = true ∧ Spec.wfPath (asc "/PHOTO.JPG") = true ∧
    Spec.wfPath (asc "/a:b@c[1].txt") = true := by decide +kernel
-- a directory without index page is a 404 carrying the embedded page, no listing, nothing read
example : observed (Controllers.execute demoCtx (demoGet "/hollow") false) =
    some (404, [wholePart Gen.Assets.notfoundBytes Gen.Assets.notfoundMime], []) := by decide +kernel


-- outside `wfPath`, for the record: empty and `.` components are skipped by the OS walk and the
-- file is served (`//` and `/./` are not covered by the general theorems)
example : statusOf (Controllers.execute demoCtx (demoGet "/docs//readme.txt") false) = some 200 ∧
    statusOf (Controllers.execute demoCtx (demoGet "/./a.bin") false) = some 200 := by
  constructor <;> decide +kernel

/-- FINDING (why `Standing.cwdBytes` is there): when the path of the working directory itself
    contains a byte FilterString refuses (here a space: `/my srv`), every file under it is answered
    `416 Range Not Satisfiable` — the filter is applied to the absolute path, not to the target. -/
theorem C02_cwd_space_violated :
    let t : Tree := ⟨[([asc "my srv", asc "a.bin"], .file [1, 2, 3])]⟩
    let ctx : Ctx := ⟨t, asc "/my srv", fun _ => none, asc "1", asc "2", asc "error"⟩
    Fs.locate t ctx.cwd = some [asc "my srv"] ∧
    Spec.selected t [asc "my srv"] [asc "a.bin"] false = some ([asc "a.bin"], [1, 2, 3]) ∧
    statusOf (Controllers.execute ctx (demoGet "/a.bin") false) = some 416 := by
  refine ⟨by decide +kernel, by decide +kernel, by decide +kernel⟩

end Rws.C02
