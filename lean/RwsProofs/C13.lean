/-
  C13 — the server never modifies the files it serves.

  In the model the file system is an INPUT: every function on the request path has the shape
  `… → Fs.Tree → … → value` and none returns a tree, so no handler can create, delete, rename or
  alter an entry.  The theorems below state what follows: a connection history of any length,
  with any requests, handlers and transport behaviour, is answered connection by connection as if
  each were served alone on the ORIGINAL tree, and the only file-system observations the model
  makes are the read-only ones of `Rws.Fs` (`metadata`, `canOpen`, `readFile`, `isSymlink`,
  `readLink`).  This is true by construction of the model and is labelled as such (DESIGN.md
  6/C13): the content of the check is the TIE — the effect inventory regenerated from the source
  (`C13_effect_inventory_is_empty`), the manifests of the generated trees before/after every
  batch of the differential campaign, and, in the thorough tier, the real binary under strace.
-/
import Rws.Server
import Rws.Gen.Inventory
namespace Rws.C13
open Rws Rws.Server Rws.Static

/-- one connection of a history: handler, buffer size, what `read` delivers, how the transport
    takes the writes, whether `flush` works -/
structure Conn where
  app    : App
  alloc  : Nat
  read   : ReadScript
  script : List Transport.WCall
  flush  : Bool

/-- the file system after a connection has been served: the effect the model gives a handler
    on the tree (none: the tree is not an output of `Server.process`) -/
def treeAfter (tree : Fs.Tree) (_answer : Outcome Outcome2) : Fs.Tree := tree

/-- a server run over a history: the tree is threaded through, connection by connection -/
def serveHistory (ctx : Ctx) : List Conn → List (Outcome Outcome2) × Fs.Tree
  | [] => ([], ctx.tree)
  | c :: cs =>
    let a := Server.process ctx c.app c.alloc c.read c.script c.flush
    let ctx' := { ctx with tree := treeAfter ctx.tree a }
    let (rest, t) := serveHistory ctx' cs
    (a :: rest, t)

/-- **C13** — after any history of connections (any requests, any handlers, any transport
    faults) the tree is the tree the server started with. -/
theorem C13_readonly (ctx : Ctx) (h : List Conn) : (serveHistory ctx h).2 = ctx.tree := by
  induction h generalizing ctx with
  | nil => rfl
  | cons c cs ih => simp only [serveHistory, treeAfter]; exact ih _

/-- every connection of a history is answered as if it were served alone on the original tree:
    no earlier connection (upload-shaped POST/PUT/DELETE bodies included) can influence what a
    later one is served -/
theorem C13_history_independent (ctx : Ctx) (h : List Conn) :
    (serveHistory ctx h).1 = h.map (fun c => Server.process ctx c.app c.alloc c.read c.script c.flush) := by
  induction h generalizing ctx with
  | nil => rfl
  | cons c cs ih =>
    simp only [serveHistory, treeAfter, List.map_cons]
    congr 1
    exact ih _

/-- the effect inventory regenerated from the CURRENT source (every call of a file-system
    write / create / delete / rename API, `set_current_dir` or process spawn in non-test code,
    translator/gens/inventory.py) contains nothing on or beside the request path; this stops
    compiling as soon as the scanner finds one. -/
theorem C13_effect_inventory_is_empty : Rws.Gen.effectUnexpected = [] := rfl

/-- non-vacuity: a history with an upload-shaped request over a tree with a file -/
example : (serveHistory ⟨⟨[([[114], [102]], .file [1, 2, 3])]⟩, [47, 114], Cors.envOf [], [], [], []⟩
    [⟨.real, 100, .data [80, 85, 84, 32, 47, 102, 32, 72, 84, 84, 80, 47, 49, 46, 49, 13, 10, 13, 10, 120], [], true⟩,
     ⟨.fails, 100, .error, [.acc 1, .fail], false⟩]).2.entries.length = 1 := by
  rw [C13_readonly]; rfl

end Rws.C13
