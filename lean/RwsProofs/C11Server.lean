/-
  C11 at the level of the SERVER — cross-origin grants follow the configuration exactly, in the
  ANSWER the server serialises.

  `RwsProofs/C11.lean` proves the property for `Cors::get_headers` (the library function).  This
  file carries it to the observation point of the property: the header block of the response
  that `Server::process` (production) and `Server::process_request` (legacy) hand to the
  transport — through `Header::get_header_list`, the controller chain (`Controllers.execute`,
  every controller), the framing headers the serialiser adds, and the 400 answers the server
  builds itself.  Helper lemmas: RwsProofs/Lemmas/C11Server.lean.

  Reading guide.
    isAc n                 the header name `n` begins with `Access-Control-` (any letter case)
    acHeaders hs           the sublist of `hs` with such names, in order
    wireHeaders r          the header block that is serialised for the response `r`: its own
                           headers, then the framing headers (`Content-Type`, `Content-Range`,
                           `Content-Length`) the serialiser pushes
    accepted alloc read    the request the server hands to the application: what was read parses
                           and the target is in origin form; `none` = answered 400 by the server
    answer400 / errorRequest   the response / the request the 400 answer is serialised from
    Served … legacy w      `w` is the wire of a connection that was answered through the
                           production (`legacy = false`) or the legacy entry point
  `(Server.send raw script fl).wire` is what the transport made of the bytes `raw` handed to
  `write_all`; the first `write` call, if there is one, sees exactly `raw`
  (`C11Server_first_write`).
  Every theorem quantifies over ALL contexts (tree, working directory, environment, clock, error
  text), request bytes, buffer sizes and transport scripts.
-/
import Rws.Server
import RwsProofs.C11
import RwsProofs.Lemmas.C11Server
namespace Rws.C11Server
set_option linter.unusedSimpArgs false
set_option linter.unusedVariables false
open Rws Rws.Gen.Cors Rws.Server
open Rws.C11 (ascii acPrefix grantNames originOf requestValue valueOf litTrue litFalse configuredOrigins)
open Rws.Cors (envVar getHeaders)
open Rws.Controllers (Answer)
open Rws.C11ServerLemmas (otherNames)

/-! ## The specification vocabulary -/

/-- the name begins with `Access-Control-`, compared without regard to ASCII letter case (header
    names are case-insensitive on the wire) -/
def isAc (name : Bytes) : Bool := startsWith (name.map asciiLower) (acPrefix.map asciiLower)

/-- the `Access-Control-*` headers of a header block, in order -/
def acHeaders (hs : List Header) : List Header := hs.filter (fun h => isAc h.name)

/-- the header block serialised for a response: its headers, then the serialiser's framing -/
def wireHeaders (r : Response) : List Header := r.headers ++ Resp.framingHeaders r.parts

/-- the request handed to the application: the bytes read (into a zero-filled buffer of `alloc`
    bytes) parse, and the request target begins with `/`.  `none`: the server answers 400. -/
def accepted (alloc : Nat) (read : ReadScript) : Option Request :=
  match read with
  | .error => none
  | .data d =>
    match Req.parse (fillBuffer alloc d) with
    | .ok req => if isOriginForm req then some req else none
    | _ => none

/-- the request a 400 answer is built for: a method and nothing else (no `Origin`) -/
def errorRequest (method : Bytes) : Request := ⟨method, [], [], [], []⟩

/-- the 400 answer: the eight fixed headers of `get_header_list` and the error text -/
def answer400 (ctx : Static.Ctx) : Response :=
  ⟨ascii "HTTP/1.1", 400, ascii "Bad Request", HeaderList.fixedHeaders ctx.now,
   [⟨ascii "bytes", ⟨0, charCount ctx.errText⟩, natToDec (charCount ctx.errText), ctx.errText,
     ascii "text/plain"⟩]⟩

/-- `w` is the wire of a connection answered through the production entry point
    `Server::process` with the real application, or through `Server::process_request` -/
def Served (ctx : Static.Ctx) (alloc : Nat) (read : ReadScript) (script : List Transport.WCall)
    (fl : Bool) (legacy : Bool) (w : Wire) : Prop :=
  if legacy = true then ∃ raw reads, Server.processRequest ctx alloc read script fl = .ok (raw, w, reads)
  else ∃ o, Server.process ctx .real alloc read script fl = .ok o ∧ o.wire = w

/-! ## The vocabulary is sound: the six grant names are `Access-Control-*` names, no other header
    the server emits is, and looking a grant up in the block or in its sublist is the same -/

theorem C11Server_names :
    (∀ n ∈ grantNames, isAc n = true) ∧ (∀ n ∈ otherNames, isAc n = false) ∧
    otherNames = [ascii "Accept-CH", ascii "Critical-CH", ascii "Vary", ascii "X-Content-Type-Options",
      ascii "Accept-Ranges", ascii "X-Frame-Options", ascii "Date-Unix-Epoch-Nanos", ascii "Cache-Control",
      ascii "Last-Modified-Unix-Epoch-Nanos", ascii "Content-Type", ascii "Content-Range",
      ascii "Content-Length"] := by
  decide +kernel

/-- a name that begins with the exact text `Access-Control-` is recognised -/
theorem C11Server_isAc_of_prefix (n : Bytes) (h : startsWith n acPrefix = true) : isAc n = true := by
  unfold isAc startsWith at *
  rw [List.isPrefixOf_iff_prefix] at *
  exact h.map _

theorem C11Server_lookup (hs : List Header) (n : Bytes) (hn : isAc n = true) :
    valueOf (acHeaders hs) n = valueOf hs n := by
  induction hs with
  | nil => rfl
  | cons h t ih =>
    unfold acHeaders at ih ⊢
    by_cases hp : isAc h.name = true
    · simp only [List.filter_cons, hp, if_true, valueOf, ih]
    · have hne : h.name ≠ n := fun e => hp (e ▸ hn)
      simp only [List.filter_cons, hp, valueOf, hne, if_false, ih, Bool.false_eq_true]

/-- the first buffer handed to `write` is the whole response -/
theorem C11Server_first_write (raw x : Bytes) (script : List Transport.WCall) (fl : Bool) (w : Wire)
    (hw : w = (Server.send raw script fl).wire) (hx : w.writes.head? = some x) : x = raw := by
  subst hw
  exact C11ServerLemmas.send_first_write raw x script fl hx

/-! ## 1. The controller chain -/

/-- **C11, controller chain** — whatever the context and the request, whichever controller
    answers (index, style, script, the four form/echo endpoints, favicon, static files, not
    found — 200, 204, 206, 400, 404, 416, 500 alike), on either chain: the `Access-Control-*`
    headers of the header block that is serialised are EXACTLY the list `Cors::get_headers`
    computed for this request — same entries, same order, nothing added, dropped or duplicated. -/
theorem C11Server_chain (ctx : Static.Ctx) (req : Request) (legacy : Bool) (a : Answer)
    (h : Controllers.execute ctx req legacy = .ok a) :
    ∃ hs, getHeaders ctx.env req = .ok hs ∧ acHeaders (wireHeaders a.response) = hs := by
  obtain ⟨cors, ex, hc, hh, hex, _, _⟩ := C11ServerLemmas.execute_shape ctx req legacy a h
  refine ⟨cors, hc, ?_⟩
  have hnames := C11.C11_names ctx.env req cors hc
  have hoth : ∀ x ∈ (HeaderList.fixedHeaders ctx.now ++ ex) ++ Resp.framingHeaders a.response.parts,
      x.name ∈ otherNames := by
    intro x hx
    rcases List.mem_append.mp hx with hx | hx
    · rcases List.mem_append.mp hx with hx | hx
      · exact C11ServerLemmas.fixed_other _ x hx
      · rw [hex x hx]; simp [otherNames]
    · exact C11ServerLemmas.framing_other _ x hx
  unfold acHeaders wireHeaders
  rw [hh, List.append_assoc, List.filter_append]
  have e1 : cors.filter (fun h => isAc h.name) = cors :=
    List.filter_eq_self.mpr (fun x hx => C11Server_names.1 _ (hnames x hx))
  have e2 : ((HeaderList.fixedHeaders ctx.now ++ ex) ++ Resp.framingHeaders a.response.parts).filter
      (fun h => isAc h.name) = [] := by
    rw [List.filter_eq_nil_iff]
    intro x hx
    simp [C11Server_names.2.1 _ (hoth x hx)]
  rw [e1, e2, List.append_nil]

/-- … and the status line of such an answer is `HTTP/1.1 <status> <reason of the status>`: there
    is no room for a header anywhere but in the header block -/
theorem C11Server_chain_status_line (ctx : Static.Ctx) (req : Request) (legacy : Bool) (a : Answer)
    (h : Controllers.execute ctx req legacy = .ok a) :
    a.response.version = ascii "HTTP/1.1" ∧ a.response.reason = Controllers.reasonOf a.response.status := by
  obtain ⟨_, _, _, _, _, hv, hr⟩ := C11ServerLemmas.execute_shape ctx req legacy a h
  exact ⟨by rw [hv]; decide +kernel, hr⟩

/-! ## 2. The 400 answers -/

/-- the literal 400 answer of the specification is the one the model builds -/
private theorem e400 (ctx : Static.Ctx) : C11ServerLemmas.response400 ctx = answer400 ctx := by
  have e1 : ascii "HTTP/1.1" = Controllers.http11 := by decide +kernel
  have e2 : ascii "Bad Request" = Controllers.reasonOf 400 := by decide +kernel
  have e3 : ascii "bytes" = Gen.respBytesUnit := by decide +kernel
  have e4 : ascii "text/plain" = Controllers.textPlain := by decide +kernel
  unfold answer400 C11ServerLemmas.response400
  rw [e1, e2, e3, e4]

/-- **C11, 400 answers** — `Server::bad_request_response_to` (unreadable, unparsable or
    non-origin-form request; failing handler) never fails, for every method text and error text;
    it serialises `answer400` for a request that has the method and NO header, so the grants
    computed on that path are none, and the 400 answer carries no `Access-Control-*` header. -/
theorem C11Server_bad_request (ctx : Static.Ctx) (method : Bytes) :
    Server.badRequestResponse ctx method =
      .ok (Resp.generateResponse (answer400 ctx) (errorRequest method)) ∧
    getHeaders ctx.env (errorRequest method) = .ok [] ∧
    acHeaders (wireHeaders (answer400 ctx)) = [] := by
  refine ⟨by rw [← e400]; exact C11ServerLemmas.badRequest_eq ctx method,
    C11ServerLemmas.cors_errorRequest ctx.env method, ?_⟩
  unfold acHeaders wireHeaders
  rw [List.filter_eq_nil_iff]
  intro x hx
  have : x.name ∈ otherNames := by
    rcases List.mem_append.mp hx with hx | hx
    · exact C11ServerLemmas.fixed_other _ x hx
    · exact C11ServerLemmas.framing_other _ x hx
  simp [C11Server_names.2.1 _ this]

/-! ## 3. The two entry points -/

section entry
open Rws.C11ServerLemmas

private theorem accepted_of {alloc : Nat} {d : Bytes} {req : Request}
    (hp : Req.parse (fillBuffer alloc d) = .ok req) (hof : isOriginForm req = true) :
    accepted alloc (.data d) = some req := by
  simp [accepted, hp, hof]

/-- **C11, `Server::process`** (the real application) — when the connection is answered:
    * the request was accepted as `req`: the bytes handed to the transport are the serialisation
      of the chain's answer to `req`, whose `Access-Control-*` headers are exactly
      `Cors::get_headers` of `req`;
    * the request was refused: they are the serialisation of the 400 answer, which has none. -/
theorem C11Server_process (ctx : Static.Ctx) (alloc : Nat) (read : ReadScript)
    (script : List Transport.WCall) (fl : Bool) (o : Outcome2)
    (h : Server.process ctx .real alloc read script fl = .ok o) :
    (∀ req, accepted alloc read = some req →
      ∃ a hs, Controllers.execute ctx req false = .ok a ∧
        o.wire = (Server.send (Resp.generateResponse a.response req) script fl).wire ∧
        getHeaders ctx.env req = .ok hs ∧ acHeaders (wireHeaders a.response) = hs) ∧
    (accepted alloc read = none →
      ∃ m, o.wire = (Server.send (Resp.generateResponse (answer400 ctx) (errorRequest m)) script fl).wire ∧
        acHeaders (wireHeaders (answer400 ctx)) = []) := by
  rcases process_cases ctx .real alloc read script fl o h with
    ⟨d, req, a, rfl, hp, hof, ha, hw, _⟩ | ⟨m, hre, hw, _, _⟩
  · have hacc := accepted_of hp hof
    have hx : Controllers.execute ctx req false = .ok a := by
      simp only [appExecute] at ha
      cases he : Controllers.execute ctx req false with
      | ok a' => rw [he] at ha; injection ha with ha; injection ha with ha; rw [ha]
      | err => rw [he] at ha; cases ha
      | panic s => rw [he] at ha; cases ha
    refine ⟨fun req' hr => ?_, fun hn => (by rw [hacc] at hn; cases hn)⟩
    rw [hacc] at hr
    injection hr with hr
    subst hr
    obtain ⟨hs, hg, hac⟩ := C11Server_chain ctx req false a hx
    exact ⟨a, hs, hx, hw, hg, hac⟩
  · have hnone : accepted alloc read = none := by
      rcases hre with rfl | ⟨d, rfl, hp | ⟨req, hp, hof | ⟨_, hx⟩⟩⟩
      · rfl
      · simp [accepted, hp]
      · simp [accepted, hp, hof]
      · exfalso
        simp only [appExecute] at hx
        cases he : Controllers.execute ctx req false with
        | ok a' => rw [he] at hx; injection hx with hx; cases hx
        | err => rw [he] at hx; cases hx
        | panic s => rw [he] at hx; cases hx
    refine ⟨fun req' hr => (by rw [hnone] at hr; cases hr), fun _ => ⟨m, ?_, (C11Server_bad_request ctx m).2.2⟩⟩
    rw [← e400]; exact hw

/-- **C11, `Server::process` with a failing handler** (`Application::execute` returns `Err`,
    the handlers C04 quantifies over): the answer is the 400 answer — no `Access-Control-*`
    header, whatever the request's `Origin` and the configuration. -/
theorem C11Server_failing_handler (ctx : Static.Ctx) (alloc : Nat) (read : ReadScript)
    (script : List Transport.WCall) (fl : Bool) (o : Outcome2)
    (h : Server.process ctx .fails alloc read script fl = .ok o) :
    ∃ m, o.wire = (Server.send (Resp.generateResponse (answer400 ctx) (errorRequest m)) script fl).wire ∧
      acHeaders (wireHeaders (answer400 ctx)) = [] := by
  rcases process_cases ctx .fails alloc read script fl o h with
    ⟨d, req, a, rfl, hp, hof, ha, hw, _⟩ | ⟨m, hre, hw, _, _⟩
  · simp [appExecute] at ha
  · exact ⟨m, by rw [← e400]; exact hw, (C11Server_bad_request ctx m).2.2⟩

/-- **C11, `Server::process_request`** (legacy entry point, legacy chain): the same; here the
    response bytes are also the returned value. -/
theorem C11Server_process_legacy (ctx : Static.Ctx) (alloc : Nat) (read : ReadScript)
    (script : List Transport.WCall) (fl : Bool) (raw : Bytes) (w : Wire) (reads : List Fs.Loc)
    (h : Server.processRequest ctx alloc read script fl = .ok (raw, w, reads)) :
    w = (Server.send raw script fl).wire ∧
    (∀ req, accepted alloc read = some req →
      ∃ a hs, Controllers.execute ctx req true = .ok a ∧
        raw = Resp.generateResponse a.response req ∧
        getHeaders ctx.env req = .ok hs ∧ acHeaders (wireHeaders a.response) = hs) ∧
    (accepted alloc read = none →
      ∃ m, raw = Resp.generateResponse (answer400 ctx) (errorRequest m) ∧
        acHeaders (wireHeaders (answer400 ctx)) = []) := by
  rcases processRequest_cases ctx alloc read script fl raw w reads h with
    ⟨d, req, a, rfl, hp, hof, hx, hraw, hw, _⟩ | ⟨m, hre, hraw, hw, _⟩
  · have hacc := accepted_of hp hof
    refine ⟨hw, fun req' hr => ?_, fun hn => (by rw [hacc] at hn; cases hn)⟩
    rw [hacc] at hr
    injection hr with hr
    subst hr
    obtain ⟨hs, hg, hac⟩ := C11Server_chain ctx req true a hx
    exact ⟨a, hs, hx, hraw, hg, hac⟩
  · have hnone : accepted alloc read = none := by
      rcases hre with rfl | ⟨d, rfl, hp | ⟨req, hp, hof⟩⟩
      · rfl
      · simp [accepted, hp]
      · simp [accepted, hp, hof]
    refine ⟨hw, fun req' hr => (by rw [hnone] at hr; cases hr),
      fun _ => ⟨m, (by rw [← e400]; exact hraw), (C11Server_bad_request ctx m).2.2⟩⟩

/-- both entry points at once, on the wire -/
theorem C11Server_served (ctx : Static.Ctx) (alloc : Nat) (read : ReadScript)
    (script : List Transport.WCall) (fl : Bool) (legacy : Bool) (w : Wire)
    (h : Served ctx alloc read script fl legacy w) :
    (∀ req, accepted alloc read = some req →
      ∃ a hs, Controllers.execute ctx req legacy = .ok a ∧
        w = (Server.send (Resp.generateResponse a.response req) script fl).wire ∧
        getHeaders ctx.env req = .ok hs ∧ acHeaders (wireHeaders a.response) = hs) ∧
    (accepted alloc read = none →
      ∃ m, w = (Server.send (Resp.generateResponse (answer400 ctx) (errorRequest m)) script fl).wire ∧
        acHeaders (wireHeaders (answer400 ctx)) = []) := by
  cases legacy with
  | false =>
    simp only [Served, Bool.false_eq_true, if_false] at h
    obtain ⟨o, ho, rfl⟩ := h
    exact C11Server_process ctx alloc read script fl o ho
  | true =>
    simp only [Served, if_true] at h
    obtain ⟨raw, reads, hr⟩ := h
    obtain ⟨hw, h1, h2⟩ := C11Server_process_legacy ctx alloc read script fl raw w reads hr
    refine ⟨fun req hacc => ?_, fun hn => ?_⟩
    · obtain ⟨a, hs, hx, hraw, hg, hac⟩ := h1 req hacc
      exact ⟨a, hs, hx, by rw [hw, hraw], hg, hac⟩
    · obtain ⟨m, hraw, hac⟩ := h2 hn
      exact ⟨m, by rw [hw, hraw], hac⟩

end entry

/-! ## 4. End to end, in the property's words

    In each theorem: the connection was answered (`Served`, either entry point), the request
    was accepted as `req`; the conclusion names the chain's answer `a` to `req`, says that its
    serialisation is what the transport was handed, and describes the `Access-Control-*` part of
    its header block. -/

/-- a refused request (unreadable, unparsable, target not in origin form) gets the 400 answer:
    no `Access-Control-*` header -/
theorem C11Server_refused_no_grant (ctx : Static.Ctx) (alloc : Nat) (read : ReadScript)
    (script : List Transport.WCall) (fl : Bool) (legacy : Bool) (w : Wire)
    (h : Served ctx alloc read script fl legacy w) (hacc : accepted alloc read = none) :
    ∃ m, w = (Server.send (Resp.generateResponse (answer400 ctx) (errorRequest m)) script fl).wire ∧
      acHeaders (wireHeaders (answer400 ctx)) = [] :=
  (C11Server_served ctx alloc read script fl legacy w h).2 hacc

/-- a request without `Origin` gets no `Access-Control-*` header, whatever the configuration -/
theorem C11Server_no_origin_no_grant (ctx : Static.Ctx) (alloc : Nat) (read : ReadScript)
    (script : List Transport.WCall) (fl : Bool) (legacy : Bool) (w : Wire) (req : Request)
    (h : Served ctx alloc read script fl legacy w) (hacc : accepted alloc read = some req)
    (hno : originOf req = none) :
    ∃ a, Controllers.execute ctx req legacy = .ok a ∧
      w = (Server.send (Resp.generateResponse a.response req) script fl).wire ∧
      acHeaders (wireHeaders a.response) = [] := by
  obtain ⟨a, hs, hx, hw, hg, hac⟩ := (C11Server_served ctx alloc read script fl legacy w h).1 req hacc
  refine ⟨a, hx, hw, ?_⟩
  rw [hac]
  exact (C11.C11_no_origin ctx.env req hs hno hg).1

/-- restricted mode (`RWS_CONFIG_CORS_ALLOW_ALL` reads `false`), the request's `Origin` is not
    one of the configured origins: no `Access-Control-*` header -/
theorem C11Server_unlisted_no_grant (ctx : Static.Ctx) (alloc : Nat) (read : ReadScript)
    (script : List Transport.WCall) (fl : Bool) (legacy : Bool) (w : Wire) (req : Request) (o : Bytes)
    (h : Served ctx alloc read script fl legacy w) (hacc : accepted alloc read = some req)
    (hsw : envVar ctx.env varAllowAll = some litFalse)
    (ho : originOf req = some o) (hnm : o ∉ configuredOrigins ctx.env) :
    ∃ a, Controllers.execute ctx req legacy = .ok a ∧
      w = (Server.send (Resp.generateResponse a.response req) script fl).wire ∧
      acHeaders (wireHeaders a.response) = [] := by
  obtain ⟨a, hs, hx, hw, hg, hac⟩ := (C11Server_served ctx alloc read script fl legacy w h).1 req hacc
  refine ⟨a, hx, hw, ?_⟩
  rw [hac]
  have := C11.C11_off_iff ctx.env req o hs hsw ho hg
  by_cases hc : hs = []
  · exact hc
  · exact absurd (this.mp hc) hnm

/-- restricted mode, the request's `Origin` is one of the configured origins: the answer's header
    block carries `Access-Control-Allow-Origin:` that origin; `-Allow-Credentials: true` exactly
    when the credentials setting reads `true`; for OPTIONS the configured methods, (lower-cased)
    headers, expose-headers and max-age, each present exactly when its setting is readable; for
    every other method none of the four; every `Access-Control-*` header of the block is one of
    these, and none occurs twice. -/
theorem C11Server_listed_exact (ctx : Static.Ctx) (alloc : Nat) (read : ReadScript)
    (script : List Transport.WCall) (fl : Bool) (legacy : Bool) (w : Wire) (req : Request) (o : Bytes)
    (h : Served ctx alloc read script fl legacy w) (hacc : accepted alloc read = some req)
    (hsw : envVar ctx.env varAllowAll = some litFalse)
    (ho : originOf req = some o) (hm : o ∈ configuredOrigins ctx.env) :
    ∃ a, Controllers.execute ctx req legacy = .ok a ∧
      w = (Server.send (Resp.generateResponse a.response req) script fl).wire ∧
      let block := wireHeaders a.response
      valueOf block hAllowOrigin = some o ∧
      valueOf block hAllowCredentials =
        (if envVar ctx.env varAllowCredentials = some litTrue then some litTrue else none) ∧
      (req.method = methodOptions →
        valueOf block hAllowMethods = envVar ctx.env varAllowMethods ∧
        valueOf block hAllowHeaders = (envVar ctx.env varAllowHeaders).map Unicode.toLowercase ∧
        valueOf block hExposeHeaders = (envVar ctx.env varExposeHeaders).map Unicode.toLowercase ∧
        valueOf block hMaxAge = envVar ctx.env varMaxAge) ∧
      (req.method ≠ methodOptions →
        valueOf block hAllowMethods = none ∧ valueOf block hAllowHeaders = none ∧
        valueOf block hExposeHeaders = none ∧ valueOf block hMaxAge = none) ∧
      (∀ x ∈ acHeaders block, x.name ∈ grantNames) ∧
      ((acHeaders block).map (·.name)).Nodup := by
  obtain ⟨a, hs, hx, hw, hg, hac⟩ := (C11Server_served ctx alloc read script fl legacy w h).1 req hacc
  refine ⟨a, hx, hw, ?_⟩
  obtain ⟨e1, e2, e3, e4, e5⟩ := C11.C11_off_exact ctx.env req o hs hsw ho hm hg
  have hn := C11Server_names.1
  have lk : ∀ n ∈ grantNames, valueOf (wireHeaders a.response) n = valueOf hs n := fun n hmem => by
    rw [← C11Server_lookup _ n (hn n hmem), hac]
  dsimp only
  rw [lk _ (by simp [grantNames]), lk _ (by simp [grantNames]), lk _ (by simp [grantNames]),
    lk _ (by simp [grantNames]), lk _ (by simp [grantNames]), lk _ (by simp [grantNames]), hac]
  exact ⟨e1, e2, e3, e4, C11.C11_names ctx.env req hs hg, e5⟩

/-- allow-all mode (the switch is `true`, unset, not Unicode or not a boolean — anything but the
    text `false`): every accepted request that carries an `Origin` is granted that origin with
    credentials; for OPTIONS the requested method and (lower-cased) headers are echoed and the
    default max-age is given; for every other method none of the four; every `Access-Control-*`
    header of the block is one of the six grants, and none occurs twice. -/
theorem C11Server_allow_all (ctx : Static.Ctx) (alloc : Nat) (read : ReadScript)
    (script : List Transport.WCall) (fl : Bool) (legacy : Bool) (w : Wire) (req : Request) (o : Bytes)
    (h : Served ctx alloc read script fl legacy w) (hacc : accepted alloc read = some req)
    (hsw : envVar ctx.env varAllowAll ≠ some litFalse) (ho : originOf req = some o) :
    ∃ a, Controllers.execute ctx req legacy = .ok a ∧
      w = (Server.send (Resp.generateResponse a.response req) script fl).wire ∧
      let block := wireHeaders a.response
      valueOf block hAllowOrigin = some o ∧
      valueOf block hAllowCredentials = some litTrue ∧
      (req.method = methodOptions →
        valueOf block hAllowMethods = requestValue req.headers hRequestMethod ∧
        valueOf block hAllowHeaders = (requestValue req.headers hRequestHeaders).map Unicode.toLowercase ∧
        valueOf block hExposeHeaders = (requestValue req.headers hRequestHeaders).map Unicode.toLowercase ∧
        valueOf block hMaxAge = some maxAgeDefault) ∧
      (req.method ≠ methodOptions →
        valueOf block hAllowMethods = none ∧ valueOf block hAllowHeaders = none ∧
        valueOf block hExposeHeaders = none ∧ valueOf block hMaxAge = none) ∧
      (∀ x ∈ acHeaders block, x.name ∈ grantNames) ∧
      ((acHeaders block).map (·.name)).Nodup := by
  obtain ⟨a, hs, hx, hw, hg, hac⟩ := (C11Server_served ctx alloc read script fl legacy w h).1 req hacc
  refine ⟨a, hx, hw, ?_⟩
  have hnd : (hs.map (·.name)).Nodup := by
    rw [C11ServerLemmas.getHeaders_allow_all ctx.env req hsw] at hg
    injection hg with hg
    rw [← hg]
    exact C11ServerLemmas.allowAll_names_nodup req
  obtain ⟨e1, e2⟩ := C11.C11_on ctx.env req o hs hsw ho hg
  obtain ⟨e3, e4⟩ := C11.C11_on_preflight ctx.env req o hs hsw ho hg
  have hn := C11Server_names.1
  have lk : ∀ n ∈ grantNames, valueOf (wireHeaders a.response) n = valueOf hs n := fun n hmem => by
    rw [← C11Server_lookup _ n (hn n hmem), hac]
  dsimp only
  rw [lk _ (by simp [grantNames]), lk _ (by simp [grantNames]), lk _ (by simp [grantNames]),
    lk _ (by simp [grantNames]), lk _ (by simp [grantNames]), lk _ (by simp [grantNames]), hac]
  exact ⟨e1, e2, e3, e4, C11.C11_names ctx.env req hs hg, hnd⟩

/-! ## Non-vacuity: a concrete tree, the restricted configuration of C11 (`C11.exEnv`: two
    origins, credentials, methods, headers, max-age), concrete request BYTES through both entry
    points; the `Access-Control-` lines are read off the bytes of the first write by an
    independent line splitter -/

def exTree : Fs.Tree := ⟨[([ascii "srv", ascii "f.txt"], .file (ascii "hello"))]⟩

/-- restricted configuration -/
def exCtx : Static.Ctx :=
  ⟨exTree, ascii "/srv", C11.exEnv, ascii "1700000000000000000", ascii "1600000000000000000", ascii "error"⟩

/-- allow-all mode (nothing configured) -/
def exCtxAll : Static.Ctx := { exCtx with env := Cors.envOf [] }

def exBytes (line : String) (headers : List String) : Bytes :=
  ascii (line ++ "\r\n" ++ String.join (headers.map (· ++ "\r\n")) ++ "\r\n")

def listed : ReadScript := .data (exBytes "GET /f.txt HTTP/1.1" ["Host: h", "Origin: https://b.example"])
def preflight : ReadScript := .data (exBytes "OPTIONS /f.txt HTTP/1.1"
  ["Host: h", "origin: https://b.example", "Access-Control-Request-Method: PUT",
   "Access-Control-Request-Headers: X-Other"])
def unlisted : ReadScript := .data (exBytes "GET /f.txt HTTP/1.1" ["Host: h", "Origin: https://b.example.evil"])
def noOrigin : ReadScript := .data (exBytes "GET /f.txt HTTP/1.1" ["Host: h"])
def notOriginForm : ReadScript := .data (exBytes "OPTIONS * HTTP/1.1" ["Host: h", "Origin: https://b.example"])

/-- the head of a response, line by line (cut at CR LF, up to the blank line) -/
def headLines (cur : Bytes) : Bytes → List Bytes
  | [] => [cur.reverse]
  | b :: rest =>
    if b = 10 ∧ cur.head? = some 13 then
      (if cur.tail = [] then [] else cur.tail.reverse :: headLines [] rest)
    else headLines (b :: cur) rest

/-- the lines of the first write that begin with `Access-Control-`; `none`: not answered -/
def acLines (w : Option Wire) : Option (List Bytes) :=
  match w with
  | some w => some ((headLines [] (w.writes.headD [])).filter (fun l => startsWith l acPrefix))
  | none => none

def wireOf (o : Outcome Outcome2) : Option Wire :=
  match o with
  | .ok r => some r.wire
  | _ => none

def wireOfLegacy (o : Outcome (Bytes × Wire × List Fs.Loc)) : Option Wire :=
  match o with
  | .ok r => some r.2.1
  | _ => none

/-- `Served` is a decidable condition on the outcome of the entry point -/
theorem C11Server_served_iff (ctx : Static.Ctx) (alloc : Nat) (read : ReadScript)
    (script : List Transport.WCall) (fl : Bool) (legacy : Bool) (w : Wire) :
    Served ctx alloc read script fl legacy w ↔
      (if legacy = true then wireOfLegacy (Server.processRequest ctx alloc read script fl)
       else wireOf (Server.process ctx .real alloc read script fl)) = some w := by
  cases legacy with
  | false =>
    simp only [Served, Bool.false_eq_true, if_false]
    cases Server.process ctx .real alloc read script fl <;> simp [wireOf]
  | true =>
    simp only [Served, if_true]
    cases hr : Server.processRequest ctx alloc read script fl with
    | ok r =>
      obtain ⟨raw, w', reads⟩ := r
      simp [wireOfLegacy]
    | err => simp [wireOfLegacy]
    | panic s => simp [wireOfLegacy]

/-- method and Origin of the accepted request -/
def acceptedAs (read : ReadScript) : Option (Bytes × Option Bytes) :=
  (accepted 256 read).map (fun r => (r.method, originOf r))

-- the hypotheses of the end-to-end theorems hold on these inputs
example : envVar exCtx.env varAllowAll = some litFalse := by decide +kernel
example : envVar exCtxAll.env varAllowAll ≠ some litFalse := by decide +kernel
example : acceptedAs listed = some (ascii "GET", some (ascii "https://b.example")) := by decide +kernel
example : acceptedAs preflight = some (methodOptions, some (ascii "https://b.example")) := by decide +kernel
example : acceptedAs unlisted = some (ascii "GET", some (ascii "https://b.example.evil")) := by decide +kernel
example : acceptedAs noOrigin = some (ascii "GET", none) := by decide +kernel
example : accepted 256 notOriginForm = none ∧ accepted 256 .error = none ∧
    accepted 256 (.data (ascii "garbage")) = none := by decide +kernel
example : ascii "https://b.example" ∈ configuredOrigins exCtx.env ∧
    ascii "https://b.example.evil" ∉ configuredOrigins exCtx.env := by decide +kernel
example : ascii "GET" ≠ methodOptions := by decide +kernel

-- `Served` holds (both entry points) …
example : ∃ w, Served exCtx 256 preflight [] true false w := by
  cases h : wireOf (Server.process exCtx .real 256 preflight [] true) with
  | some w => exact ⟨w, (C11Server_served_iff _ _ _ _ _ false w).mpr h⟩
  | none => exact absurd h (by decide +kernel)
example : ∃ w, Served exCtx 256 listed [.acc 10, .fail] true true w := by
  cases h : wireOfLegacy (Server.processRequest exCtx 256 listed [.acc 10, .fail] true) with
  | some w => exact ⟨w, (C11Server_served_iff _ _ _ _ _ true w).mpr h⟩
  | none => exact absurd h (by decide +kernel)
-- … and the wire shows what the theorems say
example : acLines (wireOf (Server.process exCtx .real 256 listed [] true)) =
    some [ascii "Access-Control-Allow-Origin: https://b.example",
          ascii "Access-Control-Allow-Credentials: true"] := by decide +kernel
example : acLines (wireOfLegacy (Server.processRequest exCtx 256 listed [.acc 10, .fail] true)) =
    some [ascii "Access-Control-Allow-Origin: https://b.example",
          ascii "Access-Control-Allow-Credentials: true"] := by decide +kernel
example : acLines (wireOf (Server.process exCtx .real 256 preflight [] true)) =
    some [ascii "Access-Control-Allow-Origin: https://b.example",
          ascii "Access-Control-Allow-Credentials: true",
          ascii "Access-Control-Allow-Methods: GET,POST",
          ascii "Access-Control-Allow-Headers: x-custom,content-type",
          ascii "Access-Control-Max-Age: 600"] := by decide +kernel
example : acLines (wireOf (Server.process exCtx .real 256 unlisted [] true)) = some [] := by decide +kernel
example : acLines (wireOf (Server.process exCtx .real 256 noOrigin [] true)) = some [] := by decide +kernel
example : acLines (wireOf (Server.process exCtx .real 256 notOriginForm [] true)) = some [] := by decide +kernel
example : acLines (wireOf (Server.process exCtx .fails 256 listed [] true)) = some [] := by decide +kernel
example : acLines (wireOf (Server.process exCtxAll .real 256 unlisted [] true)) =
    some [ascii "Access-Control-Allow-Origin: https://b.example.evil",
          ascii "Access-Control-Allow-Credentials: true"] := by decide +kernel
example : acLines (wireOf (Server.process exCtxAll .real 256 preflight [] true)) =
    some [ascii "Access-Control-Allow-Origin: https://b.example",
          ascii "Access-Control-Allow-Credentials: true",
          ascii "Access-Control-Allow-Methods: PUT",
          ascii "Access-Control-Allow-Headers: x-other",
          ascii "Access-Control-Expose-Headers: x-other",
          ascii "Access-Control-Max-Age: 86400"] := by decide +kernel
-- a 404 and a 400 of a controller go through the chain: they carry the grants
example : acLines (wireOf (Server.process exCtx .real 256
      (.data (exBytes "GET /missing HTTP/1.1" ["Origin: https://a.example"])) [] true)) =
    some [ascii "Access-Control-Allow-Origin: https://a.example",
          ascii "Access-Control-Allow-Credentials: true"] := by decide +kernel

#print axioms C11Server_names
#print axioms C11Server_isAc_of_prefix
#print axioms C11Server_lookup
#print axioms C11Server_first_write
#print axioms C11Server_chain
#print axioms C11Server_chain_status_line
#print axioms C11Server_bad_request
#print axioms C11Server_process
#print axioms C11Server_failing_handler
#print axioms C11Server_process_legacy
#print axioms C11Server_served
#print axioms C11Server_served_iff
#print axioms C11Server_refused_no_grant
#print axioms C11Server_no_origin_no_grant
#print axioms C11Server_unlisted_no_grant
#print axioms C11Server_listed_exact
#print axioms C11Server_allow_all

end Rws.C11Server
