/-
  C20 (JSON part) — the JSON object and array parsing entry points return a value or an error for
  EVERY input text: the model never answers `panic`, and it terminates (every definition of
  `Rws.Json` is structurally recursive on the input text or on a list of items — accepted by Lean
  without `partial`/fuel; the scanners consume one character per step).
  Tree after the fixes F25 (readers propagate the splitter's error), F24c/F24d (the scanners read whole
  UTF-8 characters through `json::read_utf8_char`; bytes that are not a character are `Err`) and F24f (string
  flag of the nesting counters).  The byte level of the single-character read is total by its type
  (`readUtf8Char : List UInt8 → Option …`: a character and the rest, or the error — no panic outcome exists) on
  EVERY byte list, well-formed or not; `C20_json_read_char_progress` shows that a successful read always consumes
  at least one byte and at most four, so the read loops can not stall.  Stack depth: neither scanner recurses
  (loops with counters), the correspondence run feeds nesting depth 10 000 to the real code.
-/
import Rws.Json
import RwsProofs.Lemmas.JsonUtf8
namespace Rws.C20Json
open Rws Rws.Json

/-- one read of `json::read_utf8_char` + `String::from_utf8` on ANY bytes: when it succeeds it has consumed between one
    and four bytes (so every read loop of the scanners terminates); otherwise it is the error -/
theorem C20_json_read_char_progress (bs : List UInt8) (c : Char) (rest : List UInt8) (h : readUtf8Char bs = some (c, rest)) :
    rest.length < bs.length ∧ bs.length ≤ rest.length + 4 := by
  refine ⟨readUtf8Char_progress bs c rest h, ?_⟩
  unfold readUtf8Char at h
  cases hb : readUtf8CharBytes bs with
  | none => simp [hb] at h
  | some p =>
    obtain ⟨cb, r⟩ := p
    simp only [hb] at h
    have hr : rest = r := by
      cases hd : ByteArray.utf8DecodeChar? cb.toByteArray 0 with
      | none => simp [hd] at h
      | some c' =>
        simp only [hd] at h
        split at h
        · simp only [Option.some.injEq, Prod.mk.injEq] at h; exact h.2.symm
        · simp at h
    subst hr
    cases bs with
    | nil => simp [readUtf8CharBytes] at hb
    | cons b t =>
      simp only [readUtf8CharBytes] at hb
      split at hb
      · simp at hb
      · simp only [Option.some.injEq, Prod.mk.injEq] at hb
        rw [← hb.2]
        have : announcedLen b ≤ 4 := by unfold announcedLen; repeat' split
                                        all_goals omega
        simp only [List.length_drop, List.length_cons]
        omega

example : readUtf8Char [0xF0, 0x9F] = none ∧ readUtf8Char [] = none ∧ readUtf8Char [0xFF, 0x41] = none ∧
    readUtf8Char [0xE2, 0x28, 0xA1, 0x41] = none := by decide +kernel

theorem splitRun_no_panic (text : Text) : ∀ (st : SSt) (acc : List Text) (s : String), splitRun st acc text ≠ .panic s := by
  induction text with
  | nil => intro st acc s; simp only [splitRun]; split <;> simp
  | cons c rest ih =>
    intro st acc s
    simp only [splitRun]
    split
    · exact ih _ _ s
    · exact ih _ _ s
    · simp

/-- `RawUnprocessedJSONArray::split_into_vector_of_strings` never panics -/
theorem C20_json_array_total (text : Text) (s : String) : splitIntoVectorOfStrings text ≠ .panic s :=
  splitRun_no_panic text _ _ s

theorem mapItems_no_panic {α : Type} (f : Text → Outcome α) (items : List Text)
    (hf : ∀ t ∈ items, ∀ s, f t ≠ .panic s) : ∀ s, mapItems f items ≠ .panic s := by
  induction items with
  | nil => intro s; simp [mapItems]
  | cons t ts ih =>
    intro s
    have h1 := hf t (by simp)
    have h2 := ih (fun x hx => hf x (by simp [hx]))
    simp only [mapItems]
    cases hft : f t with
    | ok a =>
      simp only
      cases hm : mapItems f ts with
      | ok as => simp
      | err => simp
      | panic s' => exact absurd hm (h2 s')
    | err => simp
    | panic s' => exact absurd hft (h1 s')

theorem readList_no_panic {α : Type} (f : Text → Outcome α) (hf : ∀ t s, f t ≠ .panic s) (text : Text) (s : String) :
    readList f text ≠ .panic s := by
  unfold readList
  cases h : splitIntoVectorOfStrings text with
  | ok items => exact mapItems_no_panic f items (fun t _ => hf t) s
  | err => simp
  | panic s' => exact absurd h (C20_json_array_total text s')

/-- `parse_as_list_i128 … parse_as_list_u8` -/
theorem C20_json_list_int_total (ty : IntTy) (text : Text) (s : String) : parseListInt ty text ≠ .panic s :=
  readList_no_panic _ (by intro t s; unfold itemInt optOutcome; cases ty.parse t <;> simp) text s
theorem itemBool_no_panic (t : Text) (s : String) : itemBool t ≠ .panic s := by
  unfold itemBool
  repeat' split
  all_goals simp
theorem C20_json_list_bool_total (text : Text) (s : String) : parseListBool text ≠ .panic s :=
  readList_no_panic _ itemBool_no_panic text s
theorem C20_json_list_null_total (text : Text) (s : String) : parseListNull text ≠ .panic s :=
  readList_no_panic _ (by intro t s; unfold itemNull; split <;> simp) text s
theorem C20_json_list_float_total (text : Text) (s : String) : parseListFloat text ≠ .panic s :=
  readList_no_panic _ (by intro t s; unfold itemFloat; split <;> simp) text s

/-! ### the string reader: its two panic sites are unreachable from the splitter's items -/

/-- the characters of a text that are not white space (`trim` keeps all of them) -/
def nw (t : Text) : Text := t.filter (fun c => !isWs c)

theorem nw_dropWhile (t : Text) : nw (t.dropWhile isWs) = nw t := by
  induction t with
  | nil => rfl
  | cons c cs ih =>
    by_cases hc : isWs c = true
    · simp [List.dropWhile, hc, nw, List.filter_cons]; exact ih
    · simp [List.dropWhile, hc]

theorem nw_reverse (t : Text) : nw t.reverse = (nw t).reverse := by simp [nw, List.filter_reverse]

theorem nw_trim (t : Text) : nw (trim t) = nw t := by
  unfold trim trimEnd trimStart
  rw [nw_reverse, nw_dropWhile, nw_reverse, List.reverse_reverse, nw_dropWhile]

/-- an item is safe for `parse_as_list_string` when it has two non-blank characters, or one that is not `"` -/
def Safe (t : Text) : Prop := nw t ≠ [] ∧ nw t ≠ ['"']

theorem itemString_safe (t : Text) (h : Safe t) (s : String) : itemString t ≠ .panic s := by
  unfold itemString
  have h1 := nw_trim t
  match ht : trim t with
  | [] => rw [ht] at h1; exact absurd h1.symm h.1
  | [c] =>
    simp only
    by_cases hc : c = '"'
    · subst hc; rw [ht] at h1
      have h3 : nw ['"'] = ['"'] := by decide
      rw [h3] at h1; exact absurd h1.symm h.2
    · simp [hc]
  | c :: d :: r => simp only; split <;> simp

/-- PARTIAL.  Full statement: `∀ text s, parseListString text ≠ .panic s` (`parse_as_list_string` never panics).
    Proved: the reader does not panic whenever every item the splitter hands over is `Safe` (holds two
    non-blank characters, or one that is not `"`).  Missing: the invariant of `splitRun` that all its items
    are safe (a string item starts with `"` and ends with `"` or follows a `\`; every other item starts with
    a non-blank character other than `"`) — supported by the correspondence run only (no panic on any
    generated input, all texts of length ≤ 4/5 over the delimiter alphabet included). -/
theorem C20_json_list_string_total_partial (text : Text)
    (hsafe : ∀ items, splitIntoVectorOfStrings text = .ok items → ∀ t ∈ items, Safe t) (s : String) :
    parseListString text ≠ .panic s := by
  unfold parseListString readList
  cases h : splitIntoVectorOfStrings text with
  | ok items => exact mapItems_no_panic itemString items (fun t ht s => itemString_safe t (hsafe items h t ht) s) s
  | err => simp
  | panic s' => exact absurd h (C20_json_array_total text s')

example : Safe "\"\"".toList ∧ Safe "\"a\\ ".toList ∧ Safe "-1".toList := by
  refine ⟨⟨?_, ?_⟩, ⟨?_, ?_⟩, ⟨?_, ?_⟩⟩ <;> decide

/-- the panic sites are real: the reader's loop body does panic on the items it can not receive -/
theorem C20_json_itemString_panics : itemString [] = .panic "json/array/string/mod.rs:22" ∧
    itemString ['"'] = .panic "json/array/string/mod.rs:26" := by decide

/-! ### the object scanner -/

theorem classify_no_panic (name value : Text) (s : String) : classify name value ≠ .panic s := by
  unfold classify
  repeat' split
  all_goals simp

theorem parse_no_panic (raw : Text) (s : String) : JSONProperty.parse raw ≠ .panic s := by
  unfold JSONProperty.parse
  split
  · simp
  · exact classify_no_panic _ _ s

theorem finishPair_no_panic (acc : Props) (kvp : Text) (s : String) : finishPair acc kvp ≠ .panic s := by
  unfold finishPair
  cases h : JSONProperty.parse kvp.reverse with
  | ok pv => simp
  | err => simp
  | panic s' => exact absurd h (parse_no_panic _ s')

theorem objEof_no_panic (st : OSt) (acc : Props) (s : String) : objEof st acc ≠ .panic s := by
  have hfin : ∀ kvp, (match finishPair acc kvp with
      | .ok acc' => (Outcome.ok acc'.reverse : Outcome Props)
      | e => e) ≠ .panic s := by
    intro kvp
    cases hf : finishPair acc kvp with
    | ok a => simp
    | err => simp
    | panic s' => exact absurd hf (finishPair_no_panic _ _ s')
  cases st with
  | preKey seg => simp only [objEof]; split <;> simp
  | tillComma kvp seg => simp only [objEof]; split; exact hfin kvp; simp
  | skipComma kvp => simp only [objEof]; exact hfin kvp
  | _ => simp [objEof]

theorem objRun_no_panic (text : Text) : ∀ (st : OSt) (acc : Props) (s : String), objRun st acc text ≠ .panic s := by
  induction text with
  | nil => intro st acc s; simp only [objRun]; exact objEof_no_panic st acc s
  | cons c rest ih =>
    intro st acc s
    simp only [objRun]
    split
    · exact ih _ _ s
    · next kvp _ =>
      cases hf : finishPair acc kvp with
      | ok acc' =>
        simp only
        split
        · simp
        · exact ih _ _ s
      | err => simp
      | panic s' => exact absurd hf (finishPair_no_panic _ _ s')
    · next kvp _ =>
      cases hf : finishPair acc kvp with
      | ok acc' => simp only; exact ih _ _ s
      | err => simp
      | panic s' => exact absurd hf (finishPair_no_panic _ _ s')
    · simp
    · simp

/-- `JSON::parse_as_properties` never panics -/
theorem C20_json_object_total (text : Text) (s : String) : parseAsProperties text ≠ .panic s :=
  objRun_no_panic text _ _ s

/-- `JSONProperty::parse` never panics -/
theorem C20_json_property_total (raw : Text) (s : String) : JSONProperty.parse raw ≠ .panic s := parse_no_panic raw s

end Rws.C20Json
