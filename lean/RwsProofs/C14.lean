/-
  C14 — request parsing accepts exactly well-formed requests and round-trips them.
  Property theorems only (helper lemmas: RwsProofs/Lemmas/Request.lean, RwsProofs/Lemmas/Utf8.lean
  and the `private` section below).  Model: Rws/Request.lean + Rws/Utf8.lean over the method /
  version lists regenerated from the source (Rws/Gen/HttpTab.lean).  The model describes the
  tree with the F16, F17, F5, F10, F28 fix commits; the theorems below are the FULL statements
  of DESIGN.md 6/C14 (no `_partial` left).
-/
import Rws.Request
import RwsProofs.Lemmas.Request
import RwsProofs.Lemmas.Utf8
namespace Rws.C14
open Rws Rws.Req

/-! ## The specification, written independently of the parser -/

/-- the nine request methods of RFC 9110 (typed in, NOT taken from the source) -/
def methods : List Bytes := [
  [71, 69, 84],                     -- GET
  [72, 69, 65, 68],                 -- HEAD
  [80, 79, 83, 84],                 -- POST
  [80, 85, 84],                     -- PUT
  [68, 69, 76, 69, 84, 69],         -- DELETE
  [67, 79, 78, 78, 69, 67, 84],     -- CONNECT
  [79, 80, 84, 73, 79, 78, 83],     -- OPTIONS
  [84, 82, 65, 67, 69],             -- TRACE
  [80, 65, 84, 67, 72]]             -- PATCH

/-- the four supported versions -/
def versions : List Bytes := [
  [72, 84, 84, 80, 47, 48, 46, 57], -- HTTP/0.9
  [72, 84, 84, 80, 47, 49, 46, 48], -- HTTP/1.0
  [72, 84, 84, 80, 47, 49, 46, 49], -- HTTP/1.1
  [72, 84, 84, 80, 47, 50, 46, 48]] -- HTTP/2.0

/-- a token is "known" when it is in the list once its ASCII letters are upper-cased -/
def known (list : List Bytes) (tok : Bytes) : Prop := tok.map asciiUpper ∈ list
instance (list : List Bytes) (tok : Bytes) : Decidable (known list tok) := by unfold known; infer_instance

/-- `s` is a request line `METHOD SP target SP VERSION`: known method, a target (possibly empty)
    without blank, supported version.  (A method never holds a blank; the split is at the
    first two blanks.) -/
def RequestLine (s m t v : Bytes) : Prop :=
  s = m ++ [32] ++ t ++ [32] ++ v ∧ (32 : UInt8) ∉ m ∧ (32 : UInt8) ∉ t ∧ known methods m ∧ known versions v

/-- what the first `read_until(b'\n')` hands to the parser: the bytes up to and including the
    first LF (everything when there is none) -/
def firstLine (bytes : Bytes) : Bytes := (readLine bytes).1

/-- the request line as the parser looks at it: valid UTF-8, surrounding white space removed -/
def Accepts (bytes m t v : Bytes) : Prop :=
  Utf8.valid (firstLine bytes) = true ∧ RequestLine (Utf8.trim (firstLine bytes)) m t v

/-- decidable well-formedness of the three request-line fields (what a client controls) -/
def wfRequestLine (m t v : Bytes) : Bool :=
  methods.contains (m.map asciiUpper) && versions.contains (v.map asciiUpper) &&
  !t.contains 32 && !t.contains 10 && Utf8.valid t

/-- decidable well-formedness of a header for the round trip: the name has no `": "`, neither
    field has CR or LF, both are UTF-8 (a Rust `String` always is).  Names and values may be
    empty and may contain colons, blanks, `=`; values may contain `": "`. -/
def wfHeader (h : Header) : Bool :=
  !containsSub h.name [58, 32] && !h.name.contains 13 && !h.name.contains 10 &&
  !h.value.contains 13 && !h.value.contains 10 && Utf8.valid h.name && Utf8.valid h.value

/-- decidable well-formedness of a request for the round trip; the body is unconstrained -/
def wf (r : Request) : Bool :=
  wfRequestLine r.method r.uri r.version && r.headers.all wfHeader

/-- two header names are the same up to the case of ASCII letters: same length, and at every
    position the bytes are equal or are the two cases of one ASCII letter -/
def sameLetter (a b : UInt8) : Prop :=
  a = b ∨ (65 ≤ a.toNat ∧ a.toNat ≤ 90 ∧ b.toNat = a.toNat + 32) ∨ (65 ≤ b.toNat ∧ b.toNat ≤ 90 ∧ a.toNat = b.toNat + 32)
def sameName : Bytes → Bytes → Prop
  | [], [] => True
  | a :: as, b :: bs => sameLetter a b ∧ sameName as bs
  | _, _ => False

/-! ## helper lemmas -/
section helpers

private theorem tables : Gen.methodList = methods ∧ Gen.versionList = versions := by decide

/-- `parseRequestLine` against the typed-in lists -/
private theorem line_eq (line : Bytes) :
    parseRequestLine line =
      match splitOnce (Utf8.trim line) [32] with
      | none => .err
      | some (m, rest) =>
        if m.map asciiUpper ∈ methods then
          match splitOnce rest [32] with
          | none => .err
          | some (u, v) => if v.map asciiUpper ∈ versions then .ok (m, u, v) else .err
        else .err := by
  rw [parseRequestLine_eq, tables.1, tables.2]
  cases splitOnce (Utf8.trim line) [32] with
  | none => rfl
  | some p =>
    obtain ⟨m, rest⟩ := p
    simp only []
    by_cases hm : m.map asciiUpper ∈ methods
    · simp only [List.contains_eq_mem, hm, decide_true, Bool.not_true, Bool.false_eq_true, ↓reduceIte]
      cases splitOnce rest [32] with
      | none => rfl
      | some q =>
        obtain ⟨u, v⟩ := q
        simp only []
        by_cases hv : v.map asciiUpper ∈ versions <;> simp [hv]
    · simp [hm]

private theorem upper_graph : ∀ b : UInt8, Utf8.isGraph (asciiUpper b) = true → Utf8.isGraph b = true :=
  U8.forall_all _ (by decide +kernel)

private theorem methods_graph : ∀ k ∈ methods, k ≠ [] ∧ ∀ b ∈ k, Utf8.isGraph b = true := by decide
private theorem versions_graph : ∀ k ∈ versions, k ≠ [] ∧ ∀ b ∈ k, Utf8.isGraph b = true := by decide

/-- a known token consists of printable non-blank ASCII and is not empty -/
private theorem known_graph {list : List Bytes} (hl : ∀ k ∈ list, k ≠ [] ∧ ∀ b ∈ k, Utf8.isGraph b = true)
    {tok : Bytes} (h : known list tok) : tok ≠ [] ∧ ∀ b ∈ tok, Utf8.isGraph b = true := by
  obtain ⟨h1, h2⟩ := hl _ h
  refine ⟨?_, ?_⟩
  · intro e; subst e; simp at h1
  · intro b hb
    exact upper_graph b (h2 _ (List.mem_map.mpr ⟨b, hb, rfl⟩))

private theorem graph_all {tok : Bytes} (h : ∀ b ∈ tok, Utf8.isGraph b = true) :
    (32 : UInt8) ∉ tok ∧ (10 : UInt8) ∉ tok ∧ Utf8.valid tok = true := by
  refine ⟨?_, ?_, ?_⟩
  · intro hm; exact (Utf8.graph_facts _ (h _ hm)).2.2.2.1 rfl
  · intro hm; exact (Utf8.graph_facts _ (h _ hm)).2.2.2.2.1 rfl
  · exact Utf8.valid_of_ascii (fun b hb => (Utf8.graph_facts _ (h b hb)).2.1)

/-- the parser's verdict on a line is exactly the specification of a request line -/
private theorem line_iff (line m t v : Bytes) :
    parseRequestLine line = .ok (m, t, v) ↔ RequestLine (Utf8.trim line) m t v := by
  rw [line_eq]
  constructor
  · intro h
    cases h1 : splitOnce (Utf8.trim line) [32] with
    | none => simp [h1] at h
    | some p =>
      obtain ⟨m', rest⟩ := p
      simp only [h1] at h
      by_cases hm : m'.map asciiUpper ∈ methods
      · simp only [hm, ↓reduceIte] at h
        cases h2 : splitOnce rest [32] with
        | none => simp [h2] at h
        | some q =>
          obtain ⟨u', v'⟩ := q
          simp only [h2] at h
          by_cases hv : v'.map asciiUpper ∈ versions
          · simp only [hv, ↓reduceIte, Outcome.ok.injEq, Prod.mk.injEq] at h
            obtain ⟨rfl, rfl, rfl⟩ := h
            obtain ⟨e1, n1⟩ := splitOnce1_some 32 _ _ _ h1
            obtain ⟨e2, n2⟩ := splitOnce1_some 32 _ _ _ h2
            exact ⟨by rw [e1, e2]; simp, n1, n2, hm, hv⟩
          · simp [hv] at h
      · simp [hm] at h
  · rintro ⟨e, n1, n2, km, kv⟩
    have e' : Utf8.trim line = m ++ 32 :: (t ++ 32 :: v) := by rw [e]; simp
    unfold known at km kv
    rw [e', splitOnce1_append 32 m _ n1]
    simp only [km, ↓reduceIte]
    rw [splitOnce1_append 32 t _ n2]
    simp only [kv, ↓reduceIte]

private theorem line_total (line : Bytes) :
    parseRequestLine line = .err ∨ ∃ m t v, parseRequestLine line = .ok (m, t, v) := by
  rw [line_eq]
  cases splitOnce (Utf8.trim line) [32] with
  | none => simp
  | some p =>
    obtain ⟨m, rest⟩ := p
    simp only []
    split
    rotate_left
    · simp
    · cases splitOnce rest [32] with
      | none => simp
      | some q =>
        obtain ⟨u, v⟩ := q
        simp only []
        split
        · exact Or.inr ⟨m, u, v, rfl⟩
        · simp

private theorem requestLine_nonblank {s m t v : Bytes} (h : RequestLine s m t v) : s.length ≠ 0 := by
  rw [h.1]; simp

/-- `parse` in terms of the specification: the request-line fields and the header loop -/
private theorem parse_of_accepts {bytes m t v : Bytes} (h : Accepts bytes m t v) :
    parse bytes = .ok ⟨m, t, v, (headerLoop (splitLines (readLine bytes).2)).1,
                       (headerLoop (splitLines (readLine bytes).2)).2.flatten⟩ := by
  obtain ⟨hv, hl⟩ := h
  unfold firstLine at hv hl
  have hp := (line_iff _ m t v).mpr hl
  have hn := requestLine_nonblank hl
  unfold parse
  rw [cursorRead_eq]
  simp [hv, hp, hn]

private theorem parse_eq (bytes : Bytes) :
    parse bytes =
      if !Utf8.valid (firstLine bytes) then .err
      else
        match parseRequestLine (firstLine bytes) with
        | .err => .err
        | .panic s => .panic s
        | .ok (m, u, v) =>
          if (Utf8.trim (firstLine bytes)).length == 0 then .ok ⟨m, u, v, [], []⟩
          else .ok ⟨m, u, v, (headerLoop (splitLines (readLine bytes).2)).1,
                    (headerLoop (splitLines (readLine bytes).2)).2.flatten⟩ := by
  unfold parse firstLine
  exact cursorRead_eq bytes

private theorem parse_err_of_line_err {bytes : Bytes} (h : parseRequestLine (firstLine bytes) = .err) :
    parse bytes = .err := by
  rw [parse_eq, h]; simp

/-- the header loop over the serialised headers, the blank line and the body -/
private theorem headerLoop_generate (body : Bytes) : ∀ hs : List Header, hs.all wfHeader = true →
    headerLoop (splitLines (hs.flatMap (fun h => h.name ++ [58, 32] ++ h.value ++ [13, 10]) ++ [13, 10] ++ body))
      = (hs, splitLines body) := by
  intro hs
  induction hs with
  | nil =>
    intro _
    have : splitLines ([13, 10] ++ body) = [13, 10] :: splitLines body := by
      simpa using splitLines_line [13] body (by simp)
    simp only [List.flatMap_nil, List.nil_append, this, headerLoop_blank]
  | cons h hs ih =>
    intro hw
    simp only [List.all_cons, Bool.and_eq_true] at hw
    obtain ⟨hh, hrest⟩ := hw
    simp only [wfHeader, Bool.and_eq_true, Bool.not_eq_true', List.contains_eq_mem, decide_eq_false_iff_not] at hh
    obtain ⟨⟨⟨⟨⟨⟨hsep, n13⟩, n10⟩, v13⟩, v10⟩, nv⟩, vv⟩ := hh
    have e : (h :: hs).flatMap (fun h => h.name ++ [58, 32] ++ h.value ++ [13, 10]) ++ [13, 10] ++ body
        = (h.name ++ [58, 32] ++ h.value ++ [13]) ++ 10 ::
          (hs.flatMap (fun h => h.name ++ [58, 32] ++ h.value ++ [13, 10]) ++ [13, 10] ++ body) := by
      simp
    have hpre : (10 : UInt8) ∉ h.name ++ [58, 32] ++ h.value ++ [13] := by
      simp [n10, v10]
    rw [e, splitLines_line _ _ hpre]
    have el : h.name ++ [58, 32] ++ h.value ++ [13] ++ [10] = h.name ++ [58, 32] ++ h.value ++ [13, 10] := by simp
    rw [el]
    have hvalid : Utf8.valid (h.name ++ [58, 32] ++ h.value ++ [13, 10]) = true :=
      Utf8.valid_append (Utf8.valid_append (Utf8.valid_append nv (by decide)) vv) (by decide)
    have hne : (Utf8.trim (h.name ++ [58, 32] ++ h.value ++ [13, 10])).length ≠ 0 :=
      Utf8.trim_ne_nil (x := 58) (by decide) (by simp)
    rw [headerLoop_header _ _ hvalid hne, ih hrest, parseHeaderString_line _ _ hsep n13 n10 v13 v10]

/-- `trim` of a serialised request line (and of one that ends in CRLF only) -/
private theorem trim_requestLine {m t v : Bytes} (hm : known methods m) (hv : known versions v)
    (ws : Bytes) (hws : ∀ x ∈ ws, isAsciiWs x = true) :
    Utf8.trim (m ++ [32] ++ t ++ [32] ++ v ++ ws) = m ++ [32] ++ t ++ [32] ++ v := by
  obtain ⟨m0, gm⟩ := known_graph methods_graph hm
  obtain ⟨v0, gv⟩ := known_graph versions_graph hv
  obtain ⟨b, m', rfl⟩ := List.exists_cons_of_ne_nil m0
  obtain ⟨v', e, rfl⟩ : ∃ v' e, v = v' ++ [e] := ⟨v.dropLast, v.getLast v0, (List.dropLast_concat_getLast v0).symm⟩
  have := Utf8.trim_graph_ends b (m' ++ [32] ++ t ++ [32] ++ v') e ws (gm b (by simp)) (gv e (by simp)) hws
  simpa using this

end helpers

/-! ## C14_parse_total — the parser is total: a value or an error, never a panic
    (since F5 and F10: no `unwrap` of client data, no recursion per header line — `headerLoop`
    is structural recursion on the list of lines) -/

theorem C14_parse_total (bytes : Bytes) : parse bytes = .err ∨ ∃ r, parse bytes = .ok r := by
  rw [parse_eq]
  split
  · exact Or.inl rfl
  · rcases line_total (firstLine bytes) with h | ⟨m, t, v, h⟩
    · rw [h]; exact Or.inl rfl
    · rw [h]; simp only []; split <;> exact Or.inr ⟨_, rfl⟩

/-! ## C14_accept / C14_reject — an *iff* on the request line -/

/-- the parser's reading of one line is the specification `RequestLine` of the trimmed line -/
theorem C14_requestLine_iff (line m t v : Bytes) :
    parseRequestLine line = .ok (m, t, v) ↔ RequestLine (Utf8.trim line) m t v :=
  line_iff line m t v

/-- ACCEPT, general form: whatever follows the first line (any bytes, valid UTF-8 or not), a
    message whose first line is valid UTF-8 and, trimmed, is a request line, is parsed, and the
    three fields are the ones of the line -/
theorem C14_accept_spec (bytes m t v : Bytes) (h : Accepts bytes m t v) :
    ∃ hs body, parse bytes = .ok ⟨m, t, v, hs, body⟩ :=
  ⟨_, _, parse_of_accepts h⟩

/-- ACCEPT, concrete form: known method (any letter case), target without blank/LF, supported
    version, CRLF — then ANY continuation `rest` -/
theorem C14_accept (m t v rest : Bytes) (h : wfRequestLine m t v = true) :
    ∃ hs body, parse (m ++ [32] ++ t ++ [32] ++ v ++ [13, 10] ++ rest) = .ok ⟨m, t, v, hs, body⟩ := by
  simp only [wfRequestLine, Bool.and_eq_true, Bool.not_eq_true', List.contains_eq_mem, decide_eq_true_eq,
    decide_eq_false_iff_not] at h
  obtain ⟨⟨⟨⟨km, kv⟩, t32⟩, t10⟩, tv⟩ := h
  obtain ⟨-, gm⟩ := known_graph methods_graph (tok := m) km
  obtain ⟨-, gv⟩ := known_graph versions_graph (tok := v) kv
  obtain ⟨m32, m10, mv⟩ := graph_all gm
  obtain ⟨-, v10, vv⟩ := graph_all gv
  apply C14_accept_spec
  have e : m ++ [32] ++ t ++ [32] ++ v ++ [13, 10] ++ rest = (m ++ [32] ++ t ++ [32] ++ v ++ [13]) ++ 10 :: rest := by simp
  have hpre : (10 : UInt8) ∉ m ++ [32] ++ t ++ [32] ++ v ++ [13] := by simp [m10, t10, v10]
  have hfl : firstLine (m ++ [32] ++ t ++ [32] ++ v ++ [13, 10] ++ rest) = m ++ [32] ++ t ++ [32] ++ v ++ [13, 10] := by
    unfold firstLine; rw [e, readLine_line _ _ hpre]; simp
  refine ⟨?_, ?_⟩
  · rw [hfl]
    exact Utf8.valid_append (Utf8.valid_append (Utf8.valid_append (Utf8.valid_append
      (Utf8.valid_append mv (by decide)) tv) (by decide)) vv) (by decide)
  · rw [hfl, trim_requestLine km kv [13, 10] (by decide)]
    exact ⟨rfl, m32, t32, km, kv⟩

/-- REJECT: when the first line is not valid UTF-8, or (trimmed) is not a request line for any
    choice of fields, parsing reports an error -/
theorem C14_reject (bytes : Bytes) (h : ¬ ∃ m t v, Accepts bytes m t v) : parse bytes = .err := by
  rcases C14_parse_total bytes with he | ⟨r, hr⟩
  · exact he
  · exfalso
    apply h
    rw [parse_eq] at hr
    by_cases hv : Utf8.valid (firstLine bytes) = true
    · rcases line_total (firstLine bytes) with hl | ⟨m, t, v, hl⟩
      · simp [hl] at hr
      · exact ⟨m, t, v, hv, (line_iff _ m t v).mp hl⟩
    · simp [hv] at hr

/-- accept and reject together: parsing succeeds exactly on the messages whose first line is
    valid UTF-8 and is, trimmed, a request line; the parsed fields are those of the line -/
theorem C14_accept_iff (bytes : Bytes) :
    (∃ r, parse bytes = .ok r) ↔ ∃ m t v, Accepts bytes m t v := by
  constructor
  · rintro ⟨r, hr⟩
    apply Classical.byContradiction
    intro hn
    rw [C14_reject bytes hn] at hr
    simp at hr
  · rintro ⟨m, t, v, h⟩
    exact ⟨_, parse_of_accepts h⟩

/-- the four ways of the property statement to be rejected, one by one -/
theorem C14_reject_not_utf8 (bytes : Bytes) (h : Utf8.valid (firstLine bytes) = false) : parse bytes = .err := by
  rw [parse_eq]; simp [h]

theorem C14_reject_incomplete (bytes : Bytes) (h : (Utf8.trim (firstLine bytes)).count 32 < 2) :
    parse bytes = .err := by
  apply C14_reject
  rintro ⟨m, t, v, -, e, -⟩
  rw [e] at h
  simp [List.count_append] at h
  omega

theorem C14_reject_unknown_method (bytes m rest : Bytes) (e : Utf8.trim (firstLine bytes) = m ++ [32] ++ rest)
    (hm : (32 : UInt8) ∉ m) (h : ¬ known methods m) : parse bytes = .err := by
  apply parse_err_of_line_err
  have e' : Utf8.trim (firstLine bytes) = m ++ 32 :: rest := by rw [e]; simp
  unfold known at h
  rw [line_eq, e', splitOnce1_append 32 m rest hm]
  simp only [h, ↓reduceIte]

theorem C14_reject_unknown_version (bytes m t v : Bytes) (e : Utf8.trim (firstLine bytes) = m ++ [32] ++ t ++ [32] ++ v)
    (hm : (32 : UInt8) ∉ m) (ht : (32 : UInt8) ∉ t) (h : ¬ known versions v) : parse bytes = .err := by
  apply parse_err_of_line_err
  have e' : Utf8.trim (firstLine bytes) = m ++ 32 :: (t ++ 32 :: v) := by rw [e]; simp
  unfold known at h
  rw [line_eq, e', splitOnce1_append 32 m _ hm]
  simp only [splitOnce1_append 32 t v ht, h, ↓reduceIte]
  split <;> rfl

/-! ## C14_roundtrip — `parse (generate r) = r` for every well-formed request: every header list
    (induction), every body (arbitrary bytes) -/

theorem C14_roundtrip (r : Request) (h : wf r = true) : parse (generate r) = .ok r := by
  obtain ⟨m, t, v, hs, body⟩ := r
  simp only [wf, Bool.and_eq_true] at h
  obtain ⟨hl, hh⟩ := h
  have hl' := hl
  simp only [wfRequestLine, Bool.and_eq_true, Bool.not_eq_true', List.contains_eq_mem, decide_eq_true_eq,
    decide_eq_false_iff_not] at hl'
  obtain ⟨⟨⟨⟨km, kv⟩, t32⟩, t10⟩, tv⟩ := hl'
  obtain ⟨-, gm⟩ := known_graph methods_graph (tok := m) km
  obtain ⟨-, gv⟩ := known_graph versions_graph (tok := v) kv
  obtain ⟨m32, m10, mv⟩ := graph_all gm
  obtain ⟨-, v10, vv⟩ := graph_all gv
  let tail := hs.flatMap (fun h => h.name ++ [58, 32] ++ h.value ++ [13, 10]) ++ [13, 10] ++ body
  have eg : generate ⟨m, t, v, hs, body⟩ = (m ++ [32] ++ t ++ [32] ++ v ++ [32, 13]) ++ 10 :: tail := by
    simp [generate, generateHead, Gen.symbolWhitespace, Gen.symbolNewLineCarriageReturn,
      Gen.headerNameValueSeparator, tail]
  have hpre : (10 : UInt8) ∉ m ++ [32] ++ t ++ [32] ++ v ++ [32, 13] := by simp [m10, t10, v10]
  have hrl := readLine_line _ tail hpre
  have hacc : Accepts (generate ⟨m, t, v, hs, body⟩) m t v := by
    unfold Accepts firstLine
    rw [eg, hrl]
    have e2 : m ++ [32] ++ t ++ [32] ++ v ++ [32, 13] ++ [10] = m ++ [32] ++ t ++ [32] ++ v ++ [32, 13, 10] := by simp
    simp only [e2]
    refine ⟨?_, ?_⟩
    · exact Utf8.valid_append (Utf8.valid_append (Utf8.valid_append (Utf8.valid_append
        (Utf8.valid_append mv (by decide)) tv) (by decide)) vv) (by decide)
    · rw [trim_requestLine km kv [32, 13, 10] (by decide)]
      exact ⟨rfl, m32, t32, km, kv⟩
  rw [parse_of_accepts hacc, eg, hrl]
  simp only [tail, headerLoop_generate body hs hh, flatten_splitLines]

/-! ## C14_lookup — header lookup ignores ASCII letter case and returns the first match -/

private theorem lower_toNat : ∀ a : UInt8,
    (asciiLower a).toNat = if 65 ≤ a.toNat ∧ a.toNat ≤ 90 then a.toNat + 32 else a.toNat :=
  U8.forall_all _ (by decide +kernel)

private theorem lower_eq_iff (a b : UInt8) : asciiLower a = asciiLower b ↔ sameLetter a b := by
  rw [← UInt8.toNat_inj, lower_toNat, lower_toNat]
  unfold sameLetter
  rw [← UInt8.toNat_inj]
  have := UInt8.toNat_lt a
  have := UInt8.toNat_lt b
  split <;> split <;> omega

/-- the model's comparison is the specification `sameName` -/
theorem C14_lookup_sameName (a b : Bytes) : eqIgnoreAsciiCase a b = true ↔ sameName a b := by
  unfold eqIgnoreAsciiCase
  rw [beq_iff_eq]
  induction a generalizing b with
  | nil => cases b <;> simp [sameName]
  | cons x xs ih =>
    cases b with
    | nil => simp [sameName]
    | cons y ys => simp [sameName, lower_eq_iff, ih]

/-- lookup returns the FIRST header whose name is the wanted one up to ASCII letter case … -/
theorem C14_lookup (hs : List Header) (name : Bytes) (h : Header) :
    getHeader hs name = some h ↔
      ∃ pre post, hs = pre ++ h :: post ∧ sameName h.name name ∧ ∀ x ∈ pre, ¬ sameName x.name name := by
  unfold getHeader
  rw [List.find?_eq_some_iff_append]
  constructor
  · rintro ⟨hp, pre, post, e, hn⟩
    refine ⟨pre, post, e, (C14_lookup_sameName _ _).mp hp, ?_⟩
    intro x hx hs'
    have := hn x hx
    rw [(C14_lookup_sameName _ _).mpr hs'] at this
    simp at this
  · rintro ⟨pre, post, e, hp, hn⟩
    refine ⟨(C14_lookup_sameName _ _).mpr hp, pre, post, e, ?_⟩
    intro x hx
    have := hn x hx
    rw [← C14_lookup_sameName] at this
    simpa using this

/-- … and nothing exactly when no header has that name -/
theorem C14_lookup_none (hs : List Header) (name : Bytes) :
    getHeader hs name = none ↔ ∀ x ∈ hs, ¬ sameName x.name name := by
  unfold getHeader
  rw [List.find?_eq_none]
  constructor
  · intro h x hx hs'
    have := h x hx
    rw [(C14_lookup_sameName _ _).mpr hs'] at this
    simp at this
  · intro h x hx
    have := h x hx
    rw [← C14_lookup_sameName] at this
    simpa using this

private theorem sameName_upper (n : Bytes) : sameName (n.map asciiUpper) n := by
  rw [← C14_lookup_sameName]
  unfold eqIgnoreAsciiCase
  rw [beq_iff_eq, List.map_map]
  apply List.map_congr_left
  intro a _
  exact (U8.forall_all (fun a => asciiLower (asciiUpper a) = asciiLower a) (by decide +kernel)) a

/-- the letter case of the wanted name does not matter: names equal up to ASCII case find the same header -/
theorem C14_lookup_ignores_case (hs : List Header) (n n' : Bytes) (h : sameName n n') :
    getHeader hs n = getHeader hs n' := by
  unfold getHeader
  congr 1
  funext x
  have e : n.map asciiLower = n'.map asciiLower := by
    have := (C14_lookup_sameName n n').mpr h
    simpa [eqIgnoreAsciiCase] using this
  simp [eqIgnoreAsciiCase, e]

theorem C14_lookup_upper (hs : List Header) (n : Bytes) :
    getHeader hs (n.map asciiUpper) = getHeader hs n :=
  C14_lookup_ignores_case hs _ _ (sameName_upper n)

/-! ## non-vacuity: the hypotheses are satisfiable by non-trivial inputs, and the statements
    compute on them -/

/-- `geT /a?b=1:2 http/1.1` with headers `Host: h:80`, `a: b: c: d`, an empty name with a value
    full of colons, and a body that starts with a blank line and holds CR, LF, NUL, 0xFF -/
def exampleRequest : Request :=
  { method := [103, 101, 84], uri := [47, 97, 63, 98, 61, 49, 58, 50], version := [104, 116, 116, 112, 47, 49, 46, 49],
    headers := [⟨[72, 111, 115, 116], [104, 58, 56, 48]⟩, ⟨[97], [98, 58, 32, 99, 58, 32, 100]⟩,
                ⟨[], [58, 32, 58, 58, 32, 61]⟩, ⟨[120, 58, 121, 32, 122], [195, 169]⟩],
    body := [13, 10, 13, 10, 0, 255, 10, 97, 58, 32, 98, 13, 10] }

example : wf exampleRequest = true := by decide +kernel
example : parse (generate exampleRequest) = .ok exampleRequest := C14_roundtrip _ (by decide +kernel)
example : wfRequestLine [80, 97, 84, 99, 72] [42] [72, 84, 84, 80, 47, 50, 46, 48] = true := by decide +kernel
/-- a request line that `Accepts` holds for although white space (U+3000, TAB) surrounds it -/
example : Accepts ([227, 128, 128, 71, 69, 84, 32, 47, 32, 72, 84, 84, 80, 47, 49, 46, 49, 9, 13, 10, 255])
    [71, 69, 84] [47] [72, 84, 84, 80, 47, 49, 46, 49] := by
  refine ⟨by decide +kernel, ?_, by decide, by decide, by decide +kernel, by decide +kernel⟩
  decide +kernel
/-- rejected inputs of each kind: not UTF-8, incomplete, unknown method (`poſt`, F28), unknown version -/
example : parse [71, 69, 84, 32, 47, 255, 32, 72, 84, 84, 80, 47, 49, 46, 49, 13, 10] = .err :=
  C14_reject_not_utf8 _ (by decide +kernel)
example : parse [71, 69, 84, 32, 47, 13, 10] = .err := C14_reject_incomplete _ (by decide +kernel)
example : parse [112, 111, 197, 191, 116, 32, 47, 32, 72, 84, 84, 80, 47, 49, 46, 49, 13, 10] = .err :=
  C14_reject_unknown_method _ [112, 111, 197, 191, 116] [47, 32, 72, 84, 84, 80, 47, 49, 46, 49]
    (by decide +kernel) (by decide) (by decide +kernel)
example : parse [71, 69, 84, 32, 47, 32, 72, 84, 84, 80, 47, 49, 46, 50, 13, 10] = .err :=
  C14_reject_unknown_version _ [71, 69, 84] [47] [72, 84, 84, 80, 47, 49, 46, 50]
    (by decide +kernel) (by decide) (by decide) (by decide +kernel)
example : sameName [72, 111, 115, 116] [104, 79, 83, 84] := (C14_lookup_sameName _ _).mp (by decide +kernel)
example : getHeader exampleRequest.headers [72, 79, 83, 84] = some ⟨[72, 111, 115, 116], [104, 58, 56, 48]⟩ := by
  decide +kernel
/-- the regression inputs of the repaired defects, on the model -/
example : parse [71, 69, 84, 32, 47, 32, 72, 84, 84, 80, 47, 49, 46, 49, 13, 10, 67, 111, 110, 116, 101, 110, 116, 45, 76,
    101, 110, 103, 116, 104, 58, 32, 97, 13, 10, 13, 10] =
    .ok ⟨[71, 69, 84], [47], [72, 84, 84, 80, 47, 49, 46, 49],
         [⟨[67, 111, 110, 116, 101, 110, 116, 45, 76, 101, 110, 103, 116, 104], [97]⟩], []⟩ := by decide +kernel

end Rws.C14
