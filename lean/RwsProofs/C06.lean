/-
  C06 (pool part) — serving capacity survives any history of connections: no past job permanently
  removes a worker.

  Model: `Rws.Pool` with job outcomes.  A job that returns (handler ok, or handler error printed
  by the closure in `Server::run`) is the step `finish i`; a job that panics is the step `crash i`
  — after fix F12 (`catch_unwind` around the job in the worker loop) the worker goes back to the
  top of its loop exactly as after `finish`, the task is recorded in `failed`.
  `Run (init N) hist s` quantifies over EVERY history: any interleaving of submissions, lock
  operations, normal returns and panics, of any length.

  The accept-loop part of C06 (fix F13, `Server::run`) is outside this file.
-/
import Rws.Pool
import RwsProofs.Lemmas.Pool
import RwsProofs.C07
namespace Rws.C06
open Rws.Pool Rws.C07
variable {N : Nat}

/-- job outcomes of a connection as the pool sees them -/
inductive JobOutcome where
  | ok | err | panic
deriving DecidableEq, Repr

/-- the model step that ends a job with the given outcome on worker i -/
def endLabel (i : Fin N) : JobOutcome → Label N
  | .ok => .finish i
  | .err => .finish i
  | .panic => .crash i

/-- worker i is at the top of its loop or inside `recv()`: available for the next job -/
def Idle (s : State N) (i : Fin N) : Prop := s.w i = .waitLock ∨ s.w i = .holdLock

/-- the state after the tasks `q` have been handed to `ThreadPool::execute` -/
def submitAll (s : State N) (q : List Task) : State N :=
  { s with queue := s.queue ++ q, submitted := s.submitted ++ q }

private theorem run_submitAll (q : List Task) : ∀ s : State N, Run s (q.map Label.submit) (submitAll s q) := by
  induction q with
  | nil => intro s; simpa [submitAll] using Run.nil s
  | cons t q ih =>
    intro s
    have := ih (s.doSubmit t)
    simp only [List.map_cons]
    refine Run.cons (Step.submit s t) ?_
    simpa [submitAll, State.doSubmit, List.append_assoc] using this

/-- whatever its outcome, the end of a job puts its worker back at the top of the loop and touches
    nothing else: queue, lock and all other workers are unchanged (a panic is not contagious) -/
theorem C06_job_end_keeps_worker {s s' : State N} {i : Fin N} (o : JobOutcome)
    (h : Step s (endLabel i o) s') :
    s'.w i = .waitLock ∧ (∀ j, j ≠ i → s'.w j = s.w j) ∧ s'.lock = s.lock ∧ s'.queue = s.queue := by
  cases o <;> cases h <;> simp [State.doFinish, State.doCrash, upd] <;> intro j hj <;> simp [hj]

/-- a job can always end with any outcome: `crash` is enabled exactly when `finish` is -/
theorem C06_any_outcome_enabled {s : State N} {i : Fin N} {t : Task} (hw : s.w i = .running t)
    (o : JobOutcome) : ∃ s', Step s (endLabel i o) s' := by
  cases o
  · exact ⟨_, Step.finish s i t hw⟩
  · exact ⟨_, Step.finish s i t hw⟩
  · exact ⟨_, Step.crash s i t hw⟩

/--
  C06_pool_capacity.  For EVERY history `hist` (any number of jobs, each ending ok, with an error or
  with a panic, under any schedule) leading to a state `s` in which the queue has drained:
  all N workers are idle, and for any N further tasks `q` there is a run — submissions of `q`, then
  only `acquire`/`recv` steps, no job has to end — after which all N workers are running
  simultaneously.  No past job has removed a worker.
-/
theorem C06_pool_capacity (hN : 0 < N) {hist : List (Label N)} {s : State N}
    (hrun : Run (init N) hist s) (hd : Drained s) (q : List Task) (hq : q.length = N) :
    (∀ i, Idle s i) ∧ Run s (q.map Label.submit) (submitAll s q) ∧
    ∃ (ls : List (Label N)) (s' : State N), Run (submitAll s q) ls s' ∧ noEnd ls ∧
      (∀ i, (s'.w i).isRunning = true) ∧ s'.queue = [] := by
  have hreach : Reachable s := hrun.reachable Reachable.init
  have hI := inv_reachable hreach
  have hidle : ∀ i, Idle s i := by
    intro i
    have := hd.2 i
    cases hw : s.w i with
    | waitLock => exact Or.inl hw
    | holdLock => exact Or.inr hw
    | running t => simp [hw, WState.isRunning] at this
  refine ⟨hidle, run_submitAll q s, ?_⟩
  have hqueue : (submitAll s q).queue = q := by simp [submitAll, hd.1]
  cases hl : s.lock with
  | none =>
    have hall : ∀ i ∈ List.finRange N, (submitAll s q).w i = .waitLock := by
      intro i _
      rcases hidle i with h | h
      · exact h
      · have := (hI.lockHold i).mp h; simp [hl] at this
    obtain ⟨ls, s', hr, hne, _, _, hq', _, _, hrn, _⟩ :=
      fill (List.finRange N) q [] (submitAll s q) (List.nodup_finRange N) (by simp [hq]) hl hall
        (by simp [hqueue])
    exact ⟨ls, s', hr, hne, fun i => hrn i (List.mem_finRange i), hq'⟩
  | some h =>
    -- the worker that sits in `recv()` takes the first task, the others fill up
    cases q with
    | nil => simp at hq; omega
    | cons t q' =>
      have hh : s.w h = .holdLock := (hI.lockHold h).mpr hl
      let s1 := submitAll s (t :: q')
      have hst : Step s1 (.recv h) (s1.doRecv h t q') := Step.recv s1 h t q' hl hh hqueue
      let s2 := s1.doRecv h t q'
      let l := (List.finRange N).erase h
      have hnd : l.Nodup := (List.nodup_finRange N).erase h
      have hmem : ∀ i, i ∈ l ↔ i ≠ h := by
        intro i; simp [l, (List.nodup_finRange N).mem_erase_iff, List.mem_finRange]
      have hlen : l.length = q'.length := by
        simp [l, List.length_erase_of_mem (List.mem_finRange h)]
        simp at hq; omega
      have hall : ∀ i ∈ l, s2.w i = .waitLock := by
        intro i hi
        have hne : i ≠ h := (hmem i).mp hi
        have : s2.w i = s.w i := by simp [s2, s1, State.doRecv, submitAll, upd, hne]
        rw [this]
        rcases hidle i with h' | h'
        · exact h'
        · have := (hI.lockHold i).mp h'; rw [hl] at this; exact absurd (Option.some.inj this).symm hne
      obtain ⟨ls, s', hr, hne, _, _, hq', _, _, hrn, hoth⟩ :=
        fill l q' [] s2 hnd hlen rfl hall (by simp [s2, State.doRecv])
      refine ⟨.recv h :: ls, s', Run.cons hst hr, ?_, ?_, hq'⟩
      · intro x hx; simp at hx; rcases hx with rfl | hx
        · simp [Label.isSubmit, Label.isEnd]
        · exact hne x hx
      · intro i
        by_cases hih : i = h
        · subst hih
          rw [hoth i (fun hm => ((hmem i).mp hm) rfl)]
          simp [s2, State.doRecv, upd, WState.isRunning]
        · exact hrn i ((hmem i).mpr hih)

/-- after ANY history the pool can drain (finite continuation of worker steps), and in the drained
    state the full capacity of N simultaneous jobs is available again -/
theorem C06_capacity_after_any_history (hN : 0 < N) {hist : List (Label N)} {s : State N}
    (hrun : Run (init N) hist s) (q : List Task) (hq : q.length = N) :
    ∃ (cont : List (Label N)) (sd : State N), Run s cont sd ∧ workerOnly cont ∧ Drained sd ∧
      (∀ i, Idle sd i) ∧
      ∃ (ls : List (Label N)) (s' : State N), Run (submitAll sd q) ls s' ∧ noEnd ls ∧
        (∀ i, (s'.w i).isRunning = true) := by
  obtain ⟨cont, sd, hr, hwo, _, hdr, _, _⟩ := C07_can_drain hN (hrun.reachable Reachable.init)
  obtain ⟨hidle, _, ls, s', hr', hne, hall, _⟩ := C06_pool_capacity hN (hrun.append hr) hdr q hq
  exact ⟨cont, sd, hr, hwo, hdr, hidle, ls, s', hr', hne, hall⟩

/-! ## why the fix F12 was needed (kernel-checked witness about the model)

  On the pinned tree a panicking job unwound through the worker loop: the thread ended, i.e. the
  job never gave control back to the loop.  In model terms that worker stays `running t` for ever.
  The witness: one worker, its job does not return, one more task queued — no step other than a
  new submission or the END of that job is possible, so the queued task waits for ever.  Capacity
  therefore depends on every job ending in `finish` or `crash`, which is what `catch_unwind` gives. -/

def exWedged : State 1 := ((((init 1).doSubmit 0).doSubmit 1).doAcquire 0).doRecv 0 0 [1]

theorem C06_example_wedged_trace :
    runTrace 1 [.submit 0, .submit 1, .acquire 0, .recv 0] = some exWedged := rfl

theorem C06_capacity_needs_job_end :
    Reachable exWedged ∧ exWedged.queue = [1] ∧
    ∀ l s', Step exWedged l s' → l.isSubmit = true ∨ l.isEnd = true := by
  refine ⟨C07_trace_sound C06_example_wedged_trace, by decide, ?_⟩
  intro l s' h
  cases h with
  | submit t => exact Or.inl rfl
  | acquire i _ hw =>
    have : ∀ i : Fin 1, exWedged.w i ≠ .waitLock := by decide
    exact absurd hw (this i)
  | recv i t rest hl _ _ => exact absurd hl (by simp [exWedged, State.doRecv])
  | finish i t _ => exact Or.inr rfl
  | crash i t _ => exact Or.inr rfl

/-! ## non-vacuity -/

/-- a history with a panic: one worker, task 3 panics, is caught, the worker re-takes the lock:
    drained, reachable, task recorded as failed — the hypotheses of `C06_pool_capacity` hold -/
def exAfterPanic : State 1 := (((((init 1).doAcquire 0).doSubmit 3).doRecv 0 3 []).doCrash 0 3).doAcquire 0

theorem C06_example_panic_trace :
    runTrace 1 [.acquire 0, .submit 3, .recv 0, .begin 0 3, .crash 0, .acquire 0] = some exAfterPanic := rfl

example : ∃ hist, Run (init 1) hist exAfterPanic ∧ Drained exAfterPanic ∧ exAfterPanic.failed = [3] := by
  obtain ⟨hist, h⟩ := reachable_iff_run.mp (C07_trace_sound C06_example_panic_trace)
  have hrun : ∀ i : Fin 1, (exAfterPanic.w i).isRunning = false := by decide
  exact ⟨hist, h, ⟨by decide, hrun⟩, by decide⟩

end Rws.C06
