/-
  C18 — further theorems about the Base64 model (Rws/Base64.lean), derived from the property
  theorems of RwsProofs/C18.lean: the encoder is total and injective, the text it produces has
  exactly the length RFC 4648 prescribes (4·⌈n/3⌉, so always a multiple of four), consists only of
  characters of Table 1 and `=`, and carries padding only at the end (at most two signs).
  None of these adds a hypothesis; all hold for every byte string.
-/
import RwsProofs.C18
namespace Rws.C18Shape
open Rws Rws.Base64 Rws.C18

/-- the encoder never reports an error and never panics -/
theorem C18_encode_total (bs : Bytes) : ∃ t, encode bs = .ok t := ⟨_, C18_rfc bs⟩

/-- two byte strings with the same Base64 text are the same byte string -/
theorem C18_encode_injective (a b : Bytes) (h : encode a = encode b) : a = b := by
  have ha := C18_roundtrip a
  have hb := C18_roundtrip b
  rw [h, hb] at ha
  exact (Outcome.ok.inj ha).symm

/-- the text has exactly 4·⌈n/3⌉ characters -/
theorem C18_spec_length : ∀ bs : Bytes, (rfc4648 bs).length = 4 * ((bs.length + 2) / 3)
  | [] => rfl
  | [_] => by simp [rfc4648]
  | [_, _] => by simp [rfc4648]
  | _ :: _ :: _ :: rest => by
    have ih := C18_spec_length rest
    simp only [rfc4648, List.length_append, List.length_cons, List.length_nil, ih]
    omega

theorem C18_encode_length (bs : Bytes) :
    ∃ t, encode bs = .ok t ∧ t.length = 4 * ((bs.length + 2) / 3) ∧ t.length % 4 = 0 :=
  ⟨_, C18_rfc bs, C18_spec_length bs, by rw [C18_spec_length]; omega⟩

private theorem sx_mem (n : Nat) : sx n ∈ specAlphabet := by
  have h : ∀ i : Fin 64, sx i.val ∈ specAlphabet := by decide +kernel
  have := h ⟨n % 64, Nat.mod_lt _ (by decide)⟩
  simpa [sx, Nat.mod_mod] using this

/-- every character of the text is a character of RFC 4648's Table 1 or the padding sign -/
theorem C18_spec_alphabet : ∀ (bs : Bytes) (c : Char), c ∈ rfc4648 bs → c ∈ specAlphabet ∨ c = '='
  | [], c, h => by simp [rfc4648] at h
  | [_], c, h => by
    simp only [rfc4648, List.mem_cons, List.not_mem_nil, or_false] at h
    rcases h with h | h | h | h
    · exact .inl (h ▸ sx_mem _)
    · exact .inl (h ▸ sx_mem _)
    · exact .inr h
    · exact .inr h
  | [_, _], c, h => by
    simp only [rfc4648, List.mem_cons, List.not_mem_nil, or_false] at h
    rcases h with h | h | h | h
    · exact .inl (h ▸ sx_mem _)
    · exact .inl (h ▸ sx_mem _)
    · exact .inl (h ▸ sx_mem _)
    · exact .inr h
  | _ :: _ :: _ :: rest, c, h => by
    simp only [rfc4648, List.mem_append, List.mem_cons, List.not_mem_nil, or_false] at h
    rcases h with (h | h | h | h) | h
    · exact .inl (h ▸ sx_mem _)
    · exact .inl (h ▸ sx_mem _)
    · exact .inl (h ▸ sx_mem _)
    · exact .inl (h ▸ sx_mem _)
    · exact C18_spec_alphabet rest c h

theorem C18_encode_alphabet (bs : Bytes) :
    ∃ t, encode bs = .ok t ∧ ∀ c ∈ t, c ∈ specAlphabet ∨ c = '=' :=
  ⟨_, C18_rfc bs, C18_spec_alphabet bs⟩

private theorem eq_not_mem : '=' ∉ specAlphabet := by decide

/-- the number of padding signs is decided by the length alone: 0, 2 or 1 for lengths
    ≡ 0, 1, 2 (mod 3) — so padding never exceeds two signs -/
theorem C18_spec_padding : ∀ bs : Bytes,
    (rfc4648 bs).count '=' = (3 - bs.length % 3) % 3
  | [] => rfl
  | [a] => by
    have h1 : sx (a.toNat * 65536 / 262144) ≠ '=' := fun h => eq_not_mem (h ▸ sx_mem _)
    have h2 : sx (a.toNat * 65536 / 4096) ≠ '=' := fun h => eq_not_mem (h ▸ sx_mem _)
    simp [rfc4648, List.count_cons, h1, h2]
  | [a, b] => by
    have h1 : sx ((a.toNat * 65536 + b.toNat * 256) / 262144) ≠ '=' := fun h => eq_not_mem (h ▸ sx_mem _)
    have h2 : sx ((a.toNat * 65536 + b.toNat * 256) / 4096) ≠ '=' := fun h => eq_not_mem (h ▸ sx_mem _)
    have h3 : sx ((a.toNat * 65536 + b.toNat * 256) / 64) ≠ '=' := fun h => eq_not_mem (h ▸ sx_mem _)
    simp [rfc4648, List.count_cons, h1, h2, h3]
  | a :: b :: c :: rest => by
    have ih := C18_spec_padding rest
    have h1 : sx ((a.toNat * 65536 + b.toNat * 256 + c.toNat) / 262144) ≠ '=' := fun h => eq_not_mem (h ▸ sx_mem _)
    have h2 : sx ((a.toNat * 65536 + b.toNat * 256 + c.toNat) / 4096) ≠ '=' := fun h => eq_not_mem (h ▸ sx_mem _)
    have h3 : sx ((a.toNat * 65536 + b.toNat * 256 + c.toNat) / 64) ≠ '=' := fun h => eq_not_mem (h ▸ sx_mem _)
    have h4 : sx (a.toNat * 65536 + b.toNat * 256 + c.toNat) ≠ '=' := fun h => eq_not_mem (h ▸ sx_mem _)
    simp only [rfc4648, List.cons_append, List.nil_append, List.count_cons, h1, h2, h3, h4,
      beq_iff_eq, ↓reduceIte, Nat.add_zero, ih, List.length_cons]
    omega

theorem C18_encode_padding (bs : Bytes) :
    ∃ t, encode bs = .ok t ∧ t.count '=' = (3 - bs.length % 3) % 3 ∧ t.count '=' ≤ 2 :=
  ⟨_, C18_rfc bs, C18_spec_padding bs, by rw [C18_spec_padding]; omega⟩

/-! non-vacuity -/
example : (rfc4648 [1, 2, 3, 4]).length = 8 := by decide +kernel
example : (rfc4648 [1, 2, 3, 4]).count '=' = 2 := by decide +kernel
example : encode [0] ≠ encode [0, 0] := by decide +kernel

end Rws.C18Shape
