/-
  C07 — the worker pool runs every task exactly once, N at a time, without deadlock.

  All theorems are about `Rws.Pool` (lean/Rws/Pool.lean): the step relation `Step`, whose
  executable form `step?` (`step?_iff`) is what the driver op `pooltrace` replays on the traces
  recorded from the real `ThreadPool`.  `Reachable s` quantifies over EVERY finite schedule of the
  submitter and the N workers, every N and every number of tasks (induction over step sequences).

  Reading guide (state components, see Rws/Pool.lean): `queue` = the channel, `lock` = holder of
  the receiver mutex, `w i` ∈ {waitLock, holdLock, running t}, ghost histories `submitted`,
  `started` (received, in order), `done`, `failed`; `runningList s` = tasks being executed now.
-/
import Rws.Pool
import RwsProofs.Lemmas.Pool
namespace Rws.C07
open Rws.Pool
variable {N : Nat}

/-! ## specification vocabulary (independent of how the steps are defined) -/

/-- no worker step is possible: only a new submission can change the state -/
def Stuck (s : State N) : Prop := ∀ l s', Step s l s' → l.isSubmit = true

/-- nothing queued and nothing running -/
def Drained (s : State N) : Prop := s.queue = [] ∧ ∀ i, (s.w i).isRunning = false

/-- the pool right after N tasks `ts` were submitted to a fresh pool: N queued, all workers waiting -/
def queuedAll (ts : Fin N → Task) : State N :=
  { init N with queue := (List.finRange N).map ts, submitted := (List.finRange N).map ts }

/-! ## safety -/

/-- conservation: as multisets, submitted = queued + running + done -/
theorem C07_conservation {s : State N} (h : Reachable s) :
    s.submitted.Perm (s.queue ++ runningList s ++ s.done) := by
  have hi := inv_reachable h
  rw [List.perm_iff_count]
  intro t
  have := hi.cons t
  rw [← hi.fifo]
  simp only [List.count_append]
  omega

/-- with distinct task ids every task is in at most one place, at most once: not queued twice,
    not run by two workers, not done twice, and never in two of these at the same time -/
theorem C07_at_most_once {s : State N} (h : Reachable s) (hd : s.submitted.Nodup) :
    (s.queue ++ runningList s ++ s.done).Nodup ∧
    (∀ t, s.done.count t ≤ 1) ∧
    (∀ i j t, s.w i = .running t → s.w j = .running t → i = j) ∧
    (∀ i t, s.w i = .running t → t ∉ s.done ∧ t ∉ s.queue) := by
  have hp := C07_conservation h
  have hnd : (s.queue ++ runningList s ++ s.done).Nodup := (hp.nodup_iff).mp hd
  have hc : ∀ t, s.queue.count t + (runningList s).count t + s.done.count t ≤ 1 := by
    intro t
    have := (List.nodup_iff_count.mp hnd) t
    simp only [List.count_append] at this
    omega
  refine ⟨hnd, fun t => by have := hc t; omega, ?_, ?_⟩
  · intro i j t hi hj
    apply Classical.byContradiction
    intro hij
    have := two_running hij hi hj
    have := hc t
    omega
  · intro i t hi
    have hm : 0 < (runningList s).count t := List.count_pos_iff.mpr ((mem_runningList s t).mpr ⟨i, hi⟩)
    have := hc t
    constructor
    · intro hmem; have := List.count_pos_iff.mpr hmem; omega
    · intro hmem; have := List.count_pos_iff.mpr hmem; omega

/-- a task is never done more often than it was submitted (no assumption on ids) -/
theorem C07_done_le_submitted {s : State N} (h : Reachable s) (t : Task) :
    s.done.count t ≤ s.submitted.count t := by
  have := (List.perm_iff_count.mp (C07_conservation h)) t
  simp only [List.count_append] at this
  omega

/-- no submitted task disappears: it is queued, or some worker runs it, or it is done -/
theorem C07_never_lost {s : State N} (h : Reachable s) {t : Task} (ht : t ∈ s.submitted) :
    t ∈ s.queue ∨ (∃ i, s.w i = .running t) ∨ t ∈ s.done := by
  have := (C07_conservation h).mem_iff.mp ht
  simp only [List.mem_append] at this
  rcases this with (h1 | h2) | h3
  · exact Or.inl h1
  · exact Or.inr (Or.inl ((mem_runningList s t).mp h2))
  · exact Or.inr (Or.inr h3)

/-- tasks are received in submission order: what has been received so far, followed by what is
    still queued, IS the submission sequence -/
theorem C07_fifo {s : State N} (h : Reachable s) : s.started ++ s.queue = s.submitted :=
  (inv_reachable h).fifo

/-- a worker that runs a task does not hold the queue lock (the guard died with the `recv` statement) -/
theorem C07_lock_free_while_running {s : State N} (h : Reachable s) {i : Fin N} {t : Task}
    (hr : s.w i = .running t) : s.lock ≠ some i := by
  intro hl
  have := ((inv_reachable h).lockHold i).mpr hl
  simp [hr] at this

/-- at most one worker is inside `recv()`, and it is the lock holder -/
theorem C07_mutex {s : State N} (h : Reachable s) {i j : Fin N}
    (hi : s.w i = .holdLock) (hj : s.w j = .holdLock) : i = j ∧ s.lock = some i := by
  have hI := inv_reachable h
  have h1 := (hI.lockHold i).mp hi
  have h2 := (hI.lockHold j).mp hj
  exact ⟨Option.some.inj (h1.symm.trans h2), h1⟩

/-! ## concurrency: a slow task delays at most its own worker -/

/-- if a task is queued and some worker is not running a job, the head task starts within two
    steps, none of which is a submission or the end of a running job, and no running job is
    disturbed — however long the running jobs take -/
theorem C07_parallel {s : State N} (h : Reachable s) {t : Task} {rest : List Task} {i : Fin N}
    (hq : s.queue = t :: rest) (hi : (s.w i).isRunning = false) :
    ∃ (j : Fin N) (ls : List (Label N)) (s' : State N), Run s ls s' ∧ ls.length ≤ 2 ∧ noEnd ls ∧
      s'.w j = .running t ∧ s'.queue = rest ∧ (∀ k, (s.w k).isRunning = true → s'.w k = s.w k) := by
  have hI := inv_reachable h
  cases hl : s.lock with
  | some j =>
    have hj := (hI.lockHold j).mpr hl
    refine ⟨j, [.recv j], _, Run.cons (Step.recv s j t rest hl hj hq) (Run.nil _), by simp, ?_, ?_, rfl, ?_⟩
    · intro x hx; simp at hx; subst hx; simp [Label.isSubmit, Label.isEnd]
    · simp [State.doRecv, upd]
    · intro k hk
      have : k ≠ j := fun e => by subst e; simp [hj, WState.isRunning] at hk
      simp [State.doRecv, upd, this]
  | none =>
    have hw : s.w i = .waitLock := by
      cases hwi : s.w i with
      | waitLock => rfl
      | holdLock => have := (hI.lockHold i).mp hwi; simp [hl] at this
      | running u => simp [hwi, WState.isRunning] at hi
    have h1 := Step.acquire s i hl hw
    have h2 : Step (s.doAcquire i) (.recv i) ((s.doAcquire i).doRecv i t rest) :=
      Step.recv _ i t rest rfl (by simp [State.doAcquire, upd]) hq
    refine ⟨i, [.acquire i, .recv i], _, Run.cons h1 (Run.cons h2 (Run.nil _)), by simp, ?_, ?_, rfl, ?_⟩
    · intro x hx; simp at hx; rcases hx with rfl | rfl <;> simp [Label.isSubmit, Label.isEnd]
    · simp [State.doRecv, upd]
    · intro k hk
      have : k ≠ i := fun e => by subst e; simp [hw, WState.isRunning] at hk
      simp [State.doRecv, State.doAcquire, upd, this]

/-- "N queued, all waiting" is reachable, and from it "N running" (worker i runs task i) is reached
    in 2N steps none of which ends a job: N tasks execute simultaneously -/
theorem C07_parallel_full (ts : Fin N → Task) :
    Reachable (queuedAll ts) ∧
    ∃ (ls : List (Label N)) (s' : State N), Run (queuedAll ts) ls s' ∧ noEnd ls ∧ ls.length = 2 * N ∧
      (∀ i, s'.w i = .running (ts i)) ∧ s'.queue = [] := by
  constructor
  · -- N submissions from `init`
    have key : ∀ (l : List (Fin N)) (s : State N), Reachable s →
        Reachable { s with queue := s.queue ++ l.map ts, submitted := s.submitted ++ l.map ts } := by
      intro l
      induction l with
      | nil => intro s hs; simpa using hs
      | cons a l ih =>
        intro s hs
        have := ih (s.doSubmit (ts a)) (Reachable.step hs (Step.submit s (ts a)))
        simpa [State.doSubmit, List.append_assoc] using this
    have := key (List.finRange N) (init N) Reachable.init
    simpa [queuedAll, init] using this
  · obtain ⟨ls, s', hr, hne, hlen, _, hq, _, hz, _, _⟩ :=
      fill (List.finRange N) ((List.finRange N).map ts) [] (queuedAll ts) (List.nodup_finRange N)
        (by simp) rfl (fun i _ => rfl) (by simp [queuedAll])
    refine ⟨ls, s', hr, hne, by simpa using hlen, ?_, hq⟩
    intro i
    exact hz (i, ts i) (mem_zip_map ts _ (List.mem_finRange i))

/-! ## progress -/

/-- no deadlock: while a task is pending or running, some WORKER step is enabled -/
theorem C07_no_deadlock (hN : 0 < N) {s : State N} (h : Reachable s)
    (hw : s.queue ≠ [] ∨ ∃ i t, s.w i = .running t) :
    ∃ (l : Label N) (s' : State N), l.isSubmit = false ∧ Step s l s' := by
  have hI := inv_reachable h
  by_cases hr : ∃ i t, s.w i = .running t
  · obtain ⟨i, t, hit⟩ := hr
    exact ⟨.finish i, _, rfl, Step.finish s i t hit⟩
  · have hq : s.queue ≠ [] := hw.resolve_right hr
    obtain ⟨t, rest, hq'⟩ := List.exists_cons_of_ne_nil hq
    have h0 : (s.w ⟨0, hN⟩).isRunning = false := by
      cases hw0 : s.w ⟨0, hN⟩ with
      | running u => exact absurd ⟨_, u, hw0⟩ hr
      | _ => rfl
    obtain ⟨j, ls, s', hrun, _, hne, hj, _, _⟩ := C07_parallel h hq' h0
    cases hrun with
    | nil =>
      -- zero steps would mean j already runs t
      exact absurd ⟨j, t, hj⟩ hr
    | cons hs _ => exact ⟨_, _, (hne _ (by simp)).1, hs⟩

/-- a stuck pool (no worker step possible) has nothing queued and nothing running -/
theorem C07_stuck_drained (hN : 0 < N) {s : State N} (h : Reachable s) (hs : Stuck s) : Drained s := by
  have hnd : ¬ (s.queue ≠ [] ∨ ∃ i t, s.w i = .running t) := by
    intro hw
    obtain ⟨l, s', hl, hst⟩ := C07_no_deadlock hN h hw
    have := hs l s' hst
    simp [hl] at this
  constructor
  · apply Classical.byContradiction; intro hq; exact hnd (Or.inl hq)
  · intro i
    cases hw : s.w i with
    | running t => exact absurd (Or.inr ⟨i, t, hw⟩) hnd
    | _ => rfl

/-- in a drained pool every submitted task is done exactly once (as multisets; with distinct ids:
    `done` has no duplicates and the same elements as `submitted`) -/
theorem C07_drained_exactly_once {s : State N} (h : Reachable s) (hd : Drained s) :
    s.submitted.Perm s.done ∧ (s.submitted.Nodup → s.done.Nodup) := by
  have hp := C07_conservation h
  have hr : runningList s = [] := (runningList_eq_nil s).mpr hd.2
  rw [hd.1, hr] at hp
  simp at hp
  exact ⟨hp, fun hn => (hp.nodup_iff).mp hn⟩

/-- every schedule terminates: a run of worker steps (no new submissions) from `s` has at most
    `3·|queue| + Σ weight(worker)` steps (`running` 2, `waitLock` 1, `holdLock` 0) ≤ 3·|queue| + 2N -/
theorem C07_terminates {s s' : State N} {ls : List (Label N)} (hr : Run s ls s') (hw : workerOnly ls) :
    ls.length + measure s' ≤ measure s := by
  induction hr with
  | nil => simp
  | cons hs _ ih =>
    have h1 := measure_step hs (hw _ (by simp))
    have h2 := ih (fun l hl => hw l (by simp [hl]))
    simp only [List.length_cons]; omega

/--
  C07_exactly_once.  Fairness assumption, stated explicitly: the run is MAXIMAL — it only ends in a
  state where no worker step is enabled (no enabled step is postponed forever); "tasks terminate"
  is the fact that `finish`/`crash` of a running job counts as an enabled step.  By `C07_terminates`
  no schedule can avoid ending: at most `measure s` worker steps exist after the last submission.
  Then: every maximal run of worker steps from a reachable state ends with every submitted task
  done exactly once, nothing queued and nothing running.
-/
theorem C07_exactly_once (hN : 0 < N) {s s' : State N} {ls : List (Label N)} (h : Reachable s)
    (hr : Run s ls s') (hw : workerOnly ls) (hmax : Stuck s') :
    s'.submitted = s.submitted ∧ Drained s' ∧ s.submitted.Perm s'.done ∧
      (s.submitted.Nodup → s'.done.Nodup) := by
  have hsub : s'.submitted = s.submitted := by
    clear hmax h
    induction hr with
    | nil => rfl
    | cons hs _ ih =>
      rw [ih (fun l hl => hw l (by simp [hl]))]
      exact submitted_step hs (hw _ (by simp))
  have hreach := hr.reachable h
  have hd := C07_stuck_drained hN hreach hmax
  have := C07_drained_exactly_once hreach hd
  rw [hsub] at this
  exact ⟨hsub, hd, this⟩

/-- such a maximal run exists from every reachable state (finite version: there is a finite
    continuation of worker steps that drains everything) -/
theorem C07_can_drain (hN : 0 < N) {s : State N} (h : Reachable s) :
    ∃ (ls : List (Label N)) (s' : State N), Run s ls s' ∧ workerOnly ls ∧ Stuck s' ∧ Drained s' ∧
      s'.submitted = s.submitted ∧ s.submitted.Perm s'.done := by
  have key : ∀ (n : Nat) (s : State N), measure s ≤ n → Reachable s →
      ∃ (ls : List (Label N)) (s' : State N), Run s ls s' ∧ workerOnly ls ∧ Stuck s' := by
    intro n
    induction n with
    | zero =>
      intro s hm _
      refine ⟨[], s, Run.nil _, by simp [workerOnly], ?_⟩
      intro l s' hst
      cases hl : l.isSubmit with
      | true => rfl
      | false => have := measure_step hst hl; omega
    | succ n ih =>
      intro s hm hs
      by_cases hst : Stuck s
      · exact ⟨[], s, Run.nil _, by simp [workerOnly], hst⟩
      · simp only [Stuck, Classical.not_forall] at hst
        obtain ⟨l, s1, hstep, hl⟩ := hst
        have hl' : l.isSubmit = false := by simpa using hl
        have := measure_step hstep hl'
        obtain ⟨ls, s', hr, hwo, hstuck⟩ := ih s1 (by omega) (Reachable.step hs hstep)
        refine ⟨l :: ls, s', Run.cons hstep hr, ?_, hstuck⟩
        intro x hx; simp at hx; rcases hx with rfl | hx
        · exact hl'
        · exact hwo x hx
  obtain ⟨ls, s', hr, hwo, hst⟩ := key (measure s) s (Nat.le_refl _) h
  obtain ⟨h1, h2, h3, _⟩ := C07_exactly_once hN h hr hwo hst
  exact ⟨ls, s', hr, hwo, hst, h2, h1, h3⟩

/-! ## the tie: what the driver computes -/

/-- a trace accepted by the executable checker `runTrace` (driver op `pooltrace`) is a run of
    `Pool N`: its final state is `Reachable`, so every theorem above applies to it -/
theorem C07_trace_sound {es : List Event} {s : State N} (h : runTrace N es = some s) : Reachable s := by
  unfold runTrace at h
  split at h
  · next s0 h0 => simp at h; subst h; exact replay_reachable es _ _ 0 Reachable.init h0
  · simp at h

/-- the executable one-step function is exactly the step relation -/
theorem C07_step_exec (s s' : State N) (l : Label N) : step? s l = some s' ↔ Step s l s' :=
  step?_iff s s' l

/-! ## non-vacuity: the hypotheses above are satisfiable by concrete, non-trivial states -/

/-- state after the (real, recorded) 2-worker trace `s0,s1,a0,r0,b0.0`: worker 0 runs task 0,
    task 1 is queued, worker 1 is idle -/
def exBusy : State 2 := (((((init 2).doSubmit 0).doSubmit 1).doAcquire 0).doRecv 0 0 [1])

theorem C07_example_busy_trace : runTrace 2 [.submit 0, .submit 1, .acquire 0, .recv 0, .begin 0 0] = some exBusy := rfl

/-- a reachable state with distinct ids, a non-empty queue and a non-running worker -/
example : Reachable exBusy ∧ exBusy.submitted.Nodup ∧ exBusy.queue = [1] ∧ exBusy.w 0 = .running 0 ∧
    (exBusy.w 1).isRunning = false :=
  ⟨C07_trace_sound C07_example_busy_trace, by decide, by decide, by decide, by decide⟩

/-- state after `a0,s7,r0,f0,a0` on one worker: task 7 done, worker 0 back in `recv()` -/
def exIdle : State 1 := (((((init 1).doAcquire 0).doSubmit 7).doRecv 0 7 []).doFinish 0 7).doAcquire 0

theorem C07_example_idle_trace : runTrace 1 [.acquire 0, .submit 7, .recv 0, .finish 0, .acquire 0] = some exIdle := rfl

/-- a stuck, drained, reachable state exists -/
example : Reachable exIdle ∧ Stuck exIdle ∧ Drained exIdle ∧ exIdle.done = [7] := by
  have hrun : ∀ i : Fin 1, (exIdle.w i).isRunning = false := by decide
  refine ⟨C07_trace_sound C07_example_idle_trace, ?_, ⟨by decide, hrun⟩, by decide⟩
  intro l s' hst
  cases hst with
  | submit t => rfl
  | acquire i hl _ => exact absurd hl (by decide)
  | recv i t rest _ _ hq => exact absurd hq (by simp [exIdle, State.doAcquire, State.doFinish, State.doRecv])
  | finish i t hw => have := hrun i; simp [hw, WState.isRunning] at this
  | crash i t hw => have := hrun i; simp [hw, WState.isRunning] at this

end Rws.C07
