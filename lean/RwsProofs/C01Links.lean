/-
  C01 for trees WITH symbolic links.

  `RwsProofs/C01.lean` proves containment when no link is stored under the served root.  Here the
  tree is ARBITRARY: links to files, to directories, chains of links, relative targets with `..`,
  absolute targets.  The property's exception ("unless a symbolic link placed inside that directory
  by its owner points there") is made exact:

  * `C01_walk_result_canonical`, `C01_canonical_location_names_itself`
        what path resolution (`Fs.locate`) guarantees about its result: every proper prefix is a
        directory of the tree — never a link —, the result is a directory or a regular file, and its
        path string resolves to itself.  This is why reading `canonicalize(path)` (since the repair
        of F75) reads the file the operating system reaches through `path`.
  * `C01_reads_what_the_os_reaches`
        every location read for a request is the regular file the OPERATING SYSTEM reaches through
        one of the lookup paths the request forms (`lookupPaths`: the target's path under the served
        directory, with the index name, with `.html`, and the not-found page).  No hypothesis on the
        tree or on the working directory.  A target with a `..` segment forms no lookup path but the
        not-found page.
  * `C01_lookupPaths_documented`
        for a target path without `#` the lookup paths are the documented ones
        (`cwd ++ path`, `cwd ++ path ++ "/index.html"`, `cwd ++ path ++ ".html"`, `cwd ++ "/404.html"`);
        `C01_documented_paths_violated`: with a `#` in the path they are not (finding, see there).
  * `C01_outside_only_through_a_link`
        a read location that is NOT under the served root was reached by a resolution run (`Reaches`,
        the operating system's path walk as a relation) that crossed a symbolic link stored under the
        root; the link is an entry of the tree.
  * `C01_containment_links`
        if every link stored under the root resolves to a location under the root
        (`linksStayUnder`, decidable; generalises `noLinkUnder`), every location read is under the root.
  * `…_server`  the same on `Server.process` and `Server.processRequest`, for every transport script.

  Helper lemmas: RwsProofs/Lemmas/C01Links.lean.
-/
import RwsProofs.C01
import RwsProofs.Lemmas.C01Links

namespace Rws.C01Links
open Rws Rws.Fs Rws.Static Rws.Server Rws.C01

/-! ### Specification (readable without the model) -/

/-- `s` up to its first `d` -/
def cutAt (d : UInt8) (s : Bytes) : Bytes := s.takeWhile (· != d)

/-- the URL path of a request target: the text before the first `?`; without a `?`, the text before
    the first `#` -/
def urlPath (target : Bytes) : Bytes := if 63 ∈ target then cutAt 63 target else cutAt 35 target

/-- what is appended to the path of a directory: `index.html` after a trailing slash, else `/index.html` -/
def indexName (path : Bytes) : Bytes :=
  if path.getLast? = some 47 then [105, 110, 100, 101, 120, 46, 104, 116, 109, 108]
  else [47, 105, 110, 100, 101, 120, 46, 104, 116, 109, 108]

/-- `.html` -/
def dotHtml : Bytes := [46, 104, 116, 109, 108]

/-- `/404.html`: the not-found page, looked up in the served directory when nothing else matches -/
def notFoundPage : Bytes := [47, 52, 48, 52, 46, 104, 116, 109, 108]

/-- the paths, relative to the served directory, that the lookup forms from a request target: the
    path itself, the path with the index name, the path with `.html` — the code hands the two
    extended paths to its URL parser once more, which cuts them at a `#` — and the not-found page.
    A path with a `..` segment (`C01.HasDotDotSegment`, `C01_guard_spec`) forms none of the three. -/
def lookupTargets (target : Bytes) : List Bytes :=
  let path := urlPath target
  (if hasParentDirSegment path then []
   else [path, urlPath (path ++ indexName path), urlPath (path ++ dotHtml)]) ++ [notFoundPage]

/-- the absolute paths handed to the operating system -/
def lookupPaths (ctx : Ctx) (req : Request) : List Bytes := (lookupTargets req.uri).map (ctx.cwd ++ ·)

/-- the documented lookup: no second parse -/
def documentedPaths (ctx : Ctx) (req : Request) : List Bytes :=
  let path := urlPath req.uri
  [ctx.cwd ++ path, ctx.cwd ++ path ++ indexName path, ctx.cwd ++ path ++ dotHtml, ctx.cwd ++ notFoundPage]

/-- `loc` is the regular file the operating system reaches through one of the lookup paths of `req` -/
def ReadAsLookedUp (ctx : Ctx) (req : Request) (loc : Fs.Loc) : Prop :=
  ∃ p ∈ lookupPaths ctx req, Fs.locate ctx.tree p = some loc ∧ ∃ content, ctx.tree.get loc = some (.file content)

/-- a name that is looked up in a directory: not empty, not `.`, not `..` -/
def IsName (c : Fs.Comp) : Prop := c ≠ [] ∧ c ≠ [46] ∧ c ≠ [46, 46]

instance (c : Fs.Comp) : Decidable (IsName c) := by unfold IsName; infer_instance

/-- **Path resolution of the operating system, as a relation.**  `Reaches t cur comps loc used`: starting in
    the directory `cur`, the components `comps` lead to `loc`, and `used` lists the locations of the
    symbolic links that were followed (every link is followed, as `stat`/`open` do).  Empty components
    and `.` stay, `..` goes to the parent, a name enters a directory, ends at a regular file if it is the
    last component, or — a link — continues with the components of the link's target, from the link's
    directory (relative target) or from `/` (absolute target). -/
inductive Reaches (t : Tree) : Fs.Loc → List Fs.Comp → Fs.Loc → List Fs.Loc → Prop
  | done (cur : Fs.Loc) : Reaches t cur [] cur []
  | stay {cur c rest l used} : c = [] ∨ c = [46] → Reaches t cur rest l used → Reaches t cur (c :: rest) l used
  | up {cur rest l used} : Reaches t cur.dropLast rest l used → Reaches t cur ([46, 46] :: rest) l used
  | file {cur c content} : IsName c → t.get (cur ++ [c]) = some (.file content) →
      Reaches t cur [c] (cur ++ [c]) []
  | dir {cur c rest l used} : IsName c → t.get (cur ++ [c]) = some .dir →
      Reaches t (cur ++ [c]) rest l used → Reaches t cur (c :: rest) l used
  | link {cur c target rest l used} : IsName c → t.get (cur ++ [c]) = some (.link target) →
      Reaches t (if target.head? = some 47 then [] else cur) (Fs.comps target ++ rest) l used →
      Reaches t cur (c :: rest) l ((cur ++ [c]) :: used)

/-- `loc` was reached through one of the lookup paths of `req` by a run that followed a symbolic link
    stored (as an entry of the tree) under `root` -/
def ThroughLinkUnder (ctx : Ctx) (root : Fs.Loc) (req : Request) (loc : Fs.Loc) : Prop :=
  ∃ p ∈ lookupPaths ctx req, ∃ used, Reaches ctx.tree [] (Fs.comps p) loc used ∧
    ∃ k ∈ used, Under root k ∧ ∃ target, (k, Entry.link target) ∈ ctx.tree.entries

/-- every symbolic link stored under `root` resolves (from its directory, or from `/` when its target
    is absolute; following further links; within `fuel` steps) to a location under `root`.  A dangling or
    looping link under the root fails the predicate (it is harmless, but not covered). -/
def linksStayUnder (t : Tree) (root : Fs.Loc) (fuel : Nat) : Bool :=
  t.entries.all (fun p => match p.2 with
    | .link target =>
      !(root.isPrefixOf p.1) ||
        (match Fs.walk t true fuel (if target.head? = some 47 then [] else p.1.dropLast) (Fs.comps target) with
         | some m => root.isPrefixOf m
         | none => false)
    | _ => true)

/-! ### the specification functions are those of the lemma file -/

private theorem lookupTargets_eq (u : Bytes) : lookupTargets u = C01LinksL.lookupTargets u := rfl

private theorem mem_lookupPaths {ctx : Ctx} {req : Request} {q : Bytes} (h : q ∈ C01LinksL.lookupTargets req.uri) :
    ctx.cwd ++ q ∈ lookupPaths ctx req := by
  unfold lookupPaths
  rw [lookupTargets_eq]
  exact List.mem_map.mpr ⟨q, h, rfl⟩

private theorem asLookedUp {ctx : Ctx} {req : Request} {loc : Fs.Loc}
    (h : ∃ q ∈ C01LinksL.lookupTargets req.uri, C01LinksL.GoodTail q ∧ C01LinksL.ReadVia ctx q loc) :
    ReadAsLookedUp ctx req loc := by
  obtain ⟨q, hq, _, hl, hf⟩ := h
  exact ⟨_, mem_lookupPaths hq, hl, hf⟩

/-! ### 1. what path resolution guarantees; reads are what the OS reaches -/

/-- **The result of path resolution is canonical**: every proper non-empty prefix of the location is a
    directory of the tree (in particular not a symbolic link), its names are plain, and the location
    itself is `/`, a directory or a regular file — never a link. -/
theorem C01_walk_result_canonical (t : Tree) (p : Bytes) (loc : Fs.Loc) (h : Fs.locate t p = some loc) :
    (∀ c ∈ loc, plainName c = true) ∧
    (∀ q, q <+: loc → q ≠ [] → q ≠ loc → t.get q = some .dir) ∧
    (loc = [] ∨ t.get loc = some .dir ∨ ∃ content, t.get loc = some (.file content)) := by
  have hc := C01LinksL.locate_canon h
  refine ⟨hc.plain, ?_, ?_⟩
  · intro q hq hne hnl
    rcases hc with hc | ⟨init, c, content, rfl, hi, _, _⟩
    · exact hc.2 q hq hne
    · rcases List.prefix_concat_iff.mp hq with rfl | hq
      · exact absurd rfl hnl
      · exact hi.2 q hq hne
  · rcases hc with hc | ⟨init, c, content, rfl, _, _, hg⟩
    · by_cases he : loc = []
      · exact Or.inl he
      · exact Or.inr (Or.inl (hc.2 loc (List.prefix_refl _) he))
    · exact Or.inr (Or.inr ⟨content, hg⟩)

/-- **A canonical location names itself**: the path string of what resolution returned resolves to the
    same location (so `open(canonicalize(path))` opens what `path` leads to). -/
theorem C01_canonical_location_names_itself (t : Tree) (p : Bytes) (loc : Fs.Loc)
    (h : Fs.locate t p = some loc) : Fs.locate t (Fs.pathOf loc) = some loc :=
  C01LinksL.locate_pathOf (C01LinksL.locate_canon h)

/-- hence reading the canonical path reads exactly the location the OS reached -/
theorem C01_read_canonical_path (t : Tree) (p : Bytes) (loc0 loc : Fs.Loc) (content : Bytes)
    (h : Fs.locate t p = some loc0) (hr : Fs.readFile t (Fs.pathOf loc0) = some (loc, content)) : loc = loc0 :=
  (C01LinksL.readFile_pathOf h hr).1

/-- **Reads are what the operating system reaches.**  Any tree, any working directory, both chains:
    every location whose bytes enter the answer is the regular file that `Fs.locate` — the operating
    system following every link — reaches through one of the lookup paths of the request. -/
theorem C01_reads_what_the_os_reaches (ctx : Ctx) (req : Request) (huri : req.uri.head? = some 47)
    (legacy : Bool) (a : Controllers.Answer) (h : Controllers.execute ctx req legacy = .ok a) :
    ∀ loc ∈ a.reads, ReadAsLookedUp ctx req loc :=
  fun loc hl => asLookedUp (C01LinksL.execute_locates ctx req huri legacy a h loc hl)

/-- a target whose path has a `..` segment forms no lookup path except the not-found page -/
theorem C01_dotdot_looks_up_nothing (ctx : Ctx) (req : Request)
    (hd : hasParentDirSegment (urlPath req.uri) = true) : lookupPaths ctx req = [ctx.cwd ++ notFoundPage] := by
  simp [lookupPaths, lookupTargets, hd]

private theorem urlPath_clean (s : Bytes) (h63 : (63 : UInt8) ∉ s) (h35 : (35 : UInt8) ∉ s) : urlPath s = s := by
  have := C01LinksL.cutAt_not_mem 35 s h35
  simp only [urlPath, h63, ↓reduceIte]
  exact this

/-- for a target path without `#` (and without `..` segment) the lookup paths are the documented ones -/
theorem C01_lookupPaths_documented (ctx : Ctx) (req : Request) (h35 : (35 : UInt8) ∉ urlPath req.uri)
    (hd : hasParentDirSegment (urlPath req.uri) = false) : lookupPaths ctx req = documentedPaths ctx req := by
  have h63 : (63 : UInt8) ∉ urlPath req.uri := C01LinksL.urlPath_no63 req.uri
  have e1 : urlPath (urlPath req.uri ++ indexName (urlPath req.uri)) = urlPath req.uri ++ indexName (urlPath req.uri) := by
    apply urlPath_clean
    · unfold indexName; split <;> simp [h63]
    · unfold indexName; split <;> simp [h35]
  have e2 : urlPath (urlPath req.uri ++ dotHtml) = urlPath req.uri ++ dotHtml := by
    apply urlPath_clean
    · simp [h63, dotHtml]
    · simp [h35, dotHtml]
  simp [lookupPaths, lookupTargets, documentedPaths, hd, e1, e2]

/-! ### 2. outside the root only through a link stored under the root -/

private theorem reaches_of_walk (t : Tree) : ∀ (fuel : Nat) (cur : Fs.Loc) (rest : List Fs.Comp) (l : Fs.Loc),
    Fs.walk t true fuel cur rest = some l → ∃ used, Reaches t cur rest l used := by
  intro fuel
  induction fuel with
  | zero => intro cur rest l hw; simp [Fs.walk] at hw
  | succ n ih =>
    intro cur rest l hw
    cases rest with
    | nil => simp [Fs.walk] at hw; subst hw; exact ⟨[], .done cur⟩
    | cons c rest =>
      rw [Fs.walk] at hw
      by_cases h1 : (decide (c = []) || decide (c = [46])) = true
      · rw [if_pos h1] at hw
        obtain ⟨used, hr⟩ := ih cur rest l hw
        exact ⟨used, .stay (by simpa using h1) hr⟩
      · rw [if_neg h1] at hw
        by_cases h2 : c = [46, 46]
        · rw [if_pos h2] at hw
          obtain ⟨used, hr⟩ := ih _ rest l hw
          subst h2
          exact ⟨used, .up hr⟩
        · rw [if_neg h2] at hw
          simp only [Bool.or_eq_true, decide_eq_true_eq, not_or] at h1
          have hn : IsName c := ⟨h1.1, h1.2, h2⟩
          simp only at hw
          cases hg : t.get (cur ++ [c]) with
          | none => simp [hg] at hw
          | some e =>
            cases e with
            | file b =>
              simp only [hg] at hw
              split at hw
              · rename_i he
                cases hw
                have : rest = [] := by simpa using he
                subst this
                exact ⟨[], .file hn hg⟩
              · cases hw
            | dir =>
              simp only [hg] at hw
              obtain ⟨used, hr⟩ := ih _ rest l hw
              exact ⟨used, .dir hn hg hr⟩
            | link tgt =>
              simp only [hg, Bool.not_true, Bool.and_false, Bool.false_eq_true, if_false] at hw
              obtain ⟨used, hr⟩ := ih _ _ l hw
              exact ⟨_, .link hn hg hr⟩

private theorem dropLast_tail_mem {α : Type} {c : α} {rest : List α} {x : α} (hx : x ∈ rest.dropLast) :
    x ∈ (c :: rest).dropLast := by
  cases rest with
  | nil => simp at hx
  | cons r rs => simp only [List.dropLast_cons_cons]; exact List.mem_cons_of_mem _ hx

/-- a run that starts under `root` over components of which only the last may be `..` ends under
    `root`, or at the parent of `root`, or it followed a link stored under `root` -/
private theorem reaches_outside {t : Tree} {cur : Fs.Loc} {rest : List Fs.Comp} {l : Fs.Loc} {used : List Fs.Loc}
    (h : Reaches t cur rest l used) (root : Fs.Loc) (hcur : root <+: cur)
    (hrest : ∀ c ∈ rest.dropLast, c ≠ [46, 46]) :
    root <+: l ∨ l = root.dropLast ∨ ∃ k ∈ used, root <+: k := by
  induction h with
  | done cur => exact Or.inl hcur
  | stay _ _ ih => exact ih hcur (fun x hx => hrest x (dropLast_tail_mem hx))
  | @up cur rest l used h' _ =>
    have hnil : rest = [] := by
      cases rest with
      | nil => rfl
      | cons r rs => exact absurd rfl (hrest [46, 46] (by simp [List.dropLast]))
    subst hnil
    cases h'
    obtain ⟨s, rfl⟩ := hcur
    rcases List.eq_nil_or_concat s with rfl | ⟨s', z, rfl⟩
    · right; left; simp
    · left
      rw [List.concat_eq_append, ← List.append_assoc, List.dropLast_concat]
      exact List.prefix_append _ _
  | file _ _ => exact Or.inl (List.IsPrefix.trans hcur (List.prefix_append _ _))
  | dir _ _ _ ih =>
    exact ih (List.IsPrefix.trans hcur (List.prefix_append _ _)) (fun x hx => hrest x (dropLast_tail_mem hx))
  | link _ _ _ _ =>
    exact Or.inr (Or.inr ⟨_, List.mem_cons_self, List.IsPrefix.trans hcur (List.prefix_append _ _)⟩)

private theorem reaches_used {t : Tree} {cur : Fs.Loc} {rest : List Fs.Comp} {l : Fs.Loc} {used : List Fs.Loc}
    (h : Reaches t cur rest l used) : ∀ k ∈ used, ∃ target, t.get k = some (.link target) := by
  induction h with
  | done _ => simp
  | stay _ _ ih => exact ih
  | up _ ih => exact ih
  | file _ _ => simp
  | dir _ _ _ ih => exact ih
  | link _ hg _ ih =>
    intro k hk
    rcases List.mem_cons.mp hk with rfl | hk
    · exact ⟨_, hg⟩
    · exact ih k hk

/-- entering a chain of plain directories -/
private theorem reaches_down {t : Tree} {rest : List Fs.Comp} {l : Fs.Loc} {used : List Fs.Loc} :
    ∀ (cs : List Fs.Comp) (cur : Fs.Loc), (∀ c ∈ cs, plainName c = true) →
      (∀ k, k < cs.length → t.get (cur ++ cs.take (k + 1)) = some .dir) →
      Reaches t (cur ++ cs) rest l used → Reaches t cur (cs ++ rest) l used := by
  intro cs
  induction cs with
  | nil => intro cur _ _ h; simpa using h
  | cons c cs ih =>
    intro cur hpl hdir h
    have hp := C01LinksL.plainName_iff.mp (hpl c (by simp))
    have hd : t.get (cur ++ [c]) = some .dir := by simpa using hdir 0 (by simp)
    refine .dir ⟨hp.1, hp.2.1, hp.2.2.1⟩ hd (ih (cur ++ [c]) (fun x hx => hpl x (List.mem_cons_of_mem _ hx)) ?_ ?_)
    · intro k hk
      have := hdir (k + 1) (by simp; omega)
      simpa using this
    · simpa using h

private theorem through_link {ctx : Ctx} {root : Fs.Loc} (hcwd : CwdIs ctx root) {req : Request} {loc : Fs.Loc}
    (h : ∃ q ∈ C01LinksL.lookupTargets req.uri, C01LinksL.GoodTail q ∧ C01LinksL.ReadVia ctx q loc)
    (hout : ¬ Under root loc) : ThroughLinkUnder ctx root req loc := by
  obtain ⟨q, hq, hgt, hl, content, hf⟩ := h
  have hpl := Containment.rootOk_plain hcwd.2
  refine ⟨_, mem_lookupPaths hq, ?_⟩
  rw [hcwd.1] at hl ⊢
  obtain ⟨⟨m, hm⟩, hdd'⟩ := C01LinksL.walk_from_root hcwd.2 hgt hl
  rw [Containment.comps_cwd_append root hpl q (Or.inr hgt.1)]
  have hdirs : ∀ k, k < root.length → ctx.tree.get ([] ++ root.take (k + 1)) = some .dir := by
    intro k hk; simpa using Containment.rootOk_dir hcwd.2 (k + 1) (by omega)
  obtain ⟨used, hr⟩ := reaches_of_walk ctx.tree m root _ loc hm
  refine ⟨used, .stay (Or.inl rfl) (reaches_down root [] hpl hdirs (by simpa using hr)), ?_⟩
  rcases reaches_outside hr root (List.prefix_refl _) hdd' with hu | hu | ⟨k, hk, hku⟩
  · exact absurd hu hout
  · subst hu
    rw [Containment.rootOk_dropLast hcwd.2] at hf
    exact absurd hf (by simp)
  · obtain ⟨target, hg⟩ := reaches_used hr k hk
    exact ⟨k, hk, hku, target, C01LinksL.get_link_mem hg⟩

/-- **The exception, exactly.**  If the answer of either chain carries bytes of a location outside the
    served root, then the operating system's resolution of one of the request's lookup paths followed a
    symbolic link that is stored under the root (an entry of the tree, placed there by the owner). -/
theorem C01_outside_only_through_a_link (ctx : Ctx) (root : Fs.Loc) (hcwd : CwdIs ctx root)
    (req : Request) (huri : req.uri.head? = some 47) (legacy : Bool) (a : Controllers.Answer)
    (h : Controllers.execute ctx req legacy = .ok a) (loc : Fs.Loc) (hl : loc ∈ a.reads)
    (hout : ¬ Under root loc) : ThroughLinkUnder ctx root req loc :=
  through_link hcwd (C01LinksL.execute_locates ctx req huri legacy a h loc hl) hout

private theorem linksStayUnder_eq (t : Tree) (root : Fs.Loc) (F : Nat) :
    linksStayUnder t root F = C01LinksL.linksStayUnder t root F := rfl

private theorem under_of {ctx : Ctx} {root : Fs.Loc} (hcwd : CwdIs ctx root) {fuel : Nat}
    (hls : linksStayUnder ctx.tree root fuel = true) {req : Request} {loc : Fs.Loc}
    (h : ∃ q ∈ C01LinksL.lookupTargets req.uri, C01LinksL.GoodTail q ∧ C01LinksL.ReadVia ctx q loc) :
    Under root loc := by
  obtain ⟨q, _, hgt, hr⟩ := h
  exact C01LinksL.readVia_under hcwd.1 hcwd.2 (by rw [← linksStayUnder_eq]; exact hls) hgt hr

/-- **Containment for trees with links.**  If every symbolic link stored under the root resolves to a
    location under the root (links to files, to directories, chains of links, `..` in targets, absolute
    targets: whatever resolves under the root), every location read lies under the root. -/
theorem C01_containment_links (ctx : Ctx) (root : Fs.Loc) (hcwd : CwdIs ctx root) (fuel : Nat)
    (hls : linksStayUnder ctx.tree root fuel = true)
    (req : Request) (huri : req.uri.head? = some 47) (legacy : Bool) (a : Controllers.Answer)
    (h : Controllers.execute ctx req legacy = .ok a) : ∀ loc ∈ a.reads, Under root loc :=
  fun loc hl => under_of hcwd hls (C01LinksL.execute_locates ctx req huri legacy a h loc hl)

/-- the hypothesis generalises "no link under the root" of `C01_containment` -/
theorem C01_noLink_is_linksStayUnder (t : Tree) (root : Fs.Loc) (h : Fs.noLinkUnder t root = true) (fuel : Nat) :
    linksStayUnder t root fuel = true := by
  rw [linksStayUnder_eq]; exact C01LinksL.noLink_linksStayUnder h fuel

/-! ### 3. the two server entry points -/

/-- `Server::process` (any application handler) and the legacy `Server::process_request`, whatever
    arrives and whatever the transport does: every location read is the regular file the operating
    system reaches through a lookup path of the request that was parsed from the buffer. -/
theorem C01_reads_what_the_os_reaches_server (ctx : Ctx) (alloc : Nat) (read : ReadScript)
    (script : List Transport.WCall) (flushOk : Bool) :
    (∀ app o, Server.process ctx app alloc read script flushOk = .ok o → ∀ loc ∈ o.reads,
      ∃ d req, read = .data d ∧ Req.parse (fillBuffer alloc d) = .ok req ∧ ReadAsLookedUp ctx req loc) ∧
    (∀ raw wire reads, Server.processRequest ctx alloc read script flushOk = .ok (raw, wire, reads) →
      ∀ loc ∈ reads,
      ∃ d req, read = .data d ∧ Req.parse (fillBuffer alloc d) = .ok req ∧ ReadAsLookedUp ctx req loc) := by
  constructor
  · intro app o h loc hl
    rcases C01LinksL.server_process_locates ctx app alloc read script flushOk o h with he | ⟨d, req, hr, hp, _, hall⟩
    · rw [he] at hl; simp at hl
    · exact ⟨d, req, hr, hp, asLookedUp (hall loc hl)⟩
  · intro raw wire reads h loc hl
    rcases C01LinksL.server_processRequest_locates ctx alloc read script flushOk raw wire reads h with
      he | ⟨d, req, hr, hp, _, hall⟩
    · rw [he] at hl; simp at hl
    · exact ⟨d, req, hr, hp, asLookedUp (hall loc hl)⟩

/-- the exception on both entry points -/
theorem C01_outside_only_through_a_link_server (ctx : Ctx) (root : Fs.Loc) (hcwd : CwdIs ctx root)
    (alloc : Nat) (read : ReadScript) (script : List Transport.WCall) (flushOk : Bool) (loc : Fs.Loc)
    (hout : ¬ Under root loc) :
    (∀ app o, Server.process ctx app alloc read script flushOk = .ok o → loc ∈ o.reads →
      ∃ d req, read = .data d ∧ Req.parse (fillBuffer alloc d) = .ok req ∧ ThroughLinkUnder ctx root req loc) ∧
    (∀ raw wire reads, Server.processRequest ctx alloc read script flushOk = .ok (raw, wire, reads) →
      loc ∈ reads →
      ∃ d req, read = .data d ∧ Req.parse (fillBuffer alloc d) = .ok req ∧ ThroughLinkUnder ctx root req loc) := by
  constructor
  · intro app o h hl
    rcases C01LinksL.server_process_locates ctx app alloc read script flushOk o h with he | ⟨d, req, hr, hp, _, hall⟩
    · rw [he] at hl; simp at hl
    · exact ⟨d, req, hr, hp, through_link hcwd (hall loc hl) hout⟩
  · intro raw wire reads h hl
    rcases C01LinksL.server_processRequest_locates ctx alloc read script flushOk raw wire reads h with
      he | ⟨d, req, hr, hp, _, hall⟩
    · rw [he] at hl; simp at hl
    · exact ⟨d, req, hr, hp, through_link hcwd (hall loc hl) hout⟩

/-- containment for trees whose links stay under the root, on both entry points -/
theorem C01_containment_links_server (ctx : Ctx) (root : Fs.Loc) (hcwd : CwdIs ctx root) (fuel : Nat)
    (hls : linksStayUnder ctx.tree root fuel = true)
    (alloc : Nat) (read : ReadScript) (script : List Transport.WCall) (flushOk : Bool) :
    (∀ app o, Server.process ctx app alloc read script flushOk = .ok o →
      ∀ loc ∈ o.reads, Under root loc) ∧
    (∀ raw wire reads, Server.processRequest ctx alloc read script flushOk = .ok (raw, wire, reads) →
      ∀ loc ∈ reads, Under root loc) := by
  constructor
  · intro app o h loc hl
    rcases C01LinksL.server_process_locates ctx app alloc read script flushOk o h with he | ⟨d, req, _, _, _, hall⟩
    · rw [he] at hl; simp at hl
    · exact under_of hcwd hls (hall loc hl)
  · intro raw wire reads h loc hl
    rcases C01LinksL.server_processRequest_locates ctx alloc read script flushOk raw wire reads h with
      he | ⟨d, req, _, _, _, hall⟩
    · rw [he] at hl; simp at hl
    · exact under_of hcwd hls (hall loc hl)

/-! ### 4. Non-vacuity: the tree of F75, a link that does point outside, and a `#` in the path -/

namespace LinkEx
open Rws.C01.Ex (srv www sub secretTxt get readsOfProcess)

def dlDeep : Bytes := [100, 108, 95, 100, 101, 101, 112]          -- dl_deep
def deep : Bytes := [100, 101, 101, 112]                           -- deep
def in2Lnk : Bytes := [105, 110, 50, 46, 108, 110, 107]            -- in2.lnk
def innerTxt : Bytes := [105, 110, 110, 101, 114, 46, 116, 120, 116]  -- inner.txt
def outLnk : Bytes := [111, 117, 116, 46, 108, 110, 107]           -- out.lnk

def root : Fs.Loc := [srv, www]

/-- the tree of F75: `/srv/www` is served; `dl_deep -> sub/deep` (a directory link),
    `sub/deep/in2.lnk -> ../../inner.txt` (a relative file link), `inner.txt` in the root and a namesake
    `/srv/inner.txt` in the root's parent, to which no link points; a secret next to it -/
def tree : Tree := ⟨[
  ([srv, www, dlDeep], .link (sub ++ [47] ++ deep)),
  ([srv, www, sub, deep, in2Lnk], .link ([46, 46, 47, 46, 46, 47] ++ innerTxt)),
  ([srv, www, innerTxt], .file [73, 78]),
  ([srv, innerTxt], .file [79, 85, 84]),
  ([srv, secretTxt], .file [83, 49])]⟩
def ctx : Ctx := ⟨tree, [47, 115, 114, 118, 47, 119, 119, 119], fun _ => none, [49], [50], [101]⟩

/-- `GET <target> HTTP/1.1` as a parsed request -/
def getReq (target : Bytes) : Request := ⟨methodGet, target, Controllers.http11, [], []⟩

/-- `/dl_deep/in2.lnk` -/
def f75Target : Bytes := [47] ++ dlDeep ++ [47] ++ in2Lnk

set_option maxRecDepth 100000 in
/-- the hypotheses of `C01_containment_links` hold for the tree of F75 although it stores links under the
    root (`noLinkUnder` fails: `C01_containment` says nothing) -/
example : CwdIs ctx root ∧ linksStayUnder ctx.tree root 64 = true ∧ Fs.noLinkUnder ctx.tree root = false := by
  decide +kernel

set_option maxRecDepth 100000 in
/-- `GET /dl_deep/in2.lnk` reads `inner.txt` of the ROOT, the file the operating system reaches — not the
    namesake in the parent that the textual resolution served before the repair of F75 -/
example : readsOfProcess ctx f75Target = some [[srv, www, innerTxt]] := by
  decide +kernel

set_option maxRecDepth 100000 in
/-- the lookup paths of this request, and what the operating system reaches through the first -/
example : lookupPaths ctx (getReq f75Target) = documentedPaths ctx (getReq f75Target) ∧
    Fs.locate ctx.tree (ctx.cwd ++ f75Target) = some [srv, www, innerTxt] := by
  decide +kernel

/-- more links that stay under the root: an absolute target (`abs.lnk -> /srv/www/sub/../inner.txt`), a chain
    (`c1 -> c2`, `c2 -> dl_deep/in2.lnk`), a link to the root itself (`self -> .`) -/
def treeRich : Tree := ⟨[
  ([srv, www, [97, 98, 115, 46, 108, 110, 107]], .link ([47, 115, 114, 118, 47, 119, 119, 119, 47] ++ sub ++ [47, 46, 46, 47] ++ innerTxt)),
  ([srv, www, [99, 49]], .link [99, 50]),
  ([srv, www, [99, 50]], .link (dlDeep ++ [47] ++ in2Lnk)),
  ([srv, www, [115, 101, 108, 102]], .link [46])] ++ tree.entries⟩
def ctxRich : Ctx := { ctx with tree := treeRich }

set_option maxRecDepth 100000 in
/-- `GET /abs.lnk`, `GET /c1` and `GET /self/self/c1` all read `inner.txt` of the root -/
example : CwdIs ctxRich root ∧ linksStayUnder ctxRich.tree root 64 = true ∧
    readsOfProcess ctxRich [47, 97, 98, 115, 46, 108, 110, 107] = some [[srv, www, innerTxt]] ∧
    readsOfProcess ctxRich [47, 99, 49] = some [[srv, www, innerTxt]] ∧
    readsOfProcess ctxRich [47, 115, 101, 108, 102, 47, 115, 101, 108, 102, 47, 99, 49] = some [[srv, www, innerTxt]] := by
  decide +kernel

/-- the same tree with `out.lnk -> ../secret.txt` placed in the root by its owner -/
def treeOut : Tree := ⟨([srv, www, outLnk], .link ([46, 46, 47] ++ secretTxt)) :: tree.entries⟩
def ctxOut : Ctx := { ctx with tree := treeOut }

set_option maxRecDepth 100000 in
/-- the property's exception is real: `GET /out.lnk` serves the file outside the root that the owner's link
    points to, and `linksStayUnder` (necessarily) fails -/
example : CwdIs ctxOut root ∧ linksStayUnder ctxOut.tree root 64 = false ∧
    readsOfProcess ctxOut ([47] ++ outLnk) = some [[srv, secretTxt]] := by
  decide +kernel

/-- the run that `C01_outside_only_through_a_link` speaks of, for `GET /out.lnk`: `/srv/www/out.lnk` reaches
    `/srv/secret.txt` and the one link followed, `/srv/www/out.lnk`, is stored under the root -/
example : Reaches treeOut [] (Fs.comps (ctxOut.cwd ++ [47] ++ outLnk)) [srv, secretTxt] [[srv, www, outLnk]] := by
  have e : Fs.comps (ctxOut.cwd ++ [47] ++ outLnk) = [[], srv, www, outLnk] := by decide
  rw [e]
  refine .stay (Or.inl rfl) (.dir (by decide) (by decide) (.dir (by decide) (by decide)
    (.link (target := [46, 46, 47] ++ secretTxt) (by decide) (by decide) ?_)))
  have e2 : Fs.comps ([46, 46, 47] ++ secretTxt) ++ [] = [[46, 46], secretTxt] := by decide
  have e3 : (if ([46, 46, 47] ++ secretTxt).head? = some 47 then [] else ([] : Fs.Loc) ++ [srv] ++ [www]) = [srv, www] := by
    decide
  rw [e2, e3]
  exact .up (.file (cur := [srv]) (content := [83, 49]) (by decide) (by decide))

/-- a `#` in the path: the root holds the files `d` and `d#x.html` -/
def treeHash : Tree := ⟨[
  ([srv, www, [100]], .file [68]),
  ([srv, www, [100, 35, 120, 46, 104, 116, 109, 108]], .file [88])]⟩
def ctxHash : Ctx := { ctx with tree := treeHash }
/-- `/d#x?y`: the path is `/d#x` (the `?` is looked for first) -/
def hashTarget : Bytes := [47, 100, 35, 120, 63, 121]

def readsOfExecute (c : Ctx) (req : Request) : Option (List Fs.Loc) :=
  match Controllers.execute c req false with
  | .ok a => some a.reads
  | _ => none

set_option maxRecDepth 100000 in
example : urlPath hashTarget = [47, 100, 35, 120] ∧
    readsOfExecute ctxHash (getReq hashTarget) = some [[srv, www, [100]]] ∧
    lookupPaths ctxHash (getReq hashTarget)
      = [ctxHash.cwd ++ [47, 100, 35, 120], ctxHash.cwd ++ [47, 100], ctxHash.cwd ++ [47, 100], ctxHash.cwd ++ notFoundPage] ∧
    (documentedPaths ctxHash (getReq hashTarget)).map (Fs.locate ctxHash.tree)
      = [none, none, some [srv, www, [100, 35, 120, 46, 104, 116, 109, 108]], none] := by
  decide +kernel

end LinkEx

set_option maxRecDepth 100000 in
/-- **Finding (lookup, not containment).**  With a `#` in the target's path the reads are NOT what the
    documented lookup reaches: for `GET /d#x?y` (path `/d#x`; files `d` and `d#x.html` in the root) the
    `.html` fallback finds `d#x.html`, hands `/d#x.html` to `get_content_range_list`, which parses it as a URL
    once more, cuts it at the `#` and serves the file `d`.  Hence `lookupTargets` re-applies `urlPath`;
    `C01_lookupPaths_documented` needs its hypothesis `35 ∉ urlPath req.uri`.  The file served is still
    one the operating system reaches through a path below the root (related: F47). -/
theorem C01_documented_paths_violated :
    ∃ (ctx : Ctx) (req : Request) (a : Controllers.Answer), req.uri.head? = some 47 ∧
      Controllers.execute ctx req false = .ok a ∧
      ∃ loc ∈ a.reads, ∀ p ∈ documentedPaths ctx req, Fs.locate ctx.tree p ≠ some loc := by
  have hr : LinkEx.readsOfExecute LinkEx.ctxHash (LinkEx.getReq LinkEx.hashTarget) = some [[C01.Ex.srv, C01.Ex.www, [100]]] := by
    decide +kernel
  unfold LinkEx.readsOfExecute at hr
  split at hr
  · rename_i a ha
    simp only [Option.some.injEq] at hr
    refine ⟨LinkEx.ctxHash, LinkEx.getReq LinkEx.hashTarget, a, rfl, ha, [C01.Ex.srv, C01.Ex.www, [100]], by rw [hr]; simp, ?_⟩
    decide +kernel
  · simp at hr

end Rws.C01Links
