/-
  C19 — JSON serialisation round-trips and is valid JSON.  Property theorems about the model
  `Rws.Json` (the definitions the driver executes).  Helper lemmas: RwsProofs/Lemmas/Decimal.lean,
  RwsProofs/Lemmas/JsonSplit.lean, RwsProofs/Lemmas/JsonObject.lean, RwsProofs/Lemmas/JsonNested.lean,
  RwsProofs/Lemmas/JsonUtf8.lean.

  Stage 0 (byte level): `C19_read_chars` — the single-character read of the scanners (`read_utf8_char` +
    `String::from_utf8`), repeated over the UTF-8 encoding of ANY text, yields exactly the characters of that
    text (this is what makes the character-level model of the byte cursors exact; fix F24d).
  Stage 1 (typed arrays), for ALL lists, any length:
    C19_list_int_<w>   parse_as_list_<w>(to_json_from_list_<w>(xs)) = Ok(xs)   for xs inside the width
    C19_list_bool, C19_list_null
    C19_list_string    under `strOk`: no `"`, no `\` in any string — every other character of any script,
                       brackets included (exactly the property's quantifier; see the witnesses below)
    C19_list_object    the splitter hands back the elements of an array of nested values (`nestedOk`)
  Floats are opaque tokens (see Rws/Json.lean): no theorem speaks about them, the correspondence run does.
  Stages 2–4 (objects): C19_object_partial (hypothesis `wfObj`: decidable), C19_object_written (the same for everything
    the writers produce, to any depth: C19_written_wf shows the decidable hypothesis holds for it), C19_object_absent, C19_object_empty.
-/
import Rws.Json
import RwsProofs.Lemmas.Decimal
import RwsProofs.Lemmas.JsonSplit
import RwsProofs.Lemmas.JsonObject
import RwsProofs.Lemmas.JsonNested
import RwsProofs.Lemmas.JsonUtf8
import RwsProofs.C20Json
namespace Rws.C19
open Rws Rws.Json

/-! ## Stage 0: the byte cursor -/

/-- the scanners' single-character read (`json::read_utf8_char` + `String::from_utf8`), repeated to the end of the
    input, turns the UTF-8 encoding of any text back into its characters: reading character by character loses nothing,
    whatever the script (F24d) -/
theorem C19_read_chars (text : Text) : readChars (text.flatMap String.utf8EncodeChar) = some text :=
  readCharsFuel_encode text _ (Nat.le_refl _)

/-- one read: the character at the cursor, the cursor moved by exactly its bytes -/
theorem C19_read_char (c : Char) (rest : List UInt8) : readUtf8Char (String.utf8EncodeChar c ++ rest) = some (c, rest) :=
  readUtf8Char_encode c rest

example : readChars [0x61, 0xC3, 0xA9, 0xE2, 0x82, 0xAC, 0xF0, 0x9F, 0x98, 0x80] = some "aé€😀".toList := by decide +kernel
-- bytes that are not UTF-8 are an error, never a character: truncated sequences (also a lead byte at the very end), a lone
-- continuation byte, overlong forms, a surrogate, a scalar above U+10FFFF, the bytes F8..FF
example : readChars [0xC3] = none ∧ readChars [0x61, 0xE2, 0x82] = none ∧ readChars [0xF0, 0x9F, 0x98] = none ∧ readChars [0x80] = none ∧
    readChars [0xC0, 0xAF] = none ∧ readChars [0xE0, 0x80, 0xAF] = none ∧ readChars [0xED, 0xA0, 0x80] = none ∧
    readChars [0xF4, 0x90, 0x80, 0x80] = none ∧ readChars [0xF8, 0x88, 0x80, 0x80, 0x80] = none ∧ readChars [0xC3, 0x28] = none := by
  decide +kernel

/-! ## Stage 1: typed arrays -/

/-- integers of a list fit the element type (signed types admit negatives) -/
def intsOk (ty : IntTy) (xs : List Int) : Bool := xs.all (fun n => ty.inRange n && (decide (0 ≤ n) || ty.signed))

theorem C19_list_int (ty : IntTy) (xs : List Int) (h : intsOk ty xs = true) :
    parseListInt ty (listIntToJson xs) = .ok xs := by
  unfold parseListInt listIntToJson
  apply readList_listToJson
  · intro x _; exact goodTok_int x
  · intro x hx
    simp only [intsOk, List.all_eq_true, Bool.and_eq_true, Bool.or_eq_true, decide_eq_true_eq] at h
    have := h x hx
    simp only [itemInt]
    rw [IntTy.parse_intToDec ty x this.1 (by intro hneg; rcases this.2 with h0 | h0; omega; exact h0)]
    rfl

theorem C19_list_int_i128 (xs : List Int) (h : intsOk tyI128 xs = true) : parseListInt tyI128 (listIntToJson xs) = .ok xs := C19_list_int _ xs h
theorem C19_list_int_i64 (xs : List Int) (h : intsOk tyI64 xs = true) : parseListInt tyI64 (listIntToJson xs) = .ok xs := C19_list_int _ xs h
theorem C19_list_int_i32 (xs : List Int) (h : intsOk tyI32 xs = true) : parseListInt tyI32 (listIntToJson xs) = .ok xs := C19_list_int _ xs h
theorem C19_list_int_i16 (xs : List Int) (h : intsOk tyI16 xs = true) : parseListInt tyI16 (listIntToJson xs) = .ok xs := C19_list_int _ xs h
theorem C19_list_int_i8 (xs : List Int) (h : intsOk tyI8 xs = true) : parseListInt tyI8 (listIntToJson xs) = .ok xs := C19_list_int _ xs h
theorem C19_list_int_u128 (xs : List Int) (h : intsOk tyU128 xs = true) : parseListInt tyU128 (listIntToJson xs) = .ok xs := C19_list_int _ xs h
theorem C19_list_int_u64 (xs : List Int) (h : intsOk tyU64 xs = true) : parseListInt tyU64 (listIntToJson xs) = .ok xs := C19_list_int _ xs h
theorem C19_list_int_u32 (xs : List Int) (h : intsOk tyU32 xs = true) : parseListInt tyU32 (listIntToJson xs) = .ok xs := C19_list_int _ xs h
theorem C19_list_int_u16 (xs : List Int) (h : intsOk tyU16 xs = true) : parseListInt tyU16 (listIntToJson xs) = .ok xs := C19_list_int _ xs h
theorem C19_list_int_u8 (xs : List Int) (h : intsOk tyU8 xs = true) : parseListInt tyU8 (listIntToJson xs) = .ok xs := C19_list_int _ xs h

-- the hypothesis is satisfiable by a non-trivial list, extremes and negatives included
example : intsOk tyI128 [-170141183460469231731687303715884105728, 170141183460469231731687303715884105727, -1, 0] = true := by decide
example : intsOk tyU8 [0, 255, 7] = true := by decide
-- the regression case of the sign fix (F24): a negative last element
example : parseListInt tyI8 "[1,-2]".toList = .ok [1, -2] := by decide +kernel

theorem C19_list_bool (xs : List Bool) : parseListBool (listBoolToJson xs) = .ok xs := by
  unfold parseListBool listBoolToJson
  apply readList_listToJson
  · intro x _; cases x
    · exact goodTok_false
    · exact goodTok_true
  · intro x _; cases x <;> rfl

theorem C19_list_null (xs : List Unit) : parseListNull (listNullToJson xs) = .ok xs := by
  unfold parseListNull listNullToJson
  apply readList_listToJson (g := fun _ => ['n','u','l','l'])
  · intro x _; exact goodTok_null
  · intro x _; rfl

/-- strings the code round-trips: no character is `"` or `\` (`strCharOk c = (c != '"' && c != '\\')`); any other
    character — non-ASCII of every encoded length, brackets, control characters — is carried -/
def strOk (s : Text) : Bool := s.all strCharOk

theorem C19_list_string (xs : List Text) (h : xs.all strOk = true) :
    parseListString (listStringToJson xs) = .ok xs := by
  unfold parseListString listStringToJson
  simp only [List.all_eq_true, strOk] at h
  apply readList_listToJson
  · intro x hx; exact goodTok_string x (h x hx)
  · intro x _; exact itemString_quoted x

example : [" a,b] ".toList, [], "{x: 1}".toList, "é€😀".toList, "]}[{".toList, "\t".toList].all strOk = true := by decide
/-- F24d (fixed): a non-ASCII character (2-, 3- and 4-byte encodings; first, middle, last; right before the closing quote) -/
example : parseListString (listStringToJson ["é".toList]) = .ok ["é".toList] := by decide +kernel
example : parseListString (listStringToJson ["é€😀".toList, "aßb".toList, "x漢".toList, "\u00a0".toList]) =
    .ok ["é€😀".toList, "aßb".toList, "x漢".toList, "\u00a0".toList] := by decide +kernel
/-- F24f (fixed), array side: brackets inside the strings of an array of strings / of an array nested in an array -/
example : parseListString (listStringToJson ["]".toList, "[".toList, "}{".toList]) = .ok ["]".toList, "[".toList, "}{".toList] := by decide +kernel
example : splitIntoVectorOfStrings "[[\"]\"],{\"a\": \"}\"}]".toList = .ok ["[\"]\"]".toList, "{\"a\": \"}\"}".toList] := by decide +kernel
-- outside the hypothesis the statement is false (kernel-checked witnesses; replayed on the real code):
/-- a backslash ends the string one character later -/
theorem C19_list_string_backslash_violated : parseListString (listStringToJson ["a\\b".toList]) = .err := by decide +kernel
/-- a quote ends the string -/
theorem C19_list_string_quote_violated : parseListString (listStringToJson ["a\"b".toList]) ≠ .ok ["a\"b".toList] := by decide +kernel

/-- arrays of nested values (`JSONArrayOfObjects::to_json` lays the elements out with `,\r\n`; `from_json` splits and then
    parses every element with the object scanner, `C19_object_partial`): the splitter hands back exactly the elements,
    whatever their strings hold (`nestedOk`: the counters, blind to string literals, meet at the last character) -/
theorem C19_list_object (objs : List Text) (h : objs.all (nestedOk '{' '}') = true) :
    splitIntoVectorOfStrings (listObjectToJson objs) = .ok objs := by
  simp only [List.all_eq_true] at h
  exact split_listObjectToJson objs (fun t ht => goodTok_obj t (h t ht))

/-- the same for the `,` layout of the typed writers, elements nested arrays or nested objects -/
theorem C19_list_nested (items : List Text) (h : items.all (fun t => nestedOk '{' '}' t || nestedOk '[' ']' t) = true) :
    splitIntoVectorOfStrings (listToJson items) = .ok items := by
  simp only [List.all_eq_true, Bool.or_eq_true] at h
  exact split_listToJson items (fun t ht => (h t ht).elim (goodTok_obj t) (goodTok_arr t))

example : [toJsonString [(⟨['b'], tString⟩, { string := some "}{ü]".toList })], toJsonString []].all (nestedOk '{' '}') = true := by decide +kernel

/-! ## Stages 2–4: the object writer and the object scanner

  Full statement (DESIGN.md 6/C19):  `wfObj o → parseAsProperties (toJsonString o) = ok o` for objects with
  string, boolean, integer, FLOAT, nested-object and array properties, each present or absent.
  Proved below as `C19_object_partial` for every property kind except floats (opaque tokens: the
  statement for them needs the grammar lemma `isRustFloat (floatText tok)` for the tokens Rust's Display
  prints, which is not done), with absent properties handled by `C19_object_absent`, the empty object by
  `C19_object_empty`.  Nested values are any text that satisfies `nestedOk` (the bracket counters, which do not count
  inside string literals, meet exactly at the last character).  `C19_written_nested_obj / _arr` (below) prove that this
  holds for EVERY text built the way `to_json_string` and the list writers build theirs from strings without `"` and `\`
  (any other character, brackets and non-ASCII included), to any depth: since the fixes F24d and F24f the hypothesis
  excludes nothing the writers can produce from the property's value space. -/

/-- a property as a struct's `get_property` produces it -/
inductive Field where
  | str (s : Text) | bool (b : Bool) | int (n : Int) | obj (t : Text) | arr (t : Text)

def Field.type : Field → Text
  | .str _ => tString | .bool _ => tBool | .int _ => tInteger | .obj _ => tObject | .arr _ => tArray
def Field.value : Field → JSONValue
  | .str s => { string := some s } | .bool b => { bool := some b } | .int n => { i128 := some n }
  | .obj t => { object := some t } | .arr t => { array := some t }
/-- hypotheses, all decidable: strings without quote/backslash, integers in i128, nested texts bracket-balanced outside their string literals -/
def Field.wf : Field → Bool
  | .str s => strOk s | .bool _ => true | .int n => tyI128.inRange n
  | .obj t => nestedOk '{' '}' t | .arr t => nestedOk '[' ']' t
/-- the text the writer emits for the value -/
def Field.text : Field → Text
  | .str s => '"' :: (s ++ ['"']) | .bool b => boolText b | .int n => intToDec n | .obj t => t | .arr t => t

abbrev Obj := List (Text × Field)
def toProps (o : Obj) : Props := o.map (fun nf => (⟨nf.1, nf.2.type⟩, nf.2.value))
/-- names: no `"` and no `:` (the key is cut at the first colon of the pair) -/
def wfObj (o : Obj) : Bool := o.all (fun nf => nameOk nf.1 && nf.2.wf)

private theorem propText_field (name : Text) (f : Field) :
    propText ⟨name, f.type⟩ f.value = some (propLine name f.text) := by
  cases f <;> rfl

private theorem field_scan (f : Field) (h : f.wf = true) : ValScan f.text := by
  cases f with
  | str s => exact valScan_string s (by simpa [Field.wf, strOk] using h)
  | bool b => cases b; exact valScan_false; exact valScan_true
  | int n => exact valScan_int n
  | obj t => exact valScan_obj t h
  | arr t => exact valScan_arr t h

private theorem field_ends (f : Field) (h : f.wf = true) : EndsOk f.text := by
  cases f with
  | str s => exact endsOk_string s
  | bool b => cases b <;> exact ⟨_, _, rfl, by decide, rfl, by decide⟩
  | int n => exact endsOk_int n
  | obj t => obtain ⟨h1, h2⟩ := nested_ends _ _ t h; exact ⟨_, _, h1, by decide, h2, by decide⟩
  | arr t => obtain ⟨h1, h2⟩ := nested_ends _ _ t h; exact ⟨_, _, h1, by decide, h2, by decide⟩

private theorem field_classify (name : Text) (f : Field) (h : f.wf = true) :
    classify name f.text = .ok (⟨name, f.type⟩, f.value) := by
  cases f with
  | str s => exact classify_string name s (by simpa [Field.wf, strOk] using h)
  | bool b => cases b <;> rfl
  | int n => exact classify_int name n h
  | obj t => exact classify_obj name t h
  | arr t => exact classify_arr name t h

private theorem field_finish (acc : Props) (name : Text) (f : Field) (hn : nameOk name = true) (h : f.wf = true) :
    finishPair acc (kvpOf name f.text).reverse = .ok ((⟨name, f.type⟩, f.value) :: acc) := by
  unfold finishPair
  rw [List.reverse_reverse, parse_kvpOf name f.text hn (field_ends f h), field_classify name f h]

private theorem scan_fields (o : Obj) (hne : o ≠ []) (h : wfObj o = true) (acc : Props) :
    objRun (.preKey []) acc ('\r' :: '\n' :: (joinItems [',','\r','\n'] (o.map (fun nf => propLine nf.1 nf.2.text)) ++ ['\r','\n','}']))
      = .ok (acc.reverse ++ toProps o) := by
  induction o generalizing acc with
  | nil => exact absurd rfl hne
  | cons x xs ih =>
    simp only [wfObj, List.all_cons, Bool.and_eq_true] at h
    obtain ⟨⟨hn, hf⟩, hxs⟩ := h
    cases xs with
    | nil =>
      simp only [List.map_cons, List.map_nil, joinItems]
      rw [objRun_pair_last x.1 x.2.text hn (field_scan x.2 hf) acc _ (field_finish acc x.1 x.2 hn hf)]
      simp [toProps]
    | cons y ys =>
      have e : joinItems [',','\r','\n'] ((x :: y :: ys).map (fun nf => propLine nf.1 nf.2.text)) ++ ['\r','\n','}'] =
          propLine x.1 x.2.text ++ ',' :: ('\r' :: '\n' :: (joinItems [',','\r','\n'] ((y :: ys).map (fun nf => propLine nf.1 nf.2.text)) ++ ['\r','\n','}'])) := by
        simp [joinItems]
      rw [e, objRun_pair_more x.1 x.2.text hn (field_scan x.2 hf) acc _ _ (by simp) (field_finish acc x.1 x.2 hn hf)]
      rw [ih (by simp) (by simpa [wfObj] using hxs)]
      simp [toProps]

theorem C19_object_partial (o : Obj) (h : wfObj o = true) :
    parseAsProperties (toJsonString (toProps o)) = .ok (toProps o) := by
  have hl : (toProps o).filterMap (fun pv => propText pv.1 pv.2) = o.map (fun nf => propLine nf.1 nf.2.text) := by
    unfold toProps
    rw [List.filterMap_map]
    induction o with
    | nil => rfl
    | cons x xs ih =>
      simp only [List.filterMap_cons, Function.comp, propText_field, List.map_cons]
      rw [ih (by simp only [wfObj, List.all_cons, Bool.and_eq_true] at h; exact h.2)]
  unfold parseAsProperties toJsonString
  rw [hl]
  cases o with
  | nil => decide +kernel
  | cons x xs =>
    have h0 : ∀ t : Text, objRun .preBrace [] (['{','\r','\n'] ++ t) = objRun (.preKey []) [] ('\r' :: '\n' :: t) := by
      intro t; simp only [List.cons_append, List.nil_append, objRun]; rfl
    rw [List.append_assoc, h0, scan_fields (x :: xs) (by simp) h []]
    simp

/-! ### nested values the writers produce satisfy the hypothesis, to any depth -/

/-- a field whose value the writers produce from the property's value space (to any depth): a string without `"` and `\`,
    a boolean, an i128, the `to_json_string` text of such fields under names without `"` and `\`, a list of such values
    in either list layout (`WVal`, `objText`: Lemmas/JsonNested.lean) -/
def Field.written : Field → Prop
  | .str s => strOk s = true
  | .bool _ => True
  | .int n => tyI128.inRange n = true
  | .obj t => ∃ fields : List (Text × Text), t = objText fields ∧ (∀ f ∈ fields, nestedNameOk f.1 = true) ∧ (∀ f ∈ fields, WVal f.2)
  | .arr t => ∃ items : List Text, (t = listToJson items ∨ t = listObjectToJson items) ∧ ∀ x ∈ items, WVal x

private theorem toJsonString_toProps (o : Obj) : toJsonString (toProps o) = objText (o.map (fun nf => (nf.1, nf.2.text))) := by
  have hl : (toProps o).filterMap (fun pv => propText pv.1 pv.2) = o.map (fun nf => propLine nf.1 nf.2.text) := by
    unfold toProps
    rw [List.filterMap_map]
    induction o with
    | nil => rfl
    | cons x xs ih => simp only [List.filterMap_cons, Function.comp, propText_field, List.map_cons, ih]
  unfold toJsonString objText
  rw [hl, List.map_map]
  rfl

/-- the hypothesis of `C19_object_partial` holds for every written field -/
theorem C19_written_wf (f : Field) (h : f.written) : f.wf = true := by
  cases f with
  | str s => exact h
  | bool b => rfl
  | int n => exact h
  | obj t => obtain ⟨fields, rfl, hn, hv⟩ := h; exact nestedOk_objText fields hn hv
  | arr t =>
    obtain ⟨items, ht, hv⟩ := h
    rcases ht with rfl | rfl
    · exact nestedOk_listToJson items hv
    · exact nestedOk_listObjectToJson items hv

/-- the text of a written field is a written value (so written fields nest) -/
private theorem written_wval (f : Field) (h : f.written) : WVal f.text := by
  cases f with
  | str s =>
    have h' : strOk s = true := h
    exact .str s (by simpa [strOk] using h')
  | bool b => exact .bool b
  | int n => exact .int n
  | obj t => obtain ⟨fields, rfl, hn, hv⟩ := h; exact .obj fields hn hv
  | arr t =>
    obtain ⟨items, ht, hv⟩ := h
    rcases ht with rfl | rfl
    · exact .list items hv
    · exact .listObj items hv

/-- `to_json_string` of written fields is a written nested object -/
theorem C19_written_nested_obj (o : Obj) (hn : ∀ nf ∈ o, nestedNameOk nf.1 = true) (hw : ∀ nf ∈ o, nf.2.written) :
    (Field.obj (toJsonString (toProps o))).written := by
  refine ⟨o.map (fun nf => (nf.1, nf.2.text)), toJsonString_toProps o, ?_, ?_⟩
  · intro f hf; simp only [List.mem_map] at hf; obtain ⟨nf, h, rfl⟩ := hf; exact hn nf h
  · intro f hf; simp only [List.mem_map] at hf; obtain ⟨nf, h, rfl⟩ := hf; exact written_wval nf.2 (hw nf h)

/-- the typed list writers and `JSONArrayOfObjects::to_json` produce written nested arrays -/
theorem C19_written_nested_arr_string (xs : List Text) (h : xs.all strOk = true) : (Field.arr (listStringToJson xs)).written := by
  refine ⟨xs.map (fun s => '"' :: (s ++ ['"'])), Or.inl rfl, ?_⟩
  intro t ht; simp only [List.mem_map] at ht; obtain ⟨s, hs, rfl⟩ := ht
  simp only [List.all_eq_true, strOk] at h
  exact .str s (h s hs)
theorem C19_written_nested_arr_int (xs : List Int) : (Field.arr (listIntToJson xs)).written := by
  refine ⟨xs.map intToDec, Or.inl rfl, ?_⟩
  intro t ht; simp only [List.mem_map] at ht; obtain ⟨n, _, rfl⟩ := ht; exact .int n
theorem C19_written_nested_arr_bool (xs : List Bool) : (Field.arr (listBoolToJson xs)).written := by
  refine ⟨xs.map boolText, Or.inl rfl, ?_⟩
  intro t ht; simp only [List.mem_map] at ht; obtain ⟨b, _, rfl⟩ := ht; exact .bool b
theorem C19_written_nested_arr_null (xs : List Unit) : (Field.arr (listNullToJson xs)).written := by
  refine ⟨xs.map (fun _ => ['n','u','l','l']), Or.inl rfl, ?_⟩
  intro t ht; simp only [List.mem_map] at ht; obtain ⟨_, _, rfl⟩ := ht; exact .null
theorem C19_written_nested_arr_object (os : List Obj) (hn : ∀ o ∈ os, ∀ nf ∈ o, nestedNameOk nf.1 = true) (hw : ∀ o ∈ os, ∀ nf ∈ o, nf.2.written) :
    (Field.arr (listObjectToJson (os.map (fun o => toJsonString (toProps o))))).written := by
  refine ⟨os.map (fun o => toJsonString (toProps o)), Or.inr rfl, ?_⟩
  intro t ht; simp only [List.mem_map] at ht; obtain ⟨o, ho, rfl⟩ := ht
  exact written_wval _ (C19_written_nested_obj o (hn o ho) (hw o ho))

/-- the object round trip for everything the writers produce: names without `"` and `:`, fields written (to any depth) -/
theorem C19_object_written (o : Obj) (hn : ∀ nf ∈ o, nameOk nf.1 = true) (hw : ∀ nf ∈ o, nf.2.written) :
    parseAsProperties (toJsonString (toProps o)) = .ok (toProps o) := by
  apply C19_object_partial
  simp only [wfObj, List.all_eq_true, Bool.and_eq_true]
  exact fun nf h => ⟨hn nf h, C19_written_wf nf.2 (hw nf h)⟩

/-- depth three with brackets, quotes-free punctuation and non-ASCII text at every level -/
example : (Field.obj (toJsonString (toProps [("k}".toList, .str "]é{".toList),
    ("in".toList, .obj (toJsonString (toProps [("ü[".toList, .arr (listStringToJson ["}".toList, "😀]".toList]))])))]))).written :=
  C19_written_nested_obj _ (by decide) (by
    intro nf h
    simp only [List.mem_cons, List.not_mem_nil, or_false] at h
    rcases h with rfl | rfl
    · show strOk _ = true; decide
    · exact C19_written_nested_obj _ (by decide) (by
        intro nf h
        simp only [List.mem_cons, List.not_mem_nil, or_false] at h
        subst h
        exact C19_written_nested_arr_string _ (by decide)))

/-- absent properties (value field not set, or a type the writer does not know) leave no trace in the text -/
theorem C19_object_absent (kvs : Props) :
    toJsonString kvs = toJsonString (kvs.filter (fun pv => (propText pv.1 pv.2).isSome)) := by
  have hl : kvs.filterMap (fun pv => propText pv.1 pv.2) =
      (kvs.filter (fun pv => (propText pv.1 pv.2).isSome)).filterMap (fun pv => propText pv.1 pv.2) := by
    induction kvs with
    | nil => rfl
    | cons x xs ih =>
      cases hx : propText x.1 x.2 with
      | none => simp [List.filterMap_cons, List.filter_cons, hx, ih]
      | some t => simp [List.filterMap_cons, List.filter_cons, hx, ← ih]
  unfold toJsonString
  rw [← hl]

/-- F24b (fixed): the object without properties, as the writer prints it -/
theorem C19_object_empty : parseAsProperties (toJsonString []) = .ok [] := by decide +kernel

-- non-vacuity: a flat object with every kind, negatives, nested object and array, non-ASCII text and brackets in strings at both levels
example : wfObj [("a".toList, .str "x, y: {z}".toList), ("ä€".toList, .str "]}é😀[{".toList), ("n".toList, .obj "{\r\n  \"e}\": \"]}ü\"\r\n}".toList),
    ("m".toList, .arr "[\"]\",\"[é\"]".toList), ("b".toList, .bool false), ("c".toList, .int (-170141183460469231731687303715884105728)),
    ("d".toList, .obj "{\r\n  \"e\": [1,2]\r\n}".toList), ("f".toList, .arr "[\"p\",\"q\"]".toList)] = true := by decide +kernel
/-- F24a (fixed): negative integer property -/
example : parseAsProperties "{\"a\": -5}".toList = .ok [(⟨['a'], tInteger⟩, { i128 := some (-5) })] := by decide +kernel

/-- F24d (fixed): a non-ASCII string value, a non-ASCII name; the old failing input now round-trips -/
example : parseAsProperties (toJsonString [(⟨['a'], tString⟩, { string := some ['é'] })]) = .ok [(⟨['a'], tString⟩, { string := some ['é'] })] := by
  decide +kernel
example : parseAsProperties (toJsonString [(⟨"ключ€".toList, tString⟩, { string := some "😀x漢".toList }), (⟨['ß'], tBool⟩, { bool := some true })]) =
    .ok [(⟨"ключ€".toList, tString⟩, { string := some "😀x漢".toList }), (⟨['ß'], tBool⟩, { bool := some true })] := by decide +kernel
/-- F24f (fixed): a closing brace inside a string of a nested object no longer ends the nested value; the old failing input now round-trips -/
example : parseAsProperties (toJsonString [(⟨['a'], tObject⟩, { object := some (toJsonString [(⟨['b'], tString⟩, { string := some ['}'] })]) })]) =
    .ok [(⟨['a'], tObject⟩, { object := some (toJsonString [(⟨['b'], tString⟩, { string := some ['}'] })]) })] := by
  decide +kernel
example : parseAsProperties (toJsonString [(⟨['a'], tArray⟩, { array := some (listStringToJson ["]".toList, "[{".toList, "é]".toList]) })]) =
    .ok [(⟨['a'], tArray⟩, { array := some (listStringToJson ["]".toList, "[{".toList, "é]".toList]) })] := by decide +kernel
/-- a name with a colon is cut at the wrong place -/
theorem C19_object_colon_name_violated :
    parseAsProperties (toJsonString [(⟨['a',':','b'], tBool⟩, { bool := some true })]) ≠
      .ok [(⟨['a',':','b'], tBool⟩, { bool := some true })] := by decide +kernel

end Rws.C19
