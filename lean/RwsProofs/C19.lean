/-
  C19 — JSON serialisation round-trips and is valid JSON.  Property theorems about the model
  `Rws.Json` (the definitions the driver executes).  Helper lemmas: RwsProofs/Lemmas/Decimal.lean,
  RwsProofs/Lemmas/JsonSplit.lean, RwsProofs/Lemmas/JsonObject.lean.

  Stage 1 (typed arrays), for ALL lists, any length:
    C19_list_int_<w>   parse_as_list_<w>(to_json_from_list_<w>(xs)) = Ok(xs)   for xs inside the width
    C19_list_bool, C19_list_null
    C19_list_string    under `strOk`: every character ASCII, no `"`, no `\`  (exactly what the
                       splitter needs to find the end of the string; see the witnesses below)
  Floats are opaque tokens (see Rws/Json.lean); `C19_list_float_partial` is the statement for
  tokens that are plain decimal numerals, which is what Rust's Display prints for a finite f64.
-/
import Rws.Json
import RwsProofs.Lemmas.Decimal
import RwsProofs.Lemmas.JsonSplit
import RwsProofs.Lemmas.JsonObject
import RwsProofs.C20Json
namespace Rws.C19
open Rws Rws.Json

/-! ## Stage 1: typed arrays -/

/-- integers of a list fit the element type (signed types admit negatives) -/
def intsOk (ty : IntTy) (xs : List Int) : Bool := xs.all (fun n => ty.inRange n && (decide (0 ≤ n) || ty.signed))

theorem C19_list_int (ty : IntTy) (xs : List Int) (h : intsOk ty xs = true) :
    parseListInt ty (listIntToJson xs) = .ok xs := by
  unfold parseListInt listIntToJson
  apply readList_listToJson
  · intro x _; exact goodTok_int x
  · intro x hx
    simp only [intsOk, List.all_eq_true, Bool.and_eq_true, Bool.or_eq_true, decide_eq_true_eq] at h
    have := h x hx
    simp only [itemInt]
    rw [IntTy.parse_intToDec ty x this.1 (by intro hneg; rcases this.2 with h0 | h0; omega; exact h0)]
    rfl

theorem C19_list_int_i128 (xs : List Int) (h : intsOk tyI128 xs = true) : parseListInt tyI128 (listIntToJson xs) = .ok xs := C19_list_int _ xs h
theorem C19_list_int_i64 (xs : List Int) (h : intsOk tyI64 xs = true) : parseListInt tyI64 (listIntToJson xs) = .ok xs := C19_list_int _ xs h
theorem C19_list_int_i32 (xs : List Int) (h : intsOk tyI32 xs = true) : parseListInt tyI32 (listIntToJson xs) = .ok xs := C19_list_int _ xs h
theorem C19_list_int_i16 (xs : List Int) (h : intsOk tyI16 xs = true) : parseListInt tyI16 (listIntToJson xs) = .ok xs := C19_list_int _ xs h
theorem C19_list_int_i8 (xs : List Int) (h : intsOk tyI8 xs = true) : parseListInt tyI8 (listIntToJson xs) = .ok xs := C19_list_int _ xs h
theorem C19_list_int_u128 (xs : List Int) (h : intsOk tyU128 xs = true) : parseListInt tyU128 (listIntToJson xs) = .ok xs := C19_list_int _ xs h
theorem C19_list_int_u64 (xs : List Int) (h : intsOk tyU64 xs = true) : parseListInt tyU64 (listIntToJson xs) = .ok xs := C19_list_int _ xs h
theorem C19_list_int_u32 (xs : List Int) (h : intsOk tyU32 xs = true) : parseListInt tyU32 (listIntToJson xs) = .ok xs := C19_list_int _ xs h
theorem C19_list_int_u16 (xs : List Int) (h : intsOk tyU16 xs = true) : parseListInt tyU16 (listIntToJson xs) = .ok xs := C19_list_int _ xs h
theorem C19_list_int_u8 (xs : List Int) (h : intsOk tyU8 xs = true) : parseListInt tyU8 (listIntToJson xs) = .ok xs := C19_list_int _ xs h

-- the hypothesis is satisfiable by a non-trivial list, extremes and negatives included
example : intsOk tyI128 [-170141183460469231731687303715884105728, 170141183460469231731687303715884105727, -1, 0] = true := by decide
example : intsOk tyU8 [0, 255, 7] = true := by decide
-- the regression case of the sign fix (F24): a negative last element
example : parseListInt tyI8 "[1,-2]".toList = .ok [1, -2] := by decide +kernel

theorem C19_list_bool (xs : List Bool) : parseListBool (listBoolToJson xs) = .ok xs := by
  unfold parseListBool listBoolToJson
  apply readList_listToJson
  · intro x _; cases x
    · exact goodTok_false
    · exact goodTok_true
  · intro x _; cases x <;> rfl

theorem C19_list_null (xs : List Unit) : parseListNull (listNullToJson xs) = .ok xs := by
  unfold parseListNull listNullToJson
  apply readList_listToJson (g := fun _ => ['n','u','l','l'])
  · intro x _; exact goodTok_null
  · intro x _; rfl

/-- strings the array code round-trips: every character ASCII and neither `"` nor `\` -/
def strOk (s : Text) : Bool := s.all strCharOk

theorem C19_list_string (xs : List Text) (h : xs.all strOk = true) :
    parseListString (listStringToJson xs) = .ok xs := by
  unfold parseListString listStringToJson
  simp only [List.all_eq_true, strOk] at h
  apply readList_listToJson
  · intro x hx; exact goodTok_string x (h x hx)
  · intro x _; exact itemString_quoted x

example : [" a,b] ".toList, [], "{x: 1}".toList].all strOk = true := by decide
-- outside the hypothesis the statement is false (kernel-checked witnesses; replayed on the real code):
/-- F24d (open): a non-ASCII character -/
theorem C19_list_string_nonascii_violated : parseListString (listStringToJson ["é".toList]) = .err := by decide +kernel
/-- a backslash ends the string one character later -/
theorem C19_list_string_backslash_violated : parseListString (listStringToJson ["a\\b".toList]) = .err := by decide +kernel
/-- a quote ends the string -/
theorem C19_list_string_quote_violated : parseListString (listStringToJson ["a\"b".toList]) ≠ .ok ["a\"b".toList] := by decide +kernel

/-! ## Stages 2–4: the object writer and the object scanner

  Full statement (DESIGN.md 6/C19):  `wfObj o → parseAsProperties (toJsonString o) = ok o` for objects with
  string, boolean, integer, FLOAT, nested-object and array properties, each present or absent.
  Proved below as `C19_object_partial` for every property kind except floats (opaque tokens: the
  statement for them needs the grammar lemma `isRustFloat (floatText tok)` for the tokens Rust's Display
  prints, which is not done), with absent properties handled by `C19_object_absent`, the empty object by
  `C19_object_empty`.  Nested values are any text that satisfies `nestedOk` (all ASCII, bracket counters meet
  exactly at the last character) — what `to_json_string` / the list writers produce for values whose
  strings hold no brackets; strings with brackets inside nested values are the open finding F24f, non-ASCII
  strings the open finding F24d (witnesses below). -/

/-- a property as a struct's `get_property` produces it -/
inductive Field where
  | str (s : Text) | bool (b : Bool) | int (n : Int) | obj (t : Text) | arr (t : Text)

def Field.type : Field → Text
  | .str _ => tString | .bool _ => tBool | .int _ => tInteger | .obj _ => tObject | .arr _ => tArray
def Field.value : Field → JSONValue
  | .str s => { string := some s } | .bool b => { bool := some b } | .int n => { i128 := some n }
  | .obj t => { object := some t } | .arr t => { array := some t }
/-- hypotheses, all decidable: strings ASCII without quote/backslash, integers in i128, nested texts bracket-balanced -/
def Field.wf : Field → Bool
  | .str s => strOk s | .bool _ => true | .int n => tyI128.inRange n
  | .obj t => nestedOk '{' '}' t | .arr t => nestedOk '[' ']' t
/-- the text the writer emits for the value -/
def Field.text : Field → Text
  | .str s => '"' :: (s ++ ['"']) | .bool b => boolText b | .int n => intToDec n | .obj t => t | .arr t => t

abbrev Obj := List (Text × Field)
def toProps (o : Obj) : Props := o.map (fun nf => (⟨nf.1, nf.2.type⟩, nf.2.value))
/-- names: no `"` and no `:` (the key is cut at the first colon of the pair) -/
def wfObj (o : Obj) : Bool := o.all (fun nf => nameOk nf.1 && nf.2.wf)

private theorem propText_field (name : Text) (f : Field) :
    propText ⟨name, f.type⟩ f.value = some (propLine name f.text) := by
  cases f <;> rfl

private theorem field_scan (f : Field) (h : f.wf = true) : ValScan f.text := by
  cases f with
  | str s => exact valScan_string s (by simpa [Field.wf, strOk] using h)
  | bool b => cases b; exact valScan_false; exact valScan_true
  | int n => exact valScan_int n
  | obj t => exact valScan_obj t h
  | arr t => exact valScan_arr t h

private theorem field_ends (f : Field) (h : f.wf = true) : EndsOk f.text := by
  cases f with
  | str s => exact endsOk_string s
  | bool b => cases b <;> exact ⟨_, _, rfl, by decide, rfl, by decide⟩
  | int n => exact endsOk_int n
  | obj t => obtain ⟨h1, h2⟩ := nested_ends _ _ t h; exact ⟨_, _, h1, by decide, h2, by decide⟩
  | arr t => obtain ⟨h1, h2⟩ := nested_ends _ _ t h; exact ⟨_, _, h1, by decide, h2, by decide⟩

private theorem field_classify (name : Text) (f : Field) (h : f.wf = true) :
    classify name f.text = .ok (⟨name, f.type⟩, f.value) := by
  cases f with
  | str s => exact classify_string name s (by simpa [Field.wf, strOk] using h)
  | bool b => cases b <;> rfl
  | int n => exact classify_int name n h
  | obj t => exact classify_obj name t h
  | arr t => exact classify_arr name t h

private theorem field_finish (acc : Props) (name : Text) (f : Field) (hn : nameOk name = true) (h : f.wf = true) :
    finishPair acc (kvpOf name f.text).reverse = .ok ((⟨name, f.type⟩, f.value) :: acc) := by
  unfold finishPair
  rw [List.reverse_reverse, parse_kvpOf name f.text hn (field_ends f h), field_classify name f h]

private theorem scan_fields (o : Obj) (hne : o ≠ []) (h : wfObj o = true) (acc : Props) :
    objRun (.preKey []) acc ('\r' :: '\n' :: (joinItems [',','\r','\n'] (o.map (fun nf => propLine nf.1 nf.2.text)) ++ ['\r','\n','}']))
      = .ok (acc.reverse ++ toProps o) := by
  induction o generalizing acc with
  | nil => exact absurd rfl hne
  | cons x xs ih =>
    simp only [wfObj, List.all_cons, Bool.and_eq_true] at h
    obtain ⟨⟨hn, hf⟩, hxs⟩ := h
    cases xs with
    | nil =>
      simp only [List.map_cons, List.map_nil, joinItems]
      rw [objRun_pair_last x.1 x.2.text hn (field_scan x.2 hf) acc _ (field_finish acc x.1 x.2 hn hf)]
      simp [toProps]
    | cons y ys =>
      have e : joinItems [',','\r','\n'] ((x :: y :: ys).map (fun nf => propLine nf.1 nf.2.text)) ++ ['\r','\n','}'] =
          propLine x.1 x.2.text ++ ',' :: ('\r' :: '\n' :: (joinItems [',','\r','\n'] ((y :: ys).map (fun nf => propLine nf.1 nf.2.text)) ++ ['\r','\n','}'])) := by
        simp [joinItems]
      rw [e, objRun_pair_more x.1 x.2.text hn (field_scan x.2 hf) acc _ _ (by simp) (field_finish acc x.1 x.2 hn hf)]
      rw [ih (by simp) (by simpa [wfObj] using hxs)]
      simp [toProps]

theorem C19_object_partial (o : Obj) (h : wfObj o = true) :
    parseAsProperties (toJsonString (toProps o)) = .ok (toProps o) := by
  have hl : (toProps o).filterMap (fun pv => propText pv.1 pv.2) = o.map (fun nf => propLine nf.1 nf.2.text) := by
    unfold toProps
    rw [List.filterMap_map]
    induction o with
    | nil => rfl
    | cons x xs ih =>
      simp only [List.filterMap_cons, Function.comp, propText_field, List.map_cons]
      rw [ih (by simp only [wfObj, List.all_cons, Bool.and_eq_true] at h; exact h.2)]
  unfold parseAsProperties toJsonString
  rw [hl]
  cases o with
  | nil => decide +kernel
  | cons x xs =>
    have h0 : ∀ t : Text, objRun .preBrace [] (['{','\r','\n'] ++ t) = objRun (.preKey []) [] ('\r' :: '\n' :: t) := by
      intro t; simp only [List.cons_append, List.nil_append, objRun]; rfl
    rw [List.append_assoc, h0, scan_fields (x :: xs) (by simp) h []]
    simp

/-- absent properties (value field not set, or a type the writer does not know) leave no trace in the text -/
theorem C19_object_absent (kvs : Props) :
    toJsonString kvs = toJsonString (kvs.filter (fun pv => (propText pv.1 pv.2).isSome)) := by
  have hl : kvs.filterMap (fun pv => propText pv.1 pv.2) =
      (kvs.filter (fun pv => (propText pv.1 pv.2).isSome)).filterMap (fun pv => propText pv.1 pv.2) := by
    induction kvs with
    | nil => rfl
    | cons x xs ih =>
      cases hx : propText x.1 x.2 with
      | none => simp [List.filterMap_cons, List.filter_cons, hx, ih]
      | some t => simp [List.filterMap_cons, List.filter_cons, hx, ← ih]
  unfold toJsonString
  rw [← hl]

/-- F24b (fixed): the object without properties, as the writer prints it -/
theorem C19_object_empty : parseAsProperties (toJsonString []) = .ok [] := by decide +kernel

-- non-vacuity: a flat object with every kind, negatives, nested object and array
example : wfObj [("a".toList, .str "x, y: {z}".toList), ("b".toList, .bool false), ("c".toList, .int (-170141183460469231731687303715884105728)),
    ("d".toList, .obj "{\r\n  \"e\": [1,2]\r\n}".toList), ("f".toList, .arr "[\"p\",\"q\"]".toList)] = true := by decide +kernel
/-- F24a (fixed): negative integer property -/
example : parseAsProperties "{\"a\": -5}".toList = .ok [(⟨['a'], tInteger⟩, { i128 := some (-5) })] := by decide +kernel

/-- F24d (open): a non-ASCII string value is rejected by the object scanner -/
theorem C19_object_nonascii_violated :
    parseAsProperties (toJsonString [(⟨['a'], tString⟩, { string := some ['é'] })]) = .err := by decide +kernel
/-- F24f (open): a closing brace inside a string of a nested object ends the nested value early -/
theorem C19_object_nested_bracket_violated :
    parseAsProperties (toJsonString [(⟨['a'], tObject⟩, { object := some (toJsonString [(⟨['b'], tString⟩, { string := some ['}'] })]) })]) = .err := by
  decide +kernel
/-- a name with a colon is cut at the wrong place -/
theorem C19_object_colon_name_violated :
    parseAsProperties (toJsonString [(⟨['a',':','b'], tBool⟩, { bool := some true })]) ≠
      .ok [(⟨['a',':','b'], tBool⟩, { bool := some true })] := by decide +kernel

end Rws.C19
