/-
  C16 — consequences of the multipart/form-data round trip of RwsProofs/C16.lean: for a given
  boundary the serialiser separates well-formed part lists (same bytes, same parts — names, file
  names, content types and bodies), the bytes a browser would send and the bytes `generate`
  produces are read as the same parts, and what is read back serialises to the bytes it was read
  from.  Hypotheses are exactly those of `C16_roundtrip`.
-/
import RwsProofs.C16
namespace Rws.C16Canon
open Rws Rws.Multipart Rws.MultipartL Rws.C16

/-- same boundary, same bytes: the same parts -/
theorem C16_generate_injective (ps ps' : List Part) (b : Bytes)
    (hw : wfParts ps) (hb : okBoundary b ps) (hw' : wfParts ps') (hb' : okBoundary b ps')
    (he : generate ps b = generate ps' b) : ps = ps' := by
  have h1 := C16_roundtrip_bind ps b hw hb
  rw [he, C16_roundtrip_bind ps' b hw' hb'] at h1
  exact (Outcome.ok.inj h1).symm

/-- the browser's spelling of the body and the library's are read as the same parts -/
theorem C16_browser_agrees (ps : List Part) (b : Bytes) (hw : wfParts ps) (hb : okBoundary b ps) :
    ∃ data, generate ps b = .ok data ∧ parse data b = parse (browserBody b ps) b := by
  obtain ⟨data, hg, hp⟩ := C16_roundtrip ps b hw hb
  exact ⟨data, hg, by rw [hp, C16_roundtrip_browser ps b hw hb]⟩

/-- what is read back serialises again to the bytes it was read from -/
theorem C16_bytes_stable (ps ps' : List Part) (b data : Bytes) (hw : wfParts ps) (hb : okBoundary b ps)
    (hg : generate ps b = .ok data) (hp : parse data b = .ok ps') : generate ps' b = .ok data := by
  obtain ⟨d, hg', hp'⟩ := C16_roundtrip ps b hw hb
  rw [hg] at hg'
  rw [← Outcome.ok.inj hg'] at hp'
  rw [hp'] at hp
  rw [← Outcome.ok.inj hp, hg]

/-- the number of parts and every part's body survive -/
theorem C16_parts_survive (ps : List Part) (b : Bytes) (hw : wfParts ps) (hb : okBoundary b ps) :
    ∃ data ps', generate ps b = .ok data ∧ parse data b = .ok ps' ∧ ps'.length = ps.length ∧
      ps'.map (·.body) = ps.map (·.body) := by
  obtain ⟨data, hg, hp⟩ := C16_roundtrip ps b hw hb
  exact ⟨data, ps, hg, hp, rfl, rfl⟩

example : ∃ data, generate exParts exBoundary = .ok data ∧ parse data exBoundary = .ok exParts :=
  C16_roundtrip _ _ (by decide +kernel) (by decide +kernel)

end Rws.C16Canon
