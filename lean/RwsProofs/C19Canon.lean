/-
  C19 — consequences of the typed-array round trips of RwsProofs/C19.lean: the JSON text of a
  list determines the list (the serialisers separate lists), for every integer width, for
  booleans, nulls and for strings under exactly the hypothesis of `C19_list_string`.
-/
import RwsProofs.C19
namespace Rws.C19Canon
open Rws Rws.Json Rws.C19

/-- same JSON text, same integers — for each of the ten integer types -/
theorem C19_int_text_determines_list (ty : IntTy) (xs ys : List Int)
    (hx : intsOk ty xs = true) (hy : intsOk ty ys = true)
    (he : listIntToJson xs = listIntToJson ys) : xs = ys := by
  have h := C19_list_int ty xs hx
  rw [he, C19_list_int ty ys hy] at h
  exact (Outcome.ok.inj h).symm

theorem C19_bool_text_determines_list (xs ys : List Bool)
    (he : listBoolToJson xs = listBoolToJson ys) : xs = ys := by
  have h := C19_list_bool xs
  rw [he, C19_list_bool ys] at h
  exact (Outcome.ok.inj h).symm

theorem C19_null_text_determines_list (xs ys : List Unit)
    (he : listNullToJson xs = listNullToJson ys) : xs = ys := by
  have h := C19_list_null xs
  rw [he, C19_list_null ys] at h
  exact (Outcome.ok.inj h).symm

theorem C19_string_text_determines_list (xs ys : List Text)
    (hx : xs.all strOk = true) (hy : ys.all strOk = true)
    (he : listStringToJson xs = listStringToJson ys) : xs = ys := by
  have h := C19_list_string xs hx
  rw [he, C19_list_string ys hy] at h
  exact (Outcome.ok.inj h).symm

/-- the number of elements survives the round trip -/
theorem C19_int_length (ty : IntTy) (xs : List Int) (h : intsOk ty xs = true) :
    ∃ ys, parseListInt ty (listIntToJson xs) = .ok ys ∧ ys.length = xs.length :=
  ⟨xs, C19_list_int ty xs h, rfl⟩

example : listBoolToJson [true, false] ≠ listBoolToJson [true] :=
  fun h => by have := C19_bool_text_determines_list _ _ h; simp at this

end Rws.C19Canon
