/-
  C16 — multipart/form-data bodies round-trip part for part.
  Property theorems only (helper lemmas: RwsProofs/Lemmas/Multipart.lean).
  Model: Rws/Multipart.lean (`FormMultipartData::{parse, generate, generate_part,
  extract_boundary}`, `Header::parse_header`) on the tree with the repairs F21, F22a–c, F32, F33, F34.
-/
import Rws.Multipart
import RwsProofs.Lemmas.Multipart
namespace Rws.C16
open Rws Rws.Multipart Rws.MultipartL

/-! ## The specification, written independently of the code -/

/-- UTF-8 of the characters with the Unicode property White_Space (Unicode PropList.txt):
    U+0009..000D, U+0020, U+0085, U+00A0, U+1680, U+2000..200A, U+2028, U+2029, U+202F, U+205F,
    U+3000 -/
def whiteSpace : List Bytes := [
  [0x09], [0x0A], [0x0B], [0x0C], [0x0D], [0x20], [0xC2, 0x85], [0xC2, 0xA0], [0xE1, 0x9A, 0x80],
  [0xE2, 0x80, 0x80], [0xE2, 0x80, 0x81], [0xE2, 0x80, 0x82], [0xE2, 0x80, 0x83], [0xE2, 0x80, 0x84],
  [0xE2, 0x80, 0x85], [0xE2, 0x80, 0x86], [0xE2, 0x80, 0x87], [0xE2, 0x80, 0x88], [0xE2, 0x80, 0x89],
  [0xE2, 0x80, 0x8A], [0xE2, 0x80, 0xA8], [0xE2, 0x80, 0xA9], [0xE2, 0x80, 0xAF], [0xE2, 0x81, 0x9F],
  [0xE3, 0x80, 0x80]]

/-- ASCII control character: U+0000..U+001F, U+007F -/
def isControl (c : UInt8) : Prop := c < 32 ∨ c = 127
instance (c : UInt8) : Decidable (isControl c) := by unfold isControl; infer_instance

/-- a text that is sent and read back unchanged: valid UTF-8 (it is a Rust `String`), no ASCII
    control character (so no CR, no LF), no white space at either end -/
def cleanText (s : Bytes) : Prop :=
  Utf8M.valid s = true ∧ (∀ c ∈ s, ¬ isControl c) ∧ (∀ w ∈ whiteSpace, ¬ w <+: s ∧ ¬ w <:+ s)

/-- a header the writer can express: a non-empty name without `:`; name and value clean texts
    (the value may be empty) -/
def wfHeader (h : Header) : Prop := h.name ≠ [] ∧ (58 : UInt8) ∉ h.name ∧ cleanText h.name ∧ cleanText h.value

/-- at least one header per part (what `generate_part` requires), any body -/
def wfPart (p : Part) : Prop := p.headers ≠ [] ∧ ∀ h ∈ p.headers, wfHeader h

/-- at least one part (what `generate` requires) -/
def wfParts (ps : List Part) : Prop := ps ≠ [] ∧ ∀ p ∈ ps, wfPart p

/-- the header as it is written: `name: value` -/
def headerText (h : Header) : Bytes := h.name ++ [58, 32] ++ h.value

/-- "the boundary does not occur in the data": `b` is a non-empty clean text that is not a
    substring (`<:+:`) of any part body nor of any written header -/
def okBoundary (b : Bytes) (ps : List Part) : Prop :=
  b ≠ [] ∧ cleanText b ∧ ∀ p ∈ ps, ¬ b <:+: p.body ∧ ∀ h ∈ p.headers, ¬ b <:+: headerText h

instance (s : Bytes) : Decidable (cleanText s) := by unfold cleanText; infer_instance
instance (h : Header) : Decidable (wfHeader h) := by unfold wfHeader; infer_instance
instance (p : Part) : Decidable (wfPart p) := by unfold wfPart; infer_instance
instance (ps : List Part) : Decidable (wfParts ps) := by unfold wfParts; infer_instance
instance (b : Bytes) (ps : List Part) : Decidable (okBoundary b ps) := by unfold okBoundary; infer_instance

/-- a body as browsers write it: every delimiter line is `--` boundary, the last one
    `--` boundary `--`, every line ends in CRLF -/
def browserBody (b : Bytes) : List Part → Bytes
  | [] => [45, 45] ++ b ++ [45, 45, 13, 10]
  | p :: ps =>
    [45, 45] ++ b ++ [13, 10] ++
    (p.headers.map (fun h => headerText h ++ [13, 10])).flatten ++ [13, 10] ++ p.body ++ [13, 10] ++
    browserBody b ps

/-- the text of the first line: up to the first LF, without ASCII control characters -/
def firstLineText (data : Bytes) : Bytes :=
  (data.takeWhile (fun c => c != 10)).filter (fun c => ¬ isControl c)

/-- everything after the first line -/
def afterFirstLine (data : Bytes) : Bytes := (data.dropWhile (fun c => c != 10)).drop 1

/-- RFC 2046 `bchars`: DIGIT / ALPHA / "'" / "(" / ")" / "+" / "_" / "," / "-" / "." / "/" / ":" / "=" / "?" / " " -/
def isBchar (c : UInt8) : Prop :=
  (48 ≤ c ∧ c ≤ 57) ∨ (65 ≤ c ∧ c ≤ 90) ∨ (97 ≤ c ∧ c ≤ 122) ∨
  c ∈ ([39, 40, 41, 43, 95, 44, 45, 46, 47, 58, 61, 63, 32] : List UInt8)
instance (c : UInt8) : Decidable (isBchar c) := by unfold isBchar; infer_instance

/-! ## non-vacuity: the hypotheses hold for concrete, non-trivial inputs -/

/-- two parts; empty body, body ending in CRLF and containing dashes; non-ASCII header text; an
    empty header value; boundary with leading dashes and an interior hyphen -/
def exParts : List Part := [
  ⟨[⟨"Content-Disposition".toUTF8.toList, "form-data; name=\"a: b\"".toUTF8.toList⟩, ⟨[88, 45, 195, 169], []⟩], []⟩,
  ⟨[⟨[88], [229, 128, 164]⟩], [45, 45, 98, 49, 13, 10, 45, 45, 13, 10]⟩]
def exBoundary : Bytes := [45, 45, 98, 45, 49]

example : wfParts exParts := by decide +kernel
example : okBoundary exBoundary exParts := by decide +kernel
example : (generate exParts exBoundary).bind (fun d => parse d exBoundary) = .ok exParts := by decide +kernel
example : parse (browserBody exBoundary exParts) exBoundary = .ok exParts := by decide +kernel
/-- the hyphen-stripped boundary `b1` occurs in the second body, the boundary `--b-1` does not -/
example : ([98, 49] : Bytes) <:+: (exParts[1]!).body ∧ ¬ exBoundary <:+: (exParts[1]!).body := by decide +kernel

/-- the hypothesis "the boundary does not occur in the data" is needed: a body that contains
    the boundary is cut there -/
example : (generate [⟨[⟨[88], [121]⟩], [120, 97, 98, 99, 120]⟩] [97, 98, 99]).bind (fun d => parse d [97, 98, 99]) = .err := by
  decide +kernel
/-- RFC 2046 allows a boundary that begins with a space; such a boundary is outside `cleanText`
    and the reader (which trims the opening line) rejects the body it was written with -/
example : (generate [⟨[⟨[88], [121]⟩], [120]⟩] [32, 97]).bind (fun d => parse d [32, 97]) = .err := by
  decide +kernel

/-! ## bridge from the specification to the reader's requirements -/
section bridge

private theorem ws_eq : whiteSpace = wsChars := by decide

private theorem ctl_iff (c : UInt8) : ¬ isControl c ↔ isAsciiControl c = false := by
  unfold isControl isAsciiControl
  simp only [Bool.or_eq_false_iff, decide_eq_false_iff_not, not_or]

private theorem headerText_eq (h : Header) : headerText h = headerLine h := by
  unfold headerText headerLine; simp

private theorem hdrOk_of_wf {h : Header} (w : wfHeader h) : HdrOk h := by
  obtain ⟨hne, hcol, ⟨v1, c1, w1⟩, ⟨v2, c2, w2⟩⟩ := w
  rw [ws_eq] at w1 w2
  exact ⟨v1, v2, fun c hc => (ctl_iff c).mp (c1 c hc), fun c hc => (ctl_iff c).mp (c2 c hc), hcol, hne,
    fun w hw => (w1 w hw).1, fun w hw => (w1 w hw).2, fun w hw => (w2 w hw).1, fun w hw => (w2 w hw).2⟩

private theorem boundaryOk_of {b : Bytes} {ps : List Part} (h : okBoundary b ps) : BoundaryOk b := by
  obtain ⟨hne, ⟨v, c, w⟩, _⟩ := h
  rw [ws_eq] at w
  exact ⟨hne, v, fun x hx => (ctl_iff x).mp (c x hx), fun x hx => (w x hx).1, fun x hx => (w x hx).2⟩

private theorem partOk_of {b : Bytes} {ps : List Part} (hw : wfParts ps) (hb : okBoundary b ps) :
    ∀ q ∈ ps, PartOk b q := by
  intro q hq
  obtain ⟨hne, hh⟩ := hw.2 q hq
  obtain ⟨hbody, hhdr⟩ := hb.2.2 q hq
  exact ⟨hne, fun h hm => hdrOk_of_wf (hh h hm), fun h hm => by rw [← headerText_eq]; exact hhdr h hm, hbody⟩

end bridge

/-! ## the property -/

/-- **Round trip.**  For every non-empty list of well-formed parts — any number of parts, any
    number (≥ 1) of headers, ANY body bytes of any length, empty bodies and bodies that end in
    CR, LF or CRLF included — and every boundary that does not occur in the data, the writer
    succeeds and the reader returns exactly the parts, in order. -/
theorem C16_roundtrip (ps : List Part) (b : Bytes) (hw : wfParts ps) (hb : okBoundary b ps) :
    ∃ data, generate ps b = .ok data ∧ parse data b = .ok ps := by
  have h := parse_generate (boundaryOk_of hb) ps hw.1 (partOk_of hw hb)
  rw [generate_ok b ps hw.1 (fun p hp => (hw.2 p hp).1)] at h ⊢
  exact ⟨_, rfl, h⟩

/-- the same as one equation -/
theorem C16_roundtrip_bind (ps : List Part) (b : Bytes) (hw : wfParts ps) (hb : okBoundary b ps) :
    (generate ps b).bind (fun data => parse data b) = .ok ps :=
  parse_generate (boundaryOk_of hb) ps hw.1 (partOk_of hw hb)

/-! ### which boundaries are covered -/
section rfc2046

private theorem ws_head_bchar : ∀ w ∈ whiteSpace,
    w ≠ [] ∧ (isBchar (w.head?.getD 0) → w.head?.getD 0 = 32) := by decide

private theorem ws_last_bchar : ∀ w ∈ whiteSpace,
    w ≠ [] ∧ (isBchar (w.getLast?.getD 0) → w.getLast?.getD 0 = 32) := by decide

private theorem bchar_lt : ∀ c : UInt8, isBchar c → c < 128 ∧ ¬ isControl c := by
  intro c h
  unfold isBchar at h
  unfold isControl
  simp only [List.mem_cons, List.mem_nil_iff, or_false] at h
  simp only [UInt8.le_iff_toNat_le, UInt8.lt_iff_toNat_lt, ← UInt8.toNat_inj] at h ⊢
  simp only [UInt8.toNat_ofNat] at h ⊢
  omega

end rfc2046

/-- every RFC 2046 boundary (`0*69<bchars> bcharsnospace`, here: any length ≥ 1) that does not
    begin with a space is a clean text: letters, digits, leading and interior hyphens, the
    punctuation `'()+_,-./:=?` and interior spaces are all covered by `okBoundary` -/
theorem C16_rfc2046_boundary_clean (b : Bytes) (hc : ∀ c ∈ b, isBchar c)
    (hh : b.head? ≠ some 32) (hl : b.getLast? ≠ some 32) : cleanText b := by
  refine ⟨valid_ascii b (fun c h => (bchar_lt c (hc c h)).1), fun c h => (bchar_lt c (hc c h)).2, ?_⟩
  intro w hw
  constructor
  · intro hp
    obtain ⟨hne, h1⟩ := ws_head_bchar w hw
    obtain ⟨t, rfl⟩ := hp
    cases w with
    | nil => exact hne rfl
    | cons x xs =>
      simp only [List.head?_cons, Option.getD_some] at h1
      have := h1 (hc x (by simp))
      subst this
      exact hh (by simp)
  · intro hp
    obtain ⟨hne, h1⟩ := ws_last_bchar w hw
    obtain ⟨t, rfl⟩ := hp
    have hwl : w.getLast? = some (w.getLast hne) := List.getLast?_eq_some_getLast hne
    rw [hwl, Option.getD_some] at h1
    have hcw : w.getLast hne ∈ w := List.getLast_mem hne
    have := h1 (hc _ (by simp [hcw]))
    apply hl
    rw [List.getLast?_append, hwl, this]
    rfl

/-! ### the browser shape -/
section browser

private theorem ws_head : ∀ w ∈ wsChars, ¬ w <+: ((45 : UInt8) :: t) := by
  intro w hw hp
  have : w = [] ∨ w.head? = some 45 := by
    rcases List.prefix_cons_iff.mp hp with rfl | ⟨u, rfl, _⟩
    · left; rfl
    · right; rfl
  clear hp
  revert this
  revert w
  decide

private theorem dashes_open {b : Bytes} (bok : BoundaryOk b) : OpenOk b ([45, 45] ++ b) := by
  refine ⟨⟨[45, 45], [], by simp⟩, valid_append _ _ (by decide) bok.valid, ?_, ws_head, ?_⟩
  · intro c hc
    simp only [List.cons_append, List.nil_append, List.mem_cons] at hc
    rcases hc with rfl | rfl | h
    · decide
    · decide
    · exact bok.ctl c h
  · have : ([45, 45] : Bytes) ++ b = [45] ++ 45 :: b := rfl
    rw [this]
    exact no_ws_suffix_append (by decide) bok.ne bok.ws

private theorem dashes_delim {b : Bytes} (bok : BoundaryOk b) : DelimOk b ([45, 45] ++ b) := by
  refine ⟨⟨[45, 45], [], by simp⟩, ?_⟩
  intro hm
  simp only [List.cons_append, List.nil_append, List.mem_cons] at hm
  rcases hm with h | h | h
  · exact absurd h (by decide)
  · exact absurd h (by decide)
  · exact bok.no10 h

private theorem dashes_close {b : Bytes} (bok : BoundaryOk b) : CloseOk b ([45, 45] ++ b ++ [45, 45, 13, 10]) := by
  refine ⟨⟨[45, 45], [45, 45, 13, 10], by simp⟩, ?_⟩
  have e : ([45, 45] : Bytes) ++ b ++ [45, 45, 13, 10] = ([45, 45] ++ b ++ [45, 45, 13]) ++ 10 :: [] := by simp
  have n10 : (10 : UInt8) ∉ ([45, 45] : Bytes) ++ b ++ [45, 45, 13] := by
    intro hm
    simp only [List.cons_append, List.nil_append, List.mem_cons, List.mem_append, List.mem_nil_iff, or_false] at hm
    rcases hm with h | h | (h | h | h | h)
    · exact absurd h (by decide)
    · exact absurd h (by decide)
    · exact bok.no10 h
    · exact absurd h (by decide)
    · exact absurd h (by decide)
    · exact absurd h (by decide)
  rw [e, splitLines_line _ _ n10]
  simp [splitLines]

private theorem browserBody_eq (b : Bytes) (p : Part) (ps : List Part) :
    browserBody b (p :: ps) =
      ([45, 45] ++ b) ++ 13 :: 10 :: tailG ([45, 45] ++ b) ([45, 45] ++ b ++ [45, 45, 13, 10]) p ps := by
  induction ps generalizing p with
  | nil => simp [browserBody, tailG, partBytes, headerText, headerLine]
  | cons q qs ih =>
    have := ih q
    simp only [browserBody, tailG, partBytes] at this ⊢
    simp only [List.append_assoc, List.cons_append, List.nil_append] at this ⊢
    rw [this]
    simp [headerText, headerLine]

end browser

/-- **Browser shape.**  A body whose delimiter lines are `--` boundary and whose last line is
    `--` boundary `--` (what browsers send for `boundary=`boundary) parses into its parts, under
    the same hypotheses. -/
theorem C16_roundtrip_browser (ps : List Part) (b : Bytes) (hw : wfParts ps) (hb : okBoundary b ps) :
    parse (browserBody b ps) b = .ok ps := by
  have bok := boundaryOk_of hb
  cases ps with
  | nil => exact absurd rfl hw.1
  | cons p ps =>
    rw [browserBody_eq, parse_shape bok (dashes_open bok) (dashes_delim bok) (dashes_close bok) p ps (partOk_of hw hb)]

/-! ### malformed bodies are rejected -/

/-- **No opening boundary.**  For ALL data and boundaries: when the text of the first line
    does not contain the boundary, the result is an error. -/
theorem C16_reject_open (data b : Bytes) (h : ¬ b <:+: firstLineText data) : parse data b = .err := by
  have hb : b ≠ [] := fun e => h (e ▸ List.nil_infix)
  apply parse_no_open data b _ hb
  intro l rest hs hi
  apply h
  rw [splitLines_head_visible data l rest hs] at hi
  have : firstLineText data = visible (data.takeWhile (fun c => c != 10)) := by
    unfold firstLineText visible
    congr 1
    funext c
    by_cases hc : isControl c
    · have : isAsciiControl c = true := by
        cases hx : isAsciiControl c with
        | true => rfl
        | false => exact absurd hc ((ctl_iff c).mpr hx)
      simp [hc, this]
    · simp [hc, (ctl_iff c).mp hc]
  rwa [this]

/-- **No closing boundary.**  For ALL data and boundaries: when the boundary does not occur
    after the first line, the result is an error (never a shorter list of parts). -/
theorem C16_reject_close (data b : Bytes) (h : ¬ b <:+: afterFirstLine data) : parse data b = .err :=
  parse_no_close data b h

/-- **A part without headers** right after the opening line: for ALL data whose second line is
    blank (`l1` is empty or consists of ASCII control characters such as CR), whatever the
    first line, the rest and the boundary are. -/
theorem C16_reject_headerless (l0 l1 rest b : Bytes) (h0 : (10 : UInt8) ∉ l0) (h1 : ∀ c ∈ l1, isControl c ∧ c ≠ 10) :
    parse (l0 ++ 10 :: l1 ++ 10 :: rest) b = .err := by
  have n1 : (10 : UInt8) ∉ l1 := fun hm => (h1 10 hm).2 rfl
  have e : l0 ++ 10 :: l1 ++ 10 :: rest = l0 ++ 10 :: (l1 ++ 10 :: rest) := by simp
  have hs : splitLines (l0 ++ 10 :: l1 ++ 10 :: rest) = (l0 ++ [10]) :: (l1 ++ [10]) :: splitLines rest := by
    rw [e, splitLines_line _ _ h0, splitLines_line _ _ n1]
  apply parse_headerless _ b _ _ _ hs
  unfold visible
  rw [List.filter_eq_nil_iff]
  intro c hc
  simp only [List.mem_append, List.mem_singleton] at hc
  rcases hc with hc | rfl
  · have := (h1 c hc).1
    cases hx : isAsciiControl c with
    | true => simp
    | false => exact absurd this ((ctl_iff c).mpr hx)
  · decide

/-- **A part without headers after any number of complete parts**: the written body, a line
    break, a blank line and anything more is an error. -/
theorem C16_reject_headerless_after (ps : List Part) (b data more : Bytes) (hw : wfParts ps) (hb : okBoundary b ps)
    (hg : generate ps b = .ok data) (hm : more ≠ []) :
    parse (data ++ [13, 10, 13, 10] ++ more) b = .err := by
  rw [generate_ok b ps hw.1 (fun p hp => (hw.2 p hp).1)] at hg
  injection hg with hg
  subst hg
  have := parse_headerless_after (boundaryOk_of hb) ps hw.1 (partOk_of hw hb) more hm
  simpa using this

/-- what is still accepted after the closing delimiter: its line break and one blank line -/
theorem C16_trailing_blank_line (ps : List Part) (b data : Bytes) (hw : wfParts ps) (hb : okBoundary b ps)
    (hg : generate ps b = .ok data) : parse (data ++ [13, 10, 13, 10]) b = .ok ps := by
  rw [generate_ok b ps hw.1 (fun p hp => (hw.2 p hp).1)] at hg
  injection hg with hg
  subst hg
  exact parse_epilogue (boundaryOk_of hb) ps hw.1 (partOk_of hw hb)

/-! ### totality -/

/-- **The reader never panics**: for ALL data and ALL boundaries the result is `ok` or `err`.
    The one panic site of the code, `windows(0)` in `find_subsequence` for an empty needle
    (`panic "body/multipart_form_data/mod.rs:247"` in the model), is unreachable:
    with the empty boundary the header loop fails at its first line (`C16_empty_boundary`). -/
theorem C16_parse_total (data b : Bytes) : parse data b = .err ∨ ∃ ps, parse data b = .ok ps := by
  have := parse_no_panic data b
  cases h : parse data b with
  | ok ps => right; exact ⟨ps, rfl⟩
  | err => left; rfl
  | panic s => rw [h] at this; exact absurd this (by simp [Outcome.isPanic])

theorem C16_empty_boundary (data : Bytes) : parse data [] = .err := by
  unfold parse
  split
  · simp [containsSub_nil, run_hdr_nil_boundary]
  · split
    · rfl
    · simp [containsSub_nil, run_hdr_nil_boundary]

/-- the panic site exists in the model: the helper itself panics on an empty needle -/
theorem C16_find_subsequence_empty_needle (hay : Bytes) :
    findSubsequence hay [] = .panic "body/multipart_form_data/mod.rs:247" := rfl

/-! ### the writer's own checks, and the boundary parameter -/

theorem C16_generate_rejects_empty (b : Bytes) : generate [] b = .err := rfl

theorem C16_generate_rejects_headerless (ps qs : List Part) (body b : Bytes) :
    generate (ps ++ ⟨[], body⟩ :: qs) b = .err := by
  have h : ∀ ps : List Part, genLoop b (ps ++ ⟨[], body⟩ :: qs) = .err := by
    intro ps
    induction ps with
    | nil => simp [genLoop, generatePart]
    | cons p ps ih =>
      simp only [List.cons_append, genLoop, ih]
      unfold generatePart
      by_cases hp : p.headers.isEmpty = true <;> simp [hp]
  unfold generate
  rw [h]
  cases ps <;> simp

/-- `multipart/form-data; boundary=` + boundary, as browsers send it (the boundary does not
    start with a quotation mark) -/
theorem C16_boundary_param (b : Bytes) (h : b.head? ≠ some 34) :
    extractBoundary ("multipart/form-data; boundary=".toUTF8.toList ++ b) = .ok b := by
  have e : "multipart/form-data; boundary=".toUTF8.toList =
      [109, 117, 108, 116, 105, 112, 97, 114, 116, 47, 102, 111, 114, 109, 45, 100, 97, 116, 97, 59, 32,
       98, 111, 117, 110, 100, 97, 114, 121, 61] := by decide +kernel
  rw [e]
  have hu : unquote b = b := by
    unfold unquote
    cases b with
    | nil => rfl
    | cons c t =>
      have : c ≠ 34 := fun e => h (by simp [e])
      split
      · rename_i u hcu; injection hcu with h1 _; exact absurd h1 this
      · rfl
  simp [extractBoundary, splitOnce, findSub, findSub.go, List.isPrefixOf, hu]

/-- the quoted form `boundary="…"` (RFC 2046) gives the boundary without the quotes -/
theorem C16_boundary_param_quoted (b : Bytes) :
    extractBoundary ("multipart/form-data; boundary=".toUTF8.toList ++ [34] ++ b ++ [34]) = .ok b := by
  have e : "multipart/form-data; boundary=".toUTF8.toList =
      [109, 117, 108, 116, 105, 112, 97, 114, 116, 47, 102, 111, 114, 109, 45, 100, 97, 116, 97, 59, 32,
       98, 111, 117, 110, 100, 97, 114, 121, 61] := by decide +kernel
  rw [e]
  have hu : unquote (34 :: (b ++ [34])) = b := by
    unfold unquote
    simp
  simp [extractBoundary, splitOnce, findSub, findSub.go, List.isPrefixOf, hu]

end Rws.C16
