/-
  C17Echo — C17 at the form echo endpoints of the server: the fields a client encodes with the
  library's encoder come back, one line per field, from `GET /form-get-method?<query>` and from
  `POST /form-url-encoded-enctype-post-method` (url-encoded body).

  Property theorems only (helper lemmas: RwsProofs/Lemmas/C17Echo.lean).  Model: the controller
  chain `Controllers.execute` (Rws/Controllers.lean: `formGetProcess`, `formUrlencProcess`, `echoLines`)
  and `Server.process` / `Server.processRequest` (Rws/Server.lean) over `Req.parse`, `UrlParse`,
  `Query` and `Resp.generateResponse`.

  The real controllers iterate a `HashMap`; the model fixes an order (key order).  Every statement
  here is up to the order of the lines (`EchoOf`: the body is the concatenation of SOME arrangement
  of the expected lines), so none depends on that modelling choice.

  Hypotheses on the fields: those of `C17_query` / `C17_body_partial` (`C17.fieldsOk`: names
  non-empty and distinct, no literal `%XY` of a later-processed code — the open finding F27;
  `C17.bodyOk` for the body parser: no raw control character, no white space at the outer edges),
  plus `textUtf8` (the fields are text) where bytes travel through `String::from_utf8`.
  `textUtf8` replaces the hypothesis `hutf8` of `C17_body_partial`: the encoder is proved to keep
  valid UTF-8 valid (`Lemmas.valid_encode`).
-/
import RwsProofs.Lemmas.C17Echo
namespace Rws.C17Echo
open Rws Rws.Query Rws.Static Rws.Controllers Rws.Server
open Rws.C04 (ascii headerLines)
open Rws.C17 (fieldsOk bodyOk)

/-! ## The specification -/

/-- the line echoed for one field: `name is value CRLF` -/
def echoLine (kv : Bytes × Bytes) : Bytes := kv.1 ++ ascii " is " ++ kv.2 ++ ascii "\r\n"

/-- `body` is made of exactly the lines of the fields of `m`, each once, in some order -/
def EchoOf (m : List (Bytes × Bytes)) (body : Bytes) : Prop :=
  ∃ lines : List Bytes, lines.Perm (m.map echoLine) ∧ body = lines.flatten

/-- the fields are text (valid UTF-8) -/
def textUtf8 (m : List (Bytes × Bytes)) : Prop := ∀ kv ∈ m, Utf8.valid kv.1 = true ∧ Utf8.valid kv.2 = true
instance (m : List (Bytes × Bytes)) : Decidable (textUtf8 m) := by unfold textUtf8; infer_instance

/-- `GET /form-get-method?<build_query(m)>` with any version, headers and body -/
def getRequest (m : List (Bytes × Bytes)) (version : Bytes) (hs : List Header) (body : Bytes) : Request :=
  ⟨ascii "GET", ascii "/form-get-method?" ++ buildQuery m, version, hs, body⟩

/-- `POST /form-url-encoded-enctype-post-method` whose body is `FormUrlEncoded::generate(m)` followed by
    `pad` zero bytes (the unused part of the server's read buffer; `pad = 0`: the body as sent) -/
def postRequest (m : List (Bytes × Bytes)) (version : Bytes) (hs : List Header) (pad : Nat) : Request :=
  ⟨ascii "POST", ascii "/form-url-encoded-enctype-post-method", version, hs,
   FormUrlEncoded.generate m ++ List.replicate pad 0⟩

/-- the request says `Content-Type: application/x-www-form-urlencoded`: the first header named
    `Content-Type` (ASCII letters in either case; no header with a non-ASCII name before it) has that
    value (ASCII letters in either case) -/
def sendsFormType : List Header → Bool
  | [] => false
  | h :: t =>
    if !h.name.all (· < 128) then false
    else if h.name.map asciiLower == ascii "content-type" then
      h.value.all (· < 128) && h.value.map asciiLower == ascii "application/x-www-form-urlencoded"
    else sendsFormType t

/-- the bytes of a request on the wire: request line, header lines, blank line, body -/
def wire (r : Request) : Bytes :=
  r.method ++ [32] ++ r.uri ++ [32] ++ r.version ++ [13, 10] ++ headerLines r.headers ++ [13, 10] ++ r.body

/-- the framing headers of a whole-body `text/plain` answer -/
def framing (body : Bytes) : List Header :=
  [⟨ascii "Content-Type", ascii "text/plain"⟩,
   ⟨ascii "Content-Range", ascii "bytes 0-" ++ natToDec body.length ++ ascii "/" ++ natToDec body.length⟩,
   ⟨ascii "Content-Length", natToDec body.length⟩]

/-- one complete `200 OK` answer whose last three headers frame `body` as `text/plain` -/
def IsEchoResponse (raw body : Bytes) : Prop :=
  ∃ hs : List Header, raw = ascii "HTTP/1.1 200 OK\r\n" ++ headerLines (hs ++ framing body) ++ [13, 10] ++ body

/-- what the request line and the headers need in order to be parsed back (C14): a supported version,
    headers without CR/LF and with a name without `": "`, all UTF-8 -/
def headOk (version : Bytes) (hs : List Header) : Bool :=
  C14.versions.contains (version.map asciiUpper) && hs.all C14.wfHeader

/-! ## helpers -/
section helpers
open Rws.C17EchoLemmas

private theorem echoLine_eq : echoLine = line := by
  funext kv
  have e1 : ascii " is " = [32, 105, 115, 32] := by decide
  have e2 : ascii "\r\n" = [13, 10] := by decide
  simp [echoLine, line, e1, e2]

private theorem echoOf_canonical (m : List (Bytes × Bytes)) (h : fieldsOk m) :
    EchoOf m (echoLines crlf (mapOfList m)) := by
  refine ⟨(mapOfList m).map echoLine, ((C17.C17_canonical m h.2.1).1).map _, ?_⟩
  rw [echoLines_eq, echoLine_eq]

private theorem getUri_eq (q : Bytes) : ascii "/form-get-method?" ++ q = getUri q := by
  have : ascii "/form-get-method?" = formGetPath ++ [63] := by decide +kernel
  rw [this, getUri]; simp

private theorem textPlain_eq : textPlain = ascii "text/plain" := by decide +kernel
private theorem get_eq : ascii "GET" = methodGet := by decide
private theorem post_eq : ascii "POST" = methodPost := by decide
private theorem postPath_eq : ascii "/form-url-encoded-enctype-post-method" = formUrlencPath := by decide +kernel

private theorem matches_of_sends (v : Bytes) (hs : List Header) (b : Bytes) (h : sendsFormType hs = true) :
    formUrlencMatches ⟨methodPost, formUrlencPath, v, hs, b⟩ = true := by
  have hname : Unicode.toLowercase Gen.Hdr.hContentType = ascii "content-type" := by decide +kernel
  have hval : ascii "application/x-www-form-urlencoded" = formUrlencCT := by decide +kernel
  have key : ∀ hs : List Header, sendsFormType hs = true →
      ∃ x, hs.find? (fun x => Unicode.toLowercase x.name == Unicode.toLowercase Gen.Hdr.hContentType) = some x ∧
        Unicode.toLowercase x.value = formUrlencCT := by
    intro hs
    induction hs with
    | nil => intro h; simp [sendsFormType] at h
    | cons x t ih =>
      intro h
      unfold sendsFormType at h
      by_cases ha : x.name.all (· < 128) = true
      · simp only [ha, Bool.not_true, Bool.false_eq_true, if_false] at h
        by_cases hn : (x.name.map asciiLower == ascii "content-type") = true
        · simp only [hn, if_true, Bool.and_eq_true, beq_iff_eq] at h
          refine ⟨x, ?_, ?_⟩
          · rw [List.find?_cons_of_pos]
            rw [lower_ascii _ ha, hname]; exact hn
          · rw [lower_ascii _ h.1, h.2, hval]
        · simp only [hn, Bool.false_eq_true, if_false] at h
          obtain ⟨y, hy, hyv⟩ := ih h
          refine ⟨y, ?_, hyv⟩
          rw [List.find?_cons_of_neg]
          · exact hy
          · rw [lower_ascii _ ha, hname]; exact hn
      · simp [ha] at h
  obtain ⟨x, hx, hxv⟩ := key hs h
  have hg : getHeader ⟨methodPost, formUrlencPath, v, hs, b⟩ Gen.Hdr.hContentType = some x := hx
  simp [formUrlencMatches, hg, hxv]

private theorem framing_eq (body : Bytes) : framing body = C17EchoLemmas.framing body := by
  have : ascii "/" = [47] := by decide
  simp [framing, C17EchoLemmas.framing, this]

private theorem wfLine_get (m : List (Bytes × Bytes)) (version : Bytes) (hu : textUtf8 m)
    (hv : C14.versions.contains (version.map asciiUpper) = true) :
    C14.wfRequestLine (ascii "GET") (ascii "/form-get-method?" ++ buildQuery m) version = true := by
  obtain ⟨h32, h10⟩ := not_mem_buildQuery m
  have hval : Utf8.valid (ascii "/form-get-method?" ++ buildQuery m) = true :=
    Utf8.valid_append (by decide +kernel) (valid_buildQuery m hu)
  have a32 : (32 : UInt8) ∉ ascii "/form-get-method?" := by decide +kernel
  have a10 : (10 : UInt8) ∉ ascii "/form-get-method?" := by decide +kernel
  have hm : C14.methods.contains ((ascii "GET").map asciiUpper) = true := by decide +kernel
  simp only [List.contains_eq_mem, decide_eq_true_eq] at hm hv
  simp [C14.wfRequestLine, hm, hv, hval, h32, h10, a32, a10]

private theorem wfLine_post (version : Bytes) (hv : C14.versions.contains (version.map asciiUpper) = true) :
    C14.wfRequestLine (ascii "POST") (ascii "/form-url-encoded-enctype-post-method") version = true := by
  have h : ∀ v, C14.wfRequestLine (ascii "POST") (ascii "/form-url-encoded-enctype-post-method") v
      = C14.versions.contains (v.map asciiUpper) := by
    intro v
    have h1 : C14.methods.contains ((ascii "POST").map asciiUpper) = true := by decide +kernel
    have h2 : (ascii "/form-url-encoded-enctype-post-method").contains 32 = false := by decide +kernel
    have h3 : (ascii "/form-url-encoded-enctype-post-method").contains 10 = false := by decide +kernel
    have h4 : Utf8.valid (ascii "/form-url-encoded-enctype-post-method") = true := by decide +kernel
    simp only [C14.wfRequestLine, h1, h2, h3, h4, Bool.true_and, Bool.not_false, Bool.and_true]
  rw [h, hv]

/-- the bytes of a request that fits the buffer are parsed back, the body followed by the zero padding -/
private theorem parse_fill (r : Request) (alloc : Nat) (hl : C14.wfRequestLine r.method r.uri r.version = true)
    (hh : r.headers.all C14.wfHeader = true) (hlen : (wire r).length ≤ alloc) :
    Req.parse (fillBuffer alloc (wire r))
      = .ok { r with body := r.body ++ List.replicate (alloc - (wire r).length) 0 } := by
  rw [fill_le alloc _ hlen]
  have := parse_wire r.method r.uri r.version r.headers (r.body ++ List.replicate (alloc - (wire r).length) 0) hl hh
  rw [← this]
  simp [wire]

end helpers

/-! ## 1. Controller level -/

/-- **C17 at `GET /form-get-method`** — for every field map accepted by `fieldsOk` (any version,
    headers and body of the request, either controller chain): the chain answers `200` with ONE
    `text/plain` part whose body is made of exactly the lines `name is value CRLF` of the fields of
    `m`, each once; nothing is read from the tree. -/
theorem C17_echo_get (ctx : Ctx) (legacy : Bool) (version : Bytes) (hs : List Header) (body : Bytes)
    (m : List (Bytes × Bytes)) (h : fieldsOk m) :
    ∃ a part, Controllers.execute ctx (getRequest m version hs body) legacy = .ok a ∧
      a.response.status = 200 ∧ a.response.parts = [part] ∧ part.contentType = ascii "text/plain" ∧
      a.reads = [] ∧ EchoOf m part.body := by
  obtain ⟨hl, he⟩ := C17EchoLemmas.execute_get ctx legacy version hs body m h
  refine ⟨C17EchoLemmas.echoAnswer hl (mapOfList m), plainPart (echoLines crlf (mapOfList m)),
    ?_, rfl, rfl, textPlain_eq, rfl, echoOf_canonical m h⟩
  rw [getRequest, getUri_eq, get_eq]
  exact he

/-- **C17 at `POST /form-url-encoded-enctype-post-method`** — for every field map accepted by
    `fieldsOk` and `bodyOk` whose fields are text, sent as `FormUrlEncoded::generate(m)` (followed by
    any number of zero bytes) with the url-encoded Content-Type: `200`, ONE `text/plain` part made of
    exactly the lines of the fields of `m`, each once. -/
theorem C17_echo_post (ctx : Ctx) (legacy : Bool) (version : Bytes) (hs : List Header) (pad : Nat)
    (m : List (Bytes × Bytes)) (h : fieldsOk m) (hb : bodyOk m) (hu : textUtf8 m)
    (hct : sendsFormType hs = true) :
    ∃ a part, Controllers.execute ctx (postRequest m version hs pad) legacy = .ok a ∧
      a.response.status = 200 ∧ a.response.parts = [part] ∧ part.contentType = ascii "text/plain" ∧
      a.reads = [] ∧ EchoOf m part.body := by
  obtain ⟨hl, he⟩ := C17EchoLemmas.execute_post ctx legacy version hs pad m h hb hu (matches_of_sends _ _ _ hct)
  refine ⟨C17EchoLemmas.echoAnswer hl (mapOfList m), plainPart (echoLines crlf (mapOfList m)),
    ?_, rfl, rfl, textPlain_eq, rfl, echoOf_canonical m h⟩
  rw [postRequest, postPath_eq, post_eq, FormUrlEncoded.generate]
  exact he

/-! ### what `EchoOf` says: no field dropped, none added -/

/-- as many lines as fields; every field has its line; every line is a field's -/
theorem C17_echo_count (m : List (Bytes × Bytes)) (body : Bytes) (h : EchoOf m body) :
    ∃ lines : List Bytes, body = lines.flatten ∧ lines.length = m.length ∧
      (∀ kv ∈ m, echoLine kv ∈ lines) ∧ (∀ l ∈ lines, ∃ kv ∈ m, l = echoLine kv) := by
  obtain ⟨lines, hp, rfl⟩ := h
  refine ⟨lines, rfl, by simpa using hp.length_eq, ?_, ?_⟩
  · intro kv hkv
    exact hp.symm.subset (List.mem_map_of_mem hkv)
  · intro l hl
    obtain ⟨kv, hkv, rfl⟩ := List.mem_map.mp (hp.subset hl)
    exact ⟨kv, hkv, rfl⟩

/-- the line of every field occurs in the body as a contiguous block -/
theorem C17_echo_infix (m : List (Bytes × Bytes)) (body : Bytes) (h : EchoOf m body) :
    ∀ kv ∈ m, echoLine kv <:+: body := by
  intro kv hkv
  obtain ⟨lines, hp, rfl⟩ := h
  have hm : echoLine kv ∈ lines := hp.symm.subset (List.mem_map_of_mem hkv)
  obtain ⟨a, b, rfl⟩ := List.append_of_mem hm
  exact ⟨a.flatten, b.flatten, by simp⟩

/-- the size of the body: per field, the name, the value and the six bytes of ` is ` and CRLF -/
theorem C17_echo_length (m : List (Bytes × Bytes)) (body : Bytes) (h : EchoOf m body) :
    body.length = (m.map (fun kv => kv.1.length + kv.2.length + 6)).sum := by
  obtain ⟨lines, hp, rfl⟩ := h
  have e1 : (ascii " is ").length = 4 := by decide
  have e2 : (ascii "\r\n").length = 2 := by decide
  have hl : ∀ kv : Bytes × Bytes, (echoLine kv).length = kv.1.length + kv.2.length + 6 := by
    intro kv; simp [echoLine, e1, e2]; omega
  rw [List.length_flatten, (hp.map List.length).sum_nat, List.map_map]
  congr 1
  apply List.map_congr_left
  intro kv _
  exact hl kv

/-! ## 2. Server level: the bytes the client receives

  One connection: the client sends the request in wire format (`wire`), the whole of it is
  delivered by the one `read` the server makes, and it fits the read buffer (`hlen`: the request is
  not longer than the allocation — a longer one is cut, see C04/C09); the transport accepts
  everything.  Then the server writes ONE buffer = what the client receives = one complete
  `200 OK` answer whose `text/plain` body is made of exactly the lines of the fields; the result
  is `Ok`, one flush, nothing read from the tree.  The unused part of the buffer (zero bytes) lands
  in the parsed body: harmless for GET (body ignored), removed by the body parser for POST. -/

section helpers
open Rws.C17EchoLemmas

private theorem getRequest_eq (m : List (Bytes × Bytes)) (version : Bytes) (hs : List Header) (body : Bytes) :
    getRequest m version hs body = ⟨methodGet, getUri (buildQuery m), version, hs, body⟩ := by
  rw [getRequest, getUri_eq, get_eq]

private theorem postRequest_eq (m : List (Bytes × Bytes)) (version : Bytes) (hs : List Header) (pad : Nat) :
    postRequest m version hs pad = ⟨methodPost, formUrlencPath, version, hs, buildQuery m ++ List.replicate pad 0⟩ := by
  rw [postRequest, postPath_eq, post_eq, FormUrlEncoded.generate]

private theorem isEcho (hl : List Header) (form : List (Bytes × Bytes)) (q : Request)
    (h1 : q.method ≠ [72, 69, 65, 68]) (h2 : q.method ≠ [79, 80, 84, 73, 79, 78, 83]) :
    IsEchoResponse (Resp.generateResponse (echoAnswer hl form).response q) (echoLines crlf form) :=
  ⟨hl, by rw [raw_echo hl form q h1 h2, framing_eq]⟩

/-- both entry points, for a request `r` that is parsed back as `r'` and answered by the echo controller -/
private theorem served (ctx : Ctx) (alloc : Nat) (d : Bytes) (r' : Request) (m : List (Bytes × Bytes))
    (h : fieldsOk m) (hp : Req.parse (fillBuffer alloc d) = .ok r') (ho : isOriginForm r' = true)
    (h1 : r'.method ≠ [72, 69, 65, 68]) (h2 : r'.method ≠ [79, 80, 84, 73, 79, 78, 83])
    (he : ∀ legacy, ∃ hl, Controllers.execute ctx r' legacy = .ok (echoAnswer hl (mapOfList m))) :
    (∃ raw echoed, Server.process ctx .real alloc (.data d) [] true = .ok ⟨.ok, ⟨[raw], raw, 1⟩, []⟩ ∧
      IsEchoResponse raw echoed ∧ EchoOf m echoed) ∧
    (∃ raw echoed, Server.processRequest ctx alloc (.data d) [] true = .ok (raw, ⟨[raw], raw, 1⟩, []) ∧
      IsEchoResponse raw echoed ∧ EchoOf m echoed) := by
  constructor
  · obtain ⟨hl, hex⟩ := he false
    exact ⟨_, _, process_ok ctx alloc d r' _ hp ho hex, isEcho hl _ r' h1 h2, echoOf_canonical m h⟩
  · obtain ⟨hl, hex⟩ := he true
    exact ⟨_, _, processRequest_ok ctx alloc d r' _ hp ho hex, isEcho hl _ r' h1 h2, echoOf_canonical m h⟩

private theorem served_get (ctx : Ctx) (alloc : Nat) (version : Bytes) (hs : List Header) (body : Bytes)
    (m : List (Bytes × Bytes)) (h : fieldsOk m) (hu : textUtf8 m) (hh : headOk version hs = true)
    (hlen : (wire (getRequest m version hs body)).length ≤ alloc) :
    (∃ raw echoed, Server.process ctx .real alloc (.data (wire (getRequest m version hs body))) [] true
        = .ok ⟨.ok, ⟨[raw], raw, 1⟩, []⟩ ∧ IsEchoResponse raw echoed ∧ EchoOf m echoed) ∧
    (∃ raw echoed, Server.processRequest ctx alloc (.data (wire (getRequest m version hs body))) [] true
        = .ok (raw, ⟨[raw], raw, 1⟩, []) ∧ IsEchoResponse raw echoed ∧ EchoOf m echoed) := by
  simp only [headOk, Bool.and_eq_true] at hh
  have hp := parse_fill (getRequest m version hs body) alloc (wfLine_get m version hu hh.1) hh.2 hlen
  generalize alloc - (wire (getRequest m version hs body)).length = k at hp
  have e : ({ getRequest m version hs body with body := (getRequest m version hs body).body ++ List.replicate k 0 } : Request)
      = ⟨methodGet, getUri (buildQuery m), version, hs, body ++ List.replicate k 0⟩ := by
    rw [getRequest_eq]
  rw [e] at hp
  refine served ctx alloc _ _ m h hp ?_ (show methodGet ≠ _ by decide) (show methodGet ≠ _ by decide) (fun legacy => execute_get ctx legacy _ _ _ m h)
  simp [isOriginForm, getUri, formGetPath]

private theorem served_post (ctx : Ctx) (alloc : Nat) (version : Bytes) (hs : List Header)
    (m : List (Bytes × Bytes)) (h : fieldsOk m) (hb : bodyOk m) (hu : textUtf8 m) (hh : headOk version hs = true)
    (hct : sendsFormType hs = true) (hlen : (wire (postRequest m version hs 0)).length ≤ alloc) :
    (∃ raw echoed, Server.process ctx .real alloc (.data (wire (postRequest m version hs 0))) [] true
        = .ok ⟨.ok, ⟨[raw], raw, 1⟩, []⟩ ∧ IsEchoResponse raw echoed ∧ EchoOf m echoed) ∧
    (∃ raw echoed, Server.processRequest ctx alloc (.data (wire (postRequest m version hs 0))) [] true
        = .ok (raw, ⟨[raw], raw, 1⟩, []) ∧ IsEchoResponse raw echoed ∧ EchoOf m echoed) := by
  simp only [headOk, Bool.and_eq_true] at hh
  have hp := parse_fill (postRequest m version hs 0) alloc (wfLine_post version hh.1) hh.2 hlen
  generalize alloc - (wire (postRequest m version hs 0)).length = k at hp
  have e : ({ postRequest m version hs 0 with body := (postRequest m version hs 0).body ++ List.replicate k 0 } : Request)
      = ⟨methodPost, formUrlencPath, version, hs, buildQuery m ++ List.replicate k 0⟩ := by
    rw [postRequest_eq]; simp
  rw [e] at hp
  refine served ctx alloc _ _ m h hp ?_ (show methodPost ≠ _ by decide) (show methodPost ≠ _ by decide)
    (fun legacy => execute_post ctx legacy _ _ k m h hb hu (matches_of_sends _ _ _ hct))
  simp [isOriginForm, formUrlencPath]

end helpers

/-- **C17 through `Server::process`, GET** — the client that sends
    `GET /form-get-method?<build_query(m)> VERSION CRLF headers CRLF body` receives one complete
    `200 OK` answer whose body is made of exactly the lines `name is value CRLF` of the fields of `m`. -/
theorem C17_echo_server_get (ctx : Ctx) (alloc : Nat) (version : Bytes) (hs : List Header) (body : Bytes)
    (m : List (Bytes × Bytes)) (h : fieldsOk m) (hu : textUtf8 m) (hh : headOk version hs = true)
    (hlen : (wire (getRequest m version hs body)).length ≤ alloc) :
    ∃ raw echoed, Server.process ctx .real alloc (.data (wire (getRequest m version hs body))) [] true
        = .ok ⟨.ok, ⟨[raw], raw, 1⟩, []⟩ ∧ IsEchoResponse raw echoed ∧ EchoOf m echoed :=
  (served_get ctx alloc version hs body m h hu hh hlen).1

/-- **C17 through `Server::process`, POST** — the client that sends
    `POST /form-url-encoded-enctype-post-method` with the url-encoded Content-Type and the body
    `FormUrlEncoded::generate(m)` receives one complete `200 OK` answer made of exactly the lines of
    the fields of `m`. -/
theorem C17_echo_server_post (ctx : Ctx) (alloc : Nat) (version : Bytes) (hs : List Header)
    (m : List (Bytes × Bytes)) (h : fieldsOk m) (hb : bodyOk m) (hu : textUtf8 m) (hh : headOk version hs = true)
    (hct : sendsFormType hs = true) (hlen : (wire (postRequest m version hs 0)).length ≤ alloc) :
    ∃ raw echoed, Server.process ctx .real alloc (.data (wire (postRequest m version hs 0))) [] true
        = .ok ⟨.ok, ⟨[raw], raw, 1⟩, []⟩ ∧ IsEchoResponse raw echoed ∧ EchoOf m echoed :=
  (served_post ctx alloc version hs m h hb hu hh hct hlen).1

/-- **C17 at the echo endpoints through `Server::process`** — both endpoints in one statement -/
theorem C17_echo_server (ctx : Ctx) (alloc : Nat) (version : Bytes) (hs : List Header)
    (m : List (Bytes × Bytes)) (h : fieldsOk m) (hu : textUtf8 m) (hh : headOk version hs = true) :
    (∀ body, (wire (getRequest m version hs body)).length ≤ alloc →
      ∃ raw echoed, Server.process ctx .real alloc (.data (wire (getRequest m version hs body))) [] true
        = .ok ⟨.ok, ⟨[raw], raw, 1⟩, []⟩ ∧ IsEchoResponse raw echoed ∧ EchoOf m echoed) ∧
    (bodyOk m → sendsFormType hs = true → (wire (postRequest m version hs 0)).length ≤ alloc →
      ∃ raw echoed, Server.process ctx .real alloc (.data (wire (postRequest m version hs 0))) [] true
        = .ok ⟨.ok, ⟨[raw], raw, 1⟩, []⟩ ∧ IsEchoResponse raw echoed ∧ EchoOf m echoed) :=
  ⟨fun body hlen => C17_echo_server_get ctx alloc version hs body m h hu hh hlen,
   fun hb hct hlen => C17_echo_server_post ctx alloc version hs m h hb hu hh hct hlen⟩

/-- the same for the legacy entry point `Server::process_request` (legacy controller chain): the
    bytes it returns are the bytes written -/
theorem C17_echo_server_legacy_get (ctx : Ctx) (alloc : Nat) (version : Bytes) (hs : List Header) (body : Bytes)
    (m : List (Bytes × Bytes)) (h : fieldsOk m) (hu : textUtf8 m) (hh : headOk version hs = true)
    (hlen : (wire (getRequest m version hs body)).length ≤ alloc) :
    ∃ raw echoed, Server.processRequest ctx alloc (.data (wire (getRequest m version hs body))) [] true
        = .ok (raw, ⟨[raw], raw, 1⟩, []) ∧ IsEchoResponse raw echoed ∧ EchoOf m echoed :=
  (served_get ctx alloc version hs body m h hu hh hlen).2

theorem C17_echo_server_legacy_post (ctx : Ctx) (alloc : Nat) (version : Bytes) (hs : List Header)
    (m : List (Bytes × Bytes)) (h : fieldsOk m) (hb : bodyOk m) (hu : textUtf8 m) (hh : headOk version hs = true)
    (hct : sendsFormType hs = true) (hlen : (wire (postRequest m version hs 0)).length ≤ alloc) :
    ∃ raw echoed, Server.processRequest ctx alloc (.data (wire (postRequest m version hs 0))) [] true
        = .ok (raw, ⟨[raw], raw, 1⟩, []) ∧ IsEchoResponse raw echoed ∧ EchoOf m echoed :=
  (served_post ctx alloc version hs m h hb hu hh hct hlen).2

/-! ## 3. Non-vacuity: the hypotheses hold for concrete field maps, and the model computes the
    conclusions on them (independent check by evaluation, `decide +kernel`) -/

/-- names that differ only in letter case: `{Name: 1, name: 2, NAME: 3}` -/
def caseMap : List (Bytes × Bytes) := [(ascii "Name", ascii "1"), (ascii "name", ascii "2"), (ascii "NAME", ascii "3")]
/-- a name with a blank, a value with the reserved characters: `{"a b": "& = % + ? # /"}` -/
def reservedMap : List (Bytes × Bytes) := [(ascii "a b", ascii "& = % + ? # /")]
/-- multi-byte names and values: `{"é😀": "ü", "日本": "%41 %zz"}` -/
def utfMap : List (Bytes × Bytes) :=
  [([195, 169, 240, 159, 152, 128], [195, 188]), ([230, 151, 165, 230, 156, 172], ascii "%41 %zz")]

example : fieldsOk caseMap ∧ bodyOk caseMap ∧ textUtf8 caseMap := by decide +kernel
example : fieldsOk reservedMap ∧ bodyOk reservedMap ∧ textUtf8 reservedMap := by decide +kernel
example : fieldsOk utfMap ∧ bodyOk utfMap ∧ textUtf8 utfMap := by decide +kernel
example : fieldsOk (caseMap ++ reservedMap ++ utfMap) ∧ bodyOk (caseMap ++ reservedMap ++ utfMap) ∧
    textUtf8 (caseMap ++ reservedMap ++ utfMap) := by decide +kernel

/-- request headers as a browser sends them (names and media type in odd letter case) -/
def exHeaders : List Header :=
  [⟨ascii "Host", ascii "localhost:7878"⟩, ⟨ascii "content-TYPE", ascii "Application/X-WWW-Form-Urlencoded"⟩,
   ⟨ascii "Content-Type", ascii "text/plain"⟩]
def v11 : Bytes := ascii "HTTP/1.1"

example : sendsFormType exHeaders = true ∧ headOk v11 exHeaders = true := by decide +kernel
example : sendsFormType [⟨ascii "Content-Type", ascii "text/plain"⟩] = false := by decide +kernel
example : (wire (getRequest (caseMap ++ reservedMap ++ utfMap) v11 exHeaders [])).length ≤ 10000 ∧
    (wire (postRequest (caseMap ++ reservedMap ++ utfMap) v11 exHeaders 0)).length ≤ 10000 := by decide +kernel

/-- the three names that differ only in case stay three fields — from the theorem, for every
    context, version, header list and body -/
example (ctx : Ctx) (version : Bytes) (hs : List Header) (body : Bytes) :
    ∃ a part, ∃ lines : List Bytes, Controllers.execute ctx (getRequest caseMap version hs body) false = .ok a ∧
      a.response.parts = [part] ∧ part.body = lines.flatten ∧ lines.length = 3 ∧
      ascii "Name is 1\r\n" ∈ lines ∧ ascii "name is 2\r\n" ∈ lines ∧ ascii "NAME is 3\r\n" ∈ lines := by
  obtain ⟨a, part, he, -, hparts, -, -, hecho⟩ :=
    C17_echo_get ctx false version hs body caseMap (by decide +kernel)
  obtain ⟨lines, hb, hlen, hmem, -⟩ := C17_echo_count caseMap part.body hecho
  have e1 : echoLine (ascii "Name", ascii "1") = ascii "Name is 1\r\n" := by decide
  have e2 : echoLine (ascii "name", ascii "2") = ascii "name is 2\r\n" := by decide
  have e3 : echoLine (ascii "NAME", ascii "3") = ascii "NAME is 3\r\n" := by decide
  exact ⟨a, part, lines, he, hparts, hb, hlen, e1 ▸ hmem (ascii "Name", ascii "1") (by simp [caseMap]),
    e2 ▸ hmem (ascii "name", ascii "2") (by simp [caseMap]), e3 ▸ hmem (ascii "NAME", ascii "3") (by simp [caseMap])⟩

/-- status and part bodies of an answer -/
def answerView (r : Outcome Answer) : Option (Int × List Bytes) :=
  match r with
  | .ok a => some (a.response.status, a.response.parts.map (·.body))
  | _ => none

/-- … and by evaluation of the model (in the model's order, key order), both endpoints -/
example : answerView (Controllers.execute C04.exCtx (getRequest caseMap v11 [] []) false)
    = some (200, [ascii "NAME is 3\r\nName is 1\r\nname is 2\r\n"]) := by decide +kernel
example : answerView (Controllers.execute C04.exCtx (postRequest caseMap v11 exHeaders 7) false)
    = some (200, [ascii "NAME is 3\r\nName is 1\r\nname is 2\r\n"]) := by decide +kernel
example : answerView (Controllers.execute C04.exCtx (getRequest reservedMap v11 [] []) true)
    = some (200, [ascii "a b is & = % + ? # /\r\n"]) := by decide +kernel
example : answerView (Controllers.execute C04.exCtx (postRequest reservedMap v11 exHeaders 0) false)
    = some (200, [ascii "a b is & = % + ? # /\r\n"]) := by decide +kernel
example : answerView (Controllers.execute C04.exCtx (postRequest utfMap v11 exHeaders 0) false)
    = some (200, [[195, 169, 240, 159, 152, 128] ++ ascii " is " ++ [195, 188] ++ ascii "\r\n" ++
                  [230, 151, 165, 230, 156, 172] ++ ascii " is %41 %zz\r\n"]) := by decide +kernel

/-- result, number of write buffers, flushes, first 15 and last `n` bytes received -/
def wireView (n : Nat) (r : Outcome Outcome2) : Option (Res × Nat × Nat × Bytes × Bytes) :=
  match r with
  | .ok o => some (o.result, o.wire.writes.length, o.wire.flushes, o.wire.received.take 15,
                   o.wire.received.drop (o.wire.received.length - n))
  | _ => none

/-- through `Server::process`, buffer larger than the request: the end of what the client receives -/
example : wireView 33 (Server.process C04.exCtx .real 400 (.data (wire (getRequest caseMap v11 exHeaders []))) [] true)
    = some (.ok, 1, 1, ascii "HTTP/1.1 200 OK", ascii "NAME is 3\r\nName is 1\r\nname is 2\r\n") := by
  decide +kernel
example : wireView 22 (Server.process C04.exCtx .real 400 (.data (wire (postRequest reservedMap v11 exHeaders 0))) [] true)
    = some (.ok, 1, 1, ascii "HTTP/1.1 200 OK", ascii "a b is & = % + ? # /\r\n") := by
  decide +kernel

/-! ### the hypotheses are needed -/

/-- **F27 at the endpoint** (open finding, dependency crate): a value holding the literal text `%26`
    is echoed as `&` — `fieldsOk` excludes exactly this -/
theorem C17_echo_violated_F27 :
    fieldsOk [(ascii "a", ascii "%26")] = false ∧
    answerView (Controllers.execute C04.exCtx (getRequest [(ascii "a", ascii "%26")] v11 [] []) false)
      = some (200, [ascii "a is &\r\n"]) := by
  constructor <;> decide +kernel

/-- `bodyOk` (POST only): the body parser deletes raw control characters, which the encoder does not
    escape — the value `"\x01x"` comes back as `"x"` from the POST endpoint and intact from GET -/
example : bodyOk [(ascii "a", [1, 120])] = false ∧
    answerView (Controllers.execute C04.exCtx (postRequest [(ascii "a", [1, 120])] v11 exHeaders 0) false)
      = some (200, [ascii "a is x\r\n"]) ∧
    answerView (Controllers.execute C04.exCtx (getRequest [(ascii "a", [1, 120])] v11 [] []) false)
      = some (200, [ascii "a is " ++ [1, 120] ++ ascii "\r\n"]) := by
  refine ⟨?_, ?_, ?_⟩ <;> decide +kernel

/-- `hlen`: a request longer than the read buffer is cut (the fixed-size single `read`, see C04/C09).
    The POST request below is 172 bytes; with a buffer of 165 the last seven bytes `&NAME=3` of the
    body never reach the parser and the answer — still `200 OK` — holds two lines only -/
example : (wire (postRequest caseMap v11 exHeaders 0)).length = 172 ∧
    wireView 22 (Server.process C04.exCtx .real 165 (.data (wire (postRequest caseMap v11 exHeaders 0))) [] true)
      = some (.ok, 1, 1, ascii "HTTP/1.1 200 OK", ascii "Name is 1\r\nname is 2\r\n") := by
  constructor <;> decide +kernel

end Rws.C17Echo
