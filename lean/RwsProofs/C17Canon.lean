/-
  C17 — consequences of the query round trip of RwsProofs/C17.lean for whole maps: what is read
  back does not depend on the order in which the fields were submitted, `build_query` separates
  maps (two acceptable maps with the same query text are the same map up to order), the map read
  back is itself acceptable, and building and reading it again returns it unchanged (a fixed
  point after one round).  All under exactly the hypothesis of C17 (`fieldsOk`: keys non-empty and
  distinct, no field holds the F27 trigger).
-/
import RwsProofs.C17
namespace Rws.C17Canon
open Rws Rws.Query Rws.QueryLemmas Rws.UrlParse Rws.C17

/-- two submissions of the same fields in different orders read back as the same map -/
theorem C17_order_irrelevant (m l₁ l₂ : List (Bytes × Bytes)) (h₁ : l₁.Perm m) (h₂ : l₂.Perm m)
    (h : fieldsOk m) :
    parseQuery (joinAmp (l₁.map piece)) = parseQuery (joinAmp (l₂.map piece)) := by
  rw [C17_query_any_order m l₁ h₁ h, C17_query_any_order m l₂ h₂ h]

/-- acceptable fields stay acceptable in any order -/
theorem fieldsOk_perm {m m' : List (Bytes × Bytes)} (hp : m'.Perm m) (h : fieldsOk m) : fieldsOk m' := by
  obtain ⟨hne, hnd, hs⟩ := h
  refine ⟨fun kv hkv => hne kv (hp.subset hkv), ?_, fun kv hkv => hs kv (hp.subset hkv)⟩
  exact (hp.map (·.1)).nodup_iff.mpr hnd

/-- the map read back holds exactly the submitted fields, and is acceptable again -/
theorem C17_readback_ok (m : List (Bytes × Bytes)) (h : fieldsOk m) :
    parseQuery (buildQuery m) = mapOfList m ∧ (mapOfList m).Perm m ∧ fieldsOk (mapOfList m) := by
  have hc := (C17_canonical m h.2.1).1
  exact ⟨C17_query m h, hc, fieldsOk_perm hc h⟩

/-- `build_query` separates acceptable maps: the same text means the same fields -/
theorem C17_build_injective (m m' : List (Bytes × Bytes)) (h : fieldsOk m) (h' : fieldsOk m')
    (he : buildQuery m = buildQuery m') : m.Perm m' := by
  have h1 := C17_query m h
  have h2 := C17_query m' h'
  rw [he, h2] at h1
  have p := (C17_canonical m h.2.1).1
  have p' := (C17_canonical m' h'.2.1).1
  exact p.symm.trans (h1 ▸ p')

/-- one round reaches a fixed point: reading back, building again and reading again changes nothing -/
theorem C17_second_round (m : List (Bytes × Bytes)) (h : fieldsOk m) :
    parseQuery (buildQuery (mapOfList m)) = mapOfList (mapOfList m) ∧
    (mapOfList (mapOfList m)).Perm m := by
  obtain ⟨_, hp, hok⟩ := C17_readback_ok m h
  exact ⟨C17_query _ hok, ((C17_canonical _ hok.2.1).1).trans hp⟩

example : fieldsOk exampleMap := by decide +kernel

end Rws.C17Canon
