/-
  C04 — every connection is answered; no input can crash the server.

  Property theorems only (helper lemmas: RwsProofs/Lemmas/NoPanic.lean, one `…_ok` lemma per
  model function that has a `.panic` constructor or calls one).  Model: `Server.process` /
  `Server.processRequest` (Rws/Server.lean) over the controller chains, the file-system model
  and the scripted transport — the tree with the fixes F2a, F3–F10 and F41 applied.

  Quantification: ALL trees / environments / clocks / error texts / request bytes / buffer
  sizes / handlers (`App.real | fails | okEmpty`) / transport scripts / flush outcomes.
  The only hypothesis is `FilesSmall ctx.tree`: no regular file of `u64::MAX` bytes or more
  (physically vacuous; sharp for the model: `C04_files_small_sharp`).

  * `C04_no_panic`, `C04_no_panic_legacy`: no `panic` outcome (DESIGN.md 6/C04, full statement).
  * `C04_answered`: the outcome is always `ok` (never a return before `write_all`), the bytes
    handed to the transport are ONE complete response `raw` (`IsResponse status raw`), the peer
    receives a prefix of it, `flush` is called at most once, `result = ok` only when the
    request was not refused, everything was delivered and the flush succeeded.
  * `C04_one_response`: on a transport that accepts everything: exactly one `write` buffer =
    what the peer received = one complete response; one flush; `Ok` iff not refused.
  * `C04_legacy_response`: the legacy entry point returns the bytes of one complete response.
  * `C04_error_status` (no hypothesis at all): read error / unparsable request / target not in
    origin form / failing handler ⇒ ONE complete `400 Bad Request`, `result = err`, nothing
    read from the tree.
  * `C04_depth` (remark) and `C04_header_loop_linear`: `Req.parse` is structural recursion
    over the list of lines (F10); every line is consumed at most once.
  * Regression of F41 (a relative link target that climbs above `/` used to panic at
    `range/mod.rs:299`): the old witness now evaluates to a complete `500` answer.
-/
import RwsProofs.Lemmas.NoPanic
namespace Rws.C04
open Rws Rws.Fs Rws.Static Rws.Server Rws.Transport

/-! ## The specification -/

def ascii (s : String) : Bytes := s.toList.map (fun c => UInt8.ofNat c.toNat)

/-- every regular file of the tree is shorter than `u64::MAX` bytes -/
def FilesSmall (t : Tree) : Bool :=
  t.entries.all fun p => match p.2 with
    | .file c => decide (c.length < 18446744073709551615)
    | _ => true

/-- the status codes the server answers with, and their reason phrases (typed in) -/
def statuses : List Nat := [200, 204, 206, 400, 403, 404, 416, 500, 501]

def reasonPhrase (status : Nat) : Bytes :=
  if status = 200 then ascii "OK"
  else if status = 204 then ascii "No Content"
  else if status = 206 then ascii "Partial Content"
  else if status = 400 then ascii "Bad Request"
  else if status = 403 then ascii "Forbidden"
  else if status = 404 then ascii "Not Found"
  else if status = 416 then ascii "Range Not Satisfiable"
  else if status = 500 then ascii "Internal Server Error"
  else if status = 501 then ascii "Not Implemented"
  else []

/-- `name: value CRLF` per header -/
def headerLines (hs : List Header) : Bytes :=
  hs.flatMap fun h => h.name ++ [58, 32] ++ h.value ++ [13, 10]

/-- `raw` is one complete HTTP/1.1 response with status `status`: status line, header lines,
    blank line, body -/
def IsResponse (status : Nat) (raw : Bytes) : Prop :=
  status ∈ statuses ∧ ∃ hs body,
    raw = ascii "HTTP/1.1 " ++ natToDec status ++ [32] ++ reasonPhrase status ++ [13, 10] ++
          headerLines hs ++ [13, 10] ++ body

/-- the server turns the connection down: the read failed, the buffer does not parse, the
    target is not in origin form (does not start with `/`), or the handler reports an error -/
def Refused (app : App) (alloc : Nat) (read : ReadScript) : Prop :=
  read = .error ∨
  ∃ d, read = .data d ∧
    (Req.parse (fillBuffer alloc d) = .err ∨
     ∃ req, Req.parse (fillBuffer alloc d) = .ok req ∧ (req.uri.head? ≠ some 47 ∨ app = .fails))

/-! ## helpers -/
section helpers
open Rws.NoPanic

private theorem filesSmall_of {t : Tree} (h : FilesSmall t = true) : FilesSmallP t := by
  intro l c hm
  have := List.all_eq_true.mp h _ hm
  simpa using this

private theorem reason_eq : ∀ s ∈ statuses, Controllers.reasonOf ((s : Nat) : Int) = reasonPhrase s := by
  decide +kernel

private theorem http11_eq : Controllers.http11 ++ [32] = ascii "HTTP/1.1 " := by decide +kernel

private theorem known_iff (s : Nat) : knownStatus s ↔ s ∈ statuses := Iff.rfl

private theorem isResponse_of (version reason : Bytes) (status : Int) (hs : List Header) (parts : List ContentRange)
    (q : Request) (s : Nat) (hv : version = Controllers.http11) (hk : s ∈ statuses) (hst : status = (s : Int))
    (hr : reason = Controllers.reasonOf (s : Int)) :
    IsResponse s (Resp.generateResponse ⟨version, status, reason, hs, parts⟩ q) := by
  obtain ⟨body, hb⟩ := generateResponse_shape ⟨version, status, reason, hs, parts⟩ q
  refine ⟨hk, hs ++ Resp.framingHeaders parts, body, ?_⟩
  rw [hb]
  simp only [hv, hst, hr, intToDec_nat, reason_eq s hk, ← http11_eq, headerLines]

private theorem isResponse_answer (a : Controllers.Answer) (q : Request) (h : Answer.good a) :
    ∃ s, IsResponse s (Resp.generateResponse a.response q) := by
  obtain ⟨hv, s, hk, hst, hr⟩ := h
  exact ⟨s, isResponse_of _ _ _ _ _ q s hv hk hst hr⟩

private theorem isResponse_400 (ctx : Ctx) (hs : List Header) (m : Bytes) :
    IsResponse 400 (Resp.generateResponse (resp400 ctx hs) (req400 m)) :=
  isResponse_of _ _ _ _ _ _ 400 rfl (by decide) rfl rfl

private theorem rejected_iff (app : App) (alloc : Nat) (read : ReadScript) :
    Rejected app alloc read ↔ Refused app alloc read := by
  cases read with
  | error => simp [Rejected, Refused]
  | data d =>
    simp only [Rejected, Refused, reduceCtorEq, false_or, ReadScript.data.injEq, exists_eq_left']
    rcases C14.C14_parse_total (fillBuffer alloc d) with hp | ⟨req, hp⟩
    · simp [hp]
    · simp [hp, isOriginForm]

/-- the summary of `process_shape` in terms of the specification -/
private theorem summary (ctx : Ctx) (app : App) (alloc : Nat) (read : ReadScript) (script : List WCall)
    (flushOk : Bool) (hf : FilesSmall ctx.tree = true) :
    ∃ (status : Nat) (raw : Bytes) (reads : List Loc) (accepted : Bool),
      IsResponse status raw ∧
      (accepted = false ↔ Refused app alloc read) ∧
      (accepted = false → status = 400 ∧ reads = []) ∧
      Server.process ctx app alloc read script flushOk
        = .ok ⟨if accepted && (send raw script flushOk).wrote && (send raw script flushOk).flushed then .ok else .err,
               (send raw script flushOk).wire, reads⟩ := by
  rcases process_shape ctx app alloc read script flushOk (filesSmall_of hf) with
    ⟨hrej, hs, m, hp⟩ | ⟨hrej, d, req, a, _, _, _, hg, hp⟩
  · exact ⟨400, _, [], false, isResponse_400 ctx hs m, by simp [← rejected_iff, hrej], by simp, by simp [hp]⟩
  · obtain ⟨s, hs⟩ := isResponse_answer a req hg
    exact ⟨s, _, a.reads, true, hs, by simp [← rejected_iff, hrej], by simp, by simp [hp]⟩

end helpers

/-! ## C04_no_panic — the main theorem -/

/-- `Server::process` never panics: whatever the tree (no file of `u64::MAX` bytes), the
    environment, the clock, the error texts, the bytes read (or a read error), the buffer size,
    the handler and the behaviour of the transport. -/
theorem C04_no_panic (ctx : Ctx) (app : App) (alloc : Nat) (read : ReadScript) (script : List WCall)
    (flushOk : Bool) (hf : FilesSmall ctx.tree = true) (site : String) :
    Server.process ctx app alloc read script flushOk ≠ .panic site := by
  obtain ⟨_, _, _, _, _, _, _, h⟩ := summary ctx app alloc read script flushOk hf
  rw [h]; simp

/-- the same for the legacy entry point `Server::process_request` -/
theorem C04_no_panic_legacy (ctx : Ctx) (alloc : Nat) (read : ReadScript) (script : List WCall)
    (flushOk : Bool) (hf : FilesSmall ctx.tree = true) (site : String) :
    Server.processRequest ctx alloc read script flushOk ≠ .panic site := by
  rcases NoPanic.processRequest_shape ctx alloc read script flushOk (filesSmall_of hf) with
    ⟨_, _, _, h⟩ | ⟨_, _, _, _, _, _, _, _, h⟩ <;> (rw [h]; simp)

/-- the legacy entry point returns the bytes of one complete response, whatever the transport did -/
theorem C04_legacy_response (ctx : Ctx) (alloc : Nat) (read : ReadScript) (script : List WCall)
    (flushOk : Bool) (hf : FilesSmall ctx.tree = true) :
    ∃ status raw wire reads, Server.processRequest ctx alloc read script flushOk = .ok (raw, wire, reads) ∧
      IsResponse status raw ∧ wire.received <+: raw ∧ (Refused .real alloc read → status = 400) := by
  rcases NoPanic.processRequest_shape ctx alloc read script flushOk (filesSmall_of hf) with
    ⟨_, hs, m, h⟩ | ⟨hrej, _, req, a, _, _, _, hg, h⟩
  · exact ⟨400, _, _, _, h, isResponse_400 ctx hs m, NoPanic.send_received_prefix _ _ _, fun _ => rfl⟩
  · obtain ⟨s, hs⟩ := isResponse_answer a req hg
    exact ⟨s, _, _, _, h, hs, NoPanic.send_received_prefix _ _ _,
      fun hr => absurd ((rejected_iff _ _ _).mpr hr) hrej⟩

/-- the hypothesis is sharp for the model: the one overflow site left on the path,
    `(end - start) + 1` in file-ext `read_file_partially`, IS reached by the whole-file range
    `0-L` of a file of `L ≥ u64::MAX` bytes (no such file exists) — and by no shorter one
    (`C04_no_panic`). -/
theorem C04_files_small_sharp (f : Bytes) (L : Nat) (h : 18446744073709551615 ≤ L) :
    RangeM.readFilePartially f 0 L = .panic "file-ext-12.1.0/file_ext_impl/mod.rs:48" := by
  unfold RangeM.readFilePartially
  rw [if_neg (by omega), if_pos (by omega)]

/-! ### Regression of F41: a relative link target that climbs above `/`

  `FileExt::resolve_symlink_path(dir, target)` (file-ext 12.1.0) walks the `..` components of a
  relative link target up from the link's directory TEXTUALLY and returns `Err` when it is
  asked to go up from the empty directory text, although Linux resolves such a link (`..` at
  `/` stays at `/`).  `Range::get_content_range_list` used to `unwrap` that result
  (`range/mod.rs:299`: panic, nothing written to the connection); after that repair it answered 500;
  since F75 the link is followed by the operating system and the file is served.

  Old witness: working directory `/w`, `/w/l -> ../../x`, regular file `/x`; request `GET /l`. -/

def climbTree : Tree := ⟨[([[119], [108]], .link (ascii "../../x")), ([[120]], .file (ascii "hi"))]⟩
def climbCtx : Ctx := ⟨climbTree, ascii "/w", Cors.envOf [], ascii "1", ascii "2", ascii "e"⟩
def getL : Bytes := ascii "GET /l HTTP/1.1\r\n\r\n"

example : FilesSmall climbTree = true := by decide +kernel

/-- `Server.process … = .ok o` with `o.result = ok`, one write buffer = what the peer received,
    one flush, and the bytes start with `HTTP/1.1 200 ` -/
def answered200 (r : Outcome Outcome2) : Bool :=
  match r with
  | .ok o => decide (o.result = .ok) && decide (o.wire.writes = [o.wire.received]) && decide (o.wire.flushes = 1) &&
             decide (o.wire.received.take 13 = ascii "HTTP/1.1 200 ")
  | _ => false

def answered200Legacy (r : Outcome (Bytes × Wire × List Loc)) : Bool :=
  match r with
  | .ok (raw, wire, _) => decide (wire.received = raw) && decide (raw.take 13 = ascii "HTTP/1.1 200 ")
  | _ => false

/-- since the repair of F75 the operating system follows the link (`..` at `/` stays at `/`): both entry points
    answer one complete `200` with the file the link really points to (F41: panic; after F41's repair: `500`) -/
example : answered200 (Server.process climbCtx .real 32 (.data getL) [] true) = true := by decide +kernel
example : answered200Legacy (Server.processRequest climbCtx 32 (.data getL) [] true) = true := by decide +kernel

/-- a `..` that stays below `/` is served (`/w/d/up -> ../f.txt`) -/
def upTree : Tree :=
  ⟨[([[119], [100], ascii "up"], .link (ascii "../f.txt")), ([[119], ascii "f.txt"], .file (ascii "hi"))]⟩
example : (Server.process ⟨upTree, ascii "/w", Cors.envOf [], [], [], []⟩ .real 32
      (.data (ascii "GET /d/up HTTP/1.1\r\n\r\n")) [] true).isOk = true := by decide +kernel

/-! ## C04_answered / C04_one_response — exactly one complete response -/

/-- Every connection is answered: the outcome is `ok` (the function never returns before its
    `write_all`), the server hands ONE complete response `raw` to the transport; whatever the
    transport does, the peer receives a prefix of `raw`, `flush` is called at most once, and
    the result is `Ok` exactly when the request was not refused, every byte was accepted and
    the flush succeeded — in which case the peer has received all of `raw`. -/
theorem C04_answered (ctx : Ctx) (app : App) (alloc : Nat) (read : ReadScript) (script : List WCall)
    (flushOk : Bool) (hf : FilesSmall ctx.tree = true) :
    ∃ o status raw, Server.process ctx app alloc read script flushOk = .ok o ∧
      IsResponse status raw ∧
      o.wire.received <+: raw ∧ o.wire.flushes ≤ 1 ∧
      (o.result = .ok → ¬ Refused app alloc read ∧ o.wire.received = raw ∧ o.wire.flushes = 1 ∧ flushOk = true) := by
  obtain ⟨status, raw, reads, accepted, hresp, hacc, _, h⟩ := summary ctx app alloc read script flushOk hf
  refine ⟨_, status, raw, h, hresp, NoPanic.send_received_prefix raw script flushOk,
    NoPanic.send_flushes_le raw script flushOk, ?_⟩
  intro hok
  simp only at hok
  split at hok
  · rename_i hc
    simp only [Bool.and_eq_true] at hc
    obtain ⟨h1, h2, h3⟩ := NoPanic.send_delivered raw script flushOk (by simp [hc.1.2, hc.2])
    refine ⟨fun hr => ?_, h1, h2, h3⟩
    have := hacc.mpr hr
    rw [this] at hc; simp at hc
  · cases hok

/-- A complete response contains the blank line that ends its head. -/
theorem C04_response_has_blank_line (status : Nat) (raw : Bytes) (h : IsResponse status raw) :
    [13, 10, 13, 10] <:+: raw := by
  obtain ⟨_, hs, body, rfl⟩ := h
  have key : ∀ (hs : List Header) (pre : Bytes), ∃ p, pre ++ [13, 10] ++ headerLines hs = p ++ [13, 10] := by
    intro hs
    induction hs with
    | nil => intro pre; exact ⟨pre, by simp [headerLines]⟩
    | cons h hs ih =>
      intro pre
      obtain ⟨p, hp⟩ := ih (pre ++ [13, 10] ++ h.name ++ [58, 32] ++ h.value)
      refine ⟨p, ?_⟩
      rw [← hp]
      simp [headerLines]
  obtain ⟨p, hp⟩ := key hs (ascii "HTTP/1.1 " ++ natToDec status ++ [32] ++ reasonPhrase status)
  refine ⟨p, body, ?_⟩
  rw [hp]
  simp

/-- On a transport that accepts everything the server makes exactly one `write` call per
    response buffer — ONE buffer, the complete response —, the peer receives exactly these
    bytes, `flush` is called once, and the result is `Ok` iff the request was not refused. -/
theorem C04_one_response (ctx : Ctx) (app : App) (alloc : Nat) (read : ReadScript)
    (hf : FilesSmall ctx.tree = true) :
    ∃ o status raw, Server.process ctx app alloc read [] true = .ok o ∧
      IsResponse status raw ∧
      o.wire.writes = [raw] ∧ o.wire.received = raw ∧ o.wire.flushes = 1 ∧
      (o.result = .ok ↔ ¬ Refused app alloc read) := by
  obtain ⟨status, raw, reads, accepted, hresp, hacc, _, h⟩ := summary ctx app alloc read [] true hf
  have hne : raw ≠ [] := by
    obtain ⟨_, hs, body, rfl⟩ := hresp
    simp [ascii]
  rw [NoPanic.send_nil raw hne] at h
  refine ⟨_, status, raw, h, hresp, rfl, rfl, rfl, ?_⟩
  cases accepted with
  | false => simp [hacc.mp rfl]
  | true =>
    have : ¬ Refused app alloc read := fun hr => by simpa using hacc.mpr hr
    simp [this]

/-! ## C04_error_status — what cannot be parsed or served is answered 400 -/

/-- A refused connection is answered with ONE complete `400 Bad Request` response; the result
    is `Err`, no file was read.  On a transport that accepts everything (whether or not the
    flush then succeeds) the peer receives exactly that response.  No hypothesis on the tree:
    the controller chain is not run for a refused connection. -/
theorem C04_error_status (ctx : Ctx) (app : App) (alloc : Nat) (read : ReadScript) (script : List WCall)
    (flushOk : Bool) (h : Refused app alloc read) :
    ∃ o raw, Server.process ctx app alloc read script flushOk = .ok o ∧
      o.result = .err ∧ o.reads = [] ∧ IsResponse 400 raw ∧ o.wire.received <+: raw ∧ o.wire.flushes ≤ 1 ∧
      (script = [] → o.wire = ⟨[raw], raw, 1⟩) := by
  obtain ⟨hs, m, hp⟩ := NoPanic.process_rejected ctx app alloc read script flushOk ((rejected_iff _ _ _).mpr h)
  have hresp := isResponse_400 ctx hs m
  generalize Resp.generateResponse (NoPanic.resp400 ctx hs) (NoPanic.req400 m) = raw at hp hresp
  refine ⟨_, raw, hp, rfl, rfl, hresp, NoPanic.send_received_prefix raw script flushOk,
    NoPanic.send_flushes_le raw script flushOk, ?_⟩
  intro hs
  subst hs
  have hne : raw ≠ [] := by
    obtain ⟨_, hs, body, rfl⟩ := hresp
    simp [ascii]
  cases raw with
  | nil => exact absurd rfl hne
  | cons b t => simp [send, writeAll, writeBufs]

/-- the four ways of being refused, spelled out -/
theorem C04_refused_read_error (app : App) (alloc : Nat) : Refused app alloc .error := Or.inl rfl

theorem C04_refused_unparsable (app : App) (alloc : Nat) (d : Bytes) (h : Req.parse (fillBuffer alloc d) = .err) :
    Refused app alloc (.data d) := Or.inr ⟨d, rfl, Or.inl h⟩

theorem C04_refused_not_origin_form (app : App) (alloc : Nat) (d : Bytes) (req : Request)
    (h : Req.parse (fillBuffer alloc d) = .ok req) (hu : req.uri.head? ≠ some 47) :
    Refused app alloc (.data d) := Or.inr ⟨d, rfl, Or.inr ⟨req, h, Or.inl hu⟩⟩

theorem C04_refused_handler_fails (alloc : Nat) (d : Bytes) (req : Request)
    (h : Req.parse (fillBuffer alloc d) = .ok req) : Refused .fails alloc (.data d) :=
  Or.inr ⟨d, rfl, Or.inr ⟨req, h, Or.inr rfl⟩⟩

/-- e.g. a request whose first line is not UTF-8 (C14_reject_not_utf8) is refused -/
theorem C04_refused_not_utf8 (app : App) (alloc : Nat) (d : Bytes)
    (h : Utf8.valid (C14.firstLine (fillBuffer alloc d)) = false) : Refused app alloc (.data d) :=
  C04_refused_unparsable app alloc d (C14.C14_reject_not_utf8 _ h)

/-! ## C04_depth — remark

  Since the F10 repair the header loop of `Request::cursor_read` is a `loop`, not one recursive
  call per header line.  In the model `Req.headerLoop` is structural recursion over the LIST of
  lines (`Req.splitLines`), `Req.cursorRead` calls it once: there is no ghost depth left to
  bound, and Lean accepting the definitions is the proof that the recursion is on the list.
  `C14_parse_total` (used above) is the statement that the parser is total. -/

/-- every line is consumed at most once: headers produced + lines left ≤ lines given -/
theorem C04_header_loop_linear : ∀ ls : List Bytes,
    (Req.headerLoop ls).1.length + (Req.headerLoop ls).2.length ≤ ls.length
  | [] => by simp [Req.headerLoop]
  | l :: ls => by
    have ih := C04_header_loop_linear ls
    unfold Req.headerLoop
    split
    · simp
    · split
      · simp
      · simp only [List.length_cons]; omega

/-! ## Non-vacuity: the hypotheses hold for a concrete tree, and the theorems' conclusions are
    the ones the model computes on concrete requests -/

/-- `/w/f.txt` (10 bytes), `/w/d/index.html`, `/w/ln -> f.txt`, `/w/abs -> /w/f.txt` -/
def exTree : Tree := ⟨[
  ([[119], ascii "f.txt"], .file (ascii "0123456789")),
  ([[119], [100], ascii "index.html"], .file (ascii "<p>")),
  ([[119], ascii "ln"], .link (ascii "f.txt")),
  ([[119], ascii "abs"], .link (ascii "/w/f.txt"))]⟩
def exCtx : Ctx := ⟨exTree, ascii "/w", Cors.envOf [], ascii "1", ascii "2", ascii "bad"⟩

example : FilesSmall exTree = true := by decide +kernel

/-- what the examples look at: result, number of write buffers, flushes, the first 12 bytes
    received, the locations read -/
structure View where
  result : Res
  writes : Nat
  flushes : Nat
  head : Bytes
  reads : List Loc
deriving DecidableEq

def view (o : Outcome Outcome2) : Outcome View :=
  match o with
  | .ok o => .ok ⟨o.result, o.wire.writes.length, o.wire.flushes, o.wire.received.take 12, o.reads⟩
  | .err => .err
  | .panic s => .panic s

/-- `GET x` (F3: target not in origin form) → 400 -/
example : view (Server.process exCtx .real 64 (.data (ascii "GET x HTTP/1.1\r\n\r\n")) [] true)
    = .ok ⟨.err, 1, 1, ascii "HTTP/1.1 400", []⟩ := by decide +kernel
/-- `GET /f.txt` → 200, the file is read -/
example : view (Server.process exCtx .real 64 (.data (ascii "GET /f.txt HTTP/1.1\r\n\r\n")) [] true)
    = .ok ⟨.ok, 1, 1, ascii "HTTP/1.1 200", [[[119], ascii "f.txt"]]⟩ := by decide +kernel
/-- through a relative and an absolute link, and a range request -/
example : view (Server.process exCtx .real 64 (.data (ascii "GET /ln HTTP/1.1\r\n\r\n")) [] true)
    = .ok ⟨.ok, 1, 1, ascii "HTTP/1.1 200", [[[119], ascii "f.txt"]]⟩ := by decide +kernel
example : view (Server.process exCtx .real 64 (.data (ascii "GET /abs HTTP/1.1\r\nRange: bytes=-30\r\n\r\n")) [] true)
    = .ok ⟨.ok, 1, 1, ascii "HTTP/1.1 416", []⟩ := by decide +kernel
/-- `Content-Length: a` (F5) → served -/
example : view (Server.process exCtx .real 64 (.data (ascii "GET /f.txt HTTP/1.1\r\nContent-Length: a\r\n\r\n")) [] true)
    = .ok ⟨.ok, 1, 1, ascii "HTTP/1.1 200", [[[119], ascii "f.txt"]]⟩ := by decide +kernel
/-- five header lines, a directory with index -/
example : view (Server.process exCtx .real 96 (.data (ascii "GET /d/ HTTP/1.1\r\na: 1\r\nb: 2\r\nc: 3\r\nd: 4\r\ne: 5\r\n\r\n")) [] true)
    = .ok ⟨.ok, 1, 1, ascii "HTTP/1.1 200", [[[119], [100], ascii "index.html"]]⟩ := by decide +kernel
/-- not UTF-8, a read error, a failing handler, a request larger than the buffer → 400 -/
example : view (Server.process exCtx .real 64 (.data [71, 69, 84, 32, 47, 255, 32, 72, 84, 84, 80, 47, 49, 46, 49, 13, 10]) [] true)
    = .ok ⟨.err, 1, 1, ascii "HTTP/1.1 400", []⟩ := by decide +kernel
example : view (Server.process exCtx .real 64 .error [] true) = .ok ⟨.err, 1, 1, ascii "HTTP/1.1 400", []⟩ := by
  decide +kernel
example : view (Server.process exCtx .fails 64 (.data (ascii "GET /f.txt HTTP/1.1\r\n\r\n")) [] true)
    = .ok ⟨.err, 1, 1, ascii "HTTP/1.1 400", []⟩ := by decide +kernel
example : view (Server.process exCtx .real 8 (.data (ascii "GET /f.txt HTTP/1.1\r\n\r\n")) [] true)
    = .ok ⟨.err, 1, 1, ascii "HTTP/1.1 400", []⟩ := by decide +kernel
/-- a transport that takes 5 bytes and then fails: the peer has a prefix, the result is `Err` -/
example : view (Server.process exCtx .real 64 (.data (ascii "GET /f.txt HTTP/1.1\r\n\r\n")) [.acc 5, .fail] true)
    = .ok ⟨.err, 1, 0, ascii "HTTP/", [[[119], ascii "f.txt"]]⟩ := by decide +kernel
/-- the hypothesis `Refused` of `C04_error_status` on concrete inputs -/
example : Refused .real 64 (.data (ascii "GET x HTTP/1.1\r\n\r\n")) :=
  C04_refused_not_origin_form _ _ _ ⟨ascii "GET", ascii "x", ascii "HTTP/1.1", [], List.replicate 46 0⟩ (by decide +kernel) (by decide +kernel)
example : ¬ Refused .real 64 (.data (ascii "GET /f.txt HTTP/1.1\r\n\r\n")) := by
  have hp : Req.parse (fillBuffer 64 (ascii "GET /f.txt HTTP/1.1\r\n\r\n"))
      = .ok ⟨ascii "GET", ascii "/f.txt", ascii "HTTP/1.1", [], List.replicate 41 0⟩ := by decide +kernel
  rintro (h | ⟨d, hd, h | ⟨req, hr, h | h⟩⟩)
  · cases h
  · cases hd; rw [hp] at h; cases h
  · cases hd; rw [hp] at hr; cases hr; exact h (by decide +kernel)
  · cases h

end Rws.C04
