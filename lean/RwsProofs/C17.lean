/-
  C17 — form and query decoding returns the submitted fields.
  Property theorems only; helper lemmas are in RwsProofs/Lemmas/Query.lean.
  Model: Rws/Query.lean (codec, over the replacement tables regenerated from the crate source),
  Rws/UrlParse.lean (request-target entry point).
-/
import Rws.Query
import Rws.UrlParse
import RwsProofs.Lemmas.Query
import RwsProofs.Lemmas.QueryOrd
import RwsProofs.Lemmas.QueryParse
import RwsProofs.Lemmas.QueryUrl
import RwsProofs.Lemmas.QueryBody
namespace Rws.C17
open Rws Rws.Query Rws.QueryLemmas Rws.UrlParse

/-! ## Specification side -/

/-- `pat` occurs in `s` as a contiguous substring -/
abbrev occurs (pat s : Bytes) : Bool := hasInfix pat s

/-- the decoder's codes that come AFTER the entry producing `%` (computed from the generated
    table): a literal `%` followed by the two digits of one of these is decoded a second time -/
def laterCodes : List Bytes :=
  ((Gen.queryDecodeTable.dropWhile (fun p => p.2 != [37])).drop 1).map (·.1)

/-- what "the map `m`" means on the canonical representation: `mapOfList m` holds exactly the
    pairs of `m` (when the keys are distinct), strictly sorted by key -/
theorem C17_canonical (m : List (Bytes × Bytes)) (hnd : (m.map (·.1)).Nodup) :
    (mapOfList m).Perm m ∧ (mapOfList m).Pairwise (fun a b => bytesLt a.1 b.1 = true) := by
  constructor
  · have := foldl_insertKV_perm m [] (by simpa using hnd)
    simpa [mapOfList] using this
  · exact foldl_insertKV_sorted m [] List.Pairwise.nil

/-- no literal `%XY` of a later-processed code in the text -/
def safe (s : Bytes) : Bool := laterCodes.all (fun p => !occurs p s)

/-! ## (a) one component -/

/-
  Full statement (FALSE on the pinned tree — finding F27, dependency url-search-params 12.0.0):

    theorem C17_component (s : Bytes) : decodeComponent (encodeComponent s) = s

  `decode_uri_component` replaces `%25` in the middle of its sequence; see `C17_component_violated`.
-/

/-- **C17 (a), partial** — decoding inverts encoding for every text that holds no literal
    `%XY` of a code the decoder processes after `%25`.  No bound on the length, any bytes. -/
theorem C17_component_partial (s : Bytes) (h : safe s = true) :
    decodeComponent (encodeComponent s) = s := by
  have henc : encodeComponent s = s.flatMap (chainChar Gen.queryEncodeTable) :=
    applyTable_single _ (by decide) s
  have hneeds : needs Gen.queryDecodeTable (chainChar Gen.queryEncodeTable) = laterCodes := by
    decide +kernel
  have hchain : chainOkB Gen.queryDecodeTable (chainChar Gen.queryEncodeTable) = true := by
    decide +kernel
  have hfin : allBytes (fun c =>
      Gen.queryDecodeTable.foldl stepG (chainChar Gen.queryEncodeTable) c == [c]) = true := by
    decide +kernel
  have hok : ChainOk s Gen.queryDecodeTable (chainChar Gen.queryEncodeTable) := by
    refine chainOk_of s _ _ hchain (fun p hp => ?_)
    rw [hneeds] at hp
    have := List.all_eq_true.mp h p hp
    simpa [occurs] using this
  unfold decodeComponent
  rw [henc, applyTable_chain s _ _ hok]
  have : Gen.queryDecodeTable.foldl stepG (chainChar Gen.queryEncodeTable) = fun c => [c] := by
    funext c
    have := allBytes_spec hfin c
    simpa using this
  rw [this]; simp

/-- the hypothesis is satisfiable by a text full of reserved characters, `%`+hex (`%41`, `%25`),
    `%`+non-hex, multi-byte and astral characters: `a&b=c %41%zz%25+?#/é😀%` -/
example : safe [97, 38, 98, 61, 99, 32, 37, 52, 49, 37, 122, 122, 37, 50, 53, 43, 63, 35, 47,
    195, 169, 240, 159, 152, 128, 37] = true := by decide +kernel

/-- **F27 witness** — `"%26"` is encoded as `"%2526"` and decoded as `"&"`. -/
theorem C17_component_violated :
    encodeComponent [37, 50, 54] = [37, 50, 53, 50, 54] ∧
    decodeComponent (encodeComponent [37, 50, 54]) = [38] ∧ safe [37, 50, 54] = false := by
  have henc : encodeComponent [37, 50, 54] = [37, 50, 53, 50, 54] := by
    rw [encodeComponent, applyTable_single _ (by decide)]; decide +kernel
  refine ⟨henc, ?_, by decide +kernel⟩
  rw [henc, decodeComponent, applyTable_eq_F]; decide +kernel


/-! ## (b) a whole map through `build_query` → `parse_query` -/

/-- the submitted fields are acceptable: keys non-empty and pairwise different, no field
    holds a literal `%XY` of a later-processed code (the F27 trigger) -/
def fieldsOk (m : List (Bytes × Bytes)) : Prop :=
  (∀ kv ∈ m, kv.1 ≠ []) ∧ (m.map (·.1)).Nodup ∧ ∀ kv ∈ m, safe kv.1 = true ∧ safe kv.2 = true

instance (m : List (Bytes × Bytes)) : Decidable (fieldsOk m) := by unfold fieldsOk; infer_instance

private theorem parsePiece_piece (kv : Bytes × Bytes) (hk : kv.1 ≠ []) (h1 : safe kv.1 = true)
    (h2 : safe kv.2 = true) : parsePiece (piece kv) = some kv := by
  obtain ⟨k, v⟩ := kv
  have hs : splitByte 61 (piece (k, v)) = [encodeComponent k, encodeComponent v] := by
    simp only [piece]
    rw [splitByte_append 61 _ _ (not_mem_encode k).2, splitByte_not_mem 61 _ (not_mem_encode v).2]
  simp only [parsePiece, hs, encode_ne_nil hk, if_false]
  rw [C17_component_partial k h1, C17_component_partial v h2]

/-- what `parse_query` returns for ANY arrangement `l` of the escaped pairs of `m` joined by `&`
    (the order in which `build_query` emits them is irrelevant) -/
theorem C17_query_any_order (m l : List (Bytes × Bytes)) (hl : l.Perm m) (h : fieldsOk m) :
    parseQuery (joinAmp (l.map piece)) = mapOfList m := by
  obtain ⟨hne, hnd, hsafe⟩ := h
  cases l with
  | nil =>
    have : m = [] := List.Perm.eq_nil hl.symm
    subst this; decide
  | cons x l =>
    have hmem : ∀ kv ∈ x :: l, kv ∈ m := fun kv hkv => hl.subset hkv
    have htrim : trimU (joinAmp ((x :: l).map piece)) ≠ [] := by
      intro e
      have := trimU_mem (mem_joinAmp_head 61 (piece x) (l.map piece) (mem_piece x))
      simp only [List.map_cons] at e
      rw [e] at this; simp at this
    simp only [parseQuery, htrim, if_false]
    rw [splitByte_joinAmp _ (by simp) (by
          intro p hp; obtain ⟨kv, _, rfl⟩ := List.mem_map.mp hp; exact not_mem_piece kv),
        filterMap_map_id piece parsePiece _ (fun kv hkv =>
          parsePiece_piece kv (hne kv (hmem kv hkv)) (hsafe kv (hmem kv hkv)).1 (hsafe kv (hmem kv hkv)).2)]
    exact mapOfList_perm hl (by
      have := hl.map (·.1)
      exact (List.Perm.nodup_iff this).mpr hnd)

/-- **C17 (b)** — for every map of non-empty, distinct keys (no F27 trigger in any field):
    `parse_query(build_query(m))` is the map `m`. -/
theorem C17_query (m : List (Bytes × Bytes)) (h : fieldsOk m) :
    parseQuery (buildQuery m) = mapOfList m := by
  obtain ⟨l, hp, he⟩ := sortPieces_map piece m
  rw [buildQuery, he]
  exact C17_query_any_order m l hp h

/-- `{"k &": "v=1\\r\\n %41", "é": "", "?": "+#/ 😀"}` -/
def exampleMap : List (Bytes × Bytes) := [([107, 32, 38], [118, 61, 49, 13, 10, 32, 37, 52, 49]),
  ([195, 169], []), ([63], [43, 35, 47, 32, 240, 159, 152, 128])]

/-- … satisfies the hypotheses -/
example : fieldsOk exampleMap := by decide +kernel

/-! ## (d) through a URL-encoded body: `FormUrlEncoded::generate` → `FormUrlEncoded::parse` -/

/-- what the body parser additionally needs of the submitted fields: no ASCII control character
    other than CR / LF (the parser deletes control characters; CR and LF are escaped by the
    encoder), no key starting and no value ending with a Unicode white-space character (the
    parser trims the body; U+0020 inside is escaped, but e.g. U+3000 is not) — all true of
    printable text -/
def bodyOk (m : List (Bytes × Bytes)) : Prop :=
  ∀ kv ∈ m, noCtl kv.1 = true ∧ noCtl kv.2 = true ∧ startsWs kv.1 = false ∧ endsWs kv.2 = false

instance (m : List (Bytes × Bytes)) : Decidable (bodyOk m) := by unfold bodyOk; infer_instance

/-
  Full statement: the same without `hutf8`.  `generate` returns a Rust `String`, so its bytes
  are valid UTF-8 by construction whenever the fields are; the model's byte-level validator
  `validUtf8` is not proved to be preserved by the encoder (missing lemma:
  `validUtf8 s → validUtf8 (encodeComponent s)`), hence the explicit hypothesis.
-/
/-- **C17 (d), partial** — for every map accepted by `fieldsOk` and `bodyOk` whose generated
    body is UTF-8: `FormUrlEncoded::parse(generate(m).into_bytes())` is `Ok(m)`. -/
theorem C17_body_partial (m : List (Bytes × Bytes)) (h : fieldsOk m) (hb : bodyOk m)
    (hutf8 : validUtf8 (FormUrlEncoded.generate m) = true) :
    FormUrlEncoded.parse (FormUrlEncoded.generate m) = .ok (mapOfList m) := by
  obtain ⟨l, hp, he⟩ := sortPieces_map piece m
  have hmem : ∀ kv ∈ l, kv ∈ m := fun kv hkv => hp.subset hkv
  have hgen : FormUrlEncoded.generate m = joinAmp (l.map piece) := by
    rw [FormUrlEncoded.generate, buildQuery, he]
  rw [FormUrlEncoded.parse, hutf8, if_pos rfl, hgen,
    filter_body l (fun kv hkv => ⟨(hb kv (hmem kv hkv)).1, (hb kv (hmem kv hkv)).2.1⟩),
    trim_body l (fun kv hkv => ⟨(hb kv (hmem kv hkv)).2.2.1, (hb kv (hmem kv hkv)).2.2.2⟩),
    C17_query_any_order m l hp h]

/-- the example map satisfies all three hypotheses -/
example : fieldsOk exampleMap ∧ bodyOk exampleMap ∧ validUtf8 (FormUrlEncoded.generate exampleMap) = true := by
  refine ⟨by decide +kernel, by decide +kernel, ?_⟩
  have e : FormUrlEncoded.generate exampleMap
      = joinAmp (sortPieces (exampleMap.map (fun kv => kv.1.flatMap encChar ++ 61 :: kv.2.flatMap encChar))) := by
    simp only [FormUrlEncoded.generate, buildQuery]
    congr 2
    apply List.map_congr_left
    intro kv _
    simp only [piece, encode_eq]
  rw [e]; decide +kernel

/-- the trim matters: a key that starts with U+3000 (IDEOGRAPHIC SPACE, not escaped) loses it -/
theorem C17_body_needs_no_edge_space :
    FormUrlEncoded.parse [227, 128, 128, 97, 61, 98] = .ok [([97], [98])] := by
  decide +kernel

/-! ## (c) through the request target: `Request::get_uri_query` -/

/-- **C17 (c)** — a request target `path?query` whose query is what `build_query` produced for
    `m` (path: any bytes without `?`, e.g. `/form-get-method`): `get_uri_query` returns `Some(m)`.
    Note that `?` is NOT escaped by the encoder; the URL parser splits at the first `?` only, so
    fields holding `?` survive (they are inside `m` here). -/
theorem C17_target (path : Bytes) (m : List (Bytes × Bytes)) (hpath : (63 : UInt8) ∉ path)
    (h : fieldsOk m) :
    requestUriQuery (path ++ 63 :: buildQuery m) = .ok (some (mapOfList m)) := by
  obtain ⟨l, hp, he⟩ := sortPieces_map piece m
  have hq : (35 : UInt8) ∉ buildQuery m := by rw [buildQuery, he]; exact hash_not_mem_joined l
  rw [requestUriQuery_shape path _ hpath hq, C17_query m h]

/-- `/form-get-method` is an admissible path -/
example : (63 : UInt8) ∉ ([47, 102, 111, 114, 109, 45, 103, 101, 116, 45, 109, 101, 116, 104, 111, 100] : Bytes) := by
  decide

end Rws.C17
