/-
  C03 at the level of the bytes on the wire.

  `RwsProofs/C03.lean` proves the property about the content-range LIST the Range API returns.
  This file carries it through the serialiser `Resp.generateResponse` (src/response/mod.rs:
  `generate_response`, `generate_body`), the static controller and the production chain
  (`Controllers.execute`), and `Server.process` over a clean transport.
  Helper lemmas: RwsProofs/Lemmas/C03Wire.lean and the `private` sections below (those that speak
  about the specification functions of this file).

  Specification (this file, independent of the serialiser's code):
    line / headerLines / label           `name: value CRLF`, `bytes a-b/L`
    wirePart / wireBody                  the multipart/byteranges body, part by part
    wire206 / wire416                    a whole 206 / 416 answer as bytes
    splitResponse, readParts             an independent reader: cut at the first blank line; read the
                                         multipart body part by part, each part's length from ITS OWN
                                         Content-Range (what props/c03.py's `_wire_parts` does)
    Standing, slicePart                  hypotheses of the server theorems; the part a spec asks for
  Theorems (every response / request / tree / transport; hypotheses decidable):
    C03_wire_single, C03_wire_multi      the serialiser's output, as an equality of byte strings
    C03_wire_single_read, _multi_read    "everything after the first blank line" is the part's bytes /
                                         `wireBody parts`; the head lines are exactly the listed ones
    C03_wire_readback                    readParts (wireBody parts) = the parts' (first, last, size, bytes)
    C03_wire_execute                     lookup + Range header + chain: 206 with the requested slices
    C03_wire_206                         serialiser on such an answer = wire206
    C03_wire_server (+ _single)          Server.process: the peer receives exactly wire206 …
    C03_wire_server_client               … and a client reads back the slices
    C03_wire_execute_any, _server_any    EVERY Range value: wire416 (nothing read) or wire206 of
                                         correctly labelled slices
-/
import Rws.Server
import RwsProofs.C02
import RwsProofs.C03
import RwsProofs.C05
import RwsProofs.Lemmas.WireServer
import RwsProofs.Lemmas.C03Wire
namespace Rws.C03Wire
open Rws

/-! ## The specification, written independently of the serialiser -/

/-- ASCII text as bytes -/
def asc (s : String) : Bytes := s.toList.map (fun c => UInt8.ofNat c.toNat)

def CRLF : Bytes := [13, 10]

/-- `name: value CRLF` -/
def line (name value : Bytes) : Bytes := name ++ asc ": " ++ value ++ CRLF

/-- the caller's header lines, in order -/
def headerLines (hs : List Header) : Bytes := hs.flatMap (fun h => line h.name h.value)

/-- `bytes a-b/L` -/
def label (p : ContentRange) : Bytes :=
  asc "bytes " ++ natToDec p.range.start ++ asc "-" ++ natToDec p.range.stop ++ asc "/" ++ p.size

/-- the delimiter line of the library's multipart bodies -/
def delimiter : Bytes := asc "--String_separator"

/-- one part on the wire: delimiter line, two header lines (two blanks after the colon), blank
    line, the bytes, CR LF -/
def wirePart (p : ContentRange) : Bytes :=
  delimiter ++ CRLF ++
  asc "Content-Type:  " ++ p.contentType ++ CRLF ++
  asc "Content-Range:  " ++ label p ++ CRLF ++
  CRLF ++
  p.body ++ CRLF

/-- a multipart/byteranges body: the parts in list order, then the delimiter once more
    (the library closes with the bare delimiter: no `--` after it, no CR LF) -/
def wireBody (parts : List ContentRange) : Bytes := parts.flatMap wirePart ++ delimiter

/-- the request method asks for a body (`generate_response` sends none for HEAD and OPTIONS) -/
def wantsBody (q : Request) : Prop := q.method ≠ asc "HEAD" ∧ q.method ≠ asc "OPTIONS"
instance (q : Request) : Decidable (wantsBody q) := by unfold wantsBody; exact inferInstance

/-! ### an independent reader (what a client does) -/

/-- the bytes before the first CR LF, and what follows it -/
def cutLine : Bytes → Option (Bytes × Bytes)
  | [] => none
  | b :: rest =>
    if CRLF.isPrefixOf (b :: rest) then some ([], rest.drop 1)
    else (cutLine rest).map (fun lr => (b :: lr.1, lr.2))

/-- the lines before the first blank line, and everything after the blank line -/
def cutHead : Nat → Bytes → Option (List Bytes × Bytes)
  | 0, _ => none
  | fuel + 1, s =>
    match cutLine s with
    | none => none
    | some (l, rest) =>
      if l.isEmpty then some ([], rest)
      else (cutHead fuel rest).map (fun x => (l :: x.1, x.2))

/-- a response cut at its first blank line: (status line :: header lines, body) -/
def splitResponse (raw : Bytes) : Option (List Bytes × Bytes) := cutHead raw.length raw

/-- `lit` is in front: what follows it -/
def expect (lit s : Bytes) : Option Bytes := if lit.isPrefixOf s then some (s.drop lit.length) else none

def isDigit (b : UInt8) : Bool := 48 ≤ b && b ≤ 57

/-- the decimal number in front (at least one digit), and what follows it -/
def readNat (s : Bytes) : Option (Nat × Bytes) :=
  let ds := s.takeWhile isDigit
  if ds.isEmpty then none
  else some (ds.foldl (fun acc d => acc * 10 + (d.toNat - 48)) 0, s.dropWhile isDigit)

/-- `bytes a-b/L` ↦ (a, b, L) -/
def readLabel (v : Bytes) : Option (Nat × Nat × Nat) :=
  (expect (asc "bytes ") v).bind fun s =>
  (readNat s).bind fun (a, s) =>
  (expect (asc "-") s).bind fun s =>
  (readNat s).bind fun (b, s) =>
  (expect (asc "/") s).bind fun s =>
  (readNat s).bind fun (size, s) =>
  if s.isEmpty then some (a, b, size) else none

/-- reader of a multipart body: delimiter line, header lines up to the blank line, then as many
    bytes as THE PART'S OWN Content-Range says (`b - a + 1`; the bytes themselves may hold
    anything, also the delimiter), CR LF; the delimiter followed by nothing ends the body -/
def readPartsFrom : Nat → Bytes → Option (List (Nat × Nat × Nat × Bytes))
  | 0, _ => none
  | fuel + 1, s =>
    (expect delimiter s).bind fun s =>
    if s.isEmpty then some []
    else
      (expect CRLF s).bind fun s =>
      (cutHead s.length s).bind fun (lines, s) =>
      (lines.findSome? (expect (asc "Content-Range:"))).bind fun v =>
      (readLabel (v.dropWhile (· = 32))).bind fun (a, b, size) =>
      if b < a ∨ s.length < b - a + 1 then none
      else
        (expect CRLF (s.drop (b - a + 1))).bind fun s' =>
        (readPartsFrom fuel s').bind fun rest =>
        some ((a, b, size, s.take (b - a + 1)) :: rest)

/-- (first, last, size, bytes) of every part, in order -/
def readParts (body : Bytes) : Option (List (Nat × Nat × Nat × Bytes)) := readPartsFrom body.length body

-- the reader on a hand-written body (two parts; the first one's bytes contain CR LF and the
-- delimiter text is irrelevant to the reader)
example : readParts (asc "--String_separator\r\nContent-Type:  text/plain\r\nContent-Range:  bytes 0-1/10\r\n\r\n\r\n\r\n--String_separator\r\nContent-Type:  text/plain\r\nContent-Range:  bytes 8-9/10\r\n\r\n89\r\n--String_separator")
    = some [(0, 1, 10, [13, 10]), (8, 9, 10, asc "89")] := by decide +kernel

/-- `name: value` -/
def headerText (h : Header) : Bytes := h.name ++ asc ": " ++ h.value

/-- no line feed inside the status line or the caller's headers (a line feed there would end the
    line early for any line-oriented reader) -/
def HeadClean (r : Response) : Prop :=
  (10 : UInt8) ∉ r.version ∧ (10 : UInt8) ∉ r.reason ∧ ∀ h ∈ r.headers, (10 : UInt8) ∉ h.name ∧ (10 : UInt8) ∉ h.value
instance (r : Response) : Decidable (HeadClean r) := by unfold HeadClean; exact inferInstance

/-- what the parse-back theorem asks of a part: `first ≤ last`, as many bytes as the label says,
    the size a decimal numeral (of `size`), no line feed in the media type -/
def Labelled (size : Nat) (p : ContentRange) : Prop :=
  p.range.start ≤ p.range.stop ∧ p.body.length = p.range.stop - p.range.start + 1 ∧
  p.size = natToDec size ∧ (10 : UInt8) ∉ p.contentType
instance (size : Nat) (p : ContentRange) : Decidable (Labelled size p) := by unfold Labelled; exact inferInstance

/-! ## helper lemmas: the specification's texts against the serialiser's constants -/
section helpers

private theorem k_sep : asc ": " = [58, 32] := by decide +kernel
private theorem k_ct : asc "Content-Type" = Gen.respContentType := by decide +kernel
private theorem k_cr : asc "Content-Range" = Gen.respContentRange := by decide +kernel
private theorem k_cl : asc "Content-Length" = Gen.respContentLength := by decide +kernel
private theorem k_head : asc "HEAD" = [72, 69, 65, 68] := by decide +kernel
private theorem k_options : asc "OPTIONS" = [79, 80, 84, 73, 79, 78, 83] := by decide +kernel
private theorem k_206 : asc " 206 " = [32] ++ Resp.intToDec 206 ++ [32] := by decide +kernel
private theorem k_bytes : asc "bytes " = Gen.respBytesUnit ++ [32] := by decide +kernel
private theorem k_dash : asc "-" = [45] := by decide +kernel
private theorem k_slash : asc "/" = [47] := by decide +kernel
private theorem k_delim : delimiter = [45, 45] ++ Gen.respStringSeparator := by decide +kernel
private theorem k_ct2 : asc "Content-Type:  " = Gen.respContentType ++ Gen.respNameValueSeparator ++ [32] := by
  decide +kernel
private theorem k_cr2 : asc "Content-Range:  " = Gen.respContentRange ++ Gen.respNameValueSeparator ++ [32] := by
  decide +kernel
private theorem k_multi : asc "multipart/byteranges; boundary=String_separator" = Resp.multipartContentType := by
  decide +kernel

private theorem label_eq (p : ContentRange) : label p = Resp.contentRangeValue p := by
  simp [label, Resp.contentRangeValue, k_bytes, k_dash, k_slash]

private theorem wirePart_eq (p : ContentRange) : wirePart p = C03WireL.partCRLF p := by
  simp [wirePart, C03WireL.partCRLF, Resp.partBytes, k_delim, k_ct2, k_cr2, label_eq, CRLF, List.append_assoc]

private theorem headerLines_eq (hs : List Header) :
    headerLines hs = hs.flatMap (fun h => h.name ++ [58, 32] ++ h.value ++ [13, 10]) := by
  simp [headerLines, line, k_sep, CRLF]

private theorem body_sent (q : Request) (hq : wantsBody q) :
    ¬ (q.method = [72, 69, 65, 68] ∨ q.method = [79, 80, 84, 73, 79, 78, 83]) := by
  rw [← k_head, ← k_options]
  exact fun h => h.elim hq.1 hq.2

/-! ### the reader on what the specification writes -/

private theorem cutLine_line (l rest : Bytes) (h : (10 : UInt8) ∉ l) :
    cutLine (l ++ 13 :: 10 :: rest) = some (l, rest) := by
  induction l with
  | nil => simp [cutLine, CRLF, List.isPrefixOf]
  | cons x l' ih =>
    have h' : (10 : UInt8) ∉ l' := fun m => h (List.mem_cons_of_mem _ m)
    have hno : CRLF.isPrefixOf (x :: (l' ++ 13 :: 10 :: rest)) = false := by
      cases l' with
      | nil => simp [CRLF, List.isPrefixOf]
      | cons y l'' =>
        have : ¬ (10 : UInt8) = y := fun e => h (by simp [e])
        simp [CRLF, List.isPrefixOf, this]
    simp [cutLine, hno, ih h']

private theorem cutHead_lines : ∀ (lines : List Bytes) (rest : Bytes) (fuel : Nat),
    (∀ l ∈ lines, l ≠ [] ∧ (10 : UInt8) ∉ l) → lines.length + 1 ≤ fuel →
    cutHead fuel (lines.flatMap (· ++ CRLF) ++ CRLF ++ rest) = some (lines, rest) := by
  intro lines
  induction lines with
  | nil =>
    intro rest fuel _ hf
    obtain ⟨f, rfl⟩ : ∃ f, fuel = f + 1 := ⟨fuel - 1, by omega⟩
    have := cutLine_line [] rest (by simp)
    simp only [List.nil_append] at this
    simp [cutHead, CRLF, this]
  | cons l ls ih =>
    intro rest fuel h hf
    obtain ⟨f, rfl⟩ : ∃ f, fuel = f + 1 := ⟨fuel - 1, by omega⟩
    obtain ⟨hne, h10⟩ := h l (by simp)
    have e : (l :: ls).flatMap (· ++ CRLF) ++ CRLF ++ rest
        = l ++ 13 :: 10 :: (ls.flatMap (· ++ CRLF) ++ CRLF ++ rest) := by
      simp [CRLF, List.append_assoc]
    have hemp : l.isEmpty = false := by simpa using hne
    rw [e]
    simp only [cutHead, cutLine_line l _ h10, hemp, Bool.false_eq_true, if_false]
    rw [ih rest f (fun x hx => h x (by simp [hx])) (by simp at hf; omega)]
    rfl

private theorem flatMap_length_ge (lines : List Bytes) : lines.length ≤ (lines.flatMap (· ++ CRLF)).length := by
  induction lines with
  | nil => simp
  | cons l ls ih => simp [CRLF] at ih ⊢; omega

private theorem split_lines (first : Bytes) (hs : List Header) (body : Bytes)
    (hne : first ≠ []) (h1 : (10 : UInt8) ∉ first) (hh : ∀ h ∈ hs, (10 : UInt8) ∉ h.name ∧ (10 : UInt8) ∉ h.value) :
    splitResponse (first ++ CRLF ++ headerLines hs ++ CRLF ++ body) = some (first :: hs.map headerText, body) := by
  have e : first ++ CRLF ++ headerLines hs ++ CRLF ++ body
      = (first :: hs.map headerText).flatMap (· ++ CRLF) ++ CRLF ++ body := by
    simp [headerLines, line, headerText, List.flatMap_map, List.append_assoc]
  unfold splitResponse
  rw [e]
  apply cutHead_lines
  · intro l hl
    rcases List.mem_cons.mp hl with rfl | hl
    · exact ⟨hne, h1⟩
    · obtain ⟨h, hm, rfl⟩ := List.mem_map.mp hl
      obtain ⟨hn, hv⟩ := hh h hm
      refine ⟨by simp [headerText, k_sep], ?_⟩
      simp [headerText, k_sep, hn, hv]
  · have := flatMap_length_ge (first :: hs.map headerText)
    have h2 : CRLF.length = 2 := rfl
    rw [List.length_append, List.length_append, h2]
    omega

private theorem expect_append (lit rest : Bytes) : expect lit (lit ++ rest) = some rest := by
  simp [expect]

private theorem expect_self (lit : Bytes) : expect lit lit = some [] := by
  simpa using expect_append lit []

private theorem isDigit_dec (n : Nat) : ∀ b ∈ natToDec n, isDigit b = true := by
  intro b hb
  have := Dec.natToDec_digits n b hb
  simp only [isDigit, Bool.and_eq_true, decide_eq_true_eq, UInt8.le_iff_toNat_le]
  exact ⟨by simpa using this.1, by simpa using this.2⟩

private theorem dec_value (n : Nat) : (natToDec n).foldl (fun acc d => acc * 10 + (d.toNat - 48)) 0 = n := by
  have h1 := Dec.parseNat_of_digits _ (Dec.natToDec_ne_nil n) (Dec.natToDec_digits n)
  rw [Dec.parseNat_natToDec] at h1
  exact (Option.some.inj h1).symm

/-- a decimal numeral followed by nothing or by a byte that is not a digit reads back -/
private theorem readNat_dec (n : Nat) (rest : Bytes) (hr : ∀ c, rest.head? = some c → isDigit c = false) :
    readNat (natToDec n ++ rest) = some (n, rest) := by
  have ht : rest.takeWhile isDigit = [] := by
    cases rest with
    | nil => rfl
    | cons c t => simp [List.takeWhile, hr c rfl]
  have hd : rest.dropWhile isDigit = rest := by
    cases rest with
    | nil => rfl
    | cons c t => simp [List.dropWhile, hr c rfl]
  have hne : (natToDec n).isEmpty = false := by simpa using Dec.natToDec_ne_nil n
  unfold readNat
  simp only [List.takeWhile_append_of_pos (isDigit_dec n), List.dropWhile_append_of_pos (isDigit_dec n), ht, hd,
    List.append_nil, hne, Bool.false_eq_true, if_false, dec_value]

private theorem readLabel_label (p : ContentRange) (size : Nat) (hs : p.size = natToDec size) :
    readLabel (label p) = some (p.range.start, p.range.stop, size) := by
  have e : label p = asc "bytes " ++ (natToDec p.range.start ++ (asc "-" ++ (natToDec p.range.stop ++
      (asc "/" ++ (natToDec size ++ []))))) := by simp [label, hs, List.append_assoc]
  rw [e]
  unfold readLabel
  rw [expect_append]
  simp only [Option.bind_some]
  rw [readNat_dec _ _ (by simp [k_dash, isDigit])]
  simp only [Option.bind_some]
  rw [expect_append]
  simp only [Option.bind_some]
  rw [readNat_dec _ _ (by simp [k_slash, isDigit])]
  simp only [Option.bind_some]
  rw [expect_append]
  simp only [Option.bind_some]
  rw [readNat_dec _ _ (by simp)]
  simp

private theorem k_crc : asc "Content-Range:  " = asc "Content-Range:" ++ [32, 32] := by decide +kernel
private theorem k_crlit : asc "Content-Range:" = [67, 111, 110, 116, 101, 110, 116, 45, 82, 97, 110, 103, 101, 58] := by
  decide +kernel
private theorem k_ctlit : asc "Content-Type:  " =
    [67, 111, 110, 116, 101, 110, 116, 45, 84, 121, 112, 101, 58, 32, 32] := by decide +kernel
private theorem k_byteslit : asc "bytes " = [98, 121, 116, 101, 115, 32] := by decide +kernel

private theorem not_range_line (ct : Bytes) : expect (asc "Content-Range:") (asc "Content-Type:  " ++ ct) = none := by
  simp [expect, k_crlit, k_ctlit, List.isPrefixOf]

private theorem range_line (p : ContentRange) :
    (expect (asc "Content-Range:") (asc "Content-Range:  " ++ label p)).map (fun v => v.dropWhile (· = 32)) =
      some (label p) := by
  rw [k_crc, List.append_assoc, expect_append]
  simp [label, k_byteslit, List.dropWhile]

private theorem readPartsFrom_wire (size : Nat) : ∀ (parts : List ContentRange) (fuel : Nat),
    (∀ p ∈ parts, Labelled size p) → parts.length + 1 ≤ fuel →
    readPartsFrom fuel (wireBody parts) =
      some (parts.map fun p => (p.range.start, p.range.stop, size, p.body)) := by
  intro parts
  induction parts with
  | nil =>
    intro fuel _ hf
    obtain ⟨f, rfl⟩ : ∃ f, fuel = f + 1 := ⟨fuel - 1, by omega⟩
    simp [wireBody, readPartsFrom, expect_self]
  | cons p ps ih =>
    intro fuel h hf
    obtain ⟨f, rfl⟩ : ∃ f, fuel = f + 1 := ⟨fuel - 1, by omega⟩
    obtain ⟨hab, hlen, hsz, hct⟩ := h p (by simp)
    have ih' := ih f (fun x hx => h x (by simp [hx])) (by simp at hf; omega)
    let l1 : Bytes := asc "Content-Type:  " ++ p.contentType
    let l2 : Bytes := asc "Content-Range:  " ++ label p
    have hshape : wireBody (p :: ps) =
        delimiter ++ (CRLF ++ ([l1, l2].flatMap (· ++ CRLF) ++ CRLF ++ (p.body ++ (CRLF ++ wireBody ps)))) := by
      simp [wireBody, wirePart, l1, l2, List.append_assoc]
    have hlab : (10 : UInt8) ∉ label p := by
      have d := fun n => Dec.not_mem_natToDec n 10 (by decide)
      simp [label, hsz, k_byteslit, k_dash, k_slash, d]
    have hhead : ∀ rest, cutHead (([l1, l2].flatMap (· ++ CRLF) ++ CRLF ++ rest).length)
        ([l1, l2].flatMap (· ++ CRLF) ++ CRLF ++ rest) = some ([l1, l2], rest) := by
      intro rest
      apply cutHead_lines
      · intro l hl
        simp only [List.mem_cons, List.not_mem_nil, or_false] at hl
        rcases hl with rfl | rfl
        · exact ⟨by simp [l1, k_ctlit], by simp [l1, k_ctlit, hct]⟩
        · exact ⟨by simp [l2, k_crc, k_crlit], by simp [l2, k_crc, k_crlit, hlab]⟩
      · simp [CRLF]; omega
    have hfind : ([l1, l2].findSome? (expect (asc "Content-Range:"))).map (fun v => v.dropWhile (· = 32))
        = some (label p) := by
      simp only [List.findSome?_cons, l1, not_range_line]
      have := range_line p
      cases hx : expect (asc "Content-Range:") (asc "Content-Range:  " ++ label p) with
      | none => rw [hx] at this; cases this
      | some v => rw [hx] at this; simpa [l2, hx] using this
    obtain ⟨v, hv, hvd⟩ := Option.map_eq_some_iff.mp hfind
    have hnemp : ∀ x : Bytes, (CRLF ++ x).isEmpty = false := by intro x; simp [CRLF]
    rw [hshape]
    unfold readPartsFrom
    rw [expect_append]
    simp only [Option.bind_some, hnemp, Bool.false_eq_true, if_false]
    rw [expect_append]
    simp only [Option.bind_some]
    rw [hhead]
    simp only [Option.bind_some, hv, hvd, readLabel_label p size hsz]
    have hcond : ¬ (p.range.stop < p.range.start ∨
        (p.body ++ (CRLF ++ wireBody ps)).length < p.range.stop - p.range.start + 1) := by
      simp only [List.length_append]; omega
    rw [if_neg hcond, ← hlen, List.drop_left, List.take_left, expect_append]
    simp only [Option.bind_some, ih']
    rfl

private theorem wireBody_length (parts : List ContentRange) : parts.length + 1 ≤ (wireBody parts).length := by
  have hd : delimiter.length = 18 := by decide +kernel
  have : parts.length ≤ (parts.flatMap wirePart).length := by
    induction parts with
    | nil => simp
    | cons p ps ih =>
      have : 1 ≤ (wirePart p).length := by
        simp only [wirePart, List.length_append, hd]; omega
      simp only [List.flatMap_cons, List.length_append, List.length_cons]
      omega
  simp only [wireBody, List.length_append, hd]
  omega

end helpers

/-! ## The serialiser -/

/-- **One part.**  A 206 response with exactly one part, answered to a request that asks for a
    body, is on the wire: status line, the caller's header lines, then exactly
    `Content-Type: <type>`, `Content-Range: bytes a-b/L`, `Content-Length: <number of body bytes>`,
    a blank line, and a body that is EXACTLY the part's bytes. -/
theorem C03_wire_single (r : Response) (q : Request) (p : ContentRange)
    (hst : r.status = 206) (hq : wantsBody q) (hp : r.parts = [p]) :
    Resp.generateResponse r q =
      r.version ++ asc " 206 " ++ r.reason ++ CRLF ++
      headerLines r.headers ++
      line (asc "Content-Type") p.contentType ++
      line (asc "Content-Range") (label p) ++
      line (asc "Content-Length") (natToDec p.body.length) ++
      CRLF ++ p.body := by
  rw [WireLemmas.generateResponse_eq, if_neg (body_sent q hq), hp, hst, headerLines_eq, k_206]
  simp [Resp.framingHeaders, Resp.generateBody, line, k_sep, k_ct, k_cr, k_cl, label_eq, CRLF, List.append_assoc]

/-- **Several parts.**  A 206 response with two or more parts is on the wire: status line, the
    caller's header lines, `Content-Type: multipart/byteranges; boundary=String_separator`, a blank
    line, and the body `wireBody parts`: per part and in list order the delimiter line, the part's
    own Content-Type and `Content-Range:  bytes a-b/L` lines, a blank line, exactly the part's
    bytes, CR LF; then the closing delimiter. -/
theorem C03_wire_multi (r : Response) (q : Request) (p p' : ContentRange) (ps : List ContentRange)
    (hst : r.status = 206) (hq : wantsBody q) (hp : r.parts = p :: p' :: ps) :
    Resp.generateResponse r q =
      r.version ++ asc " 206 " ++ r.reason ++ CRLF ++
      headerLines r.headers ++
      line (asc "Content-Type") (asc "multipart/byteranges; boundary=String_separator") ++
      CRLF ++ wireBody r.parts := by
  have hw : wirePart = C03WireL.partCRLF := funext wirePart_eq
  rw [WireLemmas.generateResponse_eq, if_neg (body_sent q hq), hp, hst, headerLines_eq, k_206,
    C03WireL.generateBody_parts]
  simp [Resp.framingHeaders, wireBody, hw, line, k_sep, k_ct, k_multi, k_delim, CRLF, List.append_assoc]

/-- **Everything after the first blank line, one part.**  When no line feed hides in the status
    line, the caller's headers, the part's media type or its size text, a reader that cuts the
    response at its first blank line finds: the status line, the caller's header lines, exactly one
    `Content-Type`, one `Content-Range: bytes a-b/L` and one `Content-Length` line written by the
    serialiser — and after the blank line EXACTLY the part's bytes. -/
theorem C03_wire_single_read (r : Response) (q : Request) (p : ContentRange)
    (hst : r.status = 206) (hq : wantsBody q) (hp : r.parts = [p]) (hc : HeadClean r)
    (hct : (10 : UInt8) ∉ p.contentType) (hsz : (10 : UInt8) ∉ p.size) :
    splitResponse (Resp.generateResponse r q) =
      some ((r.version ++ asc " 206 " ++ r.reason) ::
              (r.headers.map headerText ++
                [asc "Content-Type: " ++ p.contentType,
                 asc "Content-Range: " ++ label p,
                 asc "Content-Length: " ++ natToDec p.body.length]),
            p.body) := by
  obtain ⟨hv, hr, hh⟩ := hc
  have d := fun n => Dec.not_mem_natToDec n 10 (by decide)
  have e1 : asc "Content-Type: " = asc "Content-Type" ++ asc ": " := by decide +kernel
  have e2 : asc "Content-Range: " = asc "Content-Range" ++ asc ": " := by decide +kernel
  have e3 : asc "Content-Length: " = asc "Content-Length" ++ asc ": " := by decide +kernel
  have n1 : (10 : UInt8) ∉ asc "Content-Type" := by decide +kernel
  have n2 : (10 : UInt8) ∉ asc "Content-Range" := by decide +kernel
  have n3 : (10 : UInt8) ∉ asc "Content-Length" := by decide +kernel
  have hsplit := split_lines (r.version ++ asc " 206 " ++ r.reason)
    (r.headers ++ [⟨asc "Content-Type", p.contentType⟩, ⟨asc "Content-Range", label p⟩,
      ⟨asc "Content-Length", natToDec p.body.length⟩]) p.body
    (by simp [k_206]) (by simp [k_206, hv, hr]; decide)
    (by
      intro h hm
      rcases List.mem_append.mp hm with hm | hm
      · exact hh h hm
      · simp only [List.mem_cons, List.not_mem_nil, or_false] at hm
        rcases hm with rfl | rfl | rfl
        · exact ⟨n1, hct⟩
        · refine ⟨n2, ?_⟩
          simp [label, k_bytes, k_dash, k_slash, d, hsz, Gen.respBytesUnit]
        · exact ⟨n3, d _⟩)
  rw [C03_wire_single r q p hst hq hp]
  simp only [headerLines, List.flatMap_append, List.flatMap_cons, List.flatMap_nil, List.append_nil,
    List.map_append, List.map_cons, List.map_nil, headerText, List.append_assoc] at hsplit ⊢
  rw [e1, e2, e3]
  simpa only [List.append_assoc] using hsplit

/-- **Everything after the first blank line, several parts.**  Under the same hypothesis on the
    status line and the caller's headers, the reader finds the status line, the caller's header
    lines and the one line `Content-Type: multipart/byteranges; boundary=String_separator`; what
    follows the blank line is exactly `wireBody parts`. -/
theorem C03_wire_multi_read (r : Response) (q : Request) (p p' : ContentRange) (ps : List ContentRange)
    (hst : r.status = 206) (hq : wantsBody q) (hp : r.parts = p :: p' :: ps) (hc : HeadClean r) :
    splitResponse (Resp.generateResponse r q) =
      some ((r.version ++ asc " 206 " ++ r.reason) ::
              (r.headers.map headerText ++
                [asc "Content-Type: multipart/byteranges; boundary=String_separator"]),
            wireBody r.parts) := by
  obtain ⟨hv, hr, hh⟩ := hc
  have e1 : asc "Content-Type: multipart/byteranges; boundary=String_separator" =
      asc "Content-Type" ++ asc ": " ++ asc "multipart/byteranges; boundary=String_separator" := by decide +kernel
  have n1 : (10 : UInt8) ∉ asc "Content-Type" := by decide +kernel
  have n2 : (10 : UInt8) ∉ asc "multipart/byteranges; boundary=String_separator" := by decide +kernel
  have hsplit := split_lines (r.version ++ asc " 206 " ++ r.reason)
    (r.headers ++ [⟨asc "Content-Type", asc "multipart/byteranges; boundary=String_separator"⟩]) (wireBody r.parts)
    (by simp [k_206]) (by simp [k_206, hv, hr]; decide)
    (by
      intro h hm
      rcases List.mem_append.mp hm with hm | hm
      · exact hh h hm
      · simp only [List.mem_cons, List.not_mem_nil, or_false] at hm
        subst hm
        exact ⟨n1, n2⟩)
  rw [C03_wire_multi r q p p' ps hst hq hp]
  simp only [headerLines, List.flatMap_append, List.flatMap_cons, List.flatMap_nil, List.append_nil,
    List.map_append, List.map_cons, List.map_nil, headerText, List.append_assoc] at hsplit ⊢
  rw [e1]
  simpa only [List.append_assoc] using hsplit

/-- **Parse-back.**  A client that reads the multipart body part by part, taking each part's
    length from THAT PART'S Content-Range (`b - a + 1` bytes after the blank line, whatever they
    are), recovers exactly, and in order, `(first, last, size, bytes)` of every part — for every
    list of parts that are labelled consistently (`Labelled`), of any length, with any bytes. -/
theorem C03_wire_readback (parts : List ContentRange) (size : Nat) (h : ∀ p ∈ parts, Labelled size p) :
    readParts (wireBody parts) = some (parts.map fun p => (p.range.start, p.range.stop, size, p.body)) :=
  readPartsFrom_wire size parts _ h (wireBody_length parts)

/-! ## The server: target lookup, Range header, controller chain, serialiser, transport -/

/-- the standing assumptions of the server-level theorems — those of `C02.Standing` (working
    directory path leads to the served directory `root`, no symbolic link at or below it, no byte
    FilterString refuses in the working directory path, a GET for a well-formed target) with a Range
    header of value `range` in place of "no Range header" -/
structure Standing (ctx : Static.Ctx) (root : Fs.Loc) (req : Request) (range : Bytes) : Prop where
  cwd : Fs.locate ctx.tree ctx.cwd = some root
  rootDir : ctx.tree.get root = some .dir
  noLinks : Fs.noLinkUnder ctx.tree root = true
  cwdBytes : ctx.cwd.all (fun b => !([32, 34, 38, 39, 124, 59] : List UInt8).contains b) = true
  isGet : req.method = asc "GET"
  wf : C02.Spec.wfPath req.uri = true
  range : (Static.getHeader req (asc "Range")).map (·.value) = some range

/-- the part the property asks for the spec `s` on the file `data` of media type `ct`: unit `bytes`,
    label `first-last/L`, exactly the bytes `data[first..last]` -/
def slicePart (data ct : Bytes) (s : C03.Spec) : ContentRange :=
  C03.wanted data ct (s.first data.length) (s.last data.length)

/-- the whole 206 answer as bytes: status line, the header lines `hs`, then for ONE part its
    `Content-Type`, `Content-Range: bytes a-b/L`, `Content-Length` lines, a blank line and exactly
    its bytes; for several parts the multipart `Content-Type`, a blank line and `wireBody parts` -/
def wire206 (hs : List Header) (parts : List ContentRange) : Bytes :=
  asc "HTTP/1.1 206 Partial Content" ++ CRLF ++ headerLines hs ++
  match parts with
  | [p] =>
    line (asc "Content-Type") p.contentType ++
    line (asc "Content-Range") (label p) ++
    line (asc "Content-Length") (natToDec p.body.length) ++
    CRLF ++ p.body
  | _ =>
    line (asc "Content-Type") (asc "multipart/byteranges; boundary=String_separator") ++
    CRLF ++ wireBody parts

section helpers
open Rws.Fs Rws.Static Rws.Controllers Rws.StaticLemmas Rws.C03WireL

private theorem k_get : asc "GET" = [71, 69, 84] := by decide +kernel
private theorem k_range : asc "Range" = Gen.Hdr.hRange := by decide +kernel
private theorem k_http : asc "HTTP/1.1" = http11 := by decide +kernel
private theorem k_reason : asc "Partial Content" = reasonOf 206 := by decide +kernel
private theorem k_status : asc "HTTP/1.1 206 Partial Content" = asc "HTTP/1.1" ++ asc " 206 " ++ asc "Partial Content" := by
  decide +kernel

private theorem inside_bounds (L : Nat) (s : C03.Spec) (h : s.inside L) : s.first L ≤ s.last L ∧ s.last L < L := by
  cases s with
  | closed a b => exact ⟨h.1, h.2⟩
  | opn a => have : a < L := h; simp only [C03.Spec.first, C03.Spec.last]; omega
  | suffix n => have := h.1; have := h.2; simp only [C03.Spec.first, C03.Spec.last]; omega

private theorem apply206 (hs lm : List Header) (parts : List ContentRange) (reads : List Loc) :
    applyReply (r0 hs) ⟨some 206, lm, some parts, reads⟩ =
      ⟨⟨asc "HTTP/1.1", 206, asc "Partial Content", hs ++ lm, parts⟩, reads⟩ := by
  simp [applyReply, r0, k_http, k_reason]

private theorem standing_range {ctx : Ctx} {root : Loc} {req : Request} {range : Bytes}
    (h : Standing ctx root req range) : ∃ hd, getHeader req Gen.Hdr.hRange = some hd ∧ hd.value = range := by
  have := h.range
  rw [k_range] at this
  obtain ⟨hd, h1, h2⟩ := Option.map_eq_some_iff.mp this
  exact ⟨hd, h1, h2⟩

end helpers

/-- **C03 through the controller chain.**  For every tree, every served directory reached by the
    working-directory path and free of symbolic links, every well-formed GET target for which the
    documented lookup (`C02.Spec.selected`: the file itself, a directory's `index.html`, the `.html`
    rule) selects a file holding `data` — any bytes —, and every Range header `bytes=spec,…,spec`
    whose specs (closed, open, suffix, in any mixture) lie inside the file: the production chain
    answers `206 Partial Content` with, per spec and in request order, the part labelled with the
    spec's offsets and the true file size and holding exactly `data[first..last]`; the only location
    read is the selected file. -/
theorem C03_wire_execute (ctx : Static.Ctx) (root : Fs.Loc) (req : Request) (specs : List C03.Spec)
    (h : Standing ctx root req (C03.rangeHeader specs)) (sel : List Fs.Comp) (data : Bytes)
    (hsel : C02.Spec.selected ctx.tree root (C02.Spec.segments req.uri) (C02.Spec.trailingSlash req.uri) = some (sel, data))
    (hlen : C03.FileOk data)
    (hreg : C02.Spec.htmlRuleBlocked ctx.tree root (C02.Spec.segments req.uri) (C02.Spec.trailingSlash req.uri) = false)
    (hne : specs ≠ []) (hin : ∀ s ∈ specs, s.inside data.length) :
    ∃ hs lm, HeaderList.getHeaderList ctx.env ctx.now req = .ok hs ∧
      (lm = [] ∨ lm = [C02.lastModifiedHeader ctx]) ∧
      Controllers.execute ctx req false =
        .ok ⟨⟨asc "HTTP/1.1", 206, asc "Partial Content", hs ++ lm,
              specs.map (slicePart data (Mime.detect (ctx.cwd ++ C02.Spec.pathOf sel)))⟩, [root ++ sel]⟩ := by
  open Rws.Fs Rws.Static Rws.Controllers Rws.StaticLemmas Rws.C03WireL Rws.C02 in
  obtain ⟨hS, hN⟩ := setup_of h.cwd h.rootDir h.noLinks h.cwdBytes (by rw [h.isGet, k_get]) h.wf
  obtain ⟨hs, hhs⟩ := headerList_total ctx req
  obtain ⟨htrue, _⟩ := execute_to_static ctx req hN hs hhs
  obtain ⟨hd, hr, hv⟩ := standing_range h
  have hd' := h.rootDir
  -- the two stages of the range path, for every media type
  have stages : ∀ ct, ∃ l, RangeM.parseContentRange data ct data.length hd.value = .ok l ∧ l ≠ [] ∧
      RangeM.fitToFile l = .ok (specs.map (slicePart data ct)) := by
    intro ct
    rw [hv]
    exact process_inv data ct _ _ (by simpa using hne)
      (C03.C03_multi data ct [71, 69, 84] ⟨0, []⟩ specs hlen hne hin (by decide))
  have hne' : ∀ ct, specs.map (slicePart data ct) ≠ [] := fun ct => by simpa using hne
  refine ⟨hs, ?_⟩
  generalize Spec.segments req.uri = segs at *
  generalize Spec.trailingSlash req.uri = slash at *
  simp only [Spec.selected, Spec.htmlRuleBlocked, Spec.pick, Spec.viaIndex, fileAt_look _ _ hd',
    dirAt_look _ _ hd', withHtml_eq, endsHtml_eq, indexName_eq] at hsel hreg
  simp only [pathOf_eq]
  cases hK : look ctx.tree root segs with
  | file b =>
    cases slash with
    | true => simp [hK] at hsel
    | false =>
      simp only [hK, Bool.false_eq_true, if_false, Option.some.injEq, Prod.mk.injEq] at hsel
      obtain ⟨rfl, rfl⟩ := hsel
      obtain ⟨l, hpc, hl, hfit⟩ := stages (Mime.detect (ctx.cwd ++ target segs false))
      refine ⟨[lastModifiedHeader ctx], hhs, Or.inr rfl, ?_⟩
      rw [htrue _ (isMatching_file hS b hK) (process_file_ranged hS hd hr b hK l _ hpc hl hfit (hne' _))]
      exact congrArg Outcome.ok (apply206 _ _ _ _)
  | dir =>
    cases hI : look ctx.tree root (segs ++ [indexHtml]) with
    | file bi =>
      have hsel' : sel = segs ++ [indexHtml] ∧ data = bi := by
        cases slash <;> simp [hK, hI] at hsel <;> exact ⟨hsel.1.symm, hsel.2.symm⟩
      obtain ⟨rfl, rfl⟩ := hsel'
      obtain ⟨l, hpc, hl, hfit⟩ := stages (Mime.detect (ctx.cwd ++ target (segs ++ [indexHtml]) false))
      refine ⟨[lastModifiedHeader ctx], hhs, Or.inr rfl, ?_⟩
      rw [htrue _ (by rw [isMatching_dir hS hK, hI]; rfl)
        (process_index_ranged hS hd hr data hK hI l _ hpc hl hfit (hne' _))]
      exact congrArg Outcome.ok (apply206 _ _ _ _)
    | dir =>
      cases slash
      · cases hH : look ctx.tree root (addHtml segs) <;> simp [hK, hI, hH] at hsel hreg
      · simp [hK, hI] at hsel
    | missing =>
      cases slash
      · cases hH : look ctx.tree root (addHtml segs) <;> simp [hK, hI, hH] at hsel hreg
      · simp [hK, hI] at hsel
  | missing =>
    cases slash with
    | true => simp [hK] at hsel
    | false =>
      cases hH : look ctx.tree root (addHtml segs) with
      | file bh =>
        simp only [hK, hH, Bool.false_eq_true, if_false, Option.some.injEq, Prod.mk.injEq] at hsel
        obtain ⟨rfl, rfl⟩ := hsel
        have hnh : lastEndsHtml segs = false := by simpa [hK, hH] using hreg
        obtain ⟨l, hpc, hl, hfit⟩ := stages (Mime.detect (ctx.cwd ++ target (addHtml segs) false))
        refine ⟨[], hhs, Or.inl rfl, ?_⟩
        rw [htrue _ (by rw [isMatching_missing hS hK, hH, hnh]; rfl)
          (process_html_ranged hS hd hr bh hK hH l _ hpc hl hfit (hne' _))]
        exact congrArg Outcome.ok (apply206 _ _ _ _)
      | dir => simp [hK, hH] at hsel
      | missing => simp [hK, hH] at hsel

/-- the serialiser writes `wire206` for a 206 response with at least one part -/
theorem C03_wire_206 (hs : List Header) (parts : List ContentRange) (q : Request) (hq : wantsBody q)
    (hne : parts ≠ []) :
    Resp.generateResponse ⟨asc "HTTP/1.1", 206, asc "Partial Content", hs, parts⟩ q = wire206 hs parts := by
  match parts, hne with
  | [p], _ =>
    rw [C03_wire_single _ q p rfl hq rfl]
    simp [wire206, k_status, List.append_assoc]
  | p :: p' :: ps, _ =>
    rw [C03_wire_multi _ q p p' ps rfl hq rfl]
    simp [wire206, k_status, List.append_assoc]

private theorem server_core (ctx : Static.Ctx) (root : Fs.Loc) (req : Request) (specs : List C03.Spec)
    (h : Standing ctx root req (C03.rangeHeader specs)) (sel : List Fs.Comp) (data : Bytes)
    (hsel : C02.Spec.selected ctx.tree root (C02.Spec.segments req.uri) (C02.Spec.trailingSlash req.uri) = some (sel, data))
    (hlen : C03.FileOk data)
    (hreg : C02.Spec.htmlRuleBlocked ctx.tree root (C02.Spec.segments req.uri) (C02.Spec.trailingSlash req.uri) = false)
    (hne : specs ≠ []) (hin : ∀ s ∈ specs, s.inside data.length)
    (alloc : Nat) (d : Bytes) (script : List Transport.WCall)
    (hparse : Req.parse (Server.fillBuffer alloc d) = .ok req) (hclean : Transport.Progressing script = true) :
    ∃ hs lm o, HeaderList.getHeaderList ctx.env ctx.now req = .ok hs ∧
      (lm = [] ∨ lm = [C02.lastModifiedHeader ctx]) ∧
      (∀ x ∈ hs ++ lm, x.name ∉ [asc "Content-Type", asc "Content-Range", asc "Content-Length"]) ∧
      Controllers.execute ctx req false =
        .ok ⟨⟨asc "HTTP/1.1", 206, asc "Partial Content", hs ++ lm,
              specs.map (slicePart data (Mime.detect (ctx.cwd ++ C02.Spec.pathOf sel)))⟩, [root ++ sel]⟩ ∧
      Server.process ctx .real alloc (.data d) script true = .ok o ∧
      o.result = .ok ∧ o.reads = [root ++ sel] ∧
      o.wire.received =
        wire206 (hs ++ lm) (specs.map (slicePart data (Mime.detect (ctx.cwd ++ C02.Spec.pathOf sel)))) := by
  obtain ⟨hs, lm, hhs, hlm, he⟩ := C03_wire_execute ctx root req specs h sel data hsel hlen hreg hne hin
  have hnames : ∀ x ∈ hs ++ lm, x.name ∉ [asc "Content-Type", asc "Content-Range", asc "Content-Length"] := by
    have e : [asc "Content-Type", asc "Content-Range", asc "Content-Length"] =
        [C05.ascii "Content-Type", C05.ascii "Content-Range", C05.ascii "Content-Length"] := rfl
    have hlmn : C02.lastModifiedHeader ctx = ⟨C05.ascii "Last-Modified-Unix-Epoch-Nanos", ctx.mtime⟩ := by
      unfold C02.lastModifiedHeader
      congr 1
    intro x hx
    have hx' : x ∈ hs ++ [⟨C05.ascii "Last-Modified-Unix-Epoch-Nanos", ctx.mtime⟩] := by
      rcases List.mem_append.mp hx with hx | hx
      · exact List.mem_append_left _ hx
      · rcases hlm with rfl | rfl
        · cases hx
        · rw [hlmn] at hx; exact List.mem_append_right _ hx
    have := (C05.C05_header_list_no_framing ctx.env ctx.now ctx.mtime req hs hhs x hx').1
    rw [e]
    intro hm
    apply this
    simp only [C05.framingNames, List.mem_cons, List.not_mem_nil, or_false] at hm ⊢
    rcases hm with hm | hm | hm
    · exact Or.inr (Or.inl hm)
    · exact Or.inr (Or.inr hm)
    · exact Or.inl hm
  have horigin : Server.isOriginForm req = true := by
    have := h.wf
    simp only [C02.Spec.wfPath, Bool.and_eq_true, beq_iff_eq] at this
    simp [Server.isOriginForm, this.1.1.1.1]
  have hq : wantsBody req := by
    unfold wantsBody
    rw [h.isGet]
    constructor <;> decide +kernel
  have hraw := C03_wire_206 (hs ++ lm)
    (specs.map (slicePart data (Mime.detect (ctx.cwd ++ C02.Spec.pathOf sel)))) req hq (by simpa using hne)
  obtain ⟨hok, hrecv⟩ := WireLemmas.writeAll_progressing script
    (wire206 (hs ++ lm) (specs.map (slicePart data (Mime.detect (ctx.cwd ++ C02.Spec.pathOf sel))))) hclean
  refine ⟨hs, lm,
    ⟨if (Server.send (wire206 (hs ++ lm) (specs.map (slicePart data (Mime.detect (ctx.cwd ++ C02.Spec.pathOf sel)))))
          script true).wrote &&
        (Server.send (wire206 (hs ++ lm) (specs.map (slicePart data (Mime.detect (ctx.cwd ++ C02.Spec.pathOf sel)))))
          script true).flushed then .ok else .err,
     (Server.send (wire206 (hs ++ lm) (specs.map (slicePart data (Mime.detect (ctx.cwd ++ C02.Spec.pathOf sel)))))
          script true).wire, [root ++ sel]⟩, hhs, hlm, hnames, he, ?_, ?_, ?_, ?_⟩
  · unfold Server.process
    simp only [hparse, horigin, Server.appExecute, he, Bool.not_true, Bool.false_eq_true, if_false, hraw]
  · simp [Server.send, hok]
  · rfl
  · simp [Server.send, hrecv]

/-- **C03 on the wire, through `Server::process`.**  Under the hypotheses of `C03_wire_execute`,
    when the connection delivers bytes that parse to the request and the transport is clean (every
    `write` call accepts at least one byte, none fails, `flush` works): the shipped entry point
    succeeds, reads exactly the selected file, and the peer receives exactly `wire206`: the status
    line `HTTP/1.1 206 Partial Content`, the common header lines (plus at most the Last-Modified
    stamp), and — one spec — `Content-Type`, `Content-Range: bytes a-b/L`, `Content-Length`, blank
    line, exactly `data[a..b]`; — several specs — the multipart `Content-Type`, blank line, and
    `wireBody` of the slices in request order. -/
theorem C03_wire_server (ctx : Static.Ctx) (root : Fs.Loc) (req : Request) (specs : List C03.Spec)
    (h : Standing ctx root req (C03.rangeHeader specs)) (sel : List Fs.Comp) (data : Bytes)
    (hsel : C02.Spec.selected ctx.tree root (C02.Spec.segments req.uri) (C02.Spec.trailingSlash req.uri) = some (sel, data))
    (hlen : C03.FileOk data)
    (hreg : C02.Spec.htmlRuleBlocked ctx.tree root (C02.Spec.segments req.uri) (C02.Spec.trailingSlash req.uri) = false)
    (hne : specs ≠ []) (hin : ∀ s ∈ specs, s.inside data.length)
    (alloc : Nat) (d : Bytes) (script : List Transport.WCall)
    (hparse : Req.parse (Server.fillBuffer alloc d) = .ok req) (hclean : Transport.Progressing script = true) :
    ∃ hs lm o, HeaderList.getHeaderList ctx.env ctx.now req = .ok hs ∧
      (lm = [] ∨ lm = [C02.lastModifiedHeader ctx]) ∧
      (∀ x ∈ hs ++ lm, x.name ∉ [asc "Content-Type", asc "Content-Range", asc "Content-Length"]) ∧
      Server.process ctx .real alloc (.data d) script true = .ok o ∧
      o.result = .ok ∧ o.reads = [root ++ sel] ∧
      o.wire.received =
        wire206 (hs ++ lm) (specs.map (slicePart data (Mime.detect (ctx.cwd ++ C02.Spec.pathOf sel)))) := by
  obtain ⟨hs, lm, o, h1, h2, h3, _, h4⟩ :=
    server_core ctx root req specs h sel data hsel hlen hreg hne hin alloc d script hparse hclean
  exact ⟨hs, lm, o, h1, h2, h3, h4⟩

/-- **One range, spelled out.**  `C03_wire_server` for a single spec `s` (closed, open or suffix)
    with offsets `a = s.first L`, `b = s.last L` in a file of `L` bytes: the peer receives the status
    line, the common header lines, `Content-Type: <type of the selected file>`,
    `Content-Range: bytes a-b/L`, `Content-Length: b-a+1` (decimal), a blank line, and then exactly
    `data[a..b]` — nothing after it. -/
theorem C03_wire_server_single (ctx : Static.Ctx) (root : Fs.Loc) (req : Request) (s : C03.Spec)
    (h : Standing ctx root req (C03.rangeHeader [s])) (sel : List Fs.Comp) (data : Bytes)
    (hsel : C02.Spec.selected ctx.tree root (C02.Spec.segments req.uri) (C02.Spec.trailingSlash req.uri) = some (sel, data))
    (hlen : C03.FileOk data)
    (hreg : C02.Spec.htmlRuleBlocked ctx.tree root (C02.Spec.segments req.uri) (C02.Spec.trailingSlash req.uri) = false)
    (hin : s.inside data.length)
    (alloc : Nat) (d : Bytes) (script : List Transport.WCall)
    (hparse : Req.parse (Server.fillBuffer alloc d) = .ok req) (hclean : Transport.Progressing script = true) :
    ∃ hs lm o, HeaderList.getHeaderList ctx.env ctx.now req = .ok hs ∧
      (lm = [] ∨ lm = [C02.lastModifiedHeader ctx]) ∧
      (∀ x ∈ hs ++ lm, x.name ∉ [asc "Content-Type", asc "Content-Range", asc "Content-Length"]) ∧
      Server.process ctx .real alloc (.data d) script true = .ok o ∧
      o.result = .ok ∧ o.reads = [root ++ sel] ∧
      o.wire.received =
        asc "HTTP/1.1 206 Partial Content" ++ CRLF ++ headerLines (hs ++ lm) ++
        line (asc "Content-Type") (Mime.detect (ctx.cwd ++ C02.Spec.pathOf sel)) ++
        line (asc "Content-Range")
          (asc "bytes " ++ natToDec (s.first data.length) ++ asc "-" ++ natToDec (s.last data.length) ++
            asc "/" ++ natToDec data.length) ++
        line (asc "Content-Length") (natToDec (s.last data.length - s.first data.length + 1)) ++
        CRLF ++ C03.slice data (s.first data.length) (s.last data.length) := by
  obtain ⟨hs, lm, o, h1, h2, h3, h4, h5, h6, h7⟩ :=
    C03_wire_server ctx root req [s] h sel data hsel hlen hreg (by simp) (by simpa using hin) alloc d script
      hparse hclean
  obtain ⟨hab, hb⟩ := inside_bounds _ s hin
  refine ⟨hs, lm, o, h1, h2, h3, h4, h5, h6, ?_⟩
  rw [h7]
  simp only [List.map_cons, List.map_nil, wire206, slicePart, C03.wanted, label,
    C03.C03_closed_length data _ _ hab hb, List.append_assoc]

/-- **What the client reads.**  Under the hypotheses of `C03_wire_server` and a clean
    configuration (`C05.CtxClean`: no line break in the echoed CORS settings and the two clock
    texts), a client that cuts the received bytes at the first blank line finds the status line
    `HTTP/1.1 206 Partial Content` and
    * one spec: after the blank line exactly `data[a..b]`; the head's last line is
      `Content-Length: b-a+1`, the one before it `Content-Range: bytes a-b/L`;
    * several specs: a body from which the part-by-part reader `readParts` (each part's length from
      its own Content-Range) recovers, per spec and in request order, `(a, b, L, data[a..b])`. -/
theorem C03_wire_server_client (ctx : Static.Ctx) (root : Fs.Loc) (req : Request) (specs : List C03.Spec)
    (h : Standing ctx root req (C03.rangeHeader specs)) (sel : List Fs.Comp) (data : Bytes)
    (hsel : C02.Spec.selected ctx.tree root (C02.Spec.segments req.uri) (C02.Spec.trailingSlash req.uri) = some (sel, data))
    (hlen : C03.FileOk data)
    (hreg : C02.Spec.htmlRuleBlocked ctx.tree root (C02.Spec.segments req.uri) (C02.Spec.trailingSlash req.uri) = false)
    (hne : specs ≠ []) (hin : ∀ s ∈ specs, s.inside data.length)
    (alloc : Nat) (d : Bytes) (script : List Transport.WCall)
    (hparse : Req.parse (Server.fillBuffer alloc d) = .ok req) (hclean : Transport.Progressing script = true)
    (hctx : C05.CtxClean ctx = true) :
    ∃ o lines body, Server.process ctx .real alloc (.data d) script true = .ok o ∧
      splitResponse o.wire.received = some (lines, body) ∧
      lines.head? = some (asc "HTTP/1.1 206 Partial Content") ∧
      (∀ s, specs = [s] →
        body = C03.slice data (s.first data.length) (s.last data.length) ∧
        ∃ front, lines = front ++
          [asc "Content-Range: " ++ (asc "bytes " ++ natToDec (s.first data.length) ++ asc "-" ++
              natToDec (s.last data.length) ++ asc "/" ++ natToDec data.length),
           asc "Content-Length: " ++ natToDec (s.last data.length - s.first data.length + 1)]) ∧
      (2 ≤ specs.length →
        readParts body = some (specs.map fun s =>
          (s.first data.length, s.last data.length, data.length,
            C03.slice data (s.first data.length) (s.last data.length)))) := by
  obtain ⟨hs, lm, o, _, _, _, he, hproc, _, _, hrecv⟩ :=
    server_core ctx root req specs h sel data hsel hlen hreg hne hin alloc d script hparse hclean
  have hq : wantsBody req := by
    unfold wantsBody
    rw [h.isGet]
    constructor <;> decide +kernel
  -- the response value is clean
  have hcc : WireLemmas.ctxClean ctx = true := by
    have e1 : C05.echoedSettings = WireLemmas.echoedVars := by decide +kernel
    have e2 : C05.EnvClean ctx.env = WireLemmas.envClean ctx.env := by
      unfold C05.EnvClean WireLemmas.envClean
      rw [e1]
      congr 1
    have e3 : C05.noCRLF = WireLemmas.noCRLF := rfl
    simpa only [C05.CtxClean, WireLemmas.ctxClean, e2, e3] using hctx
  have hwf := WireLemmas.execute_wf ctx req false _ hcc (WireLemmas.parse_clean _ req hparse) he
  have hnames10 : ∀ n ∈ WireLemmas.serverNames, (10 : UInt8) ∉ n := by decide +kernel
  have hclean' : HeadClean ⟨asc "HTTP/1.1", 206, asc "Partial Content", hs ++ lm,
      specs.map (slicePart data (Mime.detect (ctx.cwd ++ C02.Spec.pathOf sel)))⟩ := by
    have v10 : (10 : UInt8) ∉ asc "HTTP/1.1" := by decide +kernel
    have r10 : (10 : UInt8) ∉ asc "Partial Content" := by decide +kernel
    refine ⟨v10, r10, ?_⟩
    intro x hx
    exact ⟨hnames10 _ (hwf.names x hx), (WireLemmas.noCRLF_not_mem _ (hwf.values x hx)).2⟩
  have hct10 : (10 : UInt8) ∉ Mime.detect (ctx.cwd ++ C02.Spec.pathOf sel) :=
    (WireLemmas.noCRLF_not_mem _ (WireLemmas.detect_clean _)).2
  have hraw := C03_wire_206 (hs ++ lm)
    (specs.map (slicePart data (Mime.detect (ctx.cwd ++ C02.Spec.pathOf sel)))) req hq (by simpa using hne)
  rw [← hraw] at hrecv
  match specs, hne, hin, hrecv, hclean' with
  | [s], _, hin, hrecv, hclean' =>
    obtain ⟨hab, hb⟩ := inside_bounds _ s (hin s (by simp))
    have hread := C03_wire_single_read _ req
      (slicePart data (Mime.detect (ctx.cwd ++ C02.Spec.pathOf sel)) s) rfl hq rfl hclean' hct10
      (Dec.not_mem_natToDec _ 10 (by decide))
    rw [← hrecv] at hread
    refine ⟨o, _, _, hproc, hread, ?_, ?_, ?_⟩
    · rw [k_status]; rfl
    · intro s' hs'
      have e := (List.cons.inj hs').1
      subst e
      refine ⟨rfl, (asc "HTTP/1.1" ++ asc " 206 " ++ asc "Partial Content") :: ((hs ++ lm).map headerText ++
        [asc "Content-Type: " ++ Mime.detect (ctx.cwd ++ C02.Spec.pathOf sel)]), ?_⟩
      simp [slicePart, C03.wanted, label, C03.C03_closed_length data _ _ hab hb]
    · intro h2; simp at h2
  | s :: s' :: ss, _, hin, hrecv, hclean' =>
    have hread := C03_wire_multi_read _ req _ _ _ rfl hq rfl hclean'
    rw [← hrecv] at hread
    refine ⟨o, _, _, hproc, hread, ?_, ?_, ?_⟩
    · rw [k_status]; rfl
    · intro s0 hs0; simp at hs0
    · intro _
      have := C03_wire_readback
        ((s :: s' :: ss).map (slicePart data (Mime.detect (ctx.cwd ++ C02.Spec.pathOf sel)))) data.length (by
          intro p hp
          obtain ⟨x, hx, rfl⟩ := List.mem_map.mp hp
          obtain ⟨hab, hb⟩ := inside_bounds _ x (hin x hx)
          exact ⟨hab, C03.C03_closed_length data _ _ hab hb, rfl, hct10⟩)
      rw [this, List.map_map]
      rfl

/-! ## Any Range header value: 416 or correctly labelled slices, on the wire -/

/-- the 416 answer as bytes: the error text as a whole-body `text/html` part (`0-n/n`, the library's
    whole-body convention), no byte of any file -/
def wire416 (hs : List Header) (text : Bytes) : Bytes :=
  asc "HTTP/1.1 416 Range Not Satisfiable" ++ CRLF ++ headerLines hs ++
  line (asc "Content-Type") (asc "text/html") ++
  line (asc "Content-Range") (asc "bytes 0-" ++ natToDec text.length ++ asc "/" ++ natToDec text.length) ++
  line (asc "Content-Length") (natToDec text.length) ++
  CRLF ++ text

section helpers
open Rws.Fs Rws.Static Rws.Controllers Rws.StaticLemmas Rws.C03WireL

private theorem apply416 (ctx : Ctx) (hs : List Header) :
    applyReply (r0 hs) (errorReply416 ctx) =
      ⟨⟨asc "HTTP/1.1", 416, asc "Range Not Satisfiable", hs, [RangeM.getContentRange ctx.errText htmlMime]⟩, []⟩ := by
  have : asc "Range Not Satisfiable" = reasonOf 416 := by decide +kernel
  simp [applyReply, r0, errorReply416, k_http, this]

private theorem generate416 (hs : List Header) (text : Bytes) (q : Request) (hq : wantsBody q) :
    Resp.generateResponse ⟨asc "HTTP/1.1", 416, asc "Range Not Satisfiable", hs,
      [RangeM.getContentRange text htmlMime]⟩ q = wire416 hs text := by
  have e1 : asc "HTTP/1.1 416 Range Not Satisfiable" =
      asc "HTTP/1.1" ++ [32] ++ Resp.intToDec 416 ++ [32] ++ asc "Range Not Satisfiable" := by decide +kernel
  have e2 : asc "text/html" = htmlMime := by decide +kernel
  have e3 : asc "bytes 0-" = Gen.respBytesUnit ++ [32] ++ natToDec 0 ++ [45] := by decide +kernel
  rw [WireLemmas.generateResponse_eq, if_neg (body_sent q hq), wire416, headerLines_eq, e1, e2, e3]
  simp [Resp.framingHeaders, Resp.generateBody, Resp.contentRangeValue, RangeM.getContentRange, line, k_sep, k_ct,
    k_cr, k_cl, k_slash, CRLF, List.append_assoc]

end helpers

/-- **Malformed or outside, through the controller chain.**  Same standing assumptions and lookup
    as `C03_wire_execute`, but EVERY value of the Range header (malformed, outside the file, or
    fine): the production chain answers either `416 Range Not Satisfiable` carrying the error text and
    reading no file at all, or `206 Partial Content` whose parts are all correctly labelled slices
    of the selected file (`a ≤ b < L`, label `a-b/L`, bytes exactly `data[a..b]`), reading only that
    file — never bytes from other offsets, never another file. -/
theorem C03_wire_execute_any (ctx : Static.Ctx) (root : Fs.Loc) (req : Request) (range : Bytes)
    (h : Standing ctx root req range) (sel : List Fs.Comp) (data : Bytes)
    (hsel : C02.Spec.selected ctx.tree root (C02.Spec.segments req.uri) (C02.Spec.trailingSlash req.uri) = some (sel, data))
    (hlen : C03.FileOk data)
    (hreg : C02.Spec.htmlRuleBlocked ctx.tree root (C02.Spec.segments req.uri) (C02.Spec.trailingSlash req.uri) = false) :
    ∃ hs, HeaderList.getHeaderList ctx.env ctx.now req = .ok hs ∧
      (Controllers.execute ctx req false =
          .ok ⟨⟨asc "HTTP/1.1", 416, asc "Range Not Satisfiable", hs,
                [RangeM.getContentRange ctx.errText (asc "text/html")]⟩, []⟩ ∨
       ∃ lm parts, (lm = [] ∨ lm = [C02.lastModifiedHeader ctx]) ∧ parts ≠ [] ∧
        (∀ p ∈ parts, C03.WellLabelled data (Mime.detect (ctx.cwd ++ C02.Spec.pathOf sel)) p) ∧
        Controllers.execute ctx req false =
          .ok ⟨⟨asc "HTTP/1.1", 206, asc "Partial Content", hs ++ lm, parts⟩, [root ++ sel]⟩) := by
  open Rws.Fs Rws.Static Rws.Controllers Rws.StaticLemmas Rws.C03WireL Rws.C02 in
  obtain ⟨hS, hN⟩ := setup_of h.cwd h.rootDir h.noLinks h.cwdBytes (by rw [h.isGet, k_get]) h.wf
  obtain ⟨hs, hhs⟩ := headerList_total ctx req
  obtain ⟨htrue, _⟩ := execute_to_static ctx req hN hs hhs
  obtain ⟨hd, hr, _⟩ := standing_range h
  have hd' := h.rootDir
  have ehtml : asc "text/html" = htmlMime := by decide +kernel
  refine ⟨hs, hhs, ?_⟩
  rw [ehtml]
  -- what remains once the matcher says yes and `process` is known
  have finish : ∀ (lm : List Header) (ct : Bytes) (loc : Loc), (lm = [] ∨ lm = [lastModifiedHeader ctx]) →
      isMatching ctx req = .ok true →
      (Static.process ctx req false = .ok (errorReply416 ctx) ∨
        ∃ parts, parts ≠ [] ∧ (∀ p ∈ parts, C03.WellLabelled data ct p) ∧
          Static.process ctx req false = .ok ⟨some 206, lm, some parts, [loc]⟩) →
      (execute ctx req false =
          .ok ⟨⟨asc "HTTP/1.1", 416, asc "Range Not Satisfiable", hs,
                [RangeM.getContentRange ctx.errText htmlMime]⟩, []⟩ ∨
       ∃ lm parts, (lm = [] ∨ lm = [lastModifiedHeader ctx]) ∧ parts ≠ [] ∧
        (∀ p ∈ parts, C03.WellLabelled data ct p) ∧
        execute ctx req false = .ok ⟨⟨asc "HTTP/1.1", 206, asc "Partial Content", hs ++ lm, parts⟩, [loc]⟩) := by
    intro lm ct loc hlm hm hp
    rcases hp with hp | ⟨parts, hne, hwl, hp⟩
    · left
      rw [htrue _ hm hp]
      exact congrArg Outcome.ok (apply416 ctx hs)
    · right
      refine ⟨lm, parts, hlm, hne, hwl, ?_⟩
      rw [htrue _ hm hp]
      exact congrArg Outcome.ok (apply206 _ _ _ _)
  generalize Spec.segments req.uri = segs at *
  generalize Spec.trailingSlash req.uri = slash at *
  simp only [Spec.selected, Spec.htmlRuleBlocked, Spec.pick, Spec.viaIndex, fileAt_look _ _ hd',
    dirAt_look _ _ hd', withHtml_eq, endsHtml_eq, indexName_eq] at hsel hreg
  simp only [pathOf_eq]
  cases hK : look ctx.tree root segs with
  | file b =>
    cases slash with
    | true => simp [hK] at hsel
    | false =>
      simp only [hK, Bool.false_eq_true, if_false, Option.some.injEq, Prod.mk.injEq] at hsel
      obtain ⟨rfl, rfl⟩ := hsel
      exact finish _ _ _ (Or.inr rfl) (isMatching_file hS b hK) (process_file_any hS hd hr b hlen hK)
  | dir =>
    cases hI : look ctx.tree root (segs ++ [indexHtml]) with
    | file bi =>
      have hsel' : sel = segs ++ [indexHtml] ∧ data = bi := by
        cases slash <;> simp [hK, hI] at hsel <;> exact ⟨hsel.1.symm, hsel.2.symm⟩
      obtain ⟨rfl, rfl⟩ := hsel'
      exact finish _ _ _ (Or.inr rfl) (by rw [isMatching_dir hS hK, hI]; rfl)
        (process_index_any hS hd hr data hlen hK hI)
    | dir =>
      cases slash
      · cases hH : look ctx.tree root (addHtml segs) <;> simp [hK, hI, hH] at hsel hreg
      · simp [hK, hI] at hsel
    | missing =>
      cases slash
      · cases hH : look ctx.tree root (addHtml segs) <;> simp [hK, hI, hH] at hsel hreg
      · simp [hK, hI] at hsel
  | missing =>
    cases slash with
    | true => simp [hK] at hsel
    | false =>
      cases hH : look ctx.tree root (addHtml segs) with
      | file bh =>
        simp only [hK, hH, Bool.false_eq_true, if_false, Option.some.injEq, Prod.mk.injEq] at hsel
        obtain ⟨rfl, rfl⟩ := hsel
        have hnh : lastEndsHtml segs = false := by simpa [hK, hH] using hreg
        exact finish _ _ _ (Or.inl rfl) (by rw [isMatching_missing hS hK, hH, hnh]; rfl)
          (process_html_any hS hd hr bh hlen hK hH)
      | dir => simp [hK, hH] at hsel
      | missing => simp [hK, hH] at hsel

/-- **Malformed or outside, on the wire.**  Under the hypotheses of `C03_wire_execute_any`, bytes
    that parse to the request and a clean transport: `Server::process` succeeds and the peer
    receives either exactly `wire416` (status line 416, the error text, nothing read from the tree)
    or exactly `wire206` of parts that are all correctly labelled slices of the selected file, the
    only file read. -/
theorem C03_wire_server_any (ctx : Static.Ctx) (root : Fs.Loc) (req : Request) (range : Bytes)
    (h : Standing ctx root req range) (sel : List Fs.Comp) (data : Bytes)
    (hsel : C02.Spec.selected ctx.tree root (C02.Spec.segments req.uri) (C02.Spec.trailingSlash req.uri) = some (sel, data))
    (hlen : C03.FileOk data)
    (hreg : C02.Spec.htmlRuleBlocked ctx.tree root (C02.Spec.segments req.uri) (C02.Spec.trailingSlash req.uri) = false)
    (alloc : Nat) (d : Bytes) (script : List Transport.WCall)
    (hparse : Req.parse (Server.fillBuffer alloc d) = .ok req) (hclean : Transport.Progressing script = true) :
    ∃ hs o, HeaderList.getHeaderList ctx.env ctx.now req = .ok hs ∧
      Server.process ctx .real alloc (.data d) script true = .ok o ∧ o.result = .ok ∧
      ((o.reads = [] ∧ o.wire.received = wire416 hs ctx.errText) ∨
       ∃ lm parts, (lm = [] ∨ lm = [C02.lastModifiedHeader ctx]) ∧ parts ≠ [] ∧
        (∀ p ∈ parts, C03.WellLabelled data (Mime.detect (ctx.cwd ++ C02.Spec.pathOf sel)) p) ∧
        o.reads = [root ++ sel] ∧ o.wire.received = wire206 (hs ++ lm) parts) := by
  obtain ⟨hs, hhs, hex⟩ := C03_wire_execute_any ctx root req range h sel data hsel hlen hreg
  have horigin : Server.isOriginForm req = true := by
    have := h.wf
    simp only [C02.Spec.wfPath, Bool.and_eq_true, beq_iff_eq] at this
    simp [Server.isOriginForm, this.1.1.1.1]
  have hq : wantsBody req := by
    unfold wantsBody
    rw [h.isGet]
    constructor <;> decide +kernel
  have ehtml : asc "text/html" = Static.htmlMime := by decide +kernel
  -- what `Server::process` does with a known answer
  have run : ∀ (a : Controllers.Answer), Controllers.execute ctx req false = .ok a →
      ∃ o, Server.process ctx .real alloc (.data d) script true = .ok o ∧ o.result = .ok ∧
        o.reads = a.reads ∧ o.wire.received = Resp.generateResponse a.response req := by
    intro a ha
    obtain ⟨hok, hrecv⟩ := WireLemmas.writeAll_progressing script (Resp.generateResponse a.response req) hclean
    refine ⟨⟨if (Server.send (Resp.generateResponse a.response req) script true).wrote &&
        (Server.send (Resp.generateResponse a.response req) script true).flushed then .ok else .err,
      (Server.send (Resp.generateResponse a.response req) script true).wire, a.reads⟩, ?_, ?_, rfl, ?_⟩
    · unfold Server.process
      simp only [hparse, horigin, Server.appExecute, ha, Bool.not_true, Bool.false_eq_true, if_false]
    · simp [Server.send, hok]
    · simp [Server.send, hrecv]
  rcases hex with he | ⟨lm, parts, hlm, hne, hwl, he⟩
  · obtain ⟨o, h1, h2, h3, h4⟩ := run _ he
    refine ⟨hs, o, hhs, h1, h2, Or.inl ⟨h3, ?_⟩⟩
    rw [h4, ehtml]
    exact generate416 hs ctx.errText req hq
  · obtain ⟨o, h1, h2, h3, h4⟩ := run _ he
    refine ⟨hs, o, hhs, h1, h2, Or.inr ⟨lm, parts, hlm, hne, hwl, h3, ?_⟩⟩
    rw [h4]
    exact C03_wire_206 (hs ++ lm) parts req hq hne

/-! ## Non-vacuity: the hypotheses hold on concrete, non-trivial inputs (kernel-evaluated) -/

section examples

/-- ten bytes that are NOT UTF-8 text: `é` (C3 A9), a stray FF, NUL, CR, LF, `€` (E2 82 AC), `-` -/
def odd : Bytes := [0xC3, 0xA9, 0xFF, 0x00, 13, 10, 0xE2, 0x82, 0xAC, 45]

/-- the served directory `/srv`: `ten.txt` = "0123456789", `a.bin` = `odd`, `docs/index.html` -/
def demoTree : Fs.Tree := ⟨[
  ([asc "srv", asc "ten.txt"], .file C03.ten),
  ([asc "srv", asc "a.bin"], .file odd),
  ([asc "srv", asc "docs", asc "index.html"], .file (asc "<h1>docs</h1>")),
  ([asc "etc", asc "passwd"], .file (asc "root"))]⟩

def demoCtx : Static.Ctx := ⟨demoTree, asc "/srv", fun _ => none, asc "1", asc "2", asc "error"⟩

/-- the bytes a client sends -/
def demoBytes (target range : String) : Bytes :=
  asc ("GET " ++ target ++ " HTTP/1.1\r\nRange: " ++ range ++ "\r\n\r\n")

/-- what `Request::parse` makes of them in a 64-byte buffer (the body is the buffer's zero padding) -/
def demoReq (target range : String) : Request :=
  ⟨asc "GET", asc target, asc "HTTP/1.1", [⟨asc "Range", asc range⟩],
    List.replicate (64 - (demoBytes target range).length) 0⟩

/-- what the peer received -/
def receivedOf (o : Outcome Server.Outcome2) : Option Bytes :=
  match o with
  | .ok o => some o.wire.received
  | _ => none

-- the serialiser theorems apply: a 206 response value with caller headers, one part / two parts
example : wantsBody (demoReq "/ten.txt" "bytes=2-5") ∧
    HeadClean ⟨asc "HTTP/1.1", 206, asc "Partial Content", [⟨asc "Vary", asc "Origin"⟩], []⟩ ∧
    Labelled 10 (C03.wanted C03.ten (asc "text/plain") 2 5) ∧ Labelled 10 (C03.wanted odd [] 1 7) := by
  decide +kernel
example : Resp.generateResponse ⟨asc "HTTP/1.1", 206, asc "Partial Content", [⟨asc "Vary", asc "Origin"⟩],
      [C03.wanted C03.ten (asc "text/plain") 2 5]⟩ (demoReq "/ten.txt" "bytes=2-5") =
    asc ("HTTP/1.1 206 Partial Content\r\nVary: Origin\r\nContent-Type: text/plain\r\n" ++
      "Content-Range: bytes 2-5/10\r\nContent-Length: 4\r\n\r\n2345") := by decide +kernel
example : wireBody [C03.wanted C03.ten (asc "text/plain") 0 1, C03.wanted C03.ten (asc "text/plain") 8 9] =
    asc ("--String_separator\r\nContent-Type:  text/plain\r\nContent-Range:  bytes 0-1/10\r\n\r\n01\r\n" ++
      "--String_separator\r\nContent-Type:  text/plain\r\nContent-Range:  bytes 8-9/10\r\n\r\n89\r\n" ++
      "--String_separator") := by decide +kernel
-- HEAD gets no body (outside `wantsBody`)
example : ¬ wantsBody ⟨asc "HEAD", asc "/ten.txt", asc "HTTP/1.1", [], []⟩ := by decide +kernel

-- a file that is not UTF-8, cut INSIDE the two-byte `é` (C3 | A9) and inside the three-byte `€`
-- (E2 82 | AC): the parts carry exactly those bytes, CR LF and NUL included, and read back
example : C03.slice odd 0 0 = [0xC3] ∧ C03.slice odd 1 7 = [0xA9, 0xFF, 0x00, 13, 10, 0xE2, 0x82] := by decide +kernel
example : wireBody [C03.wanted odd (asc "x/y") 0 0, C03.wanted odd (asc "x/y") 1 7] =
    asc "--String_separator\r\nContent-Type:  x/y\r\nContent-Range:  bytes 0-0/10\r\n\r\n" ++ [0xC3] ++
    asc "\r\n--String_separator\r\nContent-Type:  x/y\r\nContent-Range:  bytes 1-7/10\r\n\r\n" ++
    [0xA9, 0xFF, 0x00, 13, 10, 0xE2, 0x82] ++ asc "\r\n--String_separator" := by decide +kernel
example : readParts (wireBody [C03.wanted odd (asc "x/y") 0 0, C03.wanted odd (asc "x/y") 1 7]) =
    some [(0, 0, 10, [0xC3]), (1, 7, 10, [0xA9, 0xFF, 0x00, 13, 10, 0xE2, 0x82])] :=
  C03_wire_readback _ 10 (by decide +kernel)
-- a part whose bytes CONTAIN a delimiter line: the reader goes by the part's own length
example : readParts (wireBody [⟨asc "bytes", ⟨0, 22⟩, asc "30", asc "a\r\n--String_separator\r\n", asc "x/y"⟩,
      ⟨asc "bytes", ⟨28, 29⟩, asc "30", asc "yz", asc "x/y"⟩]) =
    some [(0, 22, 30, asc "a\r\n--String_separator\r\n"), (28, 29, 30, asc "yz")] := by decide +kernel

-- the server theorems apply: the standing assumptions, the lookup, the specs, the parsed request
example : Req.parse (Server.fillBuffer 64 (demoBytes "/ten.txt" "bytes=2-5")) = .ok (demoReq "/ten.txt" "bytes=2-5") ∧
    Req.parse (Server.fillBuffer 64 (demoBytes "/a.bin" "bytes=0-0,1-7")) = .ok (demoReq "/a.bin" "bytes=0-0,1-7") := by
  decide +kernel
example : C03.rangeHeader [.closed 2 5] = asc "bytes=2-5" ∧ C03.rangeHeader [.closed 0 0, .closed 1 7] = asc "bytes=0-0,1-7" ∧
    C03.rangeHeader [.opn 7, .suffix 3] = asc "bytes=7-,-3" := by decide +kernel

private theorem demoStanding (target range : String) (specs : List C03.Spec)
    (hwf : C02.Spec.wfPath (asc target) = true) (hr : asc range = C03.rangeHeader specs) :
    Standing demoCtx [asc "srv"] (demoReq target range) (C03.rangeHeader specs) :=
  ⟨by decide +kernel, by decide +kernel, by decide +kernel, by decide +kernel, rfl, hwf, by
    rw [← hr]
    have : asc "Range" = [82, 97, 110, 103, 101] := by decide +kernel
    simp [Static.getHeader, Cors.getHeader, demoReq, this]⟩

/-- **`bytes=2-5` on the ten-byte file, through `Server::process`**, by the general theorem: the
    peer receives the head followed by exactly `2345`, over a transport that takes 7 bytes, then
    1000, then the rest. -/
theorem C03_wire_demo_single :
    ∃ hs lm o, Server.process demoCtx .real 64 (.data (demoBytes "/ten.txt" "bytes=2-5")) [.acc 7, .acc 1000] true = .ok o ∧
      o.result = .ok ∧ o.reads = [[asc "srv", asc "ten.txt"]] ∧
      o.wire.received =
        asc "HTTP/1.1 206 Partial Content" ++ CRLF ++ headerLines (hs ++ lm) ++
        line (asc "Content-Type") (asc "text/plain") ++ line (asc "Content-Range") (asc "bytes 2-5/10") ++
        line (asc "Content-Length") (asc "4") ++ CRLF ++ asc "2345" := by
  obtain ⟨hs, lm, o, _, _, _, h1, h2, h3, h4⟩ :=
    C03_wire_server_single demoCtx [asc "srv"] (demoReq "/ten.txt" "bytes=2-5") (.closed 2 5)
      (demoStanding _ _ [.closed 2 5] (by decide +kernel) (by decide +kernel))
      [asc "ten.txt"] C03.ten (by decide +kernel) (by decide +kernel) (by decide +kernel) (by decide +kernel)
      64 (demoBytes "/ten.txt" "bytes=2-5") [.acc 7, .acc 1000] (by decide +kernel) (by decide +kernel)
  refine ⟨hs, lm, o, h1, h2, h3, ?_⟩
  rw [h4]
  have e1 : Mime.detect (demoCtx.cwd ++ C02.Spec.pathOf [asc "ten.txt"]) = asc "text/plain" := by decide +kernel
  have e2 : asc "bytes " ++ natToDec (C03.Spec.first C03.ten.length (.closed 2 5)) ++ asc "-" ++
      natToDec (C03.Spec.last C03.ten.length (.closed 2 5)) ++ asc "/" ++ natToDec C03.ten.length = asc "bytes 2-5/10" := by
    decide +kernel
  have e3 : natToDec (C03.Spec.last C03.ten.length (.closed 2 5) - C03.Spec.first C03.ten.length (.closed 2 5) + 1) =
      asc "4" := by decide +kernel
  have e4 : C03.slice C03.ten (C03.Spec.first C03.ten.length (.closed 2 5)) (C03.Spec.last C03.ten.length (.closed 2 5)) =
      asc "2345" := by decide +kernel
  rw [e1, e2, e3, e4]

-- the same runs evaluated outright: the head has 10 common lines (status line, eight fixed headers,
-- the Last-Modified stamp); after them the framing lines, and after the blank line the body
example : ((receivedOf (Server.process demoCtx .real 64 (.data (demoBytes "/ten.txt" "bytes=2-5")) [.acc 7, .acc 1000] true)).bind
      splitResponse).map (fun x => (x.1.head?, x.1.length, x.1.drop 10, x.2)) =
    some (some (asc "HTTP/1.1 206 Partial Content"), 13,
      [asc "Content-Type: text/plain", asc "Content-Range: bytes 2-5/10", asc "Content-Length: 4"], asc "2345") := by
  decide +kernel
example : ((receivedOf (Server.process demoCtx .real 64 (.data (demoBytes "/ten.txt" "bytes=0-1,8-9")) [] true)).bind
      splitResponse).map (fun x => (x.1.length, x.1.drop 10, x.2)) =
    some (11, [asc "Content-Type: multipart/byteranges; boundary=String_separator"],
      asc "--String_separator\r\nContent-Type:  text/plain\r\nContent-Range:  bytes 0-1/10\r\n\r\n01\r\n" ++
      asc "--String_separator\r\nContent-Type:  text/plain\r\nContent-Range:  bytes 8-9/10\r\n\r\n89\r\n" ++
      asc "--String_separator") := by decide +kernel

/-- **`bytes=0-0,1-7` on the non-UTF-8 file, through `Server::process`**, by the general theorem:
    the client cuts the response at the blank line and reads back both parts, the cuts falling
    inside `é` and inside `€`. -/
theorem C03_wire_demo_binary :
    ∃ o lines body, Server.process demoCtx .real 64 (.data (demoBytes "/a.bin" "bytes=0-0,1-7")) [] true = .ok o ∧
      splitResponse o.wire.received = some (lines, body) ∧
      readParts body = some [(0, 0, 10, [0xC3]), (1, 7, 10, [0xA9, 0xFF, 0x00, 13, 10, 0xE2, 0x82])] := by
  obtain ⟨o, lines, body, h1, h2, _, _, h3⟩ :=
    C03_wire_server_client demoCtx [asc "srv"] (demoReq "/a.bin" "bytes=0-0,1-7") [.closed 0 0, .closed 1 7]
      (demoStanding _ _ _ (by decide +kernel) (by decide +kernel))
      [asc "a.bin"] odd (by decide +kernel) (by decide +kernel) (by decide +kernel) (by simp) (by decide +kernel)
      64 (demoBytes "/a.bin" "bytes=0-0,1-7") [] (by decide +kernel) (by decide +kernel) (by decide +kernel)
  exact ⟨o, lines, body, h1, h2, by rw [h3 (by decide)]; decide +kernel⟩

-- the lookup rules of C02 carry over: `/docs` is answered from `docs/index.html`, open and suffix specs
example : ∃ hs lm, Controllers.execute demoCtx (demoReq "/docs" "bytes=7-,-3") false =
    .ok ⟨⟨asc "HTTP/1.1", 206, asc "Partial Content", hs ++ lm,
          [⟨asc "bytes", ⟨7, 12⟩, asc "13", asc "s</h1>", asc "text/html"⟩,
           ⟨asc "bytes", ⟨10, 12⟩, asc "13", asc "h1>", asc "text/html"⟩]⟩,
         [[asc "srv", asc "docs", asc "index.html"]]⟩ := by
  obtain ⟨hs, lm, _, _, he⟩ :=
    C03_wire_execute demoCtx [asc "srv"] (demoReq "/docs" "bytes=7-,-3") [.opn 7, .suffix 3]
      (demoStanding _ _ _ (by decide +kernel) (by decide +kernel))
      [asc "docs", asc "index.html"] (asc "<h1>docs</h1>") (by decide +kernel) (by decide +kernel)
      (by decide +kernel) (by simp) (by decide +kernel)
  refine ⟨hs, lm, ?_⟩
  rw [he]
  have : List.map (slicePart (asc "<h1>docs</h1>")
      (Mime.detect (demoCtx.cwd ++ C02.Spec.pathOf [asc "docs", asc "index.html"]))) [.opn 7, .suffix 3] =
      [⟨asc "bytes", ⟨7, 12⟩, asc "13", asc "s</h1>", asc "text/html"⟩,
       ⟨asc "bytes", ⟨10, 12⟩, asc "13", asc "h1>", asc "text/html"⟩] := by decide +kernel
  rw [this]
  rfl

-- `C03_wire_server_any` applies to a malformed value, a suffix longer than the file and a range that
-- reaches outside; evaluated outright: `bytes=-30` and `x` are 416 carrying the error text and read
-- nothing, `bytes=8-10` is the slice clamped to the file (`8-9/10`, bytes `89`)
example : Standing demoCtx [asc "srv"] (demoReq "/ten.txt" "x") (asc "x") ∧
    Standing demoCtx [asc "srv"] (demoReq "/ten.txt" "bytes=-30") (asc "bytes=-30") ∧
    Standing demoCtx [asc "srv"] (demoReq "/ten.txt" "bytes=8-10") (asc "bytes=8-10") := by
  have hr : asc "Range" = [82, 97, 110, 103, 101] := by decide +kernel
  refine ⟨⟨by decide +kernel, by decide +kernel, by decide +kernel, by decide +kernel, rfl, by decide +kernel, ?_⟩,
    ⟨by decide +kernel, by decide +kernel, by decide +kernel, by decide +kernel, rfl, by decide +kernel, ?_⟩,
    ⟨by decide +kernel, by decide +kernel, by decide +kernel, by decide +kernel, rfl, by decide +kernel, ?_⟩⟩ <;>
  simp [Static.getHeader, Cors.getHeader, demoReq, hr]
example : receivedOf (Server.process demoCtx .real 64 (.data (demoBytes "/ten.txt" "bytes=-30")) [] true) =
    some (wire416 (HeaderList.fixedHeaders (asc "1")) (asc "error")) := by decide +kernel
example : ((receivedOf (Server.process demoCtx .real 64 (.data (demoBytes "/ten.txt" "x")) [] true)).bind
      splitResponse).map (fun x => (x.1.head?, x.1.drop 9, x.2)) =
    some (some (asc "HTTP/1.1 416 Range Not Satisfiable"),
      [asc "Content-Type: text/html", asc "Content-Range: bytes 0-5/5", asc "Content-Length: 5"], asc "error") := by
  decide +kernel
example : ((receivedOf (Server.process demoCtx .real 64 (.data (demoBytes "/ten.txt" "bytes=8-10")) [] true)).bind
      splitResponse).map (fun x => (x.1.head?, x.1.drop 10, x.2)) =
    some (some (asc "HTTP/1.1 206 Partial Content"),
      [asc "Content-Type: text/plain", asc "Content-Range: bytes 8-9/10", asc "Content-Length: 2"], asc "89") := by
  decide +kernel

-- NOTE (framing, not a violation of C03 as stated; no entry in known_findings): the multipart body
-- ends with the bare delimiter `--String_separator`.  RFC 2046 closes a multipart body with
-- `--boundary--`; a client that waits for the close-delimiter does not find one.  The boundary text
-- is a constant, so a file that itself contains a line `--String_separator` is only framed
-- unambiguously for a client that reads each part by its Content-Range length, as `readParts` does.
example : ¬ (asc "--String_separator--" ++ CRLF) <:+ wireBody [C03.wanted C03.ten [] 0 1, C03.wanted C03.ten [] 8 9] ∧
    ¬ asc "--String_separator--" <:+ wireBody [C03.wanted C03.ten [] 0 1, C03.wanted C03.ten [] 8 9] ∧
    delimiter <:+ wireBody [C03.wanted C03.ten [] 0 1, C03.wanted C03.ten [] 8 9] := by decide +kernel

end examples

end Rws.C03Wire
