/-
  C01 — requests cannot read files outside the served directory.

  The server model returns a ghost list `reads` of the tree locations whose bytes entered the
  response (`Server.process`: `o.reads`; `Server.processRequest`: third component).  The
  theorems say, for EVERY tree, working directory, environment, error text, allocation size,
  read script, write script and flush flag, on BOTH entry points:

  * `C01_containment`        every location read lies under the served root, provided the tree
                             holds no symbolic link under the root (any target, any Range header);
  * `C01_symlink_exception`  the property's stated exception, exactly: a read outside the root
                             implies a symbolic link stored under the root;
  * `C01_guard_spec`         the `..` guard of the code is the segment predicate of the spec;
  * `C01_dotdot_never_matches`, `C01_climb_is_error…`  a target with a `..` segment (in
                             particular every target that climbs above the root) is not matched by
                             the static controller and is answered 404 (production chain) / 404 or
                             403 (legacy chain); on the wire the status line says so.

  Hypothesis on the working directory (`CwdIs`): `ctx.cwd` is the path string of a location
  `root` made of plain names, and `root` and its ancestors are directories of the tree — the
  process was started in an existing directory.  Decidable; satisfied by the example at the end.

  Not covered here (model level, see Rws/Fs.lean): that Linux resolves paths as `Fs.walk`.
  Helper lemmas: RwsProofs/Lemmas/PathSeg.lean, RwsProofs/Lemmas/Containment.lean, Lemmas/Fs.lean.
-/
import RwsProofs.Lemmas.Containment

namespace Rws.C01
open Rws Rws.Fs Rws.Static Rws.Server Rws.UrlParse

/-! ### Specification (readable without the model) -/

/-- `loc` is the served root or lies below it (locations are lists of names from `/`) -/
def Under (root loc : Fs.Loc) : Prop := root <+: loc

/-- some segment of `p` — the text between two separators `/` or `\`, or an end of `p` — is
    exactly `..` -/
def HasDotDotSegment (p : Bytes) : Prop :=
  ∃ before after, p = before ++ [46, 46] ++ after ∧
    (∀ b, before.getLast? = some b → b = 47 ∨ b = 92) ∧
    (∀ b, after.head? = some b → b = 47 ∨ b = 92)

/-- the `/`-separated pieces of a path -/
def segments (p : Bytes) : List Bytes := Split.splitB 47 p

/-- the running depth of the segments goes below the starting depth `d`: `..` goes up,
    empty segments and `.` stay, any other name goes down -/
def climbsFrom : Nat → List Bytes → Bool
  | _, [] => false
  | d, s :: rest =>
    if s = [46, 46] then (match d with
      | 0 => true
      | d + 1 => climbsFrom d rest)
    else if s = [] ∨ s = [46] then climbsFrom d rest
    else climbsFrom (d + 1) rest

/-- the path leaves the directory it is resolved in -/
def Climbs (p : Bytes) : Bool := climbsFrom 0 (segments p)

/-- a name of a directory entry: not empty, not `.`, not `..`, no `/` inside -/
def plainName (c : Bytes) : Bool := c ≠ [] && c ≠ [46] && c ≠ [46, 46] && !(c.contains 47)

/-- `root` consists of plain names, and it and all its ancestors are directories of the tree -/
def RootIsDirectory (t : Tree) (root : Fs.Loc) : Bool :=
  root.all plainName && (List.range (root.length + 1)).all (fun k => decide (t.get (root.take k) = some .dir))

/-- the server was started in the directory `root` -/
def CwdIs (ctx : Ctx) (root : Fs.Loc) : Prop :=
  ctx.cwd = Fs.pathOf root ∧ RootIsDirectory ctx.tree root = true

instance (ctx : Ctx) (root : Fs.Loc) : Decidable (CwdIs ctx root) := by unfold CwdIs; infer_instance

/-- the status line of `raw` announces 400, 403 or 404 -/
def AnsweredWithError (raw : Bytes) : Prop :=
  [72, 84, 84, 80, 47, 49, 46, 49, 32, 52, 48, 48, 32] <+: raw ∨      -- "HTTP/1.1 400 "
  [72, 84, 84, 80, 47, 49, 46, 49, 32, 52, 48, 51, 32] <+: raw ∨      -- "HTTP/1.1 403 "
  [72, 84, 84, 80, 47, 49, 46, 49, 32, 52, 48, 52, 32] <+: raw        -- "HTTP/1.1 404 "

private theorem served_of {ctx : Ctx} {root : Fs.Loc} (hcwd : CwdIs ctx root)
    (hnl : Fs.noLinkUnder ctx.tree root = true) : Containment.Served ctx.tree ctx.cwd root :=
  ⟨hcwd.1, hcwd.2, hnl⟩

/-! ### the `..` guard -/

/-- the guard of the code (`has_parent_directory_segment`) decides the segment predicate -/
theorem C01_guard_spec (p : Bytes) : hasParentDirSegment p = true ↔ HasDotDotSegment p := by
  have hocc : PathSeg.Occurs PathSeg.isSep [46, 46] p ↔ HasDotDotSegment p := by
    unfold PathSeg.Occurs HasDotDotSegment
    simp only [PathSeg.isSep, Bool.or_eq_true, beq_iff_eq]
  rw [← hocc]
  unfold hasParentDirSegment
  rw [PathSeg.splitSeps_eq, List.any_eq_true]
  constructor
  · rintro ⟨c, hc, he⟩
    simp only [decide_eq_true_eq] at he
    subst he
    exact ((PathSeg.mem_splitBy_iff _ _ _).mp hc).2
  · intro h
    exact ⟨[46, 46], (PathSeg.mem_splitBy_iff _ _ _).mpr ⟨PathSeg.dotdot_nosep, h⟩, by simp⟩

/-- `/../secret.txt` -/
example : HasDotDotSegment [47, 46, 46, 47, 115, 101, 99, 114, 101, 116, 46, 116, 120, 116] :=
  ⟨[47], [47, 115, 101, 99, 114, 101, 116, 46, 116, 120, 116], rfl, by simp, by simp⟩
example : hasParentDirSegment [47, 46, 46, 47, 115, 101, 99, 114, 101, 116, 46, 116, 120, 116] = true := by decide
/-- `/sub/../../x` -/
example : HasDotDotSegment [47, 115, 117, 98, 47, 46, 46, 47, 46, 46, 47, 120] :=
  ⟨[47, 115, 117, 98, 47], [47, 46, 46, 47, 120], rfl, by simp, by simp⟩
example : hasParentDirSegment [47, 115, 117, 98, 47, 46, 46, 47, 46, 46, 47, 120] = true := by decide
/-- `/a\..\b` -/
example : HasDotDotSegment [47, 97, 92, 46, 46, 92, 98] := ⟨[47, 97, 92], [92, 98], rfl, by simp, by simp⟩
example : hasParentDirSegment [47, 97, 92, 46, 46, 92, 98] = true := by decide
/-- a path that ends in `..` -/
example : HasDotDotSegment [47, 120, 47, 46, 46] := ⟨[47, 120, 47], [], rfl, by simp, by simp⟩
/-- not segments: `/..x`, `/%2e%2e/x` (never decoded), `/...` -/
example : ¬ HasDotDotSegment [47, 46, 46, 120] := by rw [← C01_guard_spec]; decide
example : ¬ HasDotDotSegment [47, 37, 50, 101, 37, 50, 101, 47, 120] := by rw [← C01_guard_spec]; decide
example : ¬ HasDotDotSegment [47, 46, 46, 46] := by rw [← C01_guard_spec]; decide

private theorem climbsFrom_mem : ∀ (l : List Bytes) (d : Nat), climbsFrom d l = true → [46, 46] ∈ l := by
  intro l
  induction l with
  | nil => intro d h; simp [climbsFrom] at h
  | cons s rest ih =>
    intro d h
    unfold climbsFrom at h
    split at h
    · rename_i hs; simp [hs]
    · split at h
      · exact List.mem_cons_of_mem _ (ih _ h)
      · exact List.mem_cons_of_mem _ (ih _ h)

/-- every path that climbs above the directory it is resolved in has a `..` segment, so the
    theorems below about `hasParentDirSegment` cover every climbing target -/
theorem C01_climbs_has_dotdot (p : Bytes) (h : Climbs p = true) : hasParentDirSegment p = true := by
  have hm := climbsFrom_mem _ _ h
  cases hg : hasParentDirSegment p with
  | true => rfl
  | false =>
    have := PathSeg.comps_no_dotdot p hg [46, 46] (by
      unfold Fs.comps; rw [Split.splitAll_single]; exact hm)
    exact absurd rfl this

/-- `/sub/../../x` climbs; `/sub/../x` does not (and is still refused: the guard is stricter) -/
example : Climbs [47, 115, 117, 98, 47, 46, 46, 47, 46, 46, 47, 120] = true := by decide
example : Climbs [47, 115, 117, 98, 47, 46, 46, 47, 120] = false := by decide

/-- the static controller of neither chain matches a target with a `..` segment (production:
    in the parsed path; legacy: in the raw target) -/
theorem C01_dotdot_never_matches (ctx : Ctx) (req : Request) :
    (∀ c, parseUrl (urlOf req.uri) = .ok c → hasParentDirSegment c.path = true →
      isMatching ctx req = .ok false) ∧
    (hasParentDirSegment req.uri = true → isMatchingLegacy ctx req = false) :=
  ⟨fun c hc hd => Containment.isMatching_dotdot ctx req c hc hd,
   fun hd => Containment.isMatchingLegacy_dotdot ctx req hd⟩

/-- and if the static controller is asked all the same, it answers 403 without reading -/
theorem C01_dotdot_never_served (ctx : Ctx) (req : Request) (legacy : Bool) (c : UrlComponents)
    (hc : parseUrl (urlOf req.uri) = .ok c) (hd : hasParentDirSegment c.path = true) :
    ∃ rep, Static.process ctx req legacy = .ok rep ∧ rep.status = some 403 ∧ rep.reads = [] :=
  ⟨_, Containment.process_dotdot ctx req legacy c hc hd, rfl, rfl⟩

/-! ### containment -/

/-- both controller chains, any request with an origin-form target -/
theorem C01_containment_chain (ctx : Ctx) (root : Fs.Loc) (hcwd : CwdIs ctx root)
    (hnl : Fs.noLinkUnder ctx.tree root = true) (req : Request) (huri : req.uri.head? = some 47)
    (legacy : Bool) (a : Controllers.Answer) (h : Controllers.execute ctx req legacy = .ok a) :
    ∀ loc ∈ a.reads, Under root loc :=
  Containment.execute_reads (served_of hcwd hnl) req huri legacy a h

/-- **Containment.**  Whatever arrives on the connection and whatever the transport does, every
    tree location whose bytes enter the response lies under the served root — on
    `Server::process` (any application handler) and on the legacy `Server::process_request` —
    as long as no symbolic link is stored under the root. -/
theorem C01_containment (ctx : Ctx) (root : Fs.Loc) (hcwd : CwdIs ctx root)
    (hnl : Fs.noLinkUnder ctx.tree root = true)
    (alloc : Nat) (read : ReadScript) (script : List Transport.WCall) (flushOk : Bool) :
    (∀ app o, Server.process ctx app alloc read script flushOk = .ok o →
      ∀ loc ∈ o.reads, Under root loc) ∧
    (∀ raw wire reads, Server.processRequest ctx alloc read script flushOk = .ok (raw, wire, reads) →
      ∀ loc ∈ reads, Under root loc) :=
  ⟨fun app o h => Containment.server_process_reads (served_of hcwd hnl) app alloc read script flushOk o h,
   fun raw wire reads h =>
     Containment.server_processRequest_reads (served_of hcwd hnl) alloc read script flushOk raw wire reads h⟩

private theorem link_of_not_noLink (t : Tree) (root : Fs.Loc) (h : Fs.noLinkUnder t root = false) :
    ∃ l target, (l, Entry.link target) ∈ t.entries ∧ Under root l := by
  unfold Fs.noLinkUnder at h
  rw [List.all_eq_false] at h
  obtain ⟨⟨l, e⟩, hm, hp⟩ := h
  cases e with
  | file c => simp at hp
  | dir => simp at hp
  | link target =>
    simp only [Bool.not_eq_eq_eq_not, Bool.not_true, Bool.not_eq_false] at hp
    exact ⟨l, target, hm, List.isPrefixOf_iff_prefix.mp hp⟩

/-- **The stated exception, and nothing else.**  If a response of either entry point carries
    bytes of a location outside the root, then the tree stores a symbolic link at a location
    under the root (placed there by the directory's owner). -/
theorem C01_symlink_exception (ctx : Ctx) (root : Fs.Loc) (hcwd : CwdIs ctx root)
    (alloc : Nat) (read : ReadScript) (script : List Transport.WCall) (flushOk : Bool) (loc : Fs.Loc)
    (hout : ¬ Under root loc)
    (hread : (∃ app o, Server.process ctx app alloc read script flushOk = .ok o ∧ loc ∈ o.reads) ∨
             (∃ raw wire reads, Server.processRequest ctx alloc read script flushOk = .ok (raw, wire, reads) ∧
               loc ∈ reads)) :
    ∃ l target, (l, Entry.link target) ∈ ctx.tree.entries ∧ Under root l := by
  cases hnl : Fs.noLinkUnder ctx.tree root with
  | false => exact link_of_not_noLink _ _ hnl
  | true =>
    exfalso
    have hc := C01_containment ctx root hcwd hnl alloc read script flushOk
    rcases hread with ⟨app, o, h, hm⟩ | ⟨raw, wire, reads, h, hm⟩
    · exact hout (hc.1 app o h loc hm)
    · exact hout (hc.2 raw wire reads h loc hm)

/-! ### a climbing target is answered with an error status -/

/-- the controller chains: a request whose parsed target path has a `..` segment gets the
    not-found answer 404 from the production chain; from the legacy chain 404, or 403 when its
    raw-target matcher let it through to the static controller -/
theorem C01_climb_is_error_chain (ctx : Ctx) (req : Request) (legacy : Bool) (c : UrlComponents)
    (hc : parseUrl (urlOf req.uri) = .ok c) (hd : hasParentDirSegment c.path = true)
    (a : Controllers.Answer) (h : Controllers.execute ctx req legacy = .ok a) :
    a.response.status = 404 ∨ (legacy = true ∧ a.response.status = 403) :=
  Containment.execute_dotdot ctx req legacy c hc hd a h

private theorem answered (a : Controllers.Answer) (req : Request) (hv : a.response.version = Controllers.http11)
    (hs : a.response.status = 404 ∨ a.response.status = 403) :
    AnsweredWithError (Resp.generateResponse a.response req) := by
  have hp := Containment.generateResponse_prefix a.response req
  rw [hv] at hp
  rcases hs with hs | hs
  · rw [hs] at hp
    have e : Resp.intToDec 404 = [52, 48, 52] := by decide
    rw [e] at hp
    exact Or.inr (Or.inr (by simpa [Controllers.http11] using hp))
  · rw [hs] at hp
    have e : Resp.intToDec 403 = [52, 48, 51] := by decide
    rw [e] at hp
    exact Or.inr (Or.inl (by simpa [Controllers.http11] using hp))

/-- `Server::process` with the real application: what is handed to the transport for a request
    whose target path has a `..` segment starts with an error status line (404; 400 when the
    target is not in origin form) -/
theorem C01_climb_is_error_process (ctx : Ctx) (alloc : Nat) (d : Bytes) (script : List Transport.WCall)
    (flushOk : Bool) (req : Request) (c : UrlComponents) (o : Outcome2)
    (hreq : Req.parse (fillBuffer alloc d) = .ok req)
    (hc : parseUrl (urlOf req.uri) = .ok c) (hd : hasParentDirSegment c.path = true)
    (h : Server.process ctx .real alloc (.data d) script flushOk = .ok o) :
    ∃ raw, o.wire = (send raw script flushOk).wire ∧ AnsweredWithError raw := by
  unfold Server.process at h
  simp only [hreq] at h
  split at h
  · split at h
    · simp at h
    · simp at h
    · rename_i raw hraw
      simp only [Outcome.ok.injEq] at h
      subst h
      refine ⟨raw, rfl, Or.inl ?_⟩
      simpa [Controllers.http11] using Containment.badRequestResponse_prefix ctx _ raw hraw
  · simp only [appExecute] at h
    cases he : Controllers.execute ctx req false with
    | panic s => simp [he] at h
    | err => simp [he] at h
    | ok a =>
      simp only [he, Outcome.ok.injEq] at h
      subst h
      refine ⟨_, rfl, answered a req (Containment.execute_version ctx req false a he) ?_⟩
      rcases Containment.execute_dotdot ctx req false c hc hd a he with h1 | ⟨h2, _⟩
      · exact Or.inl h1
      · simp at h2

/-- the legacy `Server::process_request`: the response bytes it returns for such a request start
    with an error status line (404 or 403; 400 when the target is not in origin form) -/
theorem C01_climb_is_error_processRequest (ctx : Ctx) (alloc : Nat) (d : Bytes) (script : List Transport.WCall)
    (flushOk : Bool) (req : Request) (c : UrlComponents) (raw : Bytes) (wire : Wire) (reads : List Fs.Loc)
    (hreq : Req.parse (fillBuffer alloc d) = .ok req)
    (hc : parseUrl (urlOf req.uri) = .ok c) (hd : hasParentDirSegment c.path = true)
    (h : Server.processRequest ctx alloc (.data d) script flushOk = .ok (raw, wire, reads)) :
    AnsweredWithError raw := by
  unfold Server.processRequest at h
  simp only [hreq] at h
  split at h
  · split at h
    · simp at h
    · simp at h
    · rename_i raw' hraw
      simp only [Outcome.ok.injEq, Prod.mk.injEq] at h
      obtain ⟨rfl, _, _⟩ := h
      exact Or.inl (by simpa [Controllers.http11] using Containment.badRequestResponse_prefix ctx _ _ hraw)
  · cases he : Controllers.execute ctx req true with
    | panic s => simp [he] at h
    | err => simp [he] at h
    | ok a =>
      simp only [he, Outcome.ok.injEq, Prod.mk.injEq] at h
      obtain ⟨rfl, _, _⟩ := h
      refine answered a req (Containment.execute_version ctx req true a he) ?_
      rcases Containment.execute_dotdot ctx req true c hc hd a he with h1 | ⟨_, h2⟩
      · exact Or.inl h1
      · exact Or.inr h2

/-! ### Non-vacuity: a concrete tree -/

namespace Ex

def srv : Bytes := [115, 114, 118]
def www : Bytes := [119, 119, 119]
def sub : Bytes := [115, 117, 98]
def aTxt : Bytes := [97, 46, 116, 120, 116]
def lnk : Bytes := [108, 110, 107]
def secretTxt : Bytes := [115, 101, 99, 114, 101, 116, 46, 116, 120, 116]

/-- `/srv/www` is served (two levels deep); secrets at `/srv/secret.txt` and `/secret.txt` -/
def tree : Tree := ⟨[
  ([srv, www, indexHtml], .file [104, 105]),
  ([srv, www, sub, aTxt], .file [65, 65, 65, 65]),
  ([srv, secretTxt], .file [83, 49]),
  ([secretTxt], .file [83, 50])]⟩
def root : Fs.Loc := [srv, www]
/-- cwd = `/srv/www` -/
def ctx : Ctx := ⟨tree, [47, 115, 114, 118, 47, 119, 119, 119], fun _ => none, [49], [50], [101]⟩

/-- `GET <target> HTTP/1.1` with no headers -/
def get (target : Bytes) : ReadScript :=
  .data ([71, 69, 84, 32] ++ target ++ [32, 72, 84, 84, 80, 47, 49, 46, 49, 13, 10, 13, 10])

def readsOfProcess (c : Ctx) (target : Bytes) : Option (List Fs.Loc) :=
  match Server.process c .real 200 (get target) [] true with
  | .ok o => some o.reads
  | _ => none

def resultOfProcessRequest (c : Ctx) (target : Bytes) : Option (Bytes × List Fs.Loc) :=
  match Server.processRequest c 200 (get target) [] true with
  | .ok (raw, _, reads) => some (raw.take 13, reads)
  | _ => none

/-- the hypotheses of `C01_containment` hold for this tree -/
example : CwdIs ctx root ∧ Fs.noLinkUnder ctx.tree root = true := by decide

set_option maxRecDepth 100000 in
/-- `GET /sub/a.txt` reads the file under the root (the conclusion is about a non-empty list) -/
example : readsOfProcess ctx ([47] ++ sub ++ [47] ++ aTxt) = some [[srv, www, sub, aTxt]] := by
  decide +kernel

set_option maxRecDepth 100000 in
/-- `GET /../secret.txt` on both entry points: 404, no secret read (only the root's files could be) -/
example : readsOfProcess ctx ([47, 46, 46, 47] ++ secretTxt) = some [] ∧
    resultOfProcessRequest ctx ([47, 46, 46, 47] ++ secretTxt)
      = some ([72, 84, 84, 80, 47, 49, 46, 49, 32, 52, 48, 52, 32], []) := by
  decide +kernel

set_option maxRecDepth 100000 in
/-- `GET /sub/../../secret.txt` likewise -/
example : readsOfProcess ctx ([47] ++ sub ++ [47, 46, 46, 47, 46, 46, 47] ++ secretTxt) = some [] := by
  decide +kernel

/-- the same tree with a symbolic link `/srv/www/lnk -> ../secret.txt` placed in the root -/
def treeL : Tree := ⟨([srv, www, lnk], .link ([46, 46, 47] ++ secretTxt)) :: tree.entries⟩
def ctxL : Ctx := { ctx with tree := treeL }

set_option maxRecDepth 100000 in
/-- the exception is real (and the no-link hypothesis necessary): `GET /lnk` serves the file the
    owner's link points to, outside the root -/
example : CwdIs ctxL root ∧ Fs.noLinkUnder ctxL.tree root = false ∧
    readsOfProcess ctxL ([47] ++ lnk) = some [[srv, secretTxt]] := by
  decide +kernel

/-- the delicate branch of the proof: a directory named `..#x` in the root and the target
    `/..#x?y`.  The parsed path `/..#x` has no `..` segment; `process_static_resources` hands
    `/..#x/index.html` to the unguarded `get_content_range_list`, which parses it AGAIN and now
    cuts at the `#`: path `/..`, the parent of the root.  Only the LAST component of a re-parsed
    path can be `..`, so it resolves to a directory and nothing is read (`walk_under2`). -/
def treeH : Tree := ⟨([srv, www, [46, 46, 35, 120], indexHtml], .file [72]) :: tree.entries⟩
def ctxH : Ctx := { ctx with tree := treeH }

/-- number of parts and locations read of a successful listing -/
def listed : Outcome Listed → Option (Nat × List Fs.Loc)
  | .ok (.parts l r) => some (l.length, r)
  | _ => none

set_option maxRecDepth 100000 in
example : CwdIs ctxH root ∧ Fs.noLinkUnder ctxH.tree root = true ∧
    hasParentDirSegment [47, 46, 46, 35, 120] = false ∧
    listed (Static.contentRangeList ctxH ([47, 46, 46, 35, 120] ++ slashIndexHtml) defaultRange) = some (0, []) ∧
    readsOfProcess ctxH [47, 46, 46, 35, 120, 63, 121] = some [] := by
  decide +kernel

end Ex

end Rws.C01
