/-
  C15 — consequences of the response round trip of RwsProofs/C15.lean (`generate_response`, a
  request that wants a body): the serialiser separates well-formed responses (same bytes, same
  response — status, reason, version, caller headers, parts), and a reader gets back the status
  line, the parts and the caller's headers in front of the framing headers.  Hypotheses are
  exactly those of `C15_roundtrip`.
-/
import RwsProofs.C15
namespace Rws.C15Canon
open Rws Rws.Resp Rws.RespL Rws.C15

/-- adding the framing headers loses nothing -/
theorem normalise_injective (r r' : Response) (h : normalise r = normalise r') : r = r' := by
  obtain ⟨v, s, p, hs, ps⟩ := r
  obtain ⟨v', s', p', hs', ps'⟩ := r'
  simp only [normalise, Response.mk.injEq] at h
  obtain ⟨hv, hst, hr, hh, hp⟩ := h
  subst hv hst hr hp
  have := List.append_cancel_right hh
  subst this
  rfl

/-- two well-formed responses written for body-wanting requests with the same bytes are the same -/
theorem C15_generate_injective (r r' : Response) (q q' : Request)
    (hw : wfResp r = true) (hw' : wfResp r' = true) (hq : wantsBody q = true) (hq' : wantsBody q' = true)
    (he : generateResponse r q = generateResponse r' q') : r = r' := by
  have h1 := C15_roundtrip r q hw hq
  rw [he, C15_roundtrip r' q' hw' hq'] at h1
  exact normalise_injective _ _ (Outcome.ok.inj h1).symm

/-- a reader gets the status line and the parts exactly, and the caller's headers first -/
theorem C15_reader_view (r : Response) (q : Request) (hw : wfResp r = true) (hq : wantsBody q = true) :
    ∃ r', parse (generateResponse r q) = .ok r' ∧ r'.version = r.version ∧ r'.status = r.status ∧
      r'.reason = r.reason ∧ r'.parts = r.parts ∧ r.headers <+: r'.headers :=
  ⟨_, C15_roundtrip r q hw hq, rfl, rfl, rfl, rfl, List.prefix_append _ _⟩

/-- the bytes do not depend on which body-wanting request they answer, as far as a reader can tell -/
theorem C15_request_irrelevant (r : Response) (q q' : Request) (hw : wfResp r = true)
    (hq : wantsBody q = true) (hq' : wantsBody q' = true) :
    parse (generateResponse r q) = parse (generateResponse r q') := by
  rw [C15_roundtrip r q hw hq, C15_roundtrip r q' hw hq']

example : wfResp exSingle = true ∧ wantsBody exGet = true := ⟨by decide +kernel, by decide +kernel⟩

end Rws.C15Canon
