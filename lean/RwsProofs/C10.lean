/-
  C10 — every response carries the hardening and no-cache headers, each exactly once.
  Part 1 (this section): the list every response starts from, `Header::get_header_list`,
  for every environment, clock value and request.  Part 2 (below, once the server model is
  composed) lifts it to every response path of `Server::process`.
-/
import Rws.HeaderList
import RwsProofs.C11
namespace Rws.C10
open Rws Rws.Gen Rws.HeaderList

/-- ASCII text as bytes (specification side: the property's own words, written literally) -/
def ascii (s : String) : Bytes := s.toList.map (fun c => UInt8.ofNat c.toNat)

/-- the headers the property names with their exact values -/
def requiredExact : List (Bytes × Bytes) :=
  [(ascii "X-Content-Type-Options", ascii "nosniff"),
   (ascii "X-Frame-Options", ascii "SAMEORIGIN"),
   (ascii "Cache-Control", ascii "no-store, no-cache, private, max-age=0, must-revalidate, proxy-revalidate"),
   (ascii "Accept-Ranges", ascii "bytes")]

/-- the client-hint advertisement and Vary, required exactly once by name -/
def requiredNames : List Bytes := [ascii "Accept-CH", ascii "Critical-CH", ascii "Vary"]

/-- how many headers of `hs` are called `n` -/
def count (n : Bytes) (hs : List Header) : Nat := hs.countP (fun h => h.name == n)

/-- the items of a `", "`-separated list value -/
def items (v : Bytes) : List Bytes := splitAll [44, 32] v

section helpers

private theorem fixed_names (now : Bytes) : (fixedHeaders now).map (·.name) =
    [Hdr.hAcceptCh, Hdr.hCriticalCh, Hdr.hVary, Hdr.hXContentTypeOptions, Hdr.hAcceptRanges,
     Hdr.hXFrameOptions, Hdr.hDateUnixEpochNanos, Hdr.hCacheControl] := rfl

private theorem count_eq_map (n : Bytes) (hs : List Header) :
    count n hs = (hs.map (·.name)).count n := by
  unfold count
  induction hs with
  | nil => rfl
  | cons h t ih => simp [List.countP_cons, List.count_cons, ih]

private theorem count_append (n : Bytes) (a b : List Header) :
    count n (a ++ b) = count n a + count n b := by
  simp [count, List.countP_append]

/-- none of the names the property requires is a CORS grant name -/
private theorem required_not_grant :
    ∀ n ∈ requiredExact.map (·.1) ++ requiredNames, n ∉ C11.grantNames := by decide +kernel

private theorem count_zero_of_not_mem (n : Bytes) (hs : List Header)
    (h : ∀ x ∈ hs, x.name ≠ n) : count n hs = 0 := by
  unfold count
  rw [List.countP_eq_zero]
  intro x hx
  simpa using h x hx

private theorem count_fixed :
    ∀ n ∈ requiredExact.map (·.1) ++ requiredNames,
      [Hdr.hAcceptCh, Hdr.hCriticalCh, Hdr.hVary, Hdr.hXContentTypeOptions, Hdr.hAcceptRanges,
       Hdr.hXFrameOptions, Hdr.hDateUnixEpochNanos, Hdr.hCacheControl].count n = 1 := by decide +kernel

private theorem exact_mem (now : Bytes) :
    ∀ p ∈ requiredExact, (⟨p.1, p.2⟩ : Header) ∈ fixedHeaders now := by
  intro p hp
  simp only [requiredExact, List.mem_cons, List.not_mem_nil, or_false] at hp
  rcases hp with rfl | rfl | rfl | rfl
  all_goals
    simp only [fixedHeaders, List.mem_cons, Header.mk.injEq]
    first
    | (right; right; right; left; constructor <;> decide +kernel)
    | (right; right; right; right; right; left; constructor <;> decide +kernel)
    | (right; right; right; right; right; right; right; left; constructor <;> decide +kernel)
    | (right; right; right; right; left; constructor <;> decide +kernel)

end helpers

/-- the constants the code uses are the header names and values the property words -/
theorem C10_constants :
    Hdr.hXContentTypeOptions = ascii "X-Content-Type-Options" ∧
    Hdr.hXContentTypeOptionsValueNosniff = ascii "nosniff" ∧
    Hdr.hXFrameOptions = ascii "X-Frame-Options" ∧
    Hdr.hXFrameOptionsValueSameOrigin = ascii "SAMEORIGIN" ∧
    Hdr.hCacheControl = ascii "Cache-Control" ∧
    Hdr.hDoNotStoreCache = ascii "no-store, no-cache, private, max-age=0, must-revalidate, proxy-revalidate" ∧
    Hdr.hAcceptRanges = ascii "Accept-Ranges" ∧ Hdr.rangeBytes = ascii "bytes" ∧
    Hdr.hAcceptCh = ascii "Accept-CH" ∧ Hdr.hCriticalCh = ascii "Critical-CH" ∧ Hdr.hVary = ascii "Vary" := by
  decide +kernel

/-- Vary names Origin, and the client-hint advertisement is not empty -/
theorem C10_vary_names_origin : ascii "Origin" ∈ items varyValue ∧ hintValue ≠ [] := by
  decide +kernel

/-- **C10, header list** — for every environment, clock value and request, the list built
    by `Header::get_header_list` carries each required header exactly once (by name), with
    the required value. -/
theorem C10_header_list (env : Cors.Env) (now : Bytes) (req : Request) (hs : List Header)
    (h : getHeaderList env now req = .ok hs) :
    (∀ p ∈ requiredExact, count p.1 hs = 1 ∧ (⟨p.1, p.2⟩ : Header) ∈ hs) ∧
    (∀ n ∈ requiredNames, count n hs = 1) ∧
    (∃ v, (⟨ascii "Vary", v⟩ : Header) ∈ hs ∧ ascii "Origin" ∈ items v) := by
  unfold getHeaderList at h
  cases hc : Cors.getHeaders env req with
  | err => rw [hc] at h; cases h
  | panic s => rw [hc] at h; cases h
  | ok cors =>
    rw [hc] at h
    cases h
    have hnames := C11.C11_names env req cors hc
    have hcount : ∀ n ∈ requiredExact.map (·.1) ++ requiredNames, count n (cors ++ fixedHeaders now) = 1 := by
      intro n hn
      rw [count_append, count_zero_of_not_mem n cors (fun x hx he => required_not_grant n hn (he ▸ hnames x hx)),
        count_eq_map, fixed_names, count_fixed n hn]
    refine ⟨?_, ?_, ?_⟩
    · intro p hp
      refine ⟨hcount p.1 (List.mem_append_left _ (List.mem_map_of_mem (f := (·.1)) hp)), ?_⟩
      exact List.mem_append_right _ (exact_mem now p hp)
    · intro n hn
      exact hcount n (List.mem_append_right _ hn)
    · refine ⟨varyValue, List.mem_append_right _ ?_, C10_vary_names_origin.1⟩
      have : Hdr.hVary = ascii "Vary" := C10_constants.2.2.2.2.2.2.2.2.2.2
      rw [← this]
      simp [fixedHeaders]

/-- non-vacuity: a concrete environment and request for which the list is produced -/
example : (match getHeaderList (Cors.envOf []) (ascii "1790516191431997108")
    ⟨ascii "GET", ascii "/", ascii "HTTP/1.1", [⟨ascii "Origin", ascii "http://a"⟩], []⟩ with
    | .ok hs => hs.length == 10
    | _ => false) = true := by decide +kernel

end Rws.C10
