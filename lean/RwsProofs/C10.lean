/-
  C10 — every response carries the hardening and no-cache headers, each exactly once.
  Part 1 (this section): the list every response starts from, `Header::get_header_list`,
  for every environment, clock value and request.  Part 2 (below, once the server model is
  composed) lifts it to every response path of `Server::process`.
-/
import Rws.HeaderList
import RwsProofs.C11
import RwsProofs.Lemmas.ServerHeaders
namespace Rws.C10
open Rws Rws.Gen Rws.HeaderList

/-- ASCII text as bytes (specification side: the property's own words, written literally) -/
def ascii (s : String) : Bytes := s.toList.map (fun c => UInt8.ofNat c.toNat)

/-- the headers the property names with their exact values -/
def requiredExact : List (Bytes × Bytes) :=
  [(ascii "X-Content-Type-Options", ascii "nosniff"),
   (ascii "X-Frame-Options", ascii "SAMEORIGIN"),
   (ascii "Cache-Control", ascii "no-store, no-cache, private, max-age=0, must-revalidate, proxy-revalidate"),
   (ascii "Accept-Ranges", ascii "bytes")]

/-- the client-hint advertisement and Vary, required exactly once by name -/
def requiredNames : List Bytes := [ascii "Accept-CH", ascii "Critical-CH", ascii "Vary"]

/-- how many headers of `hs` are called `n` -/
def count (n : Bytes) (hs : List Header) : Nat := hs.countP (fun h => h.name == n)

/-- the items of a `", "`-separated list value -/
def items (v : Bytes) : List Bytes := splitAll [44, 32] v

section helpers

private theorem fixed_names (now : Bytes) : (fixedHeaders now).map (·.name) =
    [Hdr.hAcceptCh, Hdr.hCriticalCh, Hdr.hVary, Hdr.hXContentTypeOptions, Hdr.hAcceptRanges,
     Hdr.hXFrameOptions, Hdr.hDateUnixEpochNanos, Hdr.hCacheControl] := rfl

private theorem count_eq_map (n : Bytes) (hs : List Header) :
    count n hs = (hs.map (·.name)).count n := by
  unfold count
  induction hs with
  | nil => rfl
  | cons h t ih => simp [List.countP_cons, List.count_cons, ih]

private theorem count_append (n : Bytes) (a b : List Header) :
    count n (a ++ b) = count n a + count n b := by
  simp [count, List.countP_append]

/-- none of the names the property requires is a CORS grant name -/
private theorem required_not_grant :
    ∀ n ∈ requiredExact.map (·.1) ++ requiredNames, n ∉ C11.grantNames := by decide +kernel

private theorem count_zero_of_not_mem (n : Bytes) (hs : List Header)
    (h : ∀ x ∈ hs, x.name ≠ n) : count n hs = 0 := by
  unfold count
  rw [List.countP_eq_zero]
  intro x hx
  simpa using h x hx

private theorem count_fixed :
    ∀ n ∈ requiredExact.map (·.1) ++ requiredNames,
      [Hdr.hAcceptCh, Hdr.hCriticalCh, Hdr.hVary, Hdr.hXContentTypeOptions, Hdr.hAcceptRanges,
       Hdr.hXFrameOptions, Hdr.hDateUnixEpochNanos, Hdr.hCacheControl].count n = 1 := by decide +kernel

private theorem exact_mem (now : Bytes) :
    ∀ p ∈ requiredExact, (⟨p.1, p.2⟩ : Header) ∈ fixedHeaders now := by
  intro p hp
  simp only [requiredExact, List.mem_cons, List.not_mem_nil, or_false] at hp
  rcases hp with rfl | rfl | rfl | rfl
  all_goals
    simp only [fixedHeaders, List.mem_cons, Header.mk.injEq]
    first
    | (right; right; right; left; constructor <;> decide +kernel)
    | (right; right; right; right; right; left; constructor <;> decide +kernel)
    | (right; right; right; right; right; right; right; left; constructor <;> decide +kernel)
    | (right; right; right; right; left; constructor <;> decide +kernel)

end helpers

/-- the constants the code uses are the header names and values the property words -/
theorem C10_constants :
    Hdr.hXContentTypeOptions = ascii "X-Content-Type-Options" ∧
    Hdr.hXContentTypeOptionsValueNosniff = ascii "nosniff" ∧
    Hdr.hXFrameOptions = ascii "X-Frame-Options" ∧
    Hdr.hXFrameOptionsValueSameOrigin = ascii "SAMEORIGIN" ∧
    Hdr.hCacheControl = ascii "Cache-Control" ∧
    Hdr.hDoNotStoreCache = ascii "no-store, no-cache, private, max-age=0, must-revalidate, proxy-revalidate" ∧
    Hdr.hAcceptRanges = ascii "Accept-Ranges" ∧ Hdr.rangeBytes = ascii "bytes" ∧
    Hdr.hAcceptCh = ascii "Accept-CH" ∧ Hdr.hCriticalCh = ascii "Critical-CH" ∧ Hdr.hVary = ascii "Vary" := by
  decide +kernel

/-- Vary names Origin, and the client-hint advertisement is not empty -/
theorem C10_vary_names_origin : ascii "Origin" ∈ items varyValue ∧ hintValue ≠ [] := by
  decide +kernel

/-- **C10, header list** — for every environment, clock value and request, the list built
    by `Header::get_header_list` carries each required header exactly once (by name), with
    the required value. -/
theorem C10_header_list (env : Cors.Env) (now : Bytes) (req : Request) (hs : List Header)
    (h : getHeaderList env now req = .ok hs) :
    (∀ p ∈ requiredExact, count p.1 hs = 1 ∧ (⟨p.1, p.2⟩ : Header) ∈ hs) ∧
    (∀ n ∈ requiredNames, count n hs = 1) ∧
    (∃ v, (⟨ascii "Vary", v⟩ : Header) ∈ hs ∧ ascii "Origin" ∈ items v) := by
  unfold getHeaderList at h
  cases hc : Cors.getHeaders env req with
  | err => rw [hc] at h; cases h
  | panic s => rw [hc] at h; cases h
  | ok cors =>
    rw [hc] at h
    cases h
    have hnames := C11.C11_names env req cors hc
    have hcount : ∀ n ∈ requiredExact.map (·.1) ++ requiredNames, count n (cors ++ fixedHeaders now) = 1 := by
      intro n hn
      rw [count_append, count_zero_of_not_mem n cors (fun x hx he => required_not_grant n hn (he ▸ hnames x hx)),
        count_eq_map, fixed_names, count_fixed n hn]
    refine ⟨?_, ?_, ?_⟩
    · intro p hp
      refine ⟨hcount p.1 (List.mem_append_left _ (List.mem_map_of_mem (f := (·.1)) hp)), ?_⟩
      exact List.mem_append_right _ (exact_mem now p hp)
    · intro n hn
      exact hcount n (List.mem_append_right _ hn)
    · refine ⟨varyValue, List.mem_append_right _ ?_, C10_vary_names_origin.1⟩
      have : Hdr.hVary = ascii "Vary" := C10_constants.2.2.2.2.2.2.2.2.2.2
      rw [← this]
      simp [fixedHeaders]

/-! ## Part 2 — every response of the server -/

/-- what the property demands of the header block on the wire -/
def Required (hs : List Header) : Prop :=
  (∀ p ∈ requiredExact, count p.1 hs = 1 ∧ (⟨p.1, p.2⟩ : Header) ∈ hs) ∧
  (∀ n ∈ requiredNames, count n hs = 1) ∧
  (∃ v, (⟨ascii "Vary", v⟩ : Header) ∈ hs ∧ ascii "Origin" ∈ items v)

section part2
open Rws.Server Rws.Controllers Rws.Static

/-- names the controllers and the serialiser add after the header list -/
private def addedNames : List Bytes :=
  [Hdr.hLastModifiedUnixEpochNanos, Gen.respContentType, Gen.respContentRange, Gen.respContentLength]

private theorem added_not_required :
    ∀ n ∈ requiredExact.map (·.1) ++ requiredNames, n ∉ addedNames := by decide +kernel

private theorem required_append (hs ex : List Header) (h : Required hs)
    (hex : ∀ x ∈ ex, x.name ∈ addedNames) : Required (hs ++ ex) := by
  obtain ⟨h1, h2, v, hv, hvo⟩ := h
  have hz : ∀ n ∈ requiredExact.map (·.1) ++ requiredNames, count n ex = 0 := by
    intro n hn
    apply count_zero_of_not_mem
    intro x hx he
    exact added_not_required n hn (he ▸ hex x hx)
  refine ⟨?_, ?_, v, List.mem_append_left _ hv, hvo⟩
  · intro p hp
    have hn : p.1 ∈ requiredExact.map (·.1) ++ requiredNames :=
      List.mem_append_left _ (List.mem_map_of_mem (f := (·.1)) hp)
    rw [count_append, hz _ hn]
    exact ⟨by simpa using (h1 p hp).1, List.mem_append_left _ (h1 p hp).2⟩
  · intro n hn
    rw [count_append, hz _ (List.mem_append_right _ hn)]
    simpa using h2 n hn

private theorem framing_names (parts : List ContentRange) :
    ∀ x ∈ Resp.framingHeaders parts, x.name ∈ addedNames := by
  intro x hx
  unfold Resp.framingHeaders at hx
  split at hx
  · simp at hx
  · simp at hx; rcases hx with rfl | rfl | rfl <;> simp [addedNames]
  · simp at hx; subst hx; simp [addedNames]

private theorem required_of_list (env : Cors.Env) (now : Bytes) (req : Request) (hs : List Header)
    (h : getHeaderList env now req = .ok hs) : Required hs := C10_header_list env now req hs h

/-- **C10, controller chain** — whatever the request and whichever controller answers, on either
    chain, the header block that is serialised (response headers, then the framing headers) carries
    every required header exactly once. -/
theorem C10_chain (ctx : Ctx) (req : Request) (legacy : Bool) (a : Answer)
    (h : Controllers.execute ctx req legacy = .ok a) :
    Required (a.response.headers ++ Resp.framingHeaders a.response.parts) := by
  obtain ⟨hs, ex, hhs, hhead, hex⟩ := ServerHeaders.execute_headers ctx req legacy a h
  rw [hhead, List.append_assoc]
  apply required_append hs _ (required_of_list _ _ _ _ hhs)
  intro x hx
  rcases List.mem_append.mp hx with hx | hx
  · rw [hex x hx]; simp [addedNames]
  · exact framing_names _ x hx

/-- **C10, error answers** — the 400 the server builds itself (unreadable, unparsable,
    non-origin-form request; failing handler) carries them too, for every error text and method. -/
theorem C10_bad_request (ctx : Ctx) (method : Bytes) (raw : Bytes)
    (h : Server.badRequestResponse ctx method = .ok raw) :
    ∃ resp q, raw = Resp.generateResponse resp q ∧
      Required (resp.headers ++ Resp.framingHeaders resp.parts) := by
  unfold Server.badRequestResponse at h
  dsimp only at h
  split at h
  · cases h
  · cases h
  · rename_i hs hhs
    injection h with h
    refine ⟨_, _, h.symm, ?_⟩
    apply required_append hs _ (required_of_list _ _ _ _ hhs)
    exact framing_names _

private theorem writeBufs_head (raw : Bytes) (script : List Transport.WCall) (x : Bytes)
    (h : (Server.writeBufs raw script).head? = some x) : x = raw := by
  cases script with
  | nil => unfold Server.writeBufs at h; split at h <;> simp at h; exact h.symm
  | cons c cs =>
    unfold Server.writeBufs at h
    split at h
    · simp at h
    · cases c with
      | fail => simp at h
      | acc n => cases n <;> simp at h <;> exact h.symm

/-- **C10** — every response `Server::process` puts on the wire (real controller chain or a
    failing handler; any tree, configuration, request bytes, buffer size, transport script,
    error text) is the serialisation of a response whose header block carries
    X-Content-Type-Options: nosniff, X-Frame-Options: SAMEORIGIN, the no-store Cache-Control,
    Accept-Ranges: bytes, Accept-CH, Critical-CH and a Vary naming Origin, each exactly once. -/
theorem C10_server (ctx : Ctx) (app : App) (happ : app ≠ .okEmpty) (alloc : Nat) (read : ReadScript)
    (script : List Transport.WCall) (fl : Bool) (o : Outcome2)
    (h : Server.process ctx app alloc read script fl = .ok o) (raw : Bytes)
    (hraw : o.wire.writes.head? = some raw) :
    ∃ resp q, raw = Resp.generateResponse resp q ∧
      Required (resp.headers ++ Resp.framingHeaders resp.parts) := by
  -- the four paths that answer 400 with `badRequestResponse`
  have bad : ∀ (m r : Bytes), Server.badRequestResponse ctx m = .ok r →
      (Server.send r script fl).wire.writes.head? = some raw →
      ∃ resp q, raw = Resp.generateResponse resp q ∧ Required (resp.headers ++ Resp.framingHeaders resp.parts) := by
    intro m r hb hraw
    have := writeBufs_head r script raw (by simpa [Server.send] using hraw)
    subst this
    exact C10_bad_request ctx m _ hb
  unfold Server.process at h
  dsimp only at h
  split at h
  · split at h
    · cases h
    · cases h
    · injection h with h; subst h; exact bad _ _ (by assumption) hraw
  · split at h
    · cases h
    · split at h
      · cases h
      · cases h
      · injection h with h; subst h; exact bad _ _ (by assumption) hraw
    · split at h
      · split at h
        · cases h
        · cases h
        · injection h with h; subst h; exact bad _ _ (by assumption) hraw
      · split at h
        · cases h
        · cases h
        · split at h
          · cases h
          · cases h
          · injection h with h; subst h; exact bad _ _ (by assumption) hraw
        · rename_i a ha
          injection h with h; subst h
          have := writeBufs_head _ script raw (by simpa [Server.send] using hraw)
          subst this
          refine ⟨_, _, rfl, ?_⟩
          cases app with
          | okEmpty => exact absurd rfl happ
          | fails => simp [Server.appExecute] at ha
          | real =>
            simp only [Server.appExecute] at ha
            cases he : Controllers.execute ctx _ false with
            | ok a' => rw [he] at ha; injection ha with ha; injection ha with ha; subst ha; exact C10_chain _ _ _ _ he
            | err => rw [he] at ha; cases ha
            | panic s => rw [he] at ha; cases ha

/-- **C10, legacy entry point** — the same for `Server::process_request`. -/
theorem C10_server_legacy (ctx : Ctx) (alloc : Nat) (read : ReadScript)
    (script : List Transport.WCall) (fl : Bool) (raw : Bytes) (w : Wire) (reads : List Fs.Loc)
    (h : Server.processRequest ctx alloc read script fl = .ok (raw, w, reads)) :
    ∃ resp q, raw = Resp.generateResponse resp q ∧
      Required (resp.headers ++ Resp.framingHeaders resp.parts) := by
  unfold Server.processRequest at h
  dsimp only at h
  split at h
  · split at h
    · cases h
    · cases h
    · injection h with h; injection h with h1 h2; subst h1; exact C10_bad_request ctx _ _ (by assumption)
  · split at h
    · cases h
    · split at h
      · cases h
      · cases h
      · injection h with h; injection h with h1 h2; subst h1; exact C10_bad_request ctx _ _ (by assumption)
    · split at h
      · split at h
        · cases h
        · cases h
        · injection h with h; injection h with h1 h2; subst h1; exact C10_bad_request ctx _ _ (by assumption)
      · split at h
        · cases h
        · cases h
        · rename_i a ha
          injection h with h; injection h with h1 h2; subst h1
          exact ⟨_, _, rfl, C10_chain _ _ _ _ ha⟩

end part2

/-- non-vacuity: a concrete environment and request for which the list is produced -/
example : (match getHeaderList (Cors.envOf []) (ascii "1790516191431997108")
    ⟨ascii "GET", ascii "/", ascii "HTTP/1.1", [⟨ascii "Origin", ascii "http://a"⟩], []⟩ with
    | .ok hs => hs.length == 10
    | _ => false) = true := by decide +kernel

end Rws.C10
