/-
  C08 — concurrent requests do not influence one another.

  The theorems are about `Rws.Concurrent` (N workers, atomic steps, shared state = configuration +
  file tree that no step writes, per-connection and per-worker buffers) and hold for ANY response
  function `respond`, any number of workers, any multiset of requests and any interleaving.  The
  proof is an induction over step sequences with the invariant `Inv`.  It is short because the
  model has no shared mutable state; its worth depends on the tie showing that the CODE has none:
  the shared-state inventory regenerated from the source on every run (`Rws.Gen.Inventory`,
  `C08_inventory_is_the_expected_one` below breaks when a static / lock / global mutation is
  added outside the start-up code) and the runtime probe of props/c08.py (serial vs concurrent
  responses of the real binary).  A data race that needs a rare interleaving can escape the probe;
  the inventory is syntactic.
-/
import Rws.Concurrent
import Rws.Gen.Inventory

namespace Rws.C08
open Rws.Concurrent

variable {Cfg Tree Req Resp : Type}

/-! ### Specification (readable without the model) -/

/-- what connection `c` received is the answer to what was sent on `c`, computed from the
    start-up configuration and tree — the response it would receive alone -/
def AnsweredAlone (respond : Cfg → Tree → Req → Resp) (cfg : Cfg) (tree : Tree)
    (s : State Cfg Tree Req Resp) : Prop :=
  ∀ c d, d ∈ s.outbox c → ∃ req, s.inbox c = some req ∧ d.resp = respond cfg tree req

/-- nothing written to connection `c` was computed from another connection's request -/
def NoCrossTalk (s : State Cfg Tree Req Resp) : Prop :=
  ∀ c d, d ∈ s.outbox c → d.src = c

/-! ### Invariant -/

private structure Inv (respond : Cfg → Tree → Req → Resp) (cfg : Cfg) (tree : Tree)
    (s : State Cfg Tree Req Resp) : Prop where
  cfg_eq  : s.cfg = cfg
  tree_eq : s.tree = tree
  hold    : ∀ w c src req, s.worker w = .holding c src req → src = c ∧ s.inbox c = some req
  comp    : ∀ w c src req resp, s.worker w = .computed c src req resp →
              src = c ∧ s.inbox c = some req ∧ resp = respond cfg tree req
  out     : ∀ c d, d ∈ s.outbox c → d.src = c ∧ ∃ req, s.inbox c = some req ∧ d.resp = respond cfg tree req

private theorem inv_init (respond : Cfg → Tree → Req → Resp) (cfg : Cfg) (tree : Tree) :
    Inv respond cfg tree (init cfg tree : State Cfg Tree Req Resp) := by
  refine ⟨rfl, rfl, ?_, ?_, ?_⟩ <;> intros <;> simp_all [init]

private theorem inv_step {N : Nat} {respond : Cfg → Tree → Req → Resp} {cfg : Cfg} {tree : Tree}
    {s t : State Cfg Tree Req Resp} (hi : Inv respond cfg tree s) (hs : Step N respond s t) :
    Inv respond cfg tree t := by
  obtain ⟨hc, ht, hh, hcm, ho⟩ := hi
  cases hs with
  | arrive c req hnone =>
    refine ⟨hc, ht, ?_, ?_, ?_⟩
    · intro w c' src r hw
      have := hh w c' src r hw
      refine ⟨this.1, ?_⟩
      by_cases h : c' = c
      · subst h; simp_all
      · simp [upd, h, this.2]
    · intro w c' src r resp hw
      have := hcm w c' src r resp hw
      refine ⟨this.1, ?_, this.2.2⟩
      by_cases h : c' = c
      · subst h; simp_all
      · simp [upd, h, this.2.1]
    · intro c' d hd
      have := ho c' d hd
      refine ⟨this.1, ?_⟩
      obtain ⟨r, hr, hd⟩ := this.2
      by_cases h : c' = c
      · subst h; simp_all
      · exact ⟨r, by simp [upd, h, hr], hd⟩
  | take w c req hw hidle hin htk =>
    refine ⟨hc, ht, ?_, ?_, ho⟩
    · intro w' c' src r hw'
      by_cases h : w' = w
      · subst h
        simp [upd] at hw'
        obtain ⟨rfl, rfl, rfl⟩ := hw'
        exact ⟨rfl, hin⟩
      · simp [upd, h] at hw'; exact hh w' c' src r hw'
    · intro w' c' src r resp hw'
      by_cases h : w' = w
      · subst h; simp [upd] at hw'
      · simp [upd, h] at hw'; exact hcm w' c' src r resp hw'
  | compute w c src req hw hhold =>
    refine ⟨hc, ht, ?_, ?_, ho⟩
    · intro w' c' src' r hw'
      by_cases h : w' = w
      · subst h; simp [upd] at hw'
      · simp [upd, h] at hw'; exact hh w' c' src' r hw'
    · intro w' c' src' r resp hw'
      by_cases h : w' = w
      · subst h
        simp [upd] at hw'
        obtain ⟨e1, e2, e3, e4⟩ := hw'
        have := hh _ _ _ _ hhold
        rw [← e1, ← e2, ← e3, ← e4, hc, ht]
        exact ⟨this.1, this.2, rfl⟩
      · simp [upd, h] at hw'; exact hcm w' c' src' r resp hw'
  | write w c src req resp hw hcomp =>
    refine ⟨hc, ht, ?_, ?_, ?_⟩
    · intro w' c' src' r hw'
      by_cases h : w' = w
      · subst h; simp [upd] at hw'
      · simp [upd, h] at hw'; exact hh w' c' src' r hw'
    · intro w' c' src' r resp' hw'
      by_cases h : w' = w
      · subst h; simp [upd] at hw'
      · simp [upd, h] at hw'; exact hcm w' c' src' r resp' hw'
    · intro c' d hd
      by_cases h : c' = c
      · subst h
        simp [upd] at hd
        rcases hd with hd | hd
        · exact ho c' d hd
        · subst hd
          have := hcm w c' src req resp hcomp
          exact ⟨this.1, req, this.2.1, this.2.2⟩
      · simp [upd, h] at hd; exact ho c' d hd
  | drop w hw =>
    refine ⟨hc, ht, ?_, ?_, ho⟩
    · intro w' c' src' r hw'
      by_cases h : w' = w
      · subst h; simp [upd] at hw'
      · simp [upd, h] at hw'; exact hh w' c' src' r hw'
    · intro w' c' src' r resp' hw'
      by_cases h : w' = w
      · subst h; simp [upd] at hw'
      · simp [upd, h] at hw'; exact hcm w' c' src' r resp' hw'

private theorem inv_run {N : Nat} {respond : Cfg → Tree → Req → Resp} {cfg : Cfg} {tree : Tree}
    {s t : State Cfg Tree Req Resp} (hi : Inv respond cfg tree s) (hr : Run N respond s t) :
    Inv respond cfg tree t := by
  induction hr with
  | refl => exact hi
  | step _ hs ih => exact inv_step ih hs

/-! ### Second invariant: every connection is handed to one worker and answered at most once -/

/-- the connection a worker currently owns -/
private def owns : Worker Req Resp → Option ConnId
  | .idle => none
  | .holding c _ _ => some c
  | .computed c _ _ _ => some c

private structure Once (s : State Cfg Tree Req Resp) : Prop where
  fresh  : ∀ c, s.taken c = false → s.outbox c = [] ∧ ∀ w, owns (s.worker w) ≠ some c
  owner  : ∀ w c, owns (s.worker w) = some c → s.outbox c = [] ∧ ∀ w', owns (s.worker w') = some c → w' = w
  atmost : ∀ c, (s.outbox c).length ≤ 1

private theorem once_init (cfg : Cfg) (tree : Tree) : Once (init cfg tree : State Cfg Tree Req Resp) := by
  refine ⟨?_, ?_, ?_⟩ <;> intros <;> simp_all [init, owns]

private theorem once_step {N : Nat} {respond : Cfg → Tree → Req → Resp}
    {s t : State Cfg Tree Req Resp} (hi : Once s) (hs : Step N respond s t) : Once t := by
  obtain ⟨h1, h2, h3⟩ := hi
  cases hs with
  | arrive c req hnone => exact ⟨h1, h2, h3⟩
  | take w c req hw hidle hin htk =>
    have hc := h1 c htk
    refine ⟨?_, ?_, h3⟩
    · intro c' hc'
      have hne : c' ≠ c := by
        intro h; subst h; simp [upd] at hc'
      have ht : s.taken c' = false := by simpa [upd, hne] using hc'
      refine ⟨(h1 c' ht).1, ?_⟩
      intro w'
      by_cases h : w' = w
      · subst h; simp [upd, owns]; exact fun e => hne e.symm
      · simp [upd, h]; exact (h1 c' ht).2 w'
    · intro w' c' hw'
      by_cases h : w' = w
      · subst h
        simp [upd, owns] at hw'
        subst hw'
        refine ⟨hc.1, ?_⟩
        intro w'' hw''
        by_cases h' : w'' = w'
        · exact h'
        · simp [upd, h'] at hw''; exact absurd hw'' (hc.2 w'')
      · simp [upd, h] at hw'
        have hne : c' ≠ c := by
          intro e; subst e; exact hc.2 w' hw'
        refine ⟨(h2 w' c' hw').1, ?_⟩
        intro w'' hw''
        by_cases h' : w'' = w
        · subst h'; simp [upd, owns] at hw''; exact absurd hw''.symm hne
        · simp [upd, h'] at hw''; exact (h2 w' c' hw').2 w'' hw''
  | compute w c src req hw hhold =>
    have hown : owns (s.worker w) = some c := by rw [hhold]; rfl
    refine ⟨?_, ?_, h3⟩
    · intro c' hc'
      refine ⟨(h1 c' hc').1, ?_⟩
      intro w'
      by_cases h : w' = w
      · subst h; simp [upd, owns]; intro e; subst e; exact (h1 c hc').2 w' hown
      · simp [upd, h]; exact (h1 c' hc').2 w'
    · intro w' c' hw'
      have key : ∀ v, owns (upd s.worker w (.computed c src req (respond s.cfg s.tree req)) v) = owns (s.worker v) := by
        intro v
        by_cases hv : v = w
        · subst hv; rw [hown]; simp [upd, owns]
        · simp [upd, hv]
      rw [key] at hw'
      refine ⟨(h2 w' c' hw').1, ?_⟩
      intro w'' hw''
      rw [key] at hw''
      exact (h2 w' c' hw').2 w'' hw''
  | write w c src req resp hw hcomp =>
    have hown : owns (s.worker w) = some c := by rw [hcomp]; rfl
    have hc := h2 w c hown
    refine ⟨?_, ?_, ?_⟩
    · intro c' hc'
      have hne : c' ≠ c := by
        intro e; subst e; exact (h1 c' hc').2 w hown
      refine ⟨by simp [upd, hne]; exact (h1 c' hc').1, ?_⟩
      intro w'
      by_cases h : w' = w
      · subst h; simp [upd, owns]
      · simp [upd, h]; exact (h1 c' hc').2 w'
    · intro w' c' hw'
      by_cases h : w' = w
      · subst h; simp [upd, owns] at hw'
      · simp [upd, h] at hw'
        have hne : c' ≠ c := by
          intro e; subst e; exact h (hc.2 w' hw')
        refine ⟨by simp [upd, hne]; exact (h2 w' c' hw').1, ?_⟩
        intro w'' hw''
        by_cases h' : w'' = w
        · subst h'; simp [upd, owns] at hw''
        · simp [upd, h'] at hw''; exact (h2 w' c' hw').2 w'' hw''
    · intro c'
      by_cases h : c' = c
      · subst h; simp [upd, hc.1]
      · simp [upd, h]; exact h3 c'
  | drop w hw =>
    refine ⟨?_, ?_, h3⟩
    · intro c' hc'
      refine ⟨(h1 c' hc').1, ?_⟩
      intro w'
      by_cases h : w' = w
      · subst h; simp [upd, owns]
      · simp [upd, h]; exact (h1 c' hc').2 w'
    · intro w' c' hw'
      by_cases h : w' = w
      · subst h; simp [upd, owns] at hw'
      · simp [upd, h] at hw'
        refine ⟨(h2 w' c' hw').1, ?_⟩
        intro w'' hw''
        by_cases h' : w'' = w
        · subst h'; simp [upd, owns] at hw''
        · simp [upd, h'] at hw''; exact (h2 w' c' hw').2 w'' hw''

private theorem once_run {N : Nat} {respond : Cfg → Tree → Req → Resp}
    {s t : State Cfg Tree Req Resp} (hi : Once s) (hr : Run N respond s t) : Once t := by
  induction hr with
  | refl => exact hi
  | step _ hs ih => exact once_step ih hs

/-! ### Property theorems -/

/-- **C08 (isolation).**  For every number of workers `N`, every response function, every
    configuration and tree, and every interleaving of any multiset of requests: whatever has been
    delivered on a connection is `respond cfg tree req` for the request `req` sent on THAT
    connection — the response the connection would receive alone. -/
theorem C08_isolation (N : Nat) (respond : Cfg → Tree → Req → Resp) (cfg : Cfg) (tree : Tree)
    (s : State Cfg Tree Req Resp) (hrun : Run N respond (init cfg tree) s) :
    AnsweredAlone respond cfg tree s := by
  intro c d hd
  exact ((inv_run (inv_init respond cfg tree) hrun).out c d hd).2

/-- **C08 (no cross-talk).**  The bytes written to connection `c` were computed from connection
    `c`'s request only (ghost provenance). -/
theorem C08_no_crosstalk (N : Nat) (respond : Cfg → Tree → Req → Resp) (cfg : Cfg) (tree : Tree)
    (s : State Cfg Tree Req Resp) (hrun : Run N respond (init cfg tree) s) :
    NoCrossTalk s := by
  intro c d hd
  exact ((inv_run (inv_init respond cfg tree) hrun).out c d hd).1

/-- The configuration and the tree are the same after any run: no step writes them. -/
theorem C08_shared_state_readonly (N : Nat) (respond : Cfg → Tree → Req → Resp) (cfg : Cfg) (tree : Tree)
    (s : State Cfg Tree Req Resp) (hrun : Run N respond (init cfg tree) s) :
    s.cfg = cfg ∧ s.tree = tree :=
  let i := inv_run (inv_init respond cfg tree) hrun
  ⟨i.cfg_eq, i.tree_eq⟩

/-- **C08 (independence of the other traffic, of the worker count and of the schedule).**  Two
    runs — different worker counts, different other connections, different interleavings — of a
    server with the same configuration and tree deliver the same response on a connection that
    carries the same request in both. -/
theorem C08_independent_of_other_traffic (N₁ N₂ : Nat) (respond : Cfg → Tree → Req → Resp)
    (cfg : Cfg) (tree : Tree) (s₁ s₂ : State Cfg Tree Req Resp)
    (h₁ : Run N₁ respond (init cfg tree) s₁) (h₂ : Run N₂ respond (init cfg tree) s₂)
    (c₁ c₂ : ConnId) (hsame : s₁.inbox c₁ = s₂.inbox c₂)
    (d₁ d₂ : Delivered Resp) (hd₁ : d₁ ∈ s₁.outbox c₁) (hd₂ : d₂ ∈ s₂.outbox c₂) :
    d₁.resp = d₂.resp := by
  obtain ⟨r₁, hr₁, e₁⟩ := C08_isolation N₁ respond cfg tree s₁ h₁ c₁ d₁ hd₁
  obtain ⟨r₂, hr₂, e₂⟩ := C08_isolation N₂ respond cfg tree s₂ h₂ c₂ d₂ hd₂
  rw [hr₁, hr₂] at hsame
  cases hsame
  rw [e₁, e₂]

/-- **C08 (at most one response per connection).**  In every interleaving a connection is
    written to at most once: no duplicated and no second, foreign response. -/
theorem C08_at_most_one_response (N : Nat) (respond : Cfg → Tree → Req → Resp) (cfg : Cfg) (tree : Tree)
    (s : State Cfg Tree Req Resp) (hrun : Run N respond (init cfg tree) s) (c : ConnId) :
    (s.outbox c).length ≤ 1 :=
  (once_run (once_init cfg tree) hrun).atmost c

/-- **C08 (summary).**  Whatever a connection has received is EXACTLY the one response it would
    receive alone: `[respond cfg tree req]`, computed from its own request. -/
theorem C08_receives_exactly_the_solo_response (N : Nat) (respond : Cfg → Tree → Req → Resp) (cfg : Cfg)
    (tree : Tree) (s : State Cfg Tree Req Resp) (hrun : Run N respond (init cfg tree) s) (c : ConnId)
    (hne : s.outbox c ≠ []) :
    ∃ req, s.inbox c = some req ∧ s.outbox c = [⟨respond cfg tree req, c⟩] := by
  have hlen := C08_at_most_one_response N respond cfg tree s hrun c
  match hob : s.outbox c with
  | [] => exact absurd hob hne
  | [d] =>
    have hd : d ∈ s.outbox c := by rw [hob]; simp
    obtain ⟨req, hreq, hresp⟩ := C08_isolation N respond cfg tree s hrun c d hd
    have hsrc := C08_no_crosstalk N respond cfg tree s hrun c d hd
    refine ⟨req, hreq, ?_⟩
    cases d with
    | mk r sr => simp_all
  | _ :: _ :: _ => rw [hob] at hlen; simp at hlen

/-! ### Non-vacuity: runs that deliver responses exist (two workers, overlapping requests) -/

/-- an overlapping schedule: both requests are read before either response is computed -/
example : ∃ s : State Unit Unit Nat Nat,
    Run 2 (fun _ _ r => r + 100) (init () ()) s ∧
    (s.outbox 0).map (·.resp) = [107] ∧ (s.outbox 1).map (·.resp) = [109] := by
  let f : Unit → Unit → Nat → Nat := fun _ _ r => r + 100
  let s0 : State Unit Unit Nat Nat := init () ()
  have r0 := Run.refl (N := 2) (respond := f) s0
  have r1 := Run.step r0 (Step.arrive s0 0 7 rfl)
  have r2 := Run.step r1 (Step.arrive _ 1 9 (by simp [upd, s0, init]))
  have r3 := Run.step r2 (Step.take _ 0 1 9 (by decide) (by simp [s0, init]) (by simp [upd]) (by simp [s0, init]))
  have r4 := Run.step r3 (Step.take _ 1 0 7 (by decide) (by simp [upd, s0, init]) (by simp [upd]) (by simp [upd, s0, init]))
  have r5 := Run.step r4 (Step.compute _ 0 1 1 9 (by decide) (by simp [upd]))
  have r6 := Run.step r5 (Step.compute _ 1 0 0 7 (by decide) (by simp [upd]))
  have r7 := Run.step r6 (Step.write _ 1 0 0 7 107 (by decide) (by simp [upd, f]))
  have r8 := Run.step r7 (Step.write _ 0 1 1 9 109 (by decide) (by simp [upd, f]))
  exact ⟨_, r8, by simp [upd, s0, init], by simp [upd, s0, init]⟩

/-! ### What goes wrong with a shared scratch buffer (counter-model `Rws.Concurrent.Shared`) -/

open Rws.Concurrent.Shared in
/-- **Witness.**  With ONE response buffer shared by the handlers, the interleaving
    take₀ take₁ compute₀ compute₁ write₀ delivers on connection 0 the response computed from
    connection 1's request (`respond = id`, requests 7 and 9): isolation and no-cross-talk are both
    violated.  This is the class of defect the shared-state inventory guards against. -/
theorem C08_shared_buffer_violates :
    ∃ s : SState, SRun (sinit 7 9) s ∧
      ∃ d, d ∈ s.out0 ∧ d.resp ≠ s.inbox0 ∧ d.src ≠ 0 := by
  have r0 := SRun.refl (sinit 7 9)
  have r1 := SRun.step r0 (SStep.take0 _ rfl)
  have r2 := SRun.step r1 (SStep.take1 _ rfl)
  have r3 := SRun.step r2 (SStep.compute0 _ 7 rfl)
  have r4 := SRun.step r3 (SStep.compute1 _ 9 rfl)
  have r5 := SRun.step r4 (SStep.write0 _ 7 rfl)
  exact ⟨_, r5, ⟨9, 1⟩, by simp [sinit], by simp [sinit], by simp⟩

open Rws.Concurrent.Shared in
/-- the same counter-model run serially (write₀ before take₁) is correct: the defect needs overlap,
    which is why no single-request test can see it -/
example : ∃ s : SState, SRun (sinit 7 9) s ∧ s.out0 = [⟨7, 0⟩] ∧ s.out1 = [⟨9, 1⟩] := by
  have r0 := SRun.refl (sinit 7 9)
  have r1 := SRun.step r0 (SStep.take0 _ rfl)
  have r2 := SRun.step r1 (SStep.compute0 _ 7 rfl)
  have r3 := SRun.step r2 (SStep.write0 _ 7 rfl)
  have r4 := SRun.step r3 (SStep.take1 _ rfl)
  have r5 := SRun.step r4 (SStep.compute1 _ 9 rfl)
  have r6 := SRun.step r5 (SStep.write1 _ 9 rfl)
  exact ⟨_, r6, by simp [sinit], by simp [sinit]⟩

/-! ### The tie's syntactic half as a checked statement -/

/-- The shared-state inventory regenerated from the CURRENT source contains nothing beyond the
    expected start-up / thread-pool items (`Rws.Gen.sharedStateUnexpected` is computed by
    translator/gens/inventory.py on every run; this stops compiling when it is non-empty). -/
theorem C08_inventory_is_the_expected_one : Rws.Gen.sharedStateUnexpected = [] := rfl

end Rws.C08
