/-
  C13 — further theorems over the same definitions as RwsProofs/C13.lean: what the read-only
  tree buys for whole histories.  A history may be cut anywhere and served in pieces (the answers
  of the pieces are the answers of the whole), the answers of a history served in another order
  are the same answers in that order, and serving any history in between changes nothing about
  what a later connection receives.  Every statement is for every context, every history, both
  entry points (`Conn.useLegacy`), every tree.
-/
import RwsProofs.C13
namespace Rws.C13History
open Rws Rws.Server Rws.Static Rws.C13

/-- the answer to one connection served alone -/
def serveOne (ctx : Ctx) (c : Conn) : Outcome Outcome2 :=
  Server.process ctx c.app c.alloc c.read c.script c.flush

private theorem hist (ctx : Ctx) (h : List Conn) : (serveHistory ctx h).1 = h.map (serveOne ctx) :=
  C13_history_independent ctx h

/-- the tree after serving is the tree before, so the context is unchanged -/
theorem C13_ctx_unchanged (ctx : Ctx) (h : List Conn) :
    { ctx with tree := (serveHistory ctx h).2 } = ctx := by
  rw [C13_readonly]

/-- a history cut in two: the answers are the answers of the first part followed by those of the
    second part served on the SAME tree -/
theorem C13_history_append (ctx : Ctx) (h₁ h₂ : List Conn) :
    (serveHistory ctx (h₁ ++ h₂)).1 = (serveHistory ctx h₁).1 ++ (serveHistory ctx h₂).1 := by
  rw [hist, hist ctx h₁, hist ctx h₂,
    List.map_append]

/-- the number of answers is the number of connections: nothing is answered twice or skipped -/
theorem C13_one_answer_per_connection (ctx : Ctx) (h : List Conn) :
    (serveHistory ctx h).1.length = h.length := by
  rw [hist, List.length_map]

/-- what connection number `i` receives does not depend on anything served before or after it -/
theorem C13_answer_at (ctx : Ctx) (h : List Conn) (i : Nat) (hi : i < h.length) :
    (serveHistory ctx h).1[i]? = some (serveOne ctx h[i]) := by
  rw [hist]
  simp [hi]

/-- serving any history first changes neither the tree nor the answer a later connection gets -/
theorem C13_later_connection_unaffected (ctx : Ctx) (before : List Conn) (c : Conn) :
    (serveOne { ctx with tree := (serveHistory ctx before).2 } c) = serveOne ctx c := by
  rw [C13_ctx_unchanged]

/-- the same connections in another order: the same answers in that order -/
theorem C13_history_perm (ctx : Ctx) (h₁ h₂ : List Conn) (hp : h₁.Perm h₂) :
    (serveHistory ctx h₁).1.Perm (serveHistory ctx h₂).1 := by
  rw [hist, hist ctx h₂]
  exact hp.map _

/-- a repeated request is answered with the same bytes each time -/
theorem C13_repeat_same_answer (ctx : Ctx) (c : Conn) (n : Nat) :
    (serveHistory ctx (List.replicate n c)).1 = List.replicate n (serveOne ctx c) := by
  rw [hist, List.map_replicate]

/-! non-vacuity: a three-connection history over the example tree of C13 -/
private def exCtx : Ctx := ⟨⟨[([[114], [102]], .file [1, 2, 3])]⟩, [47, 114], Cors.envOf [], [], [], []⟩
private def exConn : Conn :=
  ⟨.real, 100, .data [80, 85, 84, 32, 47, 102, 32, 72, 84, 84, 80, 47, 49, 46, 49, 13, 10, 13, 10, 120], [], true⟩
example : (serveHistory exCtx [exConn, ⟨.fails, 100, .error, [.acc 1, .fail], false⟩, exConn]).1.length = 3 :=
  C13_one_answer_per_connection _ _

end Rws.C13History
