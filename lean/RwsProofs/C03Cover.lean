/-
  C03 — what a client can do with the parts the theorems of RwsProofs/C03.lean describe: the
  slice algebra of ranges.  A slice is a piece of the file (an infix); the whole range is the
  file; two adjacent ranges glue to the range that covers both, so a download resumed with
  `bytes=k-` after `bytes=0-(k-1)` reassembles the file exactly; a prefix range followed by the
  suffix range of the remaining length does too.  For every file and every offsets.
-/
import RwsProofs.C03
namespace Rws.C03Cover
open Rws Rws.RangeM Rws.C03

/-- a slice is a contiguous piece of the file -/
theorem C03_slice_infix (f : Bytes) (a b : Nat) : slice f a b <:+: f :=
  List.IsInfix.trans (List.take_prefix _ _).isInfix (List.drop_suffix _ _).isInfix

/-- the range `0-(L-1)` is the file -/
theorem C03_slice_whole (f : Bytes) : slice f 0 (f.length - 1) = f := by
  unfold slice
  cases f with
  | nil => rfl
  | cons x xs => simp

/-- two adjacent ranges `a-b` and `(b+1)-c` glue to `a-c` -/
theorem C03_slice_glue (f : Bytes) (a b c : Nat) (hab : a ≤ b) (hbc : b < c) :
    slice f a b ++ slice f (b + 1) c = slice f a c := by
  unfold slice
  have h1 : c + 1 - a = (b + 1 - a) + (c + 1 - (b + 1)) := by omega
  have h2 : f.drop (b + 1) = (f.drop a).drop (b + 1 - a) := by
    rw [List.drop_drop]; congr 1; omega
  rw [h1, h2, List.take_add]

/-- a download interrupted after `k` bytes and resumed with the open range `k-` gives the file -/
theorem C03_resume (f : Bytes) (k : Nat) (hk : 0 < k) (hkL : k < f.length) :
    slice f 0 (k - 1) ++ slice f k (f.length - 1) = f := by
  have := C03_slice_glue f 0 (k - 1) (f.length - 1) (Nat.zero_le _) (by omega)
  rw [show k - 1 + 1 = k by omega] at this
  rw [this, C03_slice_whole]

/-- through the handler: the two answers (closed range, then open range) carry bodies that
    concatenate to the file, for every file, content type, method other than OPTIONS -/
theorem C03_resume_served (f ct m : Bytes) (r0 : Reply) (k : Nat)
    (hf : FileOk f) (hk : 0 < k) (hkL : k < f.length) (hm : m ≠ OPTIONS) :
    ∃ p q, process f ct (some ([98, 121, 116, 101, 115, 61] ++ natToDec 0 ++ 45 :: natToDec (k - 1))) m r0
              = .ok ⟨206, [p]⟩ ∧
           process f ct (some ([98, 121, 116, 101, 115, 61] ++ natToDec k ++ [45])) m r0 = .ok ⟨206, [q]⟩ ∧
           p.body ++ q.body = f :=
  ⟨_, _, C03_closed f ct m r0 0 (k - 1) hf (Nat.zero_le _) (by omega) hm,
    C03_open f ct m r0 k hf hkL hm, C03_resume f k hk hkL⟩

/-- a prefix range and the suffix range of the remaining length also give the file -/
theorem C03_prefix_suffix (f : Bytes) (k : Nat) (hk : 0 < k) (hkL : k < f.length) :
    slice f 0 (k - 1) ++ slice f (f.length - (f.length - k)) (f.length - 1) = f := by
  rw [show f.length - (f.length - k) = k by omega]
  exact C03_resume f k hk hkL

/-- the length of an inside slice, and the lengths of adjacent slices add up -/
theorem C03_glue_length (f : Bytes) (a b c : Nat) (hab : a ≤ b) (hbc : b < c) (hc : c < f.length) :
    (slice f a b).length + (slice f (b + 1) c).length = c - a + 1 := by
  rw [C03_closed_length f a b hab (by omega), C03_closed_length f (b + 1) c (by omega) hc]; omega

example : slice C03.ten 0 3 ++ slice C03.ten 4 9 = C03.ten := by decide +kernel

end Rws.C03Cover
